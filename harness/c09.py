"""C09 — Query output renders the selected notes faithfully."""
from __future__ import annotations

import datetime as dt
import shutil
import sys
from pathlib import Path

import common as C
import pagegen as G
import zorgapi as Z

PROP = "C09"
MODULES = ["ZorgVerif.Props.C09"]
TODAY = (2024, 6, 15)
TYPE_LABEL = {None: "4 | NOTES", "BASIC": "4 | NOTES", "OPEN_TODO": "1 | OPEN TODOS", "CLOSED_TODO": "2 | DONE TODOS", "CANCELED_TODO": "3 | CANCELED TODOS",
              "BLOCKED_TODO": "1 | OPEN TODOS", "PARENT_TODO": "1 | OPEN TODOS"}
MARK = {1: "#" * 32, 2: "=" * 24, 3: "+" * 16, 4: "-" * 8}
GROUPS = ["@", "#", "%", "+", "file", "type", "priority", "section"]
ORDERS = ["alpha", "create", "modify", "priority", "type", "none"]
SELECTS = ["note", "note", "note", "file", "prop", "links", "#", "@", "%", "+", "prop:k", "prop:due", "prop:n"]


def section_path(note) -> str:
    from zorg.domain.models import H1, H2, H3, H4

    sec = note.block.section
    titles = []
    s = sec
    chain = []
    while s is not None:
        chain.append(s)
        s = getattr(s, "h3", None) if isinstance(s, H4) else getattr(s, "h2", None) if isinstance(s, H3) else getattr(s, "h1", None) if isinstance(s, H2) else None
    chain.reverse()  # H1 first
    out = ""
    for s in reversed(chain):
        if isinstance(s, H1):
            if s.title:
                out = s.title if out == "" else f"{s.title} | {out}"
        else:
            out = s.title if out == "" else f"{s.title} | {out}"
    return out


def written_notes(page):
    """(note, section label) for every note of a compiled page, from the page structure (compiled notes carry no back links)"""
    from zorg.domain.models import H1

    out = []

    def walk(sec, titles):
        t = titles + ([sec.title] if (sec.title or not isinstance(sec, H1)) else [])
        for b in sec.blocks:
            for n in b.notes:
                out.append((n, " | ".join(t)))
        for attr in ("h2s", "h3s", "h4s"):
            for c in getattr(sec, attr, []):
                walk(c, t)

    for h1 in ([page.h0] if page.h0 else []) + list(page.h1s):
        walk(h1, [])
    return out


def xnote(n, section=None) -> dict:
    st = n.todo_payload.status.name if n.todo_payload else None
    return {
        "text": n.to_string().rstrip(),
        "path": str(n.file_path),
        "line": n.line_no,
        "typeLabel": TYPE_LABEL[st],
        "priority": n.todo_payload.priority if n.todo_payload else "",
        "cdate": "%04d%02d%02d" % (n.create_date.year, n.create_date.month, n.create_date.day),
        "mdate": "%04d%02d%02d" % (n.modify_date.year, n.modify_date.month, n.modify_date.day),
        "areas": list(n.areas), "contexts": list(n.contexts), "people": list(n.people), "projects": list(n.projects), "links": list(n.links),
        "props": [[k, v] for k, v in n.properties.items()],
        "section": section_path(n) if section is None else section,
        "zid": n.zid,
    }


def copy_note_across(rng, files):
    """a note (with its ZID) copied to the end of another page: the same ZID on two pages is a legal index content"""
    import re

    if len(files) < 2 or rng.random() > 0.35:
        return files
    a, b = rng.sample(sorted(files), 2)
    al = files[a].split("\n")
    cands = [i for i, l in enumerate(al) if re.match(r"^[-ox~<>] (P\d )?(\d{6} )?\d{6}#\w\w ", l)]
    if not cands:
        return files
    out = dict(files)
    i = rng.choice(cands)
    single = i + 1 >= len(al) or not al[i + 1].startswith(" ")
    # (half of the copies of single-line notes are exact: two indexed notes with the same ZID and the same text are still two
    # notes; the first line of a multi-line note is always marked, so that no two different notes render alike)
    out[b] = files[b].rstrip("\n") + "\n\n" + al[i] + ("" if single and rng.random() < 0.5 else " (copied)") + "\n"
    return out


def group_key(g: str, x: dict) -> str:
    if g == "#":
        return " | ".join("#" + t for t in sorted(x["areas"]))
    if g == "@":
        return " | ".join("@" + t for t in sorted(x["contexts"]))
    if g == "%":
        return " | ".join("%" + t for t in sorted(x["people"]))
    if g == "+":
        return " | ".join("+" + t for t in sorted(x["projects"]))
    if g == "file":
        return "[[" + x["path"].replace(".zo", "") + "]]"
    if g == "type":
        return x["typeLabel"]
    if g == "priority":
        return x["priority"]
    return x["section"]


def spec_order_key(o: str, x: dict):
    """the specification's order (tuples; `none` = page path then *numeric* line number)"""
    if o == "alpha":
        return (x["text"] + "\n",)
    if o == "create":
        return (x["cdate"],)
    if o == "modify":
        return (x["mdate"],)
    if o == "priority":
        return (x["priority"],)
    if o == "type":
        return (x["typeLabel"],)
    return (x["path"], x["line"])


def select_values(sel: str, xs: list[dict], alpha: bool):
    def fin(vals):
        out = []
        for v in vals:
            if v not in out:
                out.append(v)
        return sorted(out) if alpha else out

    if sel == "note":
        return [x["text"] for x in xs]
    if sel == "file":
        return sorted({x["path"] for x in xs})
    if sel in "#@%+":
        key = {"#": "areas", "@": "contexts", "%": "people", "+": "projects"}[sel]
        return fin([t for x in xs for t in x[key]])
    if sel == "links":
        return fin([t for x in xs for t in x["links"]])
    if sel == "prop":
        return fin([k for x in xs for k, _ in x["props"]])
    k = sel.split(":", 1)[1]
    return fin([v for x in xs for kk, v in x["props"] if kk == k])


def spec_text(q, xs, none_as_string=False) -> str:
    """The output the statement prescribes, rendered with the (stable) layout conventions of the executor:
    one header line `MARKER label` per non-empty label, sibling labels sorted and distinct, notes of a group in
    ORDER BY order (tuples of keys; `none` = page path, then *numeric* line number), values joined by newlines."""
    sel, groups, orders, count = q["select"], q["groups"], q["orders"], q["count"]
    alpha = bool(orders) and set(orders) == {"alpha"}
    n = len(groups)

    def leaf(ns):
        def key(x):
            out = []
            for o in orders:
                k = spec_order_key(o, x)
                if o == "none" and none_as_string:
                    k = (k[0], str(k[1]))
                out.extend(k)
            return tuple(out)

        ns = sorted(ns, key=key)  # stable
        vals = select_values(sel, ns, alpha)
        return (str(len(vals)) if count else "\n".join(vals)) + "\n\n"

    def rec(ns, level):
        if level > n:
            return leaf(ns)
        g = groups[level - 1]
        by = {}
        for x in ns:
            by.setdefault(group_key(g, x), []).append(x)
        out = ""
        for label in sorted(by):
            if label:
                nl = "\n" if (n > 1 and level == 1) else ""
                out += f"{nl}{MARK[level]} {label}\n"
            out += rec(by[label], level + 1)
        return out

    return rec(xs, 1).strip()


def canon_values(q, text: str) -> str:
    """For value selections (tags, property keys / values, links, files) that are not ordered by alpha the statement fixes the SET of
    values of a group, not their order (it follows the storage order of a note's properties / tags): runs of value lines are sorted."""
    if q["select"] == "note" or q["count"] or (bool(q["orders"]) and set(q["orders"]) == {"alpha"}):
        return text
    out, run = [], []
    for line in text.split("\n"):
        if line == "" or line.startswith(tuple(MARK.values())):
            out += sorted(run)
            run = []
            out.append(line)
        else:
            run.append(line)
    out += sorted(run)
    return "\n".join(out)


def oracle(q, xs, text):
    want = spec_text(q, xs)
    if canon_values(q, text) == canon_values(q, want):
        return None
    a, b = text.split("\n"), want.split("\n")
    k = next((j for j in range(min(len(a), len(b))) if a[j] != b[j]), min(len(a), len(b)))
    kind = "same lines in a different order (ORDER BY / sibling order)" if sorted(a) == sorted(b) else "different content (notes lost/duplicated, labels or values differ)"
    return f"output differs from the prescribed rendering at line {k + 1}: {kind}; got {a[k:k+3]} want {b[k:k+3]}"


def gen_query(rng, rows):
    sel = rng.choice(SELECTS)
    count = rng.random() < 0.2
    groups = rng.sample(GROUPS, rng.choice([0, 0, 1, 1, 2, 3, 4]))
    if 1 <= len(groups) <= 3 and rng.random() < 0.15:
        # a dimension named twice is two header levels (the grammar allows it; one level per GROUP BY atom)
        groups.insert(rng.randrange(len(groups) + 1), rng.choice(groups))
    orders = [rng.choice(ORDERS) for _ in range(rng.choice([0, 1, 1, 2, 3, 4]))] if rng.random() < 0.8 else None
    # incl. top-level alternatives that overlap (a note satisfying two of them is still ONE matching note)
    where = rng.choice(["o | x | ~ | < | > | -", "o | -", "- | x", "o", "(o | x | -) #work | +zorg | @home", "!'zzzz'", "P0-5 | -",
                        "o | P0-9", "o | x | P1-3 | #work", "- | !'zzzz' | o", "#work | +zorg | @home | %bob | -"])
    txt = "S " + (f"count({sel})" if count else sel) + " W " + where
    if orders:
        txt += " O " + " ".join(orders)
    if groups:
        txt += " G " + " ".join(groups)
    return {"text": txt, "select": sel, "count": count, "groups": groups, "orders": orders if orders else ["type", "priority", "modify", "create"], "where": where}


DRIVER_OK = True
CORPUS_ITEMS = []
N_Q = 30


def one_index(ctx, res, rng, job):
    from freezegun import freeze_time
    from zorg.service import swog
    from zorg.service.compiler import build_zorg_query
    from zorg.storage.sql import SQLSession

    i = job - len(CORPUS_ITEMS)   # the pinned corpus runs first (negative i)
    n_q = N_Q
    cfg = Z.write_config(ctx.tmp / "cfg.yml")
    zdir = ctx.tmp / "z"
    if zdir.exists():
        shutil.rmtree(zdir)
    zdir.mkdir(parents=True)
    files = CORPUS_ITEMS[i + len(CORPUS_ITEMS)]["files"] if i < 0 else copy_note_across(rng, G.gen_dir(rng, npages=(2, 4), with_zid=0.7, date_prob=0.35))
    # pages with more than 9 / 99 lines so that line numbers have different digit counts
    G.write_dir(zdir, files)
    Z.clear_engine_cache()
    with freeze_time(dt.datetime(*TODAY, 12, 0)):
        rc, out, err = Z.zorg_main(zdir, "db", "create", config=cfg)
    if rc != 0:
        res.notes.append("db create failed on a generated directory")
        return None
    url = f"sqlite:///{zdir}/.zorg/zorg.db"
    queries = CORPUS_ITEMS[i + len(CORPUS_ITEMS)]["queries"] if i < 0 else [gen_query(rng, None) for _ in range(n_q)]
    reqs, metas = [], []
    # the notes as written in the files (compiled here, independently of the repo's row -> note resolution), by (page, line)
    from zorg.service.compiler import walk_zorg_page
    from zorg.storage.sql._query_converter import to_sql_select

    written = {}
    with freeze_time(dt.datetime(*TODAY, 12, 0)):
        for pth in sorted(zdir.rglob("*.zo")):
            if ".zorg" in pth.parts:
                continue
            rel = str(pth.relative_to(zdir))
            for n, label in written_notes(walk_zorg_page(zdir, pth)):
                x = xnote(n, label)
                x["path"] = rel
                written[(rel, n.line_no)] = x
    for q in queries:
        with freeze_time(dt.datetime(*TODAY, 12, 0)):
            try:
                with SQLSession(zdir, url) as session:
                    rows = session._session.exec(to_sql_select(build_zorg_query(q["text"]).where, session._session)).all()
                    keys = [(r.page_path, r.line_no) for r in rows]
                    row_dates = [(r.create_date.strftime("%Y%m%d"), r.modify_date.strftime("%Y%m%d")) for r in rows]
                if len(set(keys)) != len(keys):
                    dup = next(k for k in keys if keys.count(k) > 1)
                    res.failures.append(C.Failure(f"query {q['text']!r}: the note on {dup[0]} line {dup[1]} is returned {keys.count(dup)} times by the WHERE step: a matching note counts once",
                                                  {"files": files, "query": q, "kind": "duplicate_rows"}))
                    continue
                if any(k not in written for k in keys):
                    res.failures.append(C.Failure(f"query {q['text']!r}: the index returns rows {[k for k in keys if k not in written][:2]} that are no notes of the files", {"files": files, "query": q}))
                    continue
                # dates are taken from the index rows: for create dates outside 2000-2099 file and index differ (known finding of C05)
                xs = [{**written[k], "cdate": cd, "mdate": md} for k, (cd, md) in zip(keys, row_dates)]
                text = swog.execute(zdir, url, q["text"])
            except Exception as e:  # noqa
                res.failures.append(C.Failure(f"query {q['text']!r} raised {type(e).__name__}: {e}", {"files": files, "query": q}))
                continue
        res.evaluations += 1
        res.count(f"groups={len(q['groups'])}")
        res.count("select=" + ("count" if q["count"] else q["select"].split(":")[0]))
        if len(xs) > 1:
            res.nontrivial.add((i, q["text"]))
        msg = oracle(q, xs, text)
        if msg:
            res.failures.append(C.Failure(f"{q['text']!r}: {msg}", {"files": files, "query": q, "output": text[:3000],
                                                                      "matches_string_line_order": text == spec_text(q, xs, none_as_string=True)}))
        reqs.append({"op": "exec.run", "query": q["text"], "today": list(TODAY), "notes": xs})
        metas.append((q, text, files))
        if len(res.samples) < 3 and len(q["groups"]) >= 2 and len(xs) > 3:
            res.sample({"query": q["text"], "output_head": text[:400]})
    if DRIVER_OK and reqs:
        ms = C.model_batch(reqs)
        for (q, text, files), m in zip(metas, ms):
            if "err" in m:
                res.unsupported += 1
                continue
            if canon_values(q, m["text"]) != canon_values(q, text):
                a, b = m["text"], text
                k = next((j for j in range(min(len(a), len(b))) if a[j] != b[j]), min(len(a), len(b)))
                res.disagreements.append(C.Failure(f"{q['text']!r}: model output differs from swog.execute at char {k}: model {a[max(0,k-60):k+80]!r} impl {b[max(0,k-60):k+80]!r}", {"files": files, "query": q}, "correspondence"))
    return None


def body(ctx: C.Ctx, proof: C.ProofStatus) -> C.Result:
    global DRIVER_OK, CORPUS_ITEMS
    DRIVER_OK = proof.driver_ok
    cdir = C.CORPUS / PROP
    CORPUS_ITEMS = [C.json.loads(f.read_text()) for f in sorted(cdir.glob("*.json"))] if cdir.exists() else []
    res, _ = C.parallel_jobs(ctx, len(CORPUS_ITEMS) + ctx.scale(48, 480), one_index)
    return res


def classify(f: C.Failure, entry: dict) -> bool:
    case = f.case if isinstance(f.case, dict) else {}
    if entry.get("classifier") == "order_none_line_numbers_as_strings":
        q = case.get("query", {})
        # exactly this finding: the output is the prescribed one once line numbers are compared as strings
        return "none" in q.get("orders", []) and case.get("matches_string_line_order") is True
    return False


RULE = (
    "indexes built from generated directories; 30 queries per index over all select forms (+count), 0-4 grouping dimensions from 8 (15% with one dimension named twice), order lists "
    "of length 0-4 from 6; swog.execute text parsed back and checked against the statement (each note once, labels = keys, siblings sorted and "
    "distinct, spec order within groups with numeric line numbers, select/count equalities) and compared with the Lean model's rendering; "
    "non-trivial = (index, query) with more than one matching note"
)
ASSUME = ["the notes returned by the WHERE step are taken from the implementation (C03 covers them)", "Note.to_string is taken from the implementation (C12 covers it)"]

if __name__ == "__main__":
    sys.exit(C.run_check(PROP, MODULES, body, rule=RULE, assumptions=ASSUME, classify=classify))
