"""C05 — After `db create` index and files agree; files change only to gain ZIDs."""
from __future__ import annotations

import datetime as dt
import re
import shutil
import sys
from pathlib import Path

import common as C
import pagegen as G
import zocheck as ZC
import zorgapi as Z

PROP = "C05"
MODULES = ["ZorgVerif.Props.C05"]
TODAY = (2024, 6, 15)
CMP = ("zid", "kind", "priority", "body", "cdate", "mdate", "areas", "contexts", "people", "projects", "links", "props", "line", "section")


def gen_dir(rng, feats):
    """directories with a mix of items with and without ZIDs, long create dates, irregular spacing, multi-line items, sections, sub-directories"""
    files = G.gen_dir(rng, npages=(1, 5), with_zid=rng.choice([0.0, 0.3, 0.6, 1.0]), sections=True, date_prob=0.15, far_dates=False)
    out = {}
    for rel, text in files.items():
        lines = text.split("\n")
        for i, ln in enumerate(lines):
            m = re.match(r"^([-ox~<>])( P\d)? (?!\d{6}#|\d{6} )(.*)$", ln)
            if m and i > 1:
                r = rng.random()
                body = m.group(3)
                pre = m.group(1) + (m.group(2) or "") + " "
                if r < 0.15:
                    lines[i] = pre + "%04d-%02d-%02d " % (rng.randint(2019, 2030), rng.randint(1, 12), rng.randint(1, 28)) + body
                    feats.add("long_create_date")
                elif r < 0.22:
                    lines[i] = pre + " " * rng.randint(1, 3) + body
                    feats.add("irregular_spacing")
                elif r < 0.25 and i + 1 < len(lines) and lines[i + 1].startswith("  "):
                    # the create date is the only word of the first line of a multi-line item
                    lines[i] = pre + "%04d-%02d-%02d" % (rng.randint(2019, 2030), rng.randint(1, 12), rng.randint(1, 28))
                    feats.add("date_only_first_line")
                elif r < 0.27:
                    lines[i] = pre + rng.choice(["1234567890 is my phone", "2024x01y01 odd", "P5 is a priority word", "o x P1 words", "2024-13-45 not a date"]) + " " + body
                    feats.add("lookalike_first_word")
            # an existing ZID of the long form (three-character suffix, handed out after `zz`): it already is the note's ZID
            m3 = re.match(r"^([-ox~<>](?: P\d)? (?:\d{6} )?\d{6}#\w\w)( .*)$", ln)
            if m3 and i > 1 and rng.random() < 0.08:
                lines[i] = m3.group(1) + rng.choice("0AZaz9") + m3.group(2)
                feats.add("three_char_zid")
        out[rel] = "\n".join(lines)
    if rng.random() < 0.5:
        out = G.add_exotic_chars(rng, out)
        feats.add("exotic_line_chars")
    return out


def index_notes(zdir):
    """index dump keyed by page: notes in page order with the compared fields (section path from the SQL section rows)"""
    import sqlite3

    db = zdir / ".zorg" / "zorg.db"
    con = sqlite3.connect(f"file:{db}?mode=ro", uri=True)
    con.row_factory = sqlite3.Row
    sect = {}
    for b in con.execute("select * from block"):
        path = []
        if b["h4_id"]:
            h4 = con.execute("select * from h4 where id=?", (b["h4_id"],)).fetchone()
            h3 = con.execute("select * from h3 where id=?", (h4["h3_id"],)).fetchone()
            h2 = con.execute("select * from h2 where id=?", (h3["h2_id"],)).fetchone()
            h1 = con.execute("select * from h1 where id=?", (h2["h1_id"],)).fetchone()
            path = [h1["title"], h2["title"], h3["title"], h4["title"]]
        elif b["h3_id"]:
            h3 = con.execute("select * from h3 where id=?", (b["h3_id"],)).fetchone()
            h2 = con.execute("select * from h2 where id=?", (h3["h2_id"],)).fetchone()
            h1 = con.execute("select * from h1 where id=?", (h2["h1_id"],)).fetchone()
            path = [h1["title"], h2["title"], h3["title"]]
        elif b["h2_id"]:
            h2 = con.execute("select * from h2 where id=?", (b["h2_id"],)).fetchone()
            h1 = con.execute("select * from h1 where id=?", (h2["h1_id"],)).fetchone()
            path = [h1["title"], h2["title"]]
        elif b["h1_id"]:
            h1 = con.execute("select * from h1 where id=?", (b["h1_id"],)).fetchone()
            path = [h1["title"]]
        # the pseudo section h0 has an empty title
        sect[b["id"]] = [t for j, t in enumerate(path) if not (j == 0 and t == "")]
    con.close()
    out = {}
    for r in G.dump_index(zdir):
        r = dict(r)
        r["section"] = sect.get(r["block_id"], [])
        r["priority"] = f"P{r['priority']}" if r["priority"] is not None else None
        out.setdefault(r["path"], []).append(r)
    for v in out.values():
        v.sort(key=lambda r: r["line"])
    return out


def check_dir(ctx, res, zdir, cfg, files, feats):
    from freezegun import freeze_time

    case = {"files": files, "feats": sorted(feats)}
    if zdir.exists():
        shutil.rmtree(zdir)
    zdir.mkdir(parents=True)
    G.write_dir(zdir, files)
    for f in feats:
        if f.startswith("symlink:"):
            # a page that is also reachable under a second name (a symbolic link inside the notes directory): two pages with
            # the same text, each gets its own ZIDs in its own file
            link, target = f[len("symlink:"):].split("->")
            (zdir / link).unlink()
            (zdir / link).symlink_to(zdir / target)
    Z.clear_engine_cache()
    with freeze_time(dt.datetime(*TODAY, 12, 0)):
        rc, _, err = Z.zorg_main(zdir, "db", "create", config=cfg)
    res.evaluations += 1
    if rc != 0:
        res.failures.append(C.Failure(f"db create failed on a directory of error-free pages (rc={rc})", {**case, "kind": "create_failed"}))
        return
    after = {rel: (zdir / rel).read_text() for rel in files}
    idx = index_notes(zdir)
    # (regular pages are examined before link names, so that damage to a regular file is what gets reported)
    link_names = {f[len("symlink:"):].split("->")[0] for f in feats if f.startswith("symlink:")}
    files = {rel: files[rel] for rel in sorted(files, key=lambda r: (r in link_names, r))}
    # (i)+(ii): recompile the rewritten files and compare with the index
    for rel in files:
        comp = ZC.impl_compile(ctx.tmp / "rc", "p.zo", after[rel], TODAY)
        if "exc" in comp or comp["errors"]:
            res.failures.append(C.Failure(f"{rel}: the rewritten file does not compile cleanly: {comp.get('exc') or comp['errors']}", {**case, "kind": "rewritten_invalid", "page": rel}))
            return
        notes = comp["notes"]
        inotes = idx.get(rel, [])
        for n in notes:
            if not n["zid"]:
                res.failures.append(C.Failure(f"{rel} line {n['line']}: after db create the note has no ZID in the file: {n['body'][:60]!r}", {**case, "kind": "no_zid", "page": rel, "line": n["line"], "file_line": after[rel].split(chr(10))[n['line'] - 1]}))
                return
        if len(notes) != len(inotes):
            res.failures.append(C.Failure(f"{rel}: {len(notes)} notes in the file, {len(inotes)} in the index", {**case, "kind": "count", "page": rel}))
            return
        for a, b in zip(notes, inotes):
            for k in CMP:
                if a[k] != b[k]:
                    res.failures.append(C.Failure(f"{rel} line {a['line']}: index and recompiled file differ in {k}: file {a[k]!r} index {b[k]!r}",
                                                  {**case, "kind": "disagree", "field": k, "page": rel, "line": a["line"], "orig_line": files[rel].split(chr(10))[a['line'] - 1], "file_line": after[rel].split(chr(10))[a['line'] - 1]}))
                    return
    # (iii): minimal diff
    for rel in files:
        old, new = files[rel].split("\n"), after[rel].split("\n")
        if len(old) != len(new):
            res.failures.append(C.Failure(f"{rel}: number of lines changed", {**case, "kind": "diff_lines", "page": rel}))
            return
        for i, (o, n) in enumerate(zip(old, new)):
            if o == n:
                continue
            m = re.match(r"^(- |[ox~<>] (?:P\d )?)(.*)$", o)  # a plain note has no priority: `- P5 x` starts its body with P5
            ok = False
            if m:
                pre, rest = m.group(1), m.group(2)
                rest2 = re.sub(r"^\d{4}-\d{2}-\d{2}( |$)", "", rest)  # the create date may be the only word of the line
                mm = re.match(r"^" + re.escape(pre) + r"(\d{6}#[0-9A-Za-z]{2,3}) (.*)$", n)
                ok = bool(mm) and mm.group(2) in (rest, rest2, rest.lstrip(' '), rest2.lstrip(' '), re.sub(r'^\d{4}-\d{2}-\d{2}( |$)', '', rest.lstrip(' ')))
            if not ok:
                res.failures.append(C.Failure(f"{rel} line {i + 1}: changed other than by inserting a ZID after the prefix: {o!r} -> {n!r}", {**case, "kind": "diff", "page": rel, "line": i + 1, "old": o, "new": n}))
                return
            res.count("zid_inserted")
            res.line_pairs.append((o, n, mm.group(1), rel))
    # (iv): idempotence
    dump1 = G.dump_index(zdir)
    for cmd in (("db", "create"), ("db", "reindex")):
        Z.clear_engine_cache()
        with freeze_time(dt.datetime(TODAY[0], TODAY[1], TODAY[2] + 1, 12, 0)):
            rc, _, _ = Z.zorg_main(zdir, *cmd, config=cfg)
        again = {rel: (zdir / rel).read_text() for rel in files}
        dump2 = G.dump_index(zdir)
        strip = lambda d: sorted((r["path"], r["line"], r["zid"], r["body"], r["kind"], str(r["priority"]), str(r["cdate"]), str(r["mdate"]), str(r["props"]), str(r["links"]), str(r["areas"])) for r in d)
        if rc != 0 or again != after or strip(dump2) != strip(dump1):
            what = "files" if again != after else "index"
            res.failures.append(C.Failure(f"running `{' '.join(cmd)}` again changed the {what} (rc={rc})", {**case, "kind": "not_idempotent", "cmd": cmd[1]}))
            return
    res.nontrivial.add(tuple(sorted(files.items())))


def body(ctx: C.Ctx, proof: C.ProofStatus) -> C.Result:
    res = C.Result()
    res.line_pairs = []
    rng = ctx.rng
    cfg = Z.write_config(ctx.tmp / "cfg.yml")
    zdir = ctx.tmp / "z"
    n = ctx.scale(80, 1200)
    # pinned witnesses of the known findings (the main stream steers around them)
    check_dir(ctx, res, zdir, cfg, {"w1.zo": "# T 2150-03-01\n\n- note without zid under a far date\n"}, {"kf_century"})
    check_dir(ctx, res, zdir, cfg, {"w2.zo": "# T\n\n- 240101 text after a date word\no P1 240102 another one\n"}, {"kf_mdate_word"})
    # a bulk import: many ZID-less notes of one date on one page, so that the allocation runs far into the suffix alphabet
    # (thorough: past the two-character space) and every handed-out ZID has to be read back as the note's ZID
    nb = ctx.scale(140, 2650)
    bulk = "# Bulk 2024-03-05\n\n" + "".join(f"- imported note {i} @old\n" + ("  more text\n" if i % 7 == 0 else "") for i in range(nb))
    check_dir(ctx, res, zdir, cfg, {"imp/bulk.zo": bulk, "other.zo": "# Other 2024-03-05\n\no same day on another page\n"}, {"bulk_same_date"})
    res.count("bulk_same_date_notes", nb)

    def one(sub, r, rng2, i):
        r.line_pairs = []
        feats = set()
        files = gen_dir(rng2, feats)
        for f in feats:
            r.count(f)
        if i % 5 == 2:
            tgt = sorted(files)[-1]
            files = {**files, "aaa_link.zo": files[tgt]}
            feats.add(f"symlink:aaa_link.zo->{tgt}")
            r.count("symlinked_page")
        # every third notes directory lives below a dot-directory (~/.local/share/notes is an ordinary place for one)
        zd = sub.tmp / ".local" / "share" / "z" if i % 3 == 1 else sub.tmp / "z"
        if i % 3 == 1:
            feats.add("zdir_below_dot_directory")
            r.count("zdir_below_dot_directory")
        check_dir(sub, r, zd, Z.write_config(sub.tmp / "cfg.yml"), files, feats)
        if i < 2:
            r.sample({"files": {k: v[:300] for k, v in files.items()}})
        return r.line_pairs

    pres, rets = C.parallel_jobs(ctx, n, one)
    res.merge(pres)
    for lp in rets:
        res.line_pairs += lp or []
    # write-back correspondence: every rewritten first line vs NoteText.addZidToLine on the old line
    if proof.driver_ok and res.line_pairs:
        ms = C.model_batch([{"op": "nt.addZid", "zid": z, "line": o} for o, n, z, rel in res.line_pairs])
        for (o, n, z, rel), m in zip(res.line_pairs, ms):
            res.evaluations += 1
            if m.get("ok") != n:
                res.disagreements.append(C.Failure(f"{rel}: NoteText.addZidToLine({z!r}, {o!r}) = {m!r}, the file has {n!r}", {"old": o, "new": n, "zid": z}, "correspondence"))
                break
    return res


def classify(f: C.Failure, entry: dict) -> bool:
    case = f.case if isinstance(f.case, dict) else {}
    c = entry.get("classifier")
    if c == "create_date_century_lost":
        m = re.search(r"differ in cdate: file \[(\d+), (\d+), (\d+)\] index \[(\d+), (\d+), (\d+)\]", f.what)
        if not (m and case.get("kind") == "disagree"):
            return False
        fy, fm, fd, iy, im, idd = map(int, m.groups())
        return (fm, fd) == (im, idd) and fy != iy and (iy - fy) % 100 == 0 and not (2000 <= iy <= 2099) and 2000 <= fy <= 2099
    if c == "page_symlinked_inside_zdir":
        links = {x[len("symlink:"):].split("->")[0] for x in case.get("feats", []) if x.startswith("symlink:")}
        return bool(links) and case.get("page") in links
    if c == "mdate_word_without_zid":
        o = case.get("orig_line") or ""
        return case.get("kind") == "disagree" and case.get("field") == "mdate" and re.match(r"^[-ox~<>] (P\d )?\d{6} ", o) is not None and not re.match(r"^[-ox~<>] (P\d )?\d{6} \d{6}#", o)
    return False


RULE = (
    "directories of 1-5 generated error-free pages (sub-directories, items with and without ZIDs, long create dates, irregular spacing after the "
    "prefix, look-alike first words, multi-line items, sections) (every third notes directory below a dot-directory, every fifth with a page that is also reachable through a symbolic link inside the directory) and one bulk page with 140 (thorough: 2650, past the two-character suffixes) ZID-less notes of one date; after `db create`: every note has a ZID in the file, recompiled files == raw index "
    "rows on every compared field, diff confined to ZID insertion after the prefix, second create and reindex change nothing; non-trivial = directory"
)
ASSUME = ["file system atomic", "index read back from raw SQLite rows"]

if __name__ == "__main__":
    sys.exit(C.run_check(PROP, MODULES, body, rule=RULE, assumptions=ASSUME, classify=classify))
