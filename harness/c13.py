"""C13 — Re-running an interrupted index operation converges."""
from __future__ import annotations

import datetime as dt
import random
import shutil
import sys
import tempfile
from pathlib import Path

import common as C
import faults as F
import history as H
import pagegen as G
import zorgapi as Z

PROP = "C13"
MODULES = ["ZorgVerif.Props.C13"]
DAY0 = dt.datetime(2024, 6, 10, 12, 0)
DAY1 = dt.datetime(2024, 6, 12, 12, 0)


def zo_files(zdir: Path):
    return {str(p.relative_to(zdir)): p.read_text() for p in sorted(zdir.rglob("*.zo")) if ".zorg" not in p.parts}


def edit_dir(rng, zdir: Path, only_delete: bool = False):
    """edits between two index runs: changed bodies of indexed notes, new notes without ZID, a new page, a deleted page"""
    log = []
    files = zo_files(zdir)
    names = sorted(files)
    if only_delete and len(names) > 1:
        # the only pending change is a page that went away: the run has no page to compile, only the index and the hash map to update
        victim = rng.choice(names)
        (zdir / victim).unlink()
        return [f"delete page {victim} (nothing else)"]
    n = 0
    for rel in names:
        lines = files[rel].split("\n")
        spans = H.item_spans(lines)
        if not spans:
            continue
        # per page: changes that need a write-back (stamps, new ZIDs), changes that need none (title, deleted item), both, or nothing
        mode = rng.choice(["writeback", "writeback", "plain", "both", "none"])
        if mode in ("writeback", "both"):
            for _ in range(rng.randint(0, 2)):
                s, e = rng.choice(spans)
                n += 1
                lines[s] = lines[s] + f" edited{n}"
                log.append(f"edit {rel}:{s + 1}")
            if rng.random() < 0.6:
                s, e = rng.choice(spans)
                n += 1
                lines.insert(e, rng.choice(["- ", "o ", "x P2 "]) + f"fresh note {n}")
                log.append(f"new note {rel}:{e + 1}")
        if mode in ("plain", "both"):
            if rng.random() < 0.6 or len(spans) < 2:
                lines[0] = lines[0] + " retitled"
                log.append(f"title {rel}")
            else:
                spans2 = H.item_spans(lines)
                s, e = rng.choice(spans2)
                del lines[s:e]
                log.append(f"delete item {rel}:{s + 1}")
        (zdir / rel).write_text("\n".join(lines))
    if rng.random() < 0.5:
        (zdir / "added.zo").write_text("# Added page\n\n- first note there\no P1 a todo there\n")
        log.append("add page added.zo")
    if len(names) > 2 and rng.random() < 0.4:
        victim = rng.choice(names)
        (zdir / victim).unlink()
        log.append(f"delete page {victim}")
    return log


def assess(work: Path, cfg: Path, now, cmd, x: Path, ref_files: dict, label: str, full: bool = True):
    """x: directory after crash + rerun.  returns list of (kind, message)"""
    bad = []
    files = zo_files(x)
    # user text
    ut, rt = {k: F.user_text(v) for k, v in files.items()}, {k: F.user_text(v) for k, v in ref_files.items()}
    if ut != rt:
        k = next((k for k in sorted(set(ut) | set(rt)) if ut.get(k) != rt.get(k)), None)
        bad.append(("user_text", f"user text of {k} differs from the uninterrupted run: {ut.get(k)!r} vs {rt.get(k)!r}"))
    else:
        # "exactly as after an uninterrupted run": also the modify-date stamps (ZID values aside: a killed run burns counters)
        st, rs = {k: F.stamped_text(v) for k, v in files.items()}, {k: F.stamped_text(v) for k, v in ref_files.items()}
        if st != rs:
            k = next(k for k in sorted(st) if st.get(k) != rs.get(k))
            a, b = st[k].split("\n"), rs[k].split("\n")
            j = next((i for i in range(min(len(a), len(b))) if a[i] != b[i]), 0)
            bad.append(("stamp", f"modify dates of {k} differ from the uninterrupted run: line {j + 1} is {a[j]!r}, uninterrupted {b[j]!r}"))
    # unique ZIDs
    zs = [z for v in files.values() for z in F.identity_zids(v)]
    dup = sorted({z for z in zs if zs.count(z) > 1})
    if dup:
        bad.append(("dup_zid", f"ZID {dup[0]} is carried by two notes"))
    idx = H.canon_dump(x)
    izs = [r[2] for r in idx if r[2]]
    if len(izs) != len(set(izs)):
        bad.append(("dup_zid", "index holds one ZID twice"))
    # agreement: a from-scratch index of a copy of the files
    fresh = work / "fresh"
    if fresh.exists():
        shutil.rmtree(fresh)
    fresh.mkdir()
    G.write_dir(fresh, files)
    rc, _ = F.run_cmd(fresh, cfg, now, "db", "create")
    if rc != 0:
        bad.append(("agree", f"db create on a copy of the files fails ({rc})"))
    else:
        if zo_files(fresh) != files:
            k = next(k for k in sorted(files) if zo_files(fresh).get(k) != files[k])
            bad.append(("agree", f"files are not final: a from-scratch index would still rewrite {k} (notes without the ZID the index holds for them)"))
        elif H.canon_dump(fresh) != idx:
            fr = H.canon_dump(fresh)
            extra = [r for r in idx if r not in fr][:1]
            missing = [r for r in fr if r not in idx][:1]
            bad.append(("agree", f"index differs from the from-scratch index of the files: only in index {extra}, only in fresh {missing}"))
    # the hash map describes the files (so that a further reindex has nothing to do) ...
    import hashlib
    import json as _json

    hp = x / ".zorg" / "file_hash.json"
    try:
        hm = _json.loads(hp.read_text())
    except Exception as e:  # noqa: BLE001
        hm = None
        bad.append(("hash_map", f"file_hash.json unreadable after the rerun: {type(e).__name__}"))
    if hm is not None:
        want = {k: hashlib.sha256(v.encode()).hexdigest() for k, v in files.items()}
        if hm != want:
            k = next(k for k in sorted(set(hm) | set(want)) if hm.get(k) != want.get(k))
            bad.append(("hash_map", f"hash map entry of {k} does not describe the file after the rerun"))
    if not full:
        return bad
    # ... and it really has nothing to do
    before = (zo_files(x), idx)
    rc, _ = F.run_cmd(x, cfg, now, "db", "reindex")
    if rc != 0:
        bad.append(("quiesce", f"a further reindex fails ({rc})"))
    elif (zo_files(x), H.canon_dump(x)) != before:
        bad.append(("quiesce", "a further reindex still changes files or index"))
    return bad


def scenario(args):
    """one directory: create with every crash point, then edits + reindex with every crash point.
    A job handles the crash points k with k % nchunks == chunk of one phase (the directory is regenerated from the seed)."""
    seed, tier, torn_fracs, max_points, only_phase, chunk, nchunks, full = args
    rng = random.Random(seed)
    work = Path(tempfile.mkdtemp(prefix="zv-C13w-"))
    out = {"seed": seed, "points": 0, "fail": [], "traces": {}, "hist": {}}
    try:
        cfg = Z.write_config(work / "cfg.yml")
        base = work / "base"
        base.mkdir()
        G.write_dir(base, G.gen_dir(rng, npages=(2, 3), with_zid=0.5, sections=rng.random() < 0.3, date_prob=0.1, far_dates=False))
        for phase in ("create", "reindex"):
            if phase == "create":
                cmd, now, start = ("db", "create"), DAY0, base
            else:
                # state after an uninterrupted create, then edits on a later day
                start = work / "start2"
                F.copy_dir(work / "ref", start)
                out["edits"] = edit_dir(rng, start, only_delete=str(seed).endswith("-1"))
                cmd, now = ("db", "reindex"), DAY1
            ref = work / "ref"
            F.copy_dir(start, ref)
            start_store = F.store_of(start)
            rc, trace, payload = F.run_cmd(ref, cfg, now, *cmd, want_payload=True)
            if rc != 0:
                out["fail"].append({"kind": "ref_failed", "what": f"uninterrupted {phase} fails ({rc})", "phase": phase})
                break
            if chunk == 0 and (only_phase is None or only_phase == phase):
                out["traces"][phase] = trace
                real_abs = F.abstract_trace(trace, payload)
                final_store = F.store_of(ref)
                out.setdefault("corr", []).append({"phase": phase, "real": real_abs, "final": final_store,
                                                   "req": F.model_request("crash." + phase, start_store, final_store[0], real_abs),
                                                   "seed": seed, "edits": out.get("edits"), "start_files": zo_files(start)})
            ref_files = zo_files(ref)
            if only_phase is not None and phase != only_phase:
                continue
            points = [(k, None) for k in range(len(trace))]
            for fr in torn_fracs:
                points += [(k, fr) for k, (kind, _) in enumerate(trace) if kind == "write"]
            # a write that goes straight to a page or bookkeeping file (not to a temporary file) can be torn: always tried
            points += [(k, fr) for fr in (0.0, 0.5) if fr not in torn_fracs for k, (kind, tgt) in enumerate(trace) if kind == "write" and not tgt.endswith(".tmp")]
            if max_points and len(points) > max_points:
                points = random.Random(f"{seed}-{phase}").sample(points, max_points)
            points = [p for i, p in enumerate(sorted(points, key=lambda p: (p[0], p[1] or -1))) if i % nchunks == chunk]
            for k, torn in sorted(points, key=lambda p: (p[0], p[1] or -1)):
                x = work / "x"
                F.copy_dir(start, x)
                rc1, tr1 = F.run_cmd(x, cfg, now, *cmd, kill_at=k, torn=torn)
                out["points"] += 1
                label = f"{phase} killed before effect {k} {trace[k]}" + (f" torn {torn}" if torn is not None else "")
                out["hist"][f"{phase}:{trace[k][0]}" + (":torn" if torn is not None else "")] = out["hist"].get(f"{phase}:{trace[k][0]}" + (":torn" if torn is not None else ""), 0) + 1
                if rc1 != "killed":
                    out["fail"].append({"kind": "harness", "what": f"{label}: kill not reached ({rc1}); trace {tr1}", "phase": phase, "k": k, "torn": torn})
                    continue
                rc2, _ = F.run_cmd(x, cfg, now, *cmd)
                # is the kill inside the removal of a page (after one of the commits inside remove_file_by_name, before the page's own commit)?
                in_removal = False
                for (kind_i, _t), pl in list(zip(trace, payload))[:k]:
                    if kind_i == "commit":
                        in_removal = not pl
                case = {"phase": phase, "k": k, "torn": torn, "effect": list(trace[k]), "trace": [list(t) for t in trace], "edits": out.get("edits"),
                        "start_files": zo_files(start), "seed": seed, "in_removal_window": in_removal}
                if rc2 != 0:
                    out["fail"].append({**case, "kind": "rerun_failed", "what": f"{label}: the rerun fails ({rc2})"})
                    continue
                for kind, msg in assess(work, cfg, now, cmd, x, ref_files, label, full):
                    out["fail"].append({**case, "kind": kind, "what": f"{label}: {msg}"})
    finally:
        shutil.rmtree(work, ignore_errors=True)
    return out


def body(ctx: C.Ctx, proof: C.ProofStatus) -> C.Result:
    import multiprocessing as mp

    res = C.Result()
    ndirs = ctx.scale(6, 24)
    torn = [] if ctx.tier == "quick" else [0.0, 0.5]
    full = ctx.tier != "quick"
    nchunks = 3
    jobs = [(f"{ctx.seed}-{i}", ctx.tier, torn, 0, ph, ch, nchunks, full) for i in range(ndirs) for ph in ("create", "reindex") for ch in range(nchunks)]
    corr = []
    with mp.get_context("fork").Pool(14) as pool:
        for out in pool.imap_unordered(scenario, jobs):
            res.evaluations += out["points"]
            for k, v in out["hist"].items():
                res.count(k, v)
            for ph, tr in out["traces"].items():
                res.nontrivial.add((out["seed"], ph, len(tr)))
                if len(res.samples) < 2:
                    res.sample({"phase": ph, "effects": [list(t) for t in tr][:14]})
            for f in out["fail"]:
                res.failures.append(C.Failure(f["what"], f))
            corr += out.get("corr", [])
    # trace correspondence: the effect order of the uninterrupted real runs vs Model/Crash.lean
    if proof.driver_ok and corr:
        for cjob, m in zip(corr, C.model_batch([cj["req"] for cj in corr])):
            res.evaluations += 1
            case = {k: cjob[k] for k in ("phase", "seed", "edits", "start_files", "real")}
            if "effects" not in m:
                res.disagreements.append(C.Failure(f"Crash model gives no effect list: {str(m)[:200]}", case, "correspondence"))
                continue
            mod = F.model_abstract(m)
            res.count(f"trace:{cjob['phase']}:len={min(len(mod), 12)}")
            if mod != cjob["real"]:
                i = next((i for i, (a, b) in enumerate(zip(mod, cjob["real"])) if a != b), min(len(mod), len(cjob["real"])))
                res.disagreements.append(C.Failure(
                    f"{cjob['phase']}: effect {i} of the real run is {str(cjob['real'][i:i + 1])[:200]} but the model's is {str(mod[i:i + 1])[:200]} "
                    f"(real {len(cjob['real'])} effects, model {len(mod)})", {**case, "model": mod}, "correspondence"))
                continue
            files, hashes, db = cjob["final"]
            fin_ok = dict(map(tuple, m["files"])) == files and dict(map(tuple, m["hashes"])) == hashes and sorted(x[0] for x in m["db"]) == sorted(db)
            if not fin_ok:
                res.disagreements.append(C.Failure(f"{cjob['phase']}: final store of the real run differs from the model's", {**case, "model_final": m}, "correspondence"))
    return res


def classify(f: C.Failure, entry: dict) -> bool:
    case = f.case if isinstance(f.case, dict) else {}
    if entry.get("classifier") == "stamp_lost_when_killed_inside_page_removal":
        # exactly this finding: only modify dates differ, and the kill fell between a commit inside remove_file_by_name and the page's own commit
        return case.get("kind") == "stamp" and case.get("phase") == "reindex" and case.get("in_removal_window") is True
    return False


RULE = (
    "generated directories (2-3 pages, half of the notes without ZID, some sections); phase 1: `db create`, phase 2: after an uninterrupted create, edits on a "
    "later day (changed bodies of indexed notes, new notes, retitled pages and deleted items = changes without write-back, a new page, a deleted page; in one directory per run a deleted page and nothing else) then `db reindex`.  For EVERY boundary between two external effects "
    "of the uninterrupted run (temporary-file write, atomic rename of a page / file_hash.json / next_ids.json / whitelist, database commit incl. the commits "
    "inside remove_file_by_name, unlink): kill there (BaseException before the effect; rollback as on a real kill), run the same command again, then check: "
    "rerun exits 0; user text AND modify-date stamps of every page equal the uninterrupted run's (ZID values aside); identity ZIDs unique in files and index; index == from-scratch index of a copy "
    "of the files and that create rewrites nothing; hash map describes the files (thorough: a further reindex changes nothing).  Direct (non-temporary) "
    "file writes are also torn (prefix 0 / half); thorough tears every write.  Plus trace correspondence: the effect order and hash-map payloads of every "
    "uninterrupted run equal Model/Crash.lean's effect list for the abstracted store"
)
ASSUME = ["effects are atomic and ordered (fsync / journal recovery below the model); torn file writes only in the thorough tier"]

if __name__ == "__main__":
    sys.exit(C.run_check(PROP, MODULES, body, rule=RULE, assumptions=ASSUME, classify=classify))
