"""Shared machinery of the zorg verification checks (see DESIGN.md §2).

Verdict protocol:
  1. regenerate Gen/*.lean from /repo, `lake build` the property's Props module + driver,
     audit axioms / forbidden tokens;
  2. correspondence (model vs. implementation) and the direct oracle on the implementation,
     over corpus + generated cases;
  3. if (1) or the correspondence broke and no failing input for the *property* is found,
     the violation is still reported, with `no-failing-input-found`.
"""
from __future__ import annotations

import fcntl
import json as json
import json
import os
import random
import re
import shutil
import subprocess
import sys
import tempfile
import time
from dataclasses import dataclass, field
from pathlib import Path
from typing import Any, Callable, Iterable, Optional

VERIF = Path(__file__).resolve().parent.parent
LEAN = VERIF / "lean"
REPO = Path(os.environ.get("ZORG_REPO", "/repo"))
EVIDENCE = VERIF / "evidence"
REPLAYS = VERIF / "replays"
CORPUS = VERIF / "corpus"
KNOWN_FINDINGS = VERIF / "known_findings.json"

ALLOWED_AXIOMS = {"propext", "Classical.choice", "Quot.sound"}
FORBIDDEN = re.compile(
    r"\b(sorry|admit|native_decide|bv_decide|implemented_by|unsafe)\b|^\s*axiom\s|maxHeartbeats\s+0"
)


def strip_lean_comments(src: str) -> str:
    """Remove /- -/ (nested) and -- comments, keeping line structure."""
    out = []
    i, depth, n = 0, 0, len(src)
    in_str = False
    while i < n:
        if depth == 0 and not in_str and src.startswith("--", i):
            while i < n and src[i] != "\n":
                i += 1
            continue
        if not in_str and src.startswith("/-", i):
            depth += 1
            i += 2
            continue
        if depth > 0 and src.startswith("-/", i):
            depth -= 1
            i += 2
            continue
        ch = src[i]
        if depth == 0:
            if ch == '"' and (i == 0 or src[i - 1] != "\\"):
                in_str = not in_str
            out.append(ch)
        elif ch == "\n":
            out.append(ch)
        i += 1
    return "".join(out)


@dataclass
class ProofStatus:
    ok: bool
    obligations: int = 0
    discharged: int = 0
    theorems: list[str] = field(default_factory=list)
    axioms: dict[str, list[str]] = field(default_factory=dict)
    failed: list[str] = field(default_factory=list)  # theorem names / messages that no longer check
    log: str = ""
    modules: list[str] = field(default_factory=list)
    translate: str = ""
    driver_ok: bool = True
    leanchecker: str = "not run (thorough tier only)"


def _run(cmd, cwd=None, timeout=3600, env=None) -> subprocess.CompletedProcess:
    return subprocess.run(
        cmd, cwd=cwd, stdout=subprocess.PIPE, stderr=subprocess.STDOUT, text=True, timeout=timeout, env=env
    )


class BuildLock:
    def __enter__(self):
        (LEAN / ".lake").mkdir(exist_ok=True)
        self.f = open(LEAN / ".lake" / "verif-build.lock", "w")
        fcntl.flock(self.f, fcntl.LOCK_EX)
        return self

    def __exit__(self, *a):
        fcntl.flock(self.f, fcntl.LOCK_UN)
        self.f.close()


def translate() -> str:
    env = dict(os.environ)
    p = _run(["/venv/bin/python", str(VERIF / "harness" / "translate.py")], cwd=VERIF, env=env)
    return p.stdout.strip()


def import_closure(mod: str) -> list[Path]:
    """Lean files under lean/ZorgVerif reachable from module `mod`."""
    seen: dict[str, Path] = {}

    def visit(m: str):
        if m in seen or not m.startswith("ZorgVerif"):
            return
        path = LEAN / (m.replace(".", "/") + ".lean")
        if not path.exists():
            return
        seen[m] = path
        for line in path.read_text().splitlines():
            mm = re.match(r"\s*import\s+(\S+)", line)
            if mm:
                visit(mm.group(1))

    visit(mod)
    return list(seen.values())


DECL_RE = re.compile(r"^\s*(?:private\s+|protected\s+)?(theorem|lemma|example)\b\s*([^\s:({\[]*)", re.M)
NS_RE = re.compile(r"^\s*namespace\s+(\S+)", re.M)


def prove(prop: str, modules: list[str], tier: str = "quick") -> ProofStatus:
    """Regenerate Gen, build the Props modules for `prop` and the driver, audit (thorough: also leanchecker)."""
    st = ProofStatus(ok=False, modules=modules)
    with BuildLock():
        st.translate = translate()
        if "Traceback" in st.translate or "Error" in st.translate:
            st.failed.append("translator: " + st.translate.splitlines()[-1])
            st.log = st.translate
        targets = modules + ["driver"]
        p = _run(["lake", "build"] + targets, cwd=LEAN)
        st.log += p.stdout
        build_ok = p.returncode == 0
        files: list[Path] = []
        for m in modules:
            for f in import_closure(m):
                if f not in files:
                    files.append(f)
        # obligations = theorems + examples in the import closure
        names: list[str] = []
        prop_theorems: list[str] = []
        bad_tokens: list[str] = []
        for f in files:
            src = strip_lean_comments(f.read_text())
            ns = NS_RE.search(src)
            nsname = ns.group(1) if ns else ""
            for kind, name in DECL_RE.findall(src):
                full = (nsname + "." + name) if name and nsname else (name or f"example@{f.name}")
                names.append(full)
                if kind == "theorem" and name.startswith(prop + "_") and "/Props/" in str(f):
                    prop_theorems.append(full)
            for i, line in enumerate(src.splitlines(), 1):
                if FORBIDDEN.search(line):
                    bad_tokens.append(f"{f.relative_to(LEAN)}:{i}: {line.strip()[:80]}")
        st.obligations = len(names)
        st.theorems = prop_theorems
        if bad_tokens:
            st.failed += ["forbidden token: " + b for b in bad_tokens]
        if not build_ok:
            d = _run(["lake", "build", "driver"], cwd=LEAN)
            st.driver_ok = d.returncode == 0
            # which declarations failed?
            errs = re.findall(r"error: (\S+\.lean):(\d+):\d+: (.*)", p.stdout)
            failed_decl = set()
            for fn, ln, msg in errs:
                path = LEAN / fn
                decl = f"{fn}:{ln}"
                if path.exists():
                    lines = path.read_text().splitlines()
                    for j in range(min(int(ln), len(lines)) - 1, -1, -1):
                        mm = DECL_RE.match(lines[j])
                        if mm:
                            decl = f"{fn}:{mm.group(2) or 'example'}"
                            break
                failed_decl.add(decl)
            if not failed_decl:
                failed_decl.add("lake build failed: " + (p.stdout.strip().splitlines() or ["?"])[-1][:200])
            st.failed += sorted(failed_decl)
            st.discharged = max(0, st.obligations - len(failed_decl))
            return st
        # axiom audit
        audit_src = "\n".join(f"import {m}" for m in modules) + "\n" + "\n".join(
            f"#print axioms {t}" for t in prop_theorems
        )
        with tempfile.NamedTemporaryFile("w", suffix=".lean", dir=LEAN / ".lake", delete=False) as tf:
            tf.write(audit_src)
            audit_path = tf.name
        try:
            a = _run(["lake", "env", "lean", audit_path], cwd=LEAN)
        finally:
            os.unlink(audit_path)
        st.log += a.stdout
        text = a.stdout.replace("\n  ", " ")
        for t in prop_theorems:
            m1 = re.search(r"'" + re.escape(t) + r"' depends on axioms: \[([^\]]*)\]", text)
            m2 = re.search(r"'" + re.escape(t) + r"' does not depend on any axioms", text)
            if m1:
                ax = [x.strip() for x in m1.group(1).split(",") if x.strip()]
            elif m2:
                ax = []
            else:
                st.failed.append(f"audit: no axiom report for {t}")
                continue
            st.axioms[t] = ax
            extra = [x for x in ax if x not in ALLOWED_AXIOMS]
            if extra:
                st.failed.append(f"audit: {t} depends on {extra}")
        if a.returncode != 0 and not st.failed:
            st.failed.append("audit failed: " + a.stdout.strip()[-200:])
        if tier == "thorough":
            # independent re-check of the compiled modules (and everything they import) by Lean's external checker
            lc = _run(["lake", "env", "leanchecker"] + modules, cwd=LEAN)
            st.log += lc.stdout
            st.leanchecker = "ok" if lc.returncode == 0 else "failed"
            if lc.returncode != 0:
                st.failed.append("leanchecker: " + (lc.stdout.strip().splitlines() or ["?"])[-1][:200])
        if not prop_theorems:
            st.failed.append(f"no theorem named {prop}_* found in {modules}")
        st.discharged = st.obligations if not st.failed else max(0, st.obligations - len(st.failed))
        st.ok = not st.failed
    return st


class Driver:
    """Line protocol to the Lean model (native exe; `lean --run` fallback)."""

    def __init__(self):
        exe = LEAN / ".lake" / "build" / "bin" / "driver"
        if exe.exists():
            cmd = [str(exe)]
        else:
            cmd = ["lake", "env", "lean", "--run", "Driver.lean"]
        self.p = subprocess.Popen(
            cmd, cwd=LEAN, stdin=subprocess.PIPE, stdout=subprocess.PIPE, text=True, bufsize=1 << 20
        )

    def ask(self, obj: dict) -> Any:
        return self.ask_many([obj])[0]

    def ask_many(self, objs: list[dict]) -> list[Any]:
        """Pipelined: writes all, then reads all (chunks to avoid pipe deadlock)."""
        out = []
        CH = 200
        for i in range(0, len(objs), CH):
            chunk = objs[i : i + CH]
            data = "".join(json.dumps(o, ensure_ascii=True) + "\n" for o in chunk)
            self.p.stdin.write(data)
            self.p.stdin.flush()
            for _ in chunk:
                line = self.p.stdout.readline()
                if not line:
                    raise RuntimeError("model driver died")
                out.append(json.loads(line))
        return out

    def close(self):
        try:
            self.p.stdin.close()
            self.p.wait(timeout=10)
        except Exception:
            self.p.kill()


def model_batch(objs: list[dict]) -> list[Any]:
    """One-shot batch through a fresh driver process (safe for very large batches)."""
    exe = LEAN / ".lake" / "build" / "bin" / "driver"
    cmd = [str(exe)] if exe.exists() else ["lake", "env", "lean", "--run", "Driver.lean"]
    data = "".join(json.dumps(o, ensure_ascii=True) + "\n" for o in objs)
    p = subprocess.run(cmd, cwd=LEAN, input=data, stdout=subprocess.PIPE, text=True)
    lines = p.stdout.split("\n")   # not splitlines(): the model's answers may contain U+2028 / form feeds
    if lines and lines[-1] == "":
        lines.pop()
    if len(lines) != len(objs):
        raise RuntimeError(f"model driver returned {len(lines)} lines for {len(objs)} requests (rc={p.returncode})")
    return [json.loads(l) for l in lines]


@dataclass
class Failure:
    """A failing input for the *property* (oracle on the implementation)."""

    what: str
    case: Any
    kind: str = "oracle"  # oracle | correspondence


@dataclass
class Result:
    evaluations: int = 0
    nontrivial: set = field(default_factory=set)
    samples: list = field(default_factory=list)
    hist: dict = field(default_factory=dict)
    failures: list[Failure] = field(default_factory=list)  # property violated on the implementation
    disagreements: list[Failure] = field(default_factory=list)  # model != implementation
    unsupported: int = 0
    notes: list[str] = field(default_factory=list)
    exhaustive: bool = False

    def count(self, key: str, n: int = 1):
        self.hist[key] = self.hist.get(key, 0) + n

    def sample(self, x, cap=6):
        if len(self.samples) < cap:
            self.samples.append(x)

    def merge(self, other: "Result"):
        self.evaluations += other.evaluations
        self.nontrivial |= other.nontrivial
        for s in other.samples:
            self.sample(s)
        for k, v in other.hist.items():
            self.count(k, v)
        self.failures += other.failures
        self.disagreements += other.disagreements
        self.unsupported += other.unsupported
        self.notes += other.notes


def load_known_findings(prop: str) -> tuple[list[dict], list[str]]:
    if not KNOWN_FINDINGS.exists():
        return [], []
    data = json.loads(KNOWN_FINDINGS.read_text())
    open_ = [e for e in data.get("findings", []) if e.get("property") == prop]
    fixed = [e for e in data.get("fixed", []) if f"property={prop}" in e]
    return open_, fixed


class QuietStderr:
    """fd-level redirect of stderr (zorg's loggers and ANTLR's console listener write there)."""

    def __enter__(self):
        if os.environ.get("VERIF_VERBOSE"):
            return self
        sys.stderr.flush()
        self.saved = os.dup(2)
        self.tmp = tempfile.TemporaryFile()
        os.dup2(self.tmp.fileno(), 2)
        return self

    def __exit__(self, et, ev, tb):
        if os.environ.get("VERIF_VERBOSE"):
            return False
        sys.stderr.flush()
        os.dup2(self.saved, 2)
        os.close(self.saved)
        if et is not None:
            self.tmp.seek(0)
            data = self.tmp.read().decode("utf-8", "replace")
            sys.stderr.write(data[-3000:])
        self.tmp.close()
        return False


class Ctx:
    def __init__(self, prop: str, tier: str, seed: int):
        self.prop = prop
        self.tier = tier
        self.seed = seed
        self.rng = random.Random(f"{prop}-{seed}")
        self.t0 = time.time()
        self.tmp = Path(tempfile.mkdtemp(prefix=f"zv-{prop}-"))
        self.search_mode = False

    def scale(self, quick: int, thorough: int) -> int:
        n = thorough if self.tier == "thorough" else quick
        # search mode (a proof obligation or the correspondence broke): 10x the quick budget, 2x the thorough one
        return n * (2 if self.tier == "thorough" else 10) if self.search_mode else n

    def cleanup(self):
        shutil.rmtree(self.tmp, ignore_errors=True)


class SubCtx:
    """per-job context of `parallel_jobs`: own scratch directory, same tier / seed / search mode"""

    def __init__(self, parent: "Ctx", job: int):
        self.prop, self.tier, self.seed, self.search_mode, self.job = parent.prop, parent.tier, parent.seed, parent.search_mode, job
        self.rng = random.Random(f"{parent.prop}-{parent.seed}-{job}")
        self.tmp = Path(tempfile.mkdtemp(prefix=f"zv-{parent.prop}-j{job}-"))
        self.t0 = parent.t0

    def scale(self, quick: int, thorough: int) -> int:
        n = thorough if self.tier == "thorough" else quick
        # search mode (a proof obligation or the correspondence broke): 10x the quick budget, 2x the thorough one
        return n * (2 if self.tier == "thorough" else 10) if self.search_mode else n


_PJ = None  # (parent ctx, worker) of the running parallel_jobs call: inherited by the forked pool, never pickled


_KEEP: list = []


def _job_entry(job):
    parent, worker = _PJ
    sub = SubCtx(parent, job)
    res = Result()
    # forked workers stand for separate zorg processes: each gets its own scratch directory for built templates
    # (ZorgTemplateManager.tmp_dir is created once at import time and would otherwise be shared by all workers, which then
    # overwrite each other's built templates)
    try:
        import tempfile as _tf

        from zorg.service import templates as _tm

        _KEEP.append(_tm.ZorgTemplateManager.tmp_dir)   # (dropping the inherited object would delete the parent's directory)
        _tm.ZorgTemplateManager.tmp_dir = _tf.TemporaryDirectory(prefix="zv-tmpl-")
    except Exception:  # noqa: BLE001
        pass
    try:
        with QuietStderr():
            ret = worker(sub, res, sub.rng, job)
    finally:
        shutil.rmtree(sub.tmp, ignore_errors=True)
    return job, res, ret


def parallel_jobs(ctx: "Ctx", n: int, worker, procs: int = 14):
    """runs worker(sub_ctx, res, rng, job) for job in range(n) in forked processes (each with its own scratch directory and
    its own PRNG derived from property, seed and job number, so a failing job replays alone); merges the Results in job order.
    Returns (merged Result, [worker return values in job order])."""
    import multiprocessing as mp

    global _PJ
    out = [None] * n
    if n == 0:
        return Result(), []
    _PJ = (ctx, worker)
    try:
        with mp.get_context("fork").Pool(min(procs, n)) as pool:
            for job, res, ret in pool.imap_unordered(_job_entry, range(n)):
                out[job] = (res, ret)
    finally:
        _PJ = None
    merged = Result()
    rets = []
    for res, ret in out:
        merged.merge(res)
        rets.append(ret)
    return merged, rets


def write_replay(prop: str, seed: int, payload: dict) -> Path:
    REPLAYS.mkdir(exist_ok=True)
    n = 0
    while True:
        p = REPLAYS / f"{prop}-{seed}-{n}.json"
        if not p.exists():
            break
        n += 1
    p.write_text(json.dumps(payload, indent=1, default=str))
    return p


def finish(
    ctx: Ctx,
    proof: ProofStatus,
    res: Result,
    *,
    rule: str,
    assumptions: list[str],
    classify: Optional[Callable[[Failure, dict], bool]] = None,
    extra_cov: Optional[dict] = None,
) -> int:
    """Compute the verdict, write evidence, print VIOLATION / KNOWN-FINDING lines."""
    prop = ctx.prop
    known, _fixed = load_known_findings(prop)
    unknown: list[Failure] = []
    matched: dict[str, int] = {}
    for f in res.failures:
        hit = None
        if classify:
            for e in known:
                try:
                    if classify(f, e):
                        hit = e
                        break
                except Exception:
                    pass
        if hit is None:
            unknown.append(f)
        else:
            matched[hit["id"]] = matched.get(hit["id"], 0) + 1
    for e in known:
        if matched.get(e["id"]):
            print(f"KNOWN-FINDING: property={prop} {e['id']}: {e['what']}")
        else:
            res.notes.append(f"known finding {e['id']} was not reproduced by its witness on this run")
    violations = 0
    rc = 0
    if unknown:
        violations = len(unknown)
        f = unknown[0]
        path = write_replay(
            prop,
            ctx.seed,
            {
                "property": prop,
                "kind": "failing-input",
                "what": f.what,
                "case": f.case,
                "replay": f"./check {prop} --replay <this file>",
                "proof_failed": proof.failed,
                "seed": ctx.seed,
                "tier": ctx.tier,
                "search_mode": ctx.search_mode,
                "other_failures": [u.what[:300] for u in unknown[1:6]],
            },
        )
        print(f"VIOLATION property={prop} replay={path}")
        rc = 1
    elif not proof.ok or res.disagreements:
        violations = 1
        payload = {
            "property": prop,
            "kind": "no-failing-input-found",
            "no_longer_checks": proof.failed
            or [f"correspondence {prop}: model and implementation differ"],
            "disagreements": [
                {"what": d.what, "case": d.case} for d in res.disagreements[:5]
            ],
            "build_log_tail": proof.log[-3000:] if not proof.ok else "",
            "searched": res.evaluations,
            "seed": ctx.seed,
            "tier": ctx.tier,
        }
        path = write_replay(prop, ctx.seed, payload)
        print(f"VIOLATION property={prop} replay={path} no-failing-input-found")
        rc = 1
    trusted = sorted({a for axs in proof.axioms.values() for a in axs})
    cov = {
        "obligations": proof.obligations,
        "discharged": proof.discharged,
        "checker_cmd": "cd lean && lake build " + " ".join(proof.modules) + "  (+ #print axioms audit; leanchecker: " + proof.leanchecker + ")",
        "trusted_base": ["Lean 4.33 kernel"]
        + ["axiom " + a for a in trusted]
        + ["harness/translate.py (Gen/*.lean)", "correspondence harness (sampled tie model<->code)"],
        "theorems": proof.theorems,
        "axioms_per_theorem": proof.axioms,
        "proof_failed": proof.failed,
        "evaluations": res.evaluations,
        "distinct_nontrivial": len(res.nontrivial),
        "rule": rule,
        "samples": res.samples[:6] or ["<none>"],
        "histogram": res.hist,
        "model_unsupported": res.unsupported,
        "disagreements_checked": len(res.disagreements),
        "impl_failures": len(res.failures),
        "known_findings_matched": matched,
        "notes": res.notes[:20],
        "exhaustive": res.exhaustive,
        "translator": proof.translate,
    }
    if extra_cov:
        cov.update(extra_cov)
    ev = {
        "property_id": prop,
        "tier": ctx.tier,
        "seed": ctx.seed,
        "level": "proof",
        "coverage": cov,
        "assumptions": assumptions,
        "wall_s": round(time.time() - ctx.t0, 2),
        "violations": violations,
    }
    EVIDENCE.mkdir(exist_ok=True)
    (EVIDENCE / f"{prop}.json").write_text(json.dumps(ev, indent=1, default=str))
    print(
        f"{prop} [{ctx.tier} seed={ctx.seed}] proof={'ok' if proof.ok else 'BROKEN'} "
        f"theorems={len(proof.theorems)} evals={res.evaluations} nontrivial={len(res.nontrivial)} "
        f"disagree={len(res.disagreements)} failures={len(res.failures)} known={sum(matched.values())} "
        f"wall={ev['wall_s']}s"
    )
    return rc


def run_check(
    prop: str,
    modules: list[str],
    body: Callable[[Ctx, ProofStatus], Result],
    *,
    rule: str,
    assumptions: list[str],
    classify=None,
    replay_fn: Optional[Callable[[Ctx, dict], Result]] = None,
    argv=None,
) -> int:
    import argparse

    ap = argparse.ArgumentParser()
    ap.add_argument("--tier", default=os.environ.get("VERIF_TIER", "quick"))
    ap.add_argument("--replay")
    ap.add_argument("--seed", type=int, default=int(os.environ.get("VERIF_SEED", "0") or 0))
    a = ap.parse_args(argv)
    tier = a.tier if a.tier in ("quick", "thorough") else "quick"
    ctx = Ctx(prop, tier, a.seed)
    try:
        proof = prove(prop, modules, tier)
        if a.replay:
            payload = json.loads(Path(a.replay).read_text())
            print(json.dumps({k: v for k, v in payload.items() if k != "build_log_tail"}, indent=1, default=str)[:6000])
            if replay_fn is not None and payload.get("kind") == "failing-input":
                res = replay_fn(ctx, payload)
            else:
                # every case of a run is a function of (property, seed, tier, job number): the run that wrote the file is repeated
                # against the current tree and the recorded failure is looked for among its failures
                ctx.cleanup()
                ctx = Ctx(prop, payload.get("tier", tier), int(payload.get("seed", a.seed)))
                print(f"replay: repeating the run seed={ctx.seed} tier={ctx.tier} against the current tree")
                with QuietStderr():
                    res = body(ctx, proof)
                    if payload.get("search_mode") or ((not proof.ok or res.disagreements) and not res.failures):
                        ctx.search_mode = True
                        ctx.rng = random.Random(f"{prop}-{ctx.seed}-search")
                        res.merge(body(ctx, proof))
            want = payload.get("what")
            hit = [f for f in res.failures if want and f.what == want]
            for f in hit[:1]:
                print("REPRODUCED:", f.what[:1000])
            if want and not hit:
                print(f"NOT REPRODUCED: the recorded failing input no longer fails ({len(res.failures)} other failure(s), {len(res.disagreements)} disagreement(s) in this run)")
                for f in res.failures[:3]:
                    print("OTHER FAILURE:", f.what[:300])
            if payload.get("kind") == "no-failing-input-found":
                print("proof obligations that do not check now:", proof.failed or "none", "| correspondence disagreements now:", len(res.disagreements))
            return 1 if (hit or (payload.get("kind") == "no-failing-input-found" and (res.disagreements or not proof.ok))) else 0
        with QuietStderr():
            res = body(ctx, proof)
        if (not proof.ok or res.disagreements) and not res.failures:
            # search mode: enlarged budget, looking for an input on which the property fails
            ctx.search_mode = True
            ctx.rng = random.Random(f"{prop}-{ctx.seed}-search")
            with QuietStderr():
                res2 = body(ctx, proof)
            res.merge(res2)
        return finish(ctx, proof, res, rule=rule, assumptions=assumptions, classify=classify)
    except subprocess.TimeoutExpired as e:
        print(f"{prop}: timeout: {e}", file=sys.stderr)
        return 2
    except Exception:
        import traceback

        traceback.print_exc()
        return 2
    finally:
        ctx.cleanup()
