"""Token-stream correspondence: generated DFAs + maximal-munch model vs. the real ANTLR lexers."""
from __future__ import annotations

import itertools

import common as C


def lexer_classes(which: str):
    if which == "file":
        from zorg.grammar.zorg_file.ZorgFileLexer import ZorgFileLexer as L
        from zorg.grammar.zorg_file.ZorgFileParser import ZorgFileParser as P
    else:
        from zorg.grammar.zorg_query.ZorgQueryLexer import ZorgQueryLexer as L
        from zorg.grammar.zorg_query.ZorgQueryParser import ZorgQueryParser as P
    return L, P


def real_tokens(which: str, text: str):
    import antlr4
    from antlr4.error.ErrorListener import ErrorListener

    L, P = lexer_classes(which)
    lx = L(antlr4.InputStream(text))
    lx.removeErrorListeners()
    errs = []

    class EL(ErrorListener):
        def syntaxError(self, recognizer, offendingSymbol, line, column, msg, e):
            errs.append(msg)

    lx.addErrorListener(EL())
    out = []
    for t in lx.getAllTokens():
        sym = P.symbolicNames[t.type] if t.type < len(P.symbolicNames) else "<INVALID>"
        if sym == "<INVALID>":
            sym = P.literalNames[t.type]
        out.append([sym, t.text])
    return out, len(errs)


def representatives(which: str):
    """one representative per class of the coarsest partition refining every transition label"""
    L, P = lexer_classes(which)
    import sys

    sys.path.insert(0, str(C.VERIF / "harness"))
    import translate as T

    cuts = {0, 128}
    for t in L.atn.modeToStartState[0].transitions:
        _, _, _, trans = T.rule_nfa(L.atn, t.target.ruleIndex)
        for _, rngs, _ in trans:
            for lo, hi in rngs:
                if lo < 128:
                    cuts.add(lo)
                if hi + 1 < 128:
                    cuts.add(hi + 1)
    cuts = sorted(cuts)
    reps = []
    for i in range(len(cuts) - 1):
        reps.append(chr(cuts[i]))
    reps.append("é")  # one non-ASCII character
    return reps


def check_texts(which: str, texts, res: C.Result, tag: str, use_model=True, max_report=3):
    """Adds disagreements to res; returns number of mismatches."""
    texts = list(texts)
    if not use_model:
        return 0
    ms = C.model_batch([{"op": "lex.tokens", "lexer": which, "text": t} for t in texts])
    bad = 0
    for t, m in zip(texts, ms):
        real, nerr = real_tokens(which, t)
        mtoks = [x for x in m if x[0] != "<err>"]
        merr = sum(1 for x in m if x[0] == "<err>")
        res.evaluations += 1
        if real != mtoks or nerr != merr:
            bad += 1
            if bad <= max_report:
                res.disagreements.append(C.Failure(f"{which} lexer token stream differs on {t!r}: real {real} ({nerr} errors), model {m}", {"lexer": which, "text": t}, "correspondence"))
    res.count(f"lex_{which}_{tag}", len(texts))
    return bad


def standard_streams(which: str, rng, n_random: int, max_exh_len: int):
    reps = representatives(which)
    texts = []
    for k in range(1, max_exh_len + 1):
        texts += ["".join(p) for p in itertools.product(reps, repeat=k)]
    pool = reps + list("0123456789") * 2 + list("-#: ")
    for _ in range(n_random):
        texts.append("".join(rng.choice(pool) for _ in range(rng.randint(3, 12))))
    texts += [
        "240510#0K 240510#000x 2024-01-01 20240101 P5 P55 1230 https http httpsx -------- --------- ################################ o x ox [[a]] [#a] ((a)) f=a*_ ^240101:240201 $-7d:1m ^1y count(note) prop:foo S W O G c'x' P1-3 1 12 1d 12345d",
        "- 240510#zz foo\n  * k:: v\r\n", "========================", "++++++++++++++++ H3", "#  comment\n",
    ]
    return texts, len(reps)
