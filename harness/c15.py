"""C15 — A saved-query reference filters like the saved query's WHERE clause."""
from __future__ import annotations

import datetime as dt
import re
import shutil
import sys
from pathlib import Path

import common as C
import pagegen as G
import zorgapi as Z

PROP = "C15"
MODULES = ["ZorgVerif.Props.C15"]
TODAY = (2024, 6, 15)
ATOMS = ["o", "x", "-", "#work", "#home", "@desk", "@home", "+zorg", "+gtd", "%bob", "!#gtd", "P0-3", "P3", "k:*", "!due:*", "n:>5", "'alpha'", "'Foo'", "f=a*", "[[a]]", "est:<50"]
NONKIND = [a for a in ATOMS if a not in ("o", "x", "-", "P0-3", "P3")]


def gen_where(rng, names_below, allow_or=True, kinds_ok=True):
    """a WHERE text possibly referencing saved queries `names_below`"""
    def and_():
        parts = []
        for _ in range(rng.randint(1, 3)):
            r = rng.random()
            if names_below and r < 0.35:
                parts.append("{" + rng.choice(names_below) + "}")
            elif r < 0.45:
                parts.append("(" + " | ".join(rng.choice(ATOMS if kinds_ok else NONKIND) for _ in range(2)) + ")")
            else:
                parts.append(rng.choice(ATOMS if kinds_ok else NONKIND))
        return " ".join(parts)

    n = rng.choice([1, 1, 2, 3]) if allow_or else 1
    return " | ".join(and_() for _ in range(n))


def gen_case(rng):
    n = rng.randint(1, 5)
    # a saved query is named by its path below zoq/: plain words, but also names with `-`, `.`, upper case, sub-directories
    names = [rng.choice([f"q{i}", f"q{i}", f"q-{i}", f"q.{i}", f"sub/q{i}", f"Q_{i}", f"tmp/x-{i}.v2"]) for i in range(n)]
    saved = {}
    long_one = rng.randrange(n) if rng.random() < 0.06 else None
    for i in reversed(range(n)):
        w = gen_where(rng, names[i + 1 :])
        if i == long_one:
            # a saved query whose first line is far longer than a kilobyte (a long list of exclusions)
            w = w + " " + " ".join(f"!+excl{j:03d}" for j in range(rng.randint(110, 160))) + " !#work"
        line = rng.choice(["# W {w}", "# S note W {w} G file", "# W {w} O priority G none", "# S file W {w} O alpha", "# W {w} G type file O create"]).format(w=w)
        extra = rng.choice(["", "\n#\n# SAVED QUERY GENERATED ON 2024-01-01 AT 00:00:00.\n\n- old result"])
        saved[names[i]] = line + extra
    refs = [rng.choice(names + ([rng.choice(["missing", "no-such", "sub/none"])] if rng.random() < 0.1 else []))] + ([rng.choice(names)] if rng.random() < 0.4 else [])
    outer_parts = [rng.choice(NONKIND) for _ in range(rng.randint(0, 2))] + ["{" + r + "}" for r in refs]
    rng.shuffle(outer_parts)
    outer = "W " + " ".join(outer_parts)
    if rng.random() < 0.3:
        outer += " | " + rng.choice(NONKIND)
    if rng.random() < 0.5:
        outer += rng.choice([" O create", " G file", " O alpha G none"])
    if rng.random() < 0.3:
        outer = "S note " + outer
    return {"saved": saved, "query": outer, "refs": refs}


def py_where_text(content: str) -> str:
    q = content.split("\n")[0][2:]
    inw, out = False, []
    for w in q.split(" "):
        if w == "W":
            inw = True
        elif w in ("O", "G"):
            inw = False
        elif inw:
            out.append(w)
    return " ".join(out)


def explicit_conjunction(case, text: str, depth=0):
    """the query the statement prescribes: every reference replaced by the *parenthesised* saved WHERE (recursively)"""
    if depth > 20:
        raise RecursionError

    def sub(m):
        nm = m.group(1)
        if nm not in case["saved"]:
            raise KeyError(nm)
        return "(" + explicit_conjunction(case, py_where_text(case["saved"][nm]), depth + 1) + ")"

    return re.sub(r"\{(.*?)\}", sub, text)


def body(ctx: C.Ctx, proof: C.ProofStatus) -> C.Result:
    from freezegun import freeze_time
    from zorg.service import swog
    from zorg.service.swog._saved_queries import expand_saved_queries

    res = C.Result()
    rng = ctx.rng
    n_text = ctx.scale(400, 10000)
    n_exec_dirs = ctx.scale(8, 150)
    zdir = ctx.tmp / "z"
    cfg = Z.write_config(ctx.tmp / "cfg.yml")

    def setup_saved(case):
        zq = zdir / "zoq"
        if zq.exists():
            shutil.rmtree(zq)
        zq.mkdir(parents=True)
        for nm, content in case["saved"].items():
            (zq / f"{nm}.zoq").parent.mkdir(parents=True, exist_ok=True)
            (zq / f"{nm}.zoq").write_text(content)

    # ---- textual expansion vs model ---------------------------------------------------------
    zdir.mkdir(parents=True, exist_ok=True)
    reqs, metas = [], []
    for _ in range(n_text):
        case = gen_case(rng)
        setup_saved(case)
        got = expand_saved_queries(zdir, case["query"])
        res.evaluations += 1
        res.count("expanded" if got is not None else "none")
        missing = any(r not in case["saved"] for r in re.findall(r"\{(.*?)\}", case["query"]))
        if "{" in case["query"]:
            res.nontrivial.add(case["query"] + "|" + "|".join(case["saved"].values()))
        if missing and got is not None:
            res.failures.append(C.Failure(f"reference to a missing saved query was ignored: {case['query']!r} -> {got!r}", case))
        if not missing and got is None:
            res.failures.append(C.Failure(f"expansion of {case['query']!r} failed although all referenced queries exist", case))
        if got is not None and re.search(r"\{.*?\}", got):
            res.failures.append(C.Failure(f"expansion left a reference unexpanded: {got!r}", case))
        reqs.append({"op": "saved.expand", "files": [[k, v] for k, v in case["saved"].items()], "query": case["query"], "fuel": 12})
        metas.append((case, got))
        if len(res.samples) < 3 and got and "(" in got:
            res.sample({"query": case["query"], "saved": case["saved"], "expanded": got})
    if proof.driver_ok:
        for (case, got), m in zip(metas, C.model_batch(reqs)):
            mg = m.get("ok") if "ok" in m else None
            if mg != got:
                res.disagreements.append(C.Failure(f"expand: model {mg!r} != implementation {got!r} for {case['query']!r}", case, "correspondence"))
    # ---- meaning: referencing query vs explicit conjunction on real indexes ---------------------
    for i in range(n_exec_dirs):
        if zdir.exists():
            shutil.rmtree(zdir)
        zdir.mkdir(parents=True)
        G.write_dir(zdir, G.gen_dir(rng, npages=(2, 4)))
        Z.clear_engine_cache()
        with freeze_time(dt.datetime(*TODAY, 12, 0)):
            rc, _, _ = Z.zorg_main(zdir, "db", "create", config=cfg)
        if rc != 0:
            continue
        url = f"sqlite:///{zdir}/.zorg/zorg.db"
        for _ in range(10):
            case = gen_case(rng)
            if any(r not in case["saved"] for r in case["refs"]):
                continue
            setup_saved(case)
            q_ref = re.sub(r"^(S note )?", "S note ", case["query"], count=1) if not case["query"].startswith("S ") else case["query"]
            q_ref = re.sub(r"( O [a-z ]+)?( G [a-z ]+)?$", "", q_ref) + " O none G none"
            q_exp = explicit_conjunction(case, q_ref)
            with freeze_time(dt.datetime(*TODAY, 12, 0)):
                try:
                    a = swog.execute(zdir, url, q_ref)
                    b = swog.execute(zdir, url, q_exp)
                except Exception as e:  # noqa
                    res.failures.append(C.Failure(f"executing {q_ref!r} raised {type(e).__name__}: {e}", case))
                    continue
            res.evaluations += 1
            res.count("executed")
            if a != b:
                # pooling of kinds/priorities across a reference?
                res.failures.append(C.Failure(f"{q_ref!r} selects different notes than the explicit conjunction {q_exp!r}", {**case, "q_ref": q_ref, "q_exp": q_exp, "got": a[:500], "want": b[:500]}))
        # ---- the same referencing query again after a NESTED saved query was edited / deleted (one process, outer file untouched)
        zq = zdir / "zoq"
        if zq.exists():
            shutil.rmtree(zq)
        zq.mkdir(parents=True)
        (zq / "outer.zoq").write_text("# W {inner} | #work\n")
        (zq / "inner.zoq").write_text("# W o\n")
        q_again = "S note W {outer} O none G none"
        with freeze_time(dt.datetime(*TODAY, 12, 0)):
            try:
                first = swog.execute(zdir, url, q_again)
                (zq / "inner.zoq").write_text("# W x\n")   # same size, the outer file keeps its mtime
                second = swog.execute(zdir, url, q_again)
                want = swog.execute(zdir, url, "S note W (x) | #work O none G none")
                res.evaluations += 1
                res.count("re_executed_after_nested_edit")
                if second != want:
                    res.failures.append(C.Failure("after the nested saved query `inner` was changed from `W o` to `W x`, `W {outer}` (outer = `W {inner} | #work`) still selects the notes of the old definition",
                                                  {"kind": "stale_nested", "first": first[:300], "second": second[:300], "want": want[:300]}))
                (zq / "inner.zoq").unlink()
                gone = None
                try:
                    gone = swog.execute(zdir, url, q_again)
                except BaseException as e:  # noqa: BLE001
                    gone = e
                if isinstance(gone, str) and gone == second and second.strip():
                    res.failures.append(C.Failure("after the nested saved query `inner` was deleted, `W {outer}` still answers as before instead of failing", {"kind": "stale_nested_deleted"}))
            except Exception as e:  # noqa: BLE001
                res.failures.append(C.Failure(f"re-executing a referencing query raised {type(e).__name__}: {e}", {"kind": "stale_nested_exc"}))
    # ---- pinned witness of the known finding (kinds pool across an un-parenthesised reference) ------
    if zdir.exists():
        shutil.rmtree(zdir)
    zdir.mkdir(parents=True)
    G.write_dir(zdir, {"w.zo": "# W\n\nx 240101#00 done thing\no 240101#01 open thing\n- 240101#02 plain\n"})
    Z.clear_engine_cache()
    with freeze_time(dt.datetime(*TODAY, 12, 0)):
        Z.zorg_main(zdir, "db", "create", config=cfg)
        case = {"saved": {"q": "# W x G none"}, "query": "W o {q}", "refs": ["q"]}
        setup_saved(case)
        url = f"sqlite:///{zdir}/.zorg/zorg.db"
        q_ref = "S note W o {q} O none G none"
        q_exp = explicit_conjunction(case, q_ref)
        a, b = swog.execute(zdir, url, q_ref), swog.execute(zdir, url, q_exp)
        res.evaluations += 1
        if a != b:
            res.failures.append(C.Failure(f"{q_ref!r} selects different notes than the explicit conjunction {q_exp!r}", {**case, "q_ref": q_ref, "q_exp": q_exp, "got": a, "want": b}))
    return res


def classify(f: C.Failure, entry: dict) -> bool:
    case = f.case if isinstance(f.case, dict) else {}
    if entry.get("classifier") == "saved_reference_pools_kinds":
        # the un-parenthesised splice puts kind / priority atoms of the saved filter and of the surrounding and-filter
        # (or of two saved filters) into one and-filter, where they pool into one set
        if "q_ref" not in case:
            return False
        kindish = re.compile(r"(^| )(o|x|-|P\d(-\d)?)( |$)")
        texts = [py_where_text(v) for v in case["saved"].values()]
        unparenthesised = [t for t in texts if " | " not in t and kindish.search(re.sub(r"\([^()]*\)", "", t))]
        return bool(unparenthesised)
    return False


RULE = (
    "acyclic sets of 1-5 saved query pages (6% with a first line of 1.2-1.8 kB; names with -, ., upper case and sub-directories; S/O/G clauses in every order, alternatives, parenthesised groups, nested references, old results "
    "below the first line) x referencing queries; expand_saved_queries text vs the Lean model; missing names; then on real indexes "
    "swog.execute of the referencing query vs the explicit conjunction with every reference parenthesised; non-trivial = query with a reference"
)
ASSUME = ["names over [A-Za-z0-9_./-]; one reference never contains braces", "set iteration order is irrelevant because expanded filters contain no braces"]

if __name__ == "__main__":
    sys.exit(C.run_check(PROP, MODULES, body, rule=RULE, assumptions=ASSUME, classify=classify))
