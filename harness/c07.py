"""C07 — ZIDs are unique, well-formed and recognised by every component."""
from __future__ import annotations

import datetime as dt
import json
import re
import sys
from pathlib import Path

import common as C

PROP = "C07"
MODULES = ["ZorgVerif.Props.C07", "ZorgVerif.Props.C07Lex"]

ALNUM = "0123456789ABCDEFGHIJKLMNOPQRSTUVWXYZabcdefghijklmnopqrstuvwxyz"


def impl_chain(start: str, limit: int):
    """Successor chain of the real code from `start` until it raises (fast path: `_get_next_id`;
    public-API fallback: ZIDManager with a pre-seeded next_ids.json)."""
    from zorg.storage.sql import _zid_manager as zm

    out = []
    cur = start
    fn = getattr(zm, "_get_next_id", None)
    ended = False
    if fn is not None:
        for _ in range(limit):
            try:
                cur = fn(cur)
            except RuntimeError:
                ended = True
                break
            out.append(cur)
        return out, ended
    raise RuntimeError("no _get_next_id; public fallback is used by the interleaving check only")


def run_interleaving(ctx: C.Ctx, zdir: Path, init: dict, dates: list[str]):
    """Runs ZIDManager.get_next for each date string (YYMMDD) with a *fresh manager per call*."""
    from zorg.storage.sql._zid_manager import ZIDManager

    zdir.mkdir(parents=True, exist_ok=True)
    data = zdir / ".zorg"
    data.mkdir(exist_ok=True)
    p = data / "next_ids.json"
    if init:
        p.write_text(json.dumps(init))
    elif p.exists():
        p.unlink()
    outs = []
    # two manager objects may be alive at once (two zorg processes on one notes directory whose allocations follow one
    # another): "~" = the allocation goes through the second one, "!" = that process was restarted first
    mgrs = [None, None]
    for i, d in enumerate(dates):
        pre = d[: len(d) - len(d.lstrip("!~"))]
        d = d.lstrip("!~")
        slot = 1 if "~" in pre else 0
        if mgrs[slot] is None or "!" in pre:
            mgrs[slot] = ZIDManager(zdir)
        mgr = mgrs[slot]
        date = dt.date(2000 + int(d[:2]), int(d[2:4]), int(d[4:6]))
        try:
            outs.append(mgr.get_next(date))
        except RuntimeError as e:
            if "Ran out of zorg IDs" not in str(e):
                raise
            outs.append({"err": "outOfIds"})
    final = json.loads(p.read_text()) if p.exists() else {}
    return outs, final


def lex_types(lexer_cls, parser_cls, text: str):
    import antlr4

    lx = lexer_cls(antlr4.InputStream(text))
    lx.removeErrorListeners()
    toks = []
    while True:
        t = lx.nextToken()
        if t.type == -1:
            break
        name = parser_cls.symbolicNames[t.type] if t.type < len(parser_cls.symbolicNames) else "<?>"
        toks.append((name, t.text))
    return toks


def _alloc_history(ctx, res, rng, job):
    """pages dated D get ZIDs; all notes of D leave (page deleted / moved away); `db create` again; a new note dated D
    must get a ZID that was never handed out before"""
    import re
    import shutil

    import zorgapi as Z

    zdir = ctx.tmp / "z"
    zdir.mkdir(parents=True)
    cfg = Z.write_config(ctx.tmp / "cfg.yml")
    handed = []

    def zids_now():
        out = []
        for p in zdir.rglob("*.zo"):
            if ".zorg" not in p.parts:
                out += re.findall(r"^[-ox~<>] (?:P\d )?(\d{6}#\w{2,3})", p.read_text(), re.M)
        return out

    days = [dt.date(rng.randint(2020, 2030), rng.randint(1, 12), rng.randint(1, 28)) for _ in range(2)]
    (zdir / "keep.zo").write_text("# Keep\n\n- 200101#00 a note that stays\n")
    for rnd in range(3):
        d = rng.choice(days)
        name = f"day{rnd}.zo"
        n = rng.randint(1, 3)
        ff = "\x0c\n" if rng.random() < 0.5 else ""   # a page-break character on a line of its own: no line end for the grammar
        (zdir / name).write_text(f"# Log {d.isoformat()}\n\n" + ff + "".join(f"- entry {rnd}.{i}\n" for i in range(n)))
        cmd = ("db", "create") if rnd == 0 or rng.random() < 0.6 else ("db", "reindex")
        Z.clear_engine_cache()
        rc, _, _ = Z.zorg_main(zdir, *cmd, config=cfg)
        res.evaluations += 1
        if rc != 0:
            res.notes.append(f"allocation history: {cmd} failed rc={rc}")
            return None
        page_lines = (zdir / name).read_text().split("\n")
        unz = [l for l in page_lines if l.startswith("- entry") ]
        if unz:
            res.failures.append(C.Failure(f"after {' '.join(cmd)} the note {unz[0]!r} of {name} carries no ZID (page: {page_lines[:6]})", {"kind": "history_no_zid", "page": page_lines[:8]}))
            return None
        new = [z for z in zids_now() if z not in handed and z != "200101#00"]
        dup = [z for z in new if new.count(z) > 1]
        if dup:
            res.failures.append(C.Failure(f"ZID {dup[0]} written to two notes", {"kind": "history_dup", "round": rnd}))
            return None
        handed += new
        # every note of that day leaves the notes directory (archived elsewhere); the index is created again
        if rng.random() < 0.7:
            (zdir / name).unlink()
            Z.clear_engine_cache()
            Z.zorg_main(zdir, "db", "create", config=cfg)
        reused = [z for z in zids_now() if handed.count(z) > 1]
    # a last note on each day: its ZID must be new
    for k, d in enumerate(days):
        (zdir / f"late{k}.zo").write_text(f"# Late {d.isoformat()}\n\n- a late entry\n")
    Z.clear_engine_cache()
    rc, _, _ = Z.zorg_main(zdir, "db", "create", config=cfg)
    late = [z for p in sorted(zdir.glob("late*.zo")) for z in re.findall(r"^[-ox~<>] (\d{6}#\w{2,3})", p.read_text(), re.M)]
    res.count("alloc_histories")
    for z in late:
        if z in handed:
            res.failures.append(C.Failure(f"ZID {z} is handed out a second time: it was given to a note that has since left the notes directory (earlier allocations: {sorted(handed)})",
                                          {"kind": "history_reuse", "zid": z, "handed": sorted(handed)}))
            break
    shutil.rmtree(zdir, ignore_errors=True)
    return None


def body(ctx: C.Ctx, proof: C.ProofStatus) -> C.Result:
    res = C.Result()
    rng = ctx.rng
    use_model = proof.driver_ok
    from zorg.storage.sql import _zid_manager as zm

    excl = set(zm._UNSUPPORTED_ZID_CHARS)
    alpha = [c for c in ALNUM if c not in excl]
    zid_re = re.compile(r"^\d{6}#[" + re.escape("".join(alpha)) + r"]{2,3}$")

    # ---- 1. the complete successor chain (exhaustive) -------------------------------------
    chain, ended = impl_chain("00", 200000)
    res.evaluations += len(chain) + 1
    res.count("chain_steps", len(chain))
    full = ["00"] + chain
    res.nontrivial |= {("chain", x) for x in full}
    # direct oracle on the implementation
    if len(set(full)) != len(full):
        seen = set()
        dup = next(x for x in full if x in seen or seen.add(x))
        res.failures.append(C.Failure("successor chain repeats a suffix", {"kind": "chain", "dup": dup}))
    bad = [x for x in full if not (len(x) in (2, 3) and all(c in alpha for c in x))]
    if bad:
        res.failures.append(C.Failure("ill-formed suffix in chain", {"kind": "chain", "suffix": bad[0]}))
    n_expected = len(alpha) ** 2 + len(alpha) ** 3
    if not ended:
        res.failures.append(C.Failure("chain does not end with an out-of-IDs error", {"kind": "chain"}))
    # "fails only after all suffixes have been handed out": the suffix that raises is never returned
    handed_out = len(full) - 1  # the last element's successor raises => last element cannot be allocated
    if handed_out != n_expected:
        res.failures.append(
            C.Failure(
                f"allocation fails after {handed_out} suffixes, not {n_expected}: suffix {full[-1]} is never returned",
                {"kind": "last_suffix", "suffix": full[-1], "handed_out": handed_out, "space": n_expected},
            )
        )
    if use_model:
        m = C.model_batch([{"op": "zid.chain", "id": "00", "max": 200000}])[0]
        if m.get("chain") != chain or m.get("ended") != ended:
            mc = m.get("chain", [])
            k = next((i for i, (a, b) in enumerate(zip(mc, chain)) if a != b), min(len(mc), len(chain)))
            res.disagreements.append(
                C.Failure(
                    "successor chain: model and _get_next_id differ",
                    {"index": k, "model": mc[k : k + 2], "impl": chain[k : k + 2], "len_model": len(mc), "len_impl": len(chain)},
                    "correspondence",
                )
            )
    res.sample({"chain_head": full[:4], "chain_len": len(full), "ended": ended})

    # ---- 2. interleavings over several dates with restarts ---------------------------------
    n_seq = ctx.scale(300, 10000)
    roll = ["08", "09", "0H", "0N", "0P", "0R", "0Z", "0f", "0h", "0k", "0o", "0x", "0z", "9z", "Zz", "zx", "zz",
            "00z", "0zz", "9zz", "zzx", "zzz", "zz9", "Hzz"]
    reqs = []
    cases = []
    for i in range(n_seq):
        nd = rng.randint(1, 4)
        pool = [f"{rng.randint(0, 99):02d}{rng.randint(1, 12):02d}{rng.randint(1, 28):02d}" for _ in range(nd)]
        init = {}
        for d in pool:
            if rng.random() < 0.5:
                init[d] = rng.choice(roll) if rng.random() < 0.8 else "".join(rng.choice(alpha) for _ in range(rng.choice((2, 3))))
        nops = rng.randint(5, 60)
        dates = [("!" if rng.random() < 0.4 else "") + ("~" if rng.random() < 0.3 else "") + rng.choice(pool) for _ in range(nops)]
        outs, final = run_interleaving(ctx, ctx.tmp / f"z{i % 8}", init, dates)
        case = {"init": init, "dates": dates}
        cases.append((case, outs, final))
        reqs.append({"op": "zid.allocs", "init": [[k, v] for k, v in init.items()], "dates": [d.lstrip("!~") for d in dates]})
        res.evaluations += 1
        zids = [o for o in outs if isinstance(o, str)]
        res.nontrivial.add(("seq", tuple(zids)))
        res.count("allocs", len(zids))
        res.count("out_of_ids", len(outs) - len(zids))
        res.count("restarts", sum(1 for d in dates if d.startswith("!")))
        if i < 2:
            res.sample({"init": init, "dates": dates[:8], "out": outs[:8]})
        # oracle: uniqueness + shape (within what this sequence allocated)
        if len(set(zids)) != len(zids):
            res.failures.append(C.Failure("duplicate ZID returned", {"kind": "interleaving", **case, "out": outs}))
        for z in zids:
            if not zid_re.match(z):
                res.failures.append(C.Failure(f"ill-formed ZID {z!r}", {"kind": "interleaving", **case, "out": outs}))
                break
    if use_model and reqs:
        ms = C.model_batch(reqs)
        for (case, outs, final), m in zip(cases, ms):
            mfinal = {k: v for k, v in m.get("final", [])}
            if m.get("out") != outs or mfinal != final:
                res.disagreements.append(
                    C.Failure("allocation sequence: model and ZIDManager differ", {**case, "impl": outs, "model": m.get("out"), "impl_final": final, "model_final": mfinal}, "correspondence")
                )
                break

    # ---- 2b. token-stream correspondence of the generated DFAs with the real lexers --------------
    import lexcheck as LC

    for which in ("file", "query"):
        texts, nreps = LC.standard_streams(which, rng, ctx.scale(4000, 100000), 2 if ctx.tier == "quick" else 3)
        LC.check_texts(which, texts, res, "std", use_model=use_model)
        res.count(f"lex_{which}_classes", nreps)

    # ---- 3. allocated ZIDs are single ZID tokens of both lexers and recognised by the compiler
    from zorg.grammar.zorg_file.ZorgFileLexer import ZorgFileLexer
    from zorg.grammar.zorg_file.ZorgFileParser import ZorgFileParser
    from zorg.grammar.zorg_query.ZorgQueryLexer import ZorgQueryLexer
    from zorg.grammar.zorg_query.ZorgQueryParser import ZorgQueryParser
    from zorg.service.compiler import walk_zorg_page

    n_lex = ctx.scale(2000, 100000)
    boundary = full[:60] + full[2590:2612] + full[-40:]
    sufs = boundary + [rng.choice(full) for _ in range(max(0, n_lex - len(boundary)))]
    lex_fail = 0
    for s in sufs:
        d = dt.date(rng.randint(2000, 2099), rng.randint(1, 12), rng.randint(1, 28))
        if rng.random() < 0.1:
            d = rng.choice([dt.date(2024, 2, 29), dt.date(2000, 1, 1), dt.date(2099, 12, 31), dt.date(2010, 10, 31), dt.date(2019, 9, 30)])
        zid = d.strftime("%Y%m%d")[2:] + "#" + s
        res.evaluations += 1
        for nm, lc, pc in (("file", ZorgFileLexer, ZorgFileParser), ("query", ZorgQueryLexer, ZorgQueryParser)):
            toks = lex_types(lc, pc, zid)
            if toks != [("ZID", zid)]:
                lex_fail += 1
                if lex_fail <= 3:
                    res.failures.append(C.Failure(f"{nm} lexer does not lex {zid} as one ZID token: {toks}", {"kind": "lex", "zid": zid, "lexer": nm}))
    res.count("lexed", len(sufs))
    # recompilation (slower): a page carrying each ZID
    n_comp = ctx.scale(150, 3000)
    comp = boundary[:20] + boundary[-20:] + [rng.choice(full) for _ in range(n_comp)]
    zdir = ctx.tmp / "comp"
    zdir.mkdir(exist_ok=True)
    kinds = ["-", "o", "x", "~", "<", ">", "o P1", "x P0", "- 240101"]
    pages = []
    for b in range(0, len(comp), 25):
        chunk = comp[b : b + 25]
        lines = ["# T", ""]
        exp = []
        for s in chunk:
            d = dt.date(rng.randint(2000, 2099), rng.randint(1, 12), rng.randint(1, 28))
            zid = d.strftime("%Y%m%d")[2:] + "#" + s
            k = rng.choice(kinds)
            lines.append(f"{k} {zid} body w{len(exp)}")
            exp.append((zid, d))
        p = zdir / f"p{b}.zo"
        p.write_text("\n".join(lines) + "\n")
        page = walk_zorg_page(zdir, p)
        got = [(n.zid, n.create_date) for n in page.notes]
        res.evaluations += len(chunk)
        if page.has_errors or got != exp:
            k = next((i for i, (a, b_) in enumerate(zip(got, exp)) if a != b_), 0)
            res.failures.append(
                C.Failure(
                    f"ZID not recognised as the note's own when compiled again: wrote {exp[k][0] if exp else None}, compiled {got[k] if k < len(got) else None}",
                    {"kind": "recompile", "line": lines[2 + k] if exp else None, "zid": exp[k][0], "suffix_len": len(exp[k][0]) - 7},
                )
            )
    res.count("recompiled", len(comp))
    # index-level allocation histories: ZIDs handed out for a day stay used even when every note of that day has left the
    # notes directory and the database is created again
    hres, _ = C.parallel_jobs(ctx, ctx.scale(8, 60), _alloc_history)
    res.merge(hres)
    # every calendar day a ZID can be allocated for (2000-01-01 .. 2099-12-31): is_zid must recognise the first, a middle and
    # the last suffix of that day, and the month / leap-day boundaries are recompiled
    from zorg.shared import dates as zdt

    day = dt.date(2000, 1, 1)
    bad = []
    ndays = 0
    edge_days = []
    while day.year < 2100:
        ds = day.strftime("%Y%m%d")[2:]
        ndays += 1
        for suf in ("00", "zz", "000", "zzz"):
            if not zdt.is_zid(f"{ds}#{suf}"):
                bad.append(f"{ds}#{suf}")
        nxt = day + dt.timedelta(days=1)
        if nxt.month != day.month and (day.month in (2, 12) or day.year % 10 == 0):
            edge_days += [day] + ([nxt] if nxt.year < 2100 else [])
        day = nxt
    res.evaluations += ndays
    res.count("is_zid_days", ndays)
    for z in bad[:3]:
        res.failures.append(C.Failure(f"is_zid rejects {z}, a ZID the allocator hands out for that day", {"kind": "is_zid", "zid": z}))
    lines, exp = ["# T", ""], []
    for d in edge_days:
        zid = d.strftime("%Y%m%d")[2:] + "#" + rng.choice(["00", "zz", "0A0"])
        lines.append(f"{rng.choice(kinds)} {zid} edge day w{len(exp)}")
        exp.append((zid, d))
    p = zdir / "edges.zo"
    p.write_text("\n".join(lines) + "\n")
    page = walk_zorg_page(zdir, p)
    got = [(n.zid, n.create_date) for n in page.notes]
    res.evaluations += len(exp)
    res.count("recompiled_edge_days", len(exp))
    if page.has_errors or got != exp:
        k = next((i for i, (a, b_) in enumerate(zip(got, exp)) if a != b_), 0)
        res.failures.append(C.Failure(f"ZID of a month / leap-day boundary not recognised when compiled again: wrote {exp[k][0]}, compiled {got[k] if k < len(got) else None}",
                                      {"kind": "recompile", "line": lines[2 + k], "zid": exp[k][0], "suffix_len": len(exp[k][0]) - 7}))
    return res


def classify(f: C.Failure, entry: dict) -> bool:
    c = entry.get("classifier")
    case = f.case if isinstance(f.case, dict) else {}
    if c == "zid_last_suffix_unallocatable":
        return case.get("kind") == "last_suffix" and case.get("suffix") == entry["params"]["suffix"] and case.get("handed_out") == entry["params"]["handed_out"]
    return False


RULE = (
    "complete successor chain of _get_next_id from '00' (exhaustive, 135k steps) vs the Lean model; random "
    "interleavings of ZIDManager.get_next over 1-4 dates through two live manager objects (each re-created at random: restarts) and pre-seeded roll-over "
    "states vs Zid.alloc; allocated ZIDs lexed by both real lexers and recompiled; distinct = distinct suffix / "
    "distinct ZID sequence"
)
ASSUME = [
    "restart = identity on next_ids.json (ZIDManager keeps no state in memory)", "allocations of different processes follow one another (no lock is claimed by the code: truly simultaneous read-modify-write is outside the statement)",
    "json/file IO atomic",
    "ANTLR lexers run as DFA maximal munch (validated by token correspondence)",
]

if __name__ == "__main__":
    sys.exit(C.run_check(PROP, MODULES, body, rule=RULE, assumptions=ASSUME, classify=classify))
