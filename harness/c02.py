"""C02 — Notes inherit metadata from the page title and enclosing sections only."""
from __future__ import annotations

import itertools
import sys

import common as C
import pagegen as G
import zocheck as ZC

PROP = "C02"
MODULES = ["ZorgVerif.Props.C02"]
TODAY = (2024, 6, 15)


def skeletons(maxlen):
    """every legal header sequence: first H1 or H2, next level <= previous + 1, top-level H2 only before the first H1"""
    out = [()]
    frontier = [()]
    for _ in range(maxlen):
        nxt = []
        for s in frontier:
            if not s:
                cands = [1, 2]
            else:
                cands = list(range(1, min(4, s[-1] + 1) + 1))
            for k in cands:
                nxt.append(s + (k,))
        out += nxt
        frontier = nxt
    return out


class Deco:
    """a bag of decorations with globally unique names so that any leak is attributable"""

    def __init__(self):
        self.n = 0

    def make(self, rng, where, p=0.6):
        d = {"areas": [], "contexts": [], "people": [], "projects": [], "links": [], "props": {}, "date": None, "words": []}
        def uid():
            self.n += 1
            return self.n
        if rng.random() < p:
            k = rng.choice(["areas", "contexts", "people", "projects"])
            name = f"{where}t{uid()}"
            d[k].append(name)
            d["words"].append({"areas": "#", "contexts": "@", "people": "%", "projects": "+"}[k] + name)
        if rng.random() < p * 0.3:
            d["words"].append("#" + str(1000 + uid()))       # all-digit tag: must be dropped everywhere
        if rng.random() < p * 0.25:
            # digits joined by underscores / a trailing letter: NOT made only of digits, inherited like any other tag
            k = rng.choice(["areas", "contexts", "people", "projects"])
            name = rng.choice([f"{1000 + uid()}_{uid()}", f"{uid()}_{uid()}_{uid()}", f"{1000 + uid()}x", f"0{uid()}_0"])
            d[k].append(name)
            d["words"].append({"areas": "#", "contexts": "@", "people": "%", "projects": "+"}[k] + name)
        if rng.random() < p * 0.6:
            r = rng.random()
            name = f"{where}l{uid()}"
            # a link inside a quoted word is still a link (only quoted PROPERTIES are skipped)
            q = rng.choice(["'", '"']) if rng.random() < 0.25 else ""
            if r < 0.6:
                d["links"].append(name)
                d["words"].append(f"{q}[[{name}]]{q}")
            elif r < 0.8:
                d["links"].append("global:" + name)
                d["words"].append(f"{q}[#{name}]{q}")
            else:
                d["links"].append("ref:" + name)
                d["words"].append(f"{q}[@{name}]{q}")
        if rng.random() < p * 0.6:
            key = rng.choice(["k", "k", f"{where}p{uid()}"])
            val = f"v{uid()}"
            d["props"][key] = val
            d["words"].append(f"{key}::{val}")
        if rng.random() < p * 0.4:
            u = uid()
            d["date"] = [2001 + u % 20, 1 + u % 12, 1 + u % 28]
            d["words"].append("%04d-%02d-%02d" % tuple(d["date"]))
        rng.shuffle(d["words"])
        return d


def build_page(rng, skel):
    deco = Deco()
    lines, expected = [], []
    title = deco.make(rng, "title")
    if rng.random() < 0.12:
        # an empty comment line in front: IT is the first header line; tags, links and the date of the line below are not
        # inherited (only its properties, which count on every header line)
        lines.append("#")
        lines.append("# Title " + " ".join(title["words"]))
        title = {**title, "areas": [], "contexts": [], "people": [], "projects": [], "links": [], "date": None}
    else:
        lines.append("# Title " + " ".join(title["words"]))
    head2 = None
    if rng.random() < 0.4:
        head2 = deco.make(rng, "head2")
        lines.append("# more " + " ".join(head2["words"]))
    lines.append("")
    stack = []  # (level, deco)

    def probe():
        own = deco.make(rng, "own", p=0.35)
        own["date"] = None
        own["words"] = [w for w in own["words"] if not (len(w) == 10 and w[4] == "-")]
        kind = rng.choice(["-", "o", "x"])
        ident = rng.random() < 0.3
        zid = "24%02d%02d#%02d" % (1 + len(expected) % 12, 1 + len(expected) % 28, len(expected) % 90 + 10) if ident else None
        # a modify-date stamp without ZID (earlier than every date a scope can supply): the create date is still inherited
        stamp = ["000101"] if (not zid and rng.random() < 0.2) else []
        words = stamp + ([zid] if zid else []) + ["probe"] + own["words"]
        chain = [title] + [d for _, d in stack]
        exp = {k: sorted(set(sum([c[k] for c in chain], []) + own[k])) for k in ("areas", "contexts", "people", "projects", "links")}
        props = {}
        for c in [title] + ([head2] if head2 else []) + [d for _, d in stack] + [own]:
            props.update(c["props"])   # right-biased: innermost wins; header-block properties count on every header line
        exp["props"] = sorted([k, v] for k, v in props.items())
        if zid:
            exp["cdate"] = [2024, int(zid[2:4]), int(zid[4:6])]
        else:
            exp["cdate"] = next((d["date"] for _, d in reversed(stack) if d["date"]), None) or title["date"] or list(TODAY)
        exp["line"] = len(lines) + 1
        expected.append(exp)
        lines.append(kind + " " + " ".join(words))

    def block(with_comment=True):
        if with_comment and rng.random() < 0.3:
            c = deco.make(rng, "cmt")
            lines.append("# comment " + " ".join(c["words"]))        # in-block comment: nothing may leak
        probe()
        if rng.random() < 0.3:
            probe()
        lines.append("")

    if rng.random() < 0.7:
        block()
    for lvl in skel:
        stack[:] = [(l, d) for l, d in stack if l < lvl]
        d = deco.make(rng, f"h{lvl}")
        stack.append((lvl, d))
        lines.append(G.H_MARK[lvl] + " S " + " ".join(d["words"]))
        if rng.random() < 0.5:
            lines.append("")
        if rng.random() < 0.85:
            block()
    while lines and lines[-1] == "":
        lines.pop()
    return "\n".join(lines) + "\n", expected


META = ("areas", "contexts", "people", "projects", "links", "props", "cdate", "line")


def body(ctx: C.Ctx, proof: C.ProofStatus) -> C.Result:
    res = C.Result()
    rng = ctx.rng
    maxlen = 6 if ctx.tier == "quick" else 8
    skels = skeletons(maxlen)
    res.count(f"skeletons_len<={maxlen}", len(skels))
    extra = ctx.scale(400, 30000)
    all_skels = skels + [rng.choice(skels) for _ in range(extra)]
    cases = []
    for sk in all_skels:
        text, exp = build_page(rng, sk)
        cases.append((text, exp, sk))
    zdir = ctx.tmp / "z"
    zdir.mkdir(parents=True)
    ms = ZC.model_compile_batch([c[0] for c in cases], TODAY) if proof.driver_ok else [None] * len(cases)
    gots = ZC.impl_compile_many(zdir, [c[0] for c in cases], TODAY)
    for (text, exp, sk), m, got in zip(cases, ms, gots):
        res.evaluations += 1
        res.count("headers=%d" % len(sk))
        if sk:
            res.nontrivial.add(text)
        case = {"text": text, "skeleton": list(sk)}
        if len(res.samples) < 2 and len(sk) >= 4:
            res.sample({"skeleton": list(sk), "page": text[:600]})
        if "exc" in got or got.get("errors") or got.get("has_errors"):
            res.failures.append(C.Failure(f"well-formed page did not compile cleanly: {got.get('exc') or got.get('errors')}", case))
            continue
        meta = [{k: x[k] for k in META} for x in got["notes"]]
        if meta != exp:
            d = ZC.diff_notes(exp, meta)
            res.failures.append(C.Failure(f"metadata of compiled notes differs from what title and enclosing sections give: {d}".replace("impl", "expected").replace("model", "compiled"), {**case, "diff": d}))
        if m is not None:
            if "err" in m:
                res.unsupported += 1
            else:
                d = ZC.diff_notes(got["notes"], m["ok"])
                if d:
                    res.disagreements.append(C.Failure(f"Zo model vs walk_zorg_page: {d}", case, "correspondence"))
    res.exhaustive = False
    return res


RULE = (
    "every legal header sequence up to 6 (quick) / 8 (thorough) headers, exhaustively, each with uniquely named random decorations (tags of the four "
    "kinds, all-digit tags, tags of digits joined by underscores / with a trailing letter, page/global/ref links (a quarter of them inside quoted words), shared and unique property keys, dates) on the title line, a second header line, every section "
    "header, in-block comments and the probe notes themselves; one or two probe notes per section; compiled metadata vs the union the statement "
    "prescribes and vs the Lean Zo model; non-trivial = page with at least one section header"
)
ASSUME = ["ANTLR's parse of a well-formed page = the line/atom reading of Model/Zo.lean (validated on every generated page)"]

if __name__ == "__main__":
    sys.exit(C.run_check(PROP, MODULES, body, rule=RULE, assumptions=ASSUME))
