"""C14 — `file rename` retargets every link to the page and nothing else."""
from __future__ import annotations

import re
import shutil
import sys
from pathlib import Path

import common as C
import zorgapi as Z

PROP = "C14"
MODULES = ["ZorgVerif.Props.C14"]

NAMES = ["foo", "bar", "foo_bar", "a", "ab", "proj/foo", "proj/sub/x", "2024", "python3.12", "sicp(2e)", "why_zorg?", "c++", "a.b", "x-y", "w$", "n^2", "a|b", "q{1}",
         # hidden pages / pages in hidden directories (always given with their extension: the name holds a dot)
         ".scratch", "scratch", ".archive/inbox", "archive/inbox"]
ANCH = ["top", "x", "a-b", "1", "sec_2"]


def near_misses(a: str):
    base = a.split("/")[-1]
    stem = [a[:-4]] if a.endswith((".zoq", ".zot")) else []
    return stem + [
        "x" + a, a + "x", a + "/x", "x/" + a, a + ".zo", a + "_", a[:-1] if len(a) > 1 else a + a, a.upper() if a.upper() != a else a + "Z",
        base if base != a else a + "0", re.sub(r"[^A-Za-z0-9/_]", "x", a) if re.search(r"[^A-Za-z0-9/_]", a) else a + "2",
        re.sub(r"[^A-Za-z0-9/_]", "", a) if re.search(r"[^A-Za-z0-9/_]", a) else a + "3",
        a.lstrip("./") if a.lstrip("./") not in (a, "") else "." + a,
    ]


def gen_text(rng, a: str, b: str, ext: str) -> str:
    lines = ["# Title of page" if ext != ".zoq" else "# W #x"]
    lines.append("")
    nm = near_misses(a)
    for _ in range(rng.randint(0, 8)):
        words = []
        for _ in range(rng.randint(1, 7)):
            r = rng.random()
            if r < 0.18:
                words.append(f"[[{a}]]")
            elif r < 0.30:
                words.append(f"[[{a}#{rng.choice(ANCH)}]]")
            elif r < 0.50:
                t = rng.choice(nm)
                words.append(f"[[{t}]]" if rng.random() < 0.7 else f"[[{t}#{rng.choice(ANCH)}]]")
            elif r < 0.56:
                words.append(f"[[{b}]]")
            elif r < 0.62:
                words.append(rng.choice([f"[{a}]", f"[[{a}", f"{a}]]", f"[#{a}]", f"(({a}))", f"[[{a}]", f"[[[{a}]]]", f"[[{a}#", f"#{a}", f"[[ {a}]]", f"[[{a}]][[{a}#k]]", f",[[{a}]]."]))
            else:
                words.append(rng.choice(["alpha", "beta", "#tag", "@ctx", "k::v", "240101#00", "o", "x", a, b]))
        lines.append(rng.choice(["- ", "o ", "x ", "  * "]) + " ".join(words))
    txt = "\n".join(lines)
    if rng.random() < 0.8:
        txt += "\n"
    return txt


def py_spec(a: str, b: str, txt: str) -> str:
    """one left-to-right pass over the text (independent of str.replace)"""
    out = []
    i = 0
    p1, p2 = "[[" + a + "]", "[[" + a + "#"
    while i < len(txt):
        if txt.startswith(p1, i) or txt.startswith(p2, i):
            out.append("[[" + b)
            i += len(a) + 2
        else:
            out.append(txt[i])
            i += 1
    return "".join(out)


LINK_RE = re.compile(r"\[\[([^\[\]#\n]*)(#[^\[\]\n]*)?\]\]")


def link_level_check(a, b, before: str, after: str):
    """links and gaps compared separately (only meaningful for texts whose links are well-formed)"""
    lb = [(m.group(1), m.group(2) or "") for m in LINK_RE.finditer(before)]
    la = [(m.group(1), m.group(2) or "") for m in LINK_RE.finditer(after)]
    want = [((b if t == a else t), anc) for t, anc in lb]
    gb = LINK_RE.split(before)[0::3]
    ga = LINK_RE.split(after)[0::3]
    return la == want and gb == ga


def gen_case(rng):
    a = rng.choice(NAMES)
    reldir = rng.random() < 0.1
    if reldir:
        a = rng.choice(["zeta", "z_notes", "zz"])
    b = rng.choice([n for n in NAMES if n != a] + ["new/place/" + a.split("/")[-1], a + "2"])
    files = {}
    if rng.random() < 0.2 and "." not in a and "." not in b:
        # the renamed file is a query page or a template: links to it carry the extension (`[[inbox.zoq]]`), and links to the
        # page of the same base name (`[[inbox]]` = inbox.zo) are a near miss
        ext0 = rng.choice([".zoq", ".zot"])
        a, b = a + ext0, b + ext0
        files[a] = gen_text(rng, a, b, ext0)
        for i in range(rng.randint(1, 4)):
            ext = rng.choice([".zo", ".zo", ".zot", ".zoq"])
            d = rng.choice(["", "", "proj/", "deep/er/"])
            files[f"{d}g{i}{ext}"] = gen_text(rng, a, b, ext)
        return {"src": a, "dst": b, "files": files, "mkdst": rng.random() < 0.93}
    src_ext = rng.random() < 0.3
    srcfile = a + ".zo"
    files[srcfile] = gen_text(rng, a, b, ".zo")
    for i in range(rng.randint(1, 5)):
        ext = rng.choice([".zo", ".zo", ".zot", ".zoq"])
        d = rng.choice(["", "", "proj/", "deep/er/", ".archive/2022/", "zoq/" if ext == ".zoq" else ""])
        files[f"{d}f{i}{ext}"] = gen_text(rng, a, b, ext)
    if rng.random() < 0.3:
        files["plain.txt"] = f"not a zorg file [[{a}]]\n"
    cwd_sub = (not reldir) and rng.random() < 0.12
    if cwd_sub:
        files["cwdsub/" + srcfile] = gen_text(rng, a, b, ".zo")
    return {"src": a + (".zo" if src_ext or a.startswith(".") else ""), "dst": b + (".zo" if rng.random() < 0.3 or b.startswith(".") else ""), "files": files, "mkdst": rng.random() < 0.93,
            "symlink": (not reldir) and (not cwd_sub) and rng.random() < 0.15, "reldir": reldir, "cwd_sub": cwd_sub}


def run_impl(ctx, case, zdir: Path, cfg: Path):
    real = zdir.parent / "real_notes"
    if zdir.is_symlink():
        zdir.unlink()
    elif zdir.exists():
        shutil.rmtree(zdir)
    if real.exists():
        shutil.rmtree(real)
    if case.get("symlink"):
        # the notes directory is reached through a symbolic link and the page names are given as absolute paths through it
        real.mkdir(parents=True)
        zdir.symlink_to(real, target_is_directory=True)
    else:
        zdir.mkdir(parents=True)
    for rel, txt in case["files"].items():
        p = zdir / rel
        p.parent.mkdir(parents=True, exist_ok=True)
        p.write_text(txt)
    dst = case["dst"] if "." in case["dst"] else case["dst"] + ".zo"
    if case["mkdst"]:
        (zdir / dst).parent.mkdir(parents=True, exist_ok=True)
    try:
        a1, a2 = (str(zdir / case["src"]), str(zdir / case["dst"])) if case.get("symlink") else (case["src"], case["dst"])
        if case.get("reldir"):
            # the notes directory given as a relative path whose name is a prefix of the page's name (`--dir z`, page `zeta`)
            import os

            cwd = os.getcwd()
            os.chdir(zdir.parent)
            try:
                rc, out, err = Z.zorg_main(Path(zdir.name), "file", "rename", a1, a2, config=cfg)
            finally:
                os.chdir(cwd)
        elif case.get("cwd_sub"):
            # the command is run from a sub-directory of the notes directory that holds a page of the same relative name
            # (`cwdsub/foo.zo` next to `foo.zo`): page names are relative to the NOTES directory, not to the working directory
            import os

            cwd = os.getcwd()
            os.chdir(zdir / "cwdsub")
            try:
                rc, out, err = Z.zorg_main(zdir, "file", "rename", a1, a2, config=cfg)
            finally:
                os.chdir(cwd)
        else:
            rc, out, err = Z.zorg_main(zdir, "file", "rename", a1, a2, config=cfg)
        exc = None
    except Exception as e:  # noqa
        rc, exc = None, type(e).__name__
    return rc, exc, {k: v for k, v in Z.snapshot_dir(zdir, include_hidden=True).items() if not k.startswith(".zorg/")}


def body(ctx: C.Ctx, proof: C.ProofStatus) -> C.Result:
    res = C.Result()
    rng = ctx.rng
    n = ctx.scale(300, 8000)
    cfg = Z.write_config(ctx.tmp / "cfg.yml")
    reqs, metas = [], []
    for i in range(n):
        case = gen_case(rng)
        a = case["src"][:-3] if case["src"].endswith(".zo") else case["src"]
        b = case["dst"][:-3] if case["dst"].endswith(".zo") else case["dst"]
        rc, exc, after = run_impl(ctx, case, ctx.tmp / "z", cfg)
        res.evaluations += 1
        before = case["files"]
        srcfile = case["src"] if "." in case["src"] else case["src"] + ".zo"
        dstfile = case["dst"] if "." in case["dst"] else case["dst"] + ".zo"
        res.count("rc=%s exc=%s" % (rc, exc))
        if not case["mkdst"] and not (ctx.tmp / "z" / dstfile).parent.exists():
            # destination directory missing: Path.rename raises as the very first effect; nothing may change
            if after != before:
                res.failures.append(C.Failure("rename into a missing directory changed files", case))
            continue
        if srcfile not in before:
            # e.g. 'python3.12' is taken to have an extension: source file does not exist -> nothing may change
            if after != before:
                res.failures.append(C.Failure("rename of a non-existing source changed files", case))
            res.count("src_missing")
            continue
        if rc != 0 or exc:
            res.failures.append(C.Failure(f"file rename failed rc={rc} exc={exc}", case))
            continue
        # expected state per the statement
        want = {}
        nlinks = 0
        for rel, txt in before.items():
            new_rel = dstfile if rel == srcfile else rel
            # the page is moved first, then every *.zo/*.zot/*.zoq file (under its new name) is rewritten
            if new_rel.endswith((".zo", ".zot", ".zoq")):
                want[new_rel] = py_spec(a, b, txt)
                nlinks += txt.count("[[" + a + "]") + txt.count("[[" + a + "#")
            else:
                want[new_rel] = txt
        if nlinks:
            res.nontrivial.add((a, b, tuple(sorted(before.items()))))
        res.count("links_to_A", nlinks)
        if after != want:
            diff = [k for k in set(after) | set(want) if after.get(k) != want.get(k)]
            res.failures.append(C.Failure(f"after rename {a}->{b}: {diff[0]!r} is {after.get(diff[0])!r}, want {want.get(diff[0])!r}", case))
            continue
        for rel, txt in before.items():
            new_rel = dstfile if rel == srcfile else rel
            if new_rel.endswith((".zo", ".zot", ".zoq")):
                wf = all("[[" not in g for g in LINK_RE.split(txt)[0::3]) and "#" not in a and "[" not in a
                if wf and not link_level_check(a, b, txt, after[new_rel]):
                    res.failures.append(C.Failure(f"link-level comparison failed for {rel}", case))
                    break
                reqs.append({"op": "rename.text", "src": case["src"], "dst": case["dst"], "txt": txt})
                metas.append((case, rel, after[new_rel]))
        if i < 2:
            res.sample({"src": case["src"], "dst": case["dst"], "file": list(before.items())[1], "after": after.get(list(before)[1])})
    if proof.driver_ok and reqs:
        ms = C.model_batch(reqs)
        for (case, rel, got), m in zip(metas, ms):
            if m.get("out") != got:
                res.disagreements.append(C.Failure(f"model renameText differs from implementation on {rel}: model {m.get('out')!r} impl {got!r}", case, "correspondence"))
                break
            if m.get("safe") and m.get("spec") != m.get("out"):
                res.disagreements.append(C.Failure("model: renameText != spec for link-safe names (theorem renameText_eq_spec contradicted?)", case, "correspondence"))
                break
    return res


RULE = (
    "random directories (.zo/.zot/.zoq in sub-directories) x (A,B) from a pool incl. regex metacharacters, dots, sub-directories, hidden pages / directories and their dot-less look-alikes; 12% run from a sub-directory of the notes directory that holds a same-named page; "
    "link texts [[A]], [[A#anchor]], 11 near-miss targets, partial/bracket look-alikes; CLI `file rename` in-process; bytes of all "
    "files vs one-pass spec, link-level comparison, Lean model renameText; non-trivial = directory containing at least one link to A"
)
ASSUME = ["file system operations atomic", "UTF-8 text; only the characters of the generator's pool"]

if __name__ == "__main__":
    sys.exit(C.run_check(PROP, MODULES, body, rule=RULE, assumptions=ASSUME))
