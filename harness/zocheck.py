"""Compile correspondence: walk_zorg_page vs the Lean Zo model."""
from __future__ import annotations

import datetime as dt
from pathlib import Path

import common as C


def impl_compile(zdir: Path, rel: str, text: str, today):
    """returns {"notes": [...], "has_errors": bool, "errors": n} or {"exc": ...}"""
    from freezegun import freeze_time
    from zorg.service.compiler import _api

    p = zdir / rel
    p.parent.mkdir(parents=True, exist_ok=True)
    if isinstance(text, bytes):
        p.write_bytes(text)
    else:
        p.write_text(text)
    errs = []
    orig = _api.ErrorManager.syntaxError

    def spy(self, *a, **k):
        errs.append(1)
        return orig(self, *a, **k)

    _api.ErrorManager.syntaxError = spy
    try:
        with freeze_time(dt.datetime(*today, 12, 0)):
            try:
                page = _api.walk_zorg_page(zdir, Path(rel))
            except Exception as e:  # noqa
                return {"exc": f"{type(e).__name__}: {str(e)[:120]}", "errors": len(errs)}
    finally:
        _api.ErrorManager.syntaxError = orig
    where = {}   # id(note) -> (block index, section path)
    nb = 0
    h1s = ([page.h0] if page.h0 else []) + list(page.h1s)

    def visit(section, path):
        nonlocal nb
        for blk in section.blocks:
            nb += 1
            for n in blk.notes:
                where[id(n)] = (nb, list(path))

    for h1 in h1s:
        p1 = [] if h1 is page.h0 else [h1.title]
        visit(h1, p1)
        for h2 in h1.h2s:
            visit(h2, p1 + [h2.title])
            for h3 in h2.h3s:
                visit(h3, p1 + [h2.title, h3.title])
                for h4 in h3.h4s:
                    visit(h4, p1 + [h2.title, h3.title, h4.title])
    notes = []
    for n in page.notes:
        blk, path = where.get(id(n), (None, None))
        notes.append(
            {
                "line": n.line_no,
                "kind": n.todo_payload.status.name if n.todo_payload else "BASIC",
                "priority": n.todo_payload.priority if n.todo_payload else None,
                "body": n.body,
                "zid": n.zid,
                "cdate": [n.create_date.year, n.create_date.month, n.create_date.day],
                "mdate": [n.modify_date.year, n.modify_date.month, n.modify_date.day],
                "areas": list(n.areas), "contexts": list(n.contexts), "people": list(n.people), "projects": list(n.projects),
                "links": list(n.links),
                "props": sorted([k, v] for k, v in n.properties.items()),
                "section": path,
                "block": blk,
            }
        )
    return {"notes": notes, "has_errors": page.has_errors, "errors": len(errs)}


def model_compile_batch(texts, today):
    return C.model_batch([{"op": "zo.compile", "text": t, "today": list(today)} for t in texts])


def diff_notes(a, b):
    """first difference between two note lists (impl, model)"""
    if len(a) != len(b):
        return f"{len(a)} notes vs {len(b)}"
    for i, (x, y) in enumerate(zip(a, b)):
        for k in x:
            if x[k] != y.get(k):
                return f"note {i} field {k}: impl {x[k]!r} model {y.get(k)!r}"
    return None


def _worker(args):
    idx, text, today, base = args
    import os
    from pathlib import Path as _P

    d = _P(base) / f"w{os.getpid()}"
    d.mkdir(parents=True, exist_ok=True)
    # the page's file name carries no metadata: date-shaped and nested names must compile exactly like a neutral one
    name = ["p.zo", "20240323.zo", "2024/20240322_day.zo", "notes.zo", "240101.zo", "sub/20231231_done.zo"][idx % 6]
    with C.QuietStderr():
        return idx, impl_compile(d, name, text, today)


def impl_compile_many(base, texts, today, procs=14):
    """parallel compile of many page texts (ANTLR's Python runtime is slow)"""
    import multiprocessing as mp

    ctx = mp.get_context("fork")
    jobs = [(i, t, today, str(base)) for i, t in enumerate(texts)]
    out = [None] * len(texts)
    with ctx.Pool(procs) as pool:
        for i, r in pool.imap_unordered(_worker, jobs, chunksize=8):
            out[i] = r
    return out
