"""Thin wrappers to drive zorg in-process through its public entry points."""
from __future__ import annotations

import contextlib
import io
import json
import os
import sys
from pathlib import Path


def write_config(path: Path, **kwargs) -> Path:
    import yaml

    path.write_text(yaml.safe_dump(kwargs, sort_keys=False) if kwargs else "{}\n")
    return path


def zorg_main(zdir: Path, *args: str, config: Path | None = None, capture: bool = True):
    """Runs `zorg --log=null --dir ZDIR ARGS...` in-process; returns (rc, stdout, stderr)."""
    from zorg.app.__main__ import main

    argv = ["zorg"]
    if config is not None:
        argv += ["-c", str(config)]
    argv += ["--log=null", "--dir", str(zdir)] + list(args)
    out, err = io.StringIO(), io.StringIO()
    try:
        if capture:
            with contextlib.redirect_stdout(out), contextlib.redirect_stderr(err):
                rc = main(argv)
        else:
            rc = main(argv)
    except SystemExit as e:
        rc = e.code if isinstance(e.code, int) else 1
    return rc, out.getvalue(), err.getvalue()


def clear_engine_cache():
    from zorg.storage.sql import _engine

    _engine.create_cached_engine.cache_clear()


def snapshot_dir(zdir: Path, include_hidden: bool = False) -> dict[str, str]:
    out = {}
    for p in sorted(zdir.rglob("*")):
        if p.is_file():
            rel = str(p.relative_to(zdir))
            if not include_hidden and rel.startswith("."):
                continue
            try:
                out[rel] = p.read_text()
            except UnicodeDecodeError:
                out[rel] = "<binary>"
    return out


def silence_logs():
    """`--log=null` equivalent for in-process API calls."""
    try:
        import logrus

        logrus.init_logging(logs=())
    except Exception:
        pass
