"""C10 — `note move` relocates exactly one note and loses nothing."""
from __future__ import annotations

import datetime as dt
import re
import shutil
import sys
from pathlib import Path

import common as C
import history as H
import pagegen as G
import zocheck as ZC
import zorgapi as Z

PROP = "C10"
MODULES = ["ZorgVerif.Props.C10"]
TODAY = (2024, 6, 15)
KIND_OF = {"x": "CLOSED_TODO", "~": "CANCELED_TODO"}


def add_mentions(rng, files):
    """mention ZIDs of notes inside other notes (earlier and later), as plain words and as [zid] links"""
    zids = re.findall(r"\d{6}#[0-9A-Za-z]{2}", "\n".join(files.values()))
    out = {}
    for rel, text in files.items():
        lines = text.split("\n")
        for i, ln in enumerate(lines):
            if re.match(r"^[-ox~<>] ", ln) and zids and rng.random() < 0.25:
                z = rng.choice(zids)
                if z not in ln:
                    lines[i] = ln + rng.choice([f" see {z} too", f" [{z}]", f" ({z})", f" cf. {z}"])
        out[rel] = "\n".join(lines)
    return out


def add_tag_lookalikes(rng, files):
    """page-level tags whose names also occur in the bodies inside links (`#g1` inherited, `[#g1]` / `[@r1]` in a note):
    the link is no tag word, so the moved note still has to carry the inherited tag explicitly"""
    out = {}
    for rel, text in files.items():
        lines = text.split("\n")
        if lines and lines[0].startswith("# ") and rng.random() < 0.5:
            lines[0] += " " + " ".join(rng.sample(["#g1", "#g2", "#G3", "@r1", "@r2", "+g1", "%r2"], rng.randint(1, 3)))
        out[rel] = "\n".join(lines)
    return out


def add_tag_case_twins(rng, files):
    """tags that differ only by letter case are different tags: two pages whose title lines carry `+CaseTag @HomeOffice` and
    `+casetag @homeoffice`, inherited by all their notes"""
    names = sorted(files)
    if len(names) < 2 or rng.random() < 0.4:
        return files
    out = dict(files)
    a, b = rng.sample(names, 2)
    for rel, words in ((a, "+CaseTag @HomeOffice #Area51x %Bob"), (b, "+casetag @homeoffice #area51x %bob")):
        ls = out[rel].split("\n")
        if ls and ls[0].startswith("# "):
            ls[0] += " " + words
        out[rel] = "\n".join(ls)
    return out


def add_case_twins(rng, files):
    """two notes whose ZIDs differ only by letter case (`240510#0B` / `240510#0b`: the allocator hands out both on one day),
    the twin placed on another page (or earlier on the same page) so that it is indexed first"""
    out = dict(files)
    names = sorted(files)
    for rel in names:
        lines = out[rel].split("\n")
        idxs = [i for i, ln in enumerate(lines) if re.match(r"^[-ox~<>] (P\d )?(\d{6} )?\d{6}#\w*[A-Za-z]\w* ", ln)]
        if idxs and rng.random() < 0.4:
            i = rng.choice(idxs)
            m = re.match(r"^([-ox~<>] (?:P\d )?(?:\d{6} )?)(\d{6}#)(\w{2,3})( .*)$", lines[i])
            if not m or m.group(3).swapcase() == m.group(3) or any(ch in "IOQSgijlpqy" for ch in m.group(3).swapcase()):
                continue  # (the lexer's ZID token, like the allocator, excludes these look-alike characters)
            twin = m.group(1) + m.group(2) + m.group(3).swapcase() + " twin of a case-different ZID"
            if twin.split("#")[0] + "#" + m.group(3).swapcase() in "\n".join(out.values()):
                continue
            dest = rng.choice(names)
            dl = out[dest].split("\n") if dest != rel else lines
            k = next((j for j, ln in enumerate(dl) if re.match(r"^[-ox~<>] ", ln)), None)
            if k is None:
                continue
            dl.insert(k, twin)
            if dest != rel:
                out[dest] = "\n".join(dl)
        out[rel] = "\n".join(lines)
    return out


def add_extended_zids(rng, files):
    """a note whose ZID extends another note's ZID by one character (3-character suffix), placed *above* it"""
    out = {}
    for rel, text in files.items():
        lines = text.split("\n")
        idxs = [i for i, ln in enumerate(lines) if re.match(r"^[-ox~<>] (P\d )?(\d{6} )?\d{6}#\w\w ", ln)]
        if idxs and rng.random() < 0.6:
            i = rng.choice(idxs)
            z = re.search(r"\d{6}#\w\w", lines[i]).group(0)
            lines[i:i] = [f"- {z}A a later-generation note above its shorter twin", "  * why:: it was dragged up the page"]
        out[rel] = "\n".join(lines)
    return out


def dest_variants(rng, files, src):
    others = [p for p in files if p != src]
    out = [("existing", rng.choice(others), None)] if others else []
    out.append(("header_only", "fresh_c.zo", "# C\n"))
    out.append(("header_blank", "fresh_d.zo", "# D #work\n\n"))
    out.append(("no_trailing_newline", "fresh_b.zo", "# B\n\n- 240102#b0 last line of b"))
    out.append(("with_sections", "fresh_s.zo", "# S\n\n- 240103#s0 top\n\n" + "#" * 32 + " Sec\no 240103#s1 in section\n\n"))
    out.append(("missing_with_template", "tmpl/made.zo", None))
    out.append(("missing_no_template", "nowhere/else.zo", None))
    return out


def note_block(lines, row):
    n = len(row["body"].split("\n"))
    return row["line"] - 1, row["line"] - 1 + n


def check_move(ctx, res, zdir, cfg, files, rows, row, variant, marker, model_reqs):
    name, dest, dest_text = variant
    # restore the directory
    for p in list(zdir.rglob("*.zo")):
        if ".zorg" not in p.parts:
            p.unlink()
    G.write_dir(zdir, files)
    if dest_text is not None:
        (zdir / dest).parent.mkdir(parents=True, exist_ok=True)
        (zdir / dest).write_text(dest_text)
    src = row["path"]
    before_src = files[src]
    before_dst = dest_text if dest_text is not None else files.get(dest)
    args = ["note", "move", row["zid"], dest] + ([marker] if marker else [])
    from freezegun import freeze_time

    Z.clear_engine_cache()
    with freeze_time(dt.datetime(*TODAY, 12, 0)):
        rc, out, err = Z.zorg_main(zdir, *args, config=cfg)
    res.evaluations += 1
    res.count(f"dest={name}")
    res.count(f"marker={marker or 'none'}")
    case = {"files": files, "zid": row["zid"], "src": src, "dest": dest, "dest_text": dest_text, "marker": marker, "variant": name}
    after_src = (zdir / src).read_text()
    after_dst = (zdir / dest).read_text() if (zdir / dest).exists() else None
    if name == "missing_no_template":
        if rc == 0 or after_src != before_src or after_dst is not None:
            res.failures.append(C.Failure(f"move to a page that does not exist and matches no template: rc={rc}, source changed={after_src != before_src}", {**case, "kind": "missing_dest"}))
        return
    if rc != 0:
        res.failures.append(C.Failure(f"note move failed rc={rc}", {**case, "kind": "failed"}))
        return
    res.nontrivial.add((row["zid"], dest, marker, tuple(sorted(files.items()))))
    if name == "missing_with_template":
        before_dst = "# made\n"   # the rendering of the template for this path
    same_page = dest == src
    s_lines = before_src.split("\n")
    a, b = note_block(s_lines, row)
    moved_lines = s_lines[a:b]
    # ---- source: exactly the note's lines removed
    if not same_page:
        want_src = "\n".join(s_lines[:a] + s_lines[b:])
        if after_src != want_src:
            res.failures.append(C.Failure(f"source page: not exactly the lines {a + 1}..{b} of the note were removed", {**case, "kind": "source", "got": after_src[:1500], "want": want_src[:1500]}))
            return
        # ---- destination: every old line kept, the note inserted once
        old = before_dst.split("\n")
        new = after_dst.split("\n")
        k = len(new) - len(old)
        if k <= 0:
            res.failures.append(C.Failure(f"destination page did not grow (old {len(old)} lines, new {len(new)})", {**case, "kind": "dest_lost", "got": after_dst[:1500]}))
            return
        # (when the note ends with a line equal to the destination's last line the split point is ambiguous: take the one
        # whose inserted block starts with the note's first line)
        cands = [i for i in range(len(old) + 1) if new[:i] == old[:i] and new[i + k:] == old[i:]]
        pos = next((i for i in cands if row["zid"] in next((l for l in new[i : i + k] if l != ""), "")), cands[0] if cands else None)
        if pos is None:
            res.failures.append(C.Failure("destination page: an existing line was changed or lost", {**case, "kind": "dest_lost", "got": after_dst[:1500], "old": before_dst[:1500]}))
            return
        inserted = [l for l in new[pos : pos + k]]
        ins_text = [l for l in inserted if l != ""]
        if len(ins_text) != len(moved_lines) or any(z not in ins_text[0] for z in [row["zid"]]) or ins_text[1:] != moved_lines[1:]:
            res.failures.append(C.Failure(f"destination page: the inserted lines are not the moved note: {inserted}", {**case, "kind": "dest_note"}))
            return
    # ---- recompile both pages
    pages_after = {}
    for rel, text in ((src, after_src), (dest, after_dst)):
        comp = ZC.impl_compile(ctx.tmp / "c10", "p.zo", text, TODAY)
        if "exc" in comp or comp["errors"]:
            res.failures.append(C.Failure(f"after the move {rel} is not a valid page any more", {**case, "kind": "invalid_page", "page": rel, "text": text[:1500]}))
            return
        pages_after[rel] = comp["notes"]
    before_zids = sorted([r["zid"] for r in rows if r["path"] in (src, dest)] + re.findall(r"^[-ox~<>] (?:P\d )?(\d{6}#\w\w\w?)", dest_text or "", re.M))
    after_zids = sorted(n["zid"] or "?" for rel in {src, dest} for n in pages_after[rel])
    if before_zids != after_zids:
        res.failures.append(C.Failure(f"the two pages do not hold the same notes as before: {before_zids} -> {after_zids}", {**case, "kind": "conserve"}))
        return
    moved = next(n for n in pages_after[dest] if n["zid"] == row["zid"])
    want_kind = KIND_OF.get(marker, row["kind"])
    if moved["kind"] != want_kind:
        res.failures.append(C.Failure(f"moved note has kind {moved['kind']}, requested {want_kind}", {**case, "kind": "kind"}))
        return
    for k in ("areas", "contexts", "people", "projects"):
        if not set(row[k]) <= set(moved[k]):
            res.failures.append(C.Failure(f"moved note lost inherited {k}: {row[k]} -> {moved[k]}", {**case, "kind": "metadata"}))
            return
    # ... and measured against the note as it is WRITTEN in the source page (compiled here, not read from the index)
    comp_src = ZC.impl_compile(ctx.tmp / "c10", "p.zo", before_src, TODAY)
    truth = next((n for n in comp_src.get("notes", []) if n["zid"] == row["zid"]), None) if not comp_src.get("errors") else None
    if truth is not None:
        for k in ("areas", "contexts", "people", "projects"):
            if not set(truth[k]) <= set(moved[k]):
                res.failures.append(C.Failure(f"moved note lost {k} it had on its page: {sorted(truth[k])} -> {sorted(moved[k])}", {**case, "kind": "metadata_vs_page"}))
                return
    mp = dict(map(tuple, moved["props"]))
    for key, v in row["props"]:
        if mp.get(key) != v:
            res.failures.append(C.Failure(f"moved note lost / changed property {key}::{v} -> {mp.get(key)!r}", {**case, "kind": "metadata"}))
            return
    if not same_page:
        model_reqs.append(({"op": "nt.deleteNote", "lines": s_lines, "zid": row["zid"], "n": b - a}, after_src.split("\n")))
        model_reqs.append(({"op": "nt.addNote", "lines": before_dst.split("\n"), "note": ins_text + [""]}, after_dst.split("\n")))
        kind_char = {"BASIC": "-", "OPEN_TODO": "o", "CLOSED_TODO": "x", "CANCELED_TODO": "~", "BLOCKED_TODO": "<", "PARENT_TODO": ">"}.get(row["kind"])
        if kind_char:
            q = {"op": "move.text", "kind": kind_char, "body": row["body"], "zid": row["zid"], "projects": sorted(row["projects"]), "areas": sorted(row["areas"]),
                 "contexts": sorted(row["contexts"]), "people": sorted(row["people"]), "props": [[k, [v]] for k, v in sorted(map(tuple, row["props"]))]}
            if row["priority"] is not None:
                q["priority"] = row["priority"]
            if marker:
                q["marker"] = marker
            model_reqs.append((q, "\n".join(ins_text) + "\n"))


def one_dir(ctx, res, rng, d):
    """one generated directory: index it, move up to 6 (thorough: all) of its notes to every destination variant"""
    from freezegun import freeze_time

    zdir = ctx.tmp / "z"
    cfg = Z.write_config(ctx.tmp / "cfg.yml", template_pattern_map={r"^tmpl/(?P<name>[a-z]+)\.zo$": "made.zot"})
    model_reqs = []
    zdir.mkdir(parents=True)
    files = add_tag_case_twins(rng, add_case_twins(rng, add_extended_zids(rng, add_mentions(rng, add_tag_lookalikes(rng, G.gen_dir(rng, npages=(2, 4), with_zid=True, sections=True, date_prob=0.1, far_dates=False))))))
    # an indented blank line inside a note is part of its body (paragraph break)
    for rel in list(files):
        ls = files[rel].split("\n")
        for a, b in reversed(H.item_spans(ls)):
            if b - a > 2 and rng.random() < 0.4:
                ls.insert(a + 2, "  ")
        files[rel] = "\n".join(ls)
    # every page holds at least one multi-line note
    for rel in list(files):
        ls = files[rel].split("\n")
        if not any(b - a > 1 for a, b in H.item_spans(ls)):
            sp = H.item_spans(ls)
            if sp:
                ls.insert(sp[0][1], f"  * a bullet of its own k::zz {rel}")
                files[rel] = "\n".join(ls)
    G.write_dir(zdir, files)
    (zdir / "made.zot").write_text("# TEMPLATE made\n\n## {{ name }}\n")
    Z.clear_engine_cache()
    with freeze_time(dt.datetime(*TODAY, 12, 0)):
        rc, _, _ = Z.zorg_main(zdir, "db", "create", config=cfg)
    if rc != 0:
        return model_reqs
    if d % 2 == 0:
        # notes that were edited and stamped on later days (also twice: the old stamp is replaced) before they are moved
        w = H.World(ctx, rng, zdir, cfg, start=TODAY)
        for _rnd in range(3):
            w.advance(1)
            for _ in range(rng.randint(1, 3)):
                w.edit(kinds=["body", "body", "bullet"])
            # ... and the same multi-line notes in every round, so that their stamp is replaced on the second and third day
            for rel, text in w.files().items():
                ls = text.split("\n")
                spans = [(a, b) for a, b in H.item_spans(ls) if b - a > 1][:2]
                for a, _b in spans:
                    ls[a] += f" r{_rnd}"
                if spans:
                    (zdir / rel).write_text("\n".join(ls))
            if w.run("db", "reindex") != 0:
                return model_reqs
        files = dict(w.files())
        res.count("dirs_with_stamped_notes")
    rows = G.dump_index(zdir)
    for r in rows:
        r["priority"] = f"P{r['priority']}" if r["priority"] is not None else None
    twins = [r for r in rows if any(o["zid"] == r["zid"] + "A" for o in rows)]
    twins = [r for r in rows if "\n" in r["body"] and re.match(r"^\d{6} \d{6}#", r["body"])][:2] + twins   # stamped multi-line notes first
    twins += [r for r in rows if any(o["zid"] != r["zid"] and o["zid"].lower() == r["zid"].lower() for o in rows)][:2]
    sample = rows if len(rows) <= 6 or ctx.tier == "thorough" else (twins[:4] + rng.sample(rows, max(0, 6 - len(twins[:4]))))
    for row in sample:
        for variant in dest_variants(rng, files, row["path"]):
            marker = rng.choice([None, "x", "~"])
            check_move(ctx, res, zdir, cfg, files, rows, row, variant, marker, model_reqs)
    if d < 1:
        res.sample({"files": {k: v[:300] for k, v in files.items()}})
    return model_reqs


def body(ctx: C.Ctx, proof: C.ProofStatus) -> C.Result:

    res, rets = C.parallel_jobs(ctx, ctx.scale(12, 90), one_dir)
    model_reqs = [q for r in rets if r for q in r]
    if proof.driver_ok and model_reqs:
        for (q, want), m in zip(model_reqs, C.model_batch([q for q, _ in model_reqs])):
            res.evaluations += 1
            if m.get("ok") != want:
                what = "Move.movedText" if q["op"] == "move.text" else "NoteText." + q["op"][3:]
                res.disagreements.append(C.Failure(f"{what} differs from the implementation: model {str(m)[:300]} file {str(want)[:300]}", q, "correspondence"))
                break
    return res


def classify(f: C.Failure, entry: dict) -> bool:
    return False


RULE = (
    "indexed generated directories (sections, multi-line notes, title-line tags that differ only by case on two pages, ZIDs mentioned in earlier / later notes as words and [zid] links); up to 6 (all in "
    "thorough) notes per directory as the moved one x 7 destinations (existing page, header only, header + blank, no trailing newline, with sections, "
    "missing with / without matching template) x marker in {none, x, ~}; `zorg note move` in-process; byte-level checks of source and destination, "
    "recompilation of both pages (same notes, requested kind, inherited tags and properties kept - measured against the index row AND the note as compiled from its page), NoteText.addNote / deleteNote correspondence, and the "
    "inserted text vs Move.movedText (hidden metadata + done-marker + to_string) computed from the index row"
)
ASSUME = ["the index is up to date with the files (C05 / C06)", "file system atomic"]

if __name__ == "__main__":
    sys.exit(C.run_check(PROP, MODULES, body, rule=RULE, assumptions=ASSUME, classify=classify))
