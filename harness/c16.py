"""C16 — Template initialisation never overwrites existing files."""
from __future__ import annotations

import contextlib
import datetime as dt
import io
import re
import shutil
import sys
from pathlib import Path

import common as C
import zorgapi as Z

PROP = "C16"
MODULES = ["ZorgVerif.Props.C16"]

PATTERNS = [
    (r"^(?P<date>[0-9]{8})\.zo$", ["date"]),
    (r"^log/(?P<date>\d{8})", ["date"]),
    (r"^(?P<name>[a-z]+)_log\.zo$", ["name"]),
    (r".*\.zo$", []),
    (r"^proj/(?P<proj>[a-z]+)/(?P<name>\w+)\.zo", ["proj", "name"]),
    (r"^\d{4}/(?P<date>\d{8})\.zo$", ["date"]),
    (r"^(?P<y>\d{4})/", ["y"]),
    (r"^work/(?P<date>[0-9]+)", ["date"]),
    (r"^home/(?P<date>[0-9]+)", ["date"]),
    (r"zzz_never", []),
    (r"^zettel/(?P<name>\w+)\.zo$", ["name"]),
]
TARGETS = ["20240102.zo", "log/20240131.zo", "habit_log.zo", "proj/zorg/ideas.zo", "2024/20240229.zo", "work/20240102.zo", "home/20240102.zo",
           "misc.zo", "deep/a/b/c.zo", "notes", "readme.txt", "20241399.txt", "work/7.zo", "x_log.zo",
           # values that only START like a date (12-digit zettel id, date-prefixed stem) are plain strings
           "work/202401021230.zo", "zettel/20240131_habit.zo", "zettel/202401011230.zo"]
TMPL_PATHS = ["day.zot", "work/log.zot", "home/log.zot", "tmpl/log.zot", "tmpl/proj.zot", "any.zot", "tmpl/day.zot"]


def gen_template(rng, tag: str) -> str:
    head = [f"# Template {tag}", "# vars: date name proj"][: rng.randint(1, 2)]
    body = []
    for _ in range(rng.randint(1, 6)):
        body.append(
            rng.choice(
                [
                    f"## Header {tag} {{{{ name | default('n/a') }}}}",
                    "##",
                    "### deeper stays",
                    f"- note from {tag} for {{{{ proj | default('none') }}}}",
                    "{% if date is defined and date is not string %}- dated {{ date.strftime('%Y-%m-%d') }}{% else %}- raw {{ date | default('nodate') }}{% endif %}",
                    f"o P1 todo {tag} y={{{{ y | default('') }}}} k={{{{ k | default('') }}}}",
                    "#  not a header",
                    "",
                    "  * bullet {{ name | default('') }}",
                ]
            )
        )
    txt = "\n".join(head) + "\n" + rng.choice(["\n", "   \n", "\t\n"]) + "\n".join(body)
    if rng.random() < 0.8:
        txt += "\n"
    return txt


def py_build(txt: str) -> str:
    out, seen = [], False
    for line in txt.splitlines(keepends=True):
        if not seen:
            if not line.strip():
                seen = True
            continue
        out.append(line[1:] if line.startswith("## ") or line.strip() == "##" else line)
    return "".join(out)


def py_render(built: str, vars_: dict) -> str:
    import jinja2

    pv = {}
    for k, v in vars_.items():
        pv[k] = dt.datetime.strptime(v, "%Y%m%d") if isinstance(v, str) and re.match("^[0-9]{4}[01][0-9][0-3][0-9]$", v) else v
    return jinja2.Environment().from_string(built).render(pv | {"dt": dt})


def gen_case(rng):
    tmpls = {}
    for p in rng.sample(TMPL_PATHS, rng.randint(2, 6)):
        tmpls[p] = gen_template(rng, p.replace("/", "_").replace(".zot", "").upper())
    npat = rng.randint(0, 5)
    pats = []
    for rx, _ in rng.sample(PATTERNS, npat):
        pats.append([rx, rng.choice(list(tmpls))])
    steps = []
    for _ in range(rng.randint(1, 4)):
        t = rng.choice(TARGETS)
        steps.append(
            {
                "target": t,
                "pre": rng.choice([None, None, "# existing\n\n- keep me\n", ""]),
                "overwrite": rng.random() < 0.3,
                "explicit": rng.choice([None, None, None] + list(tmpls)),
                "vars": rng.choice([{}, {}, {"k": "v"}, {"date": "20230505", "k": "w"}, {"name": "given"}, {"name": "202401011230", "k": "20240102x"},
                                    {"name": "R&D's <plan>", "k": "a\"b & c", "proj": "<p>"}]),
                "via": "main" if rng.random() < 0.15 else "api",
                "abs": rng.random() < 0.3,
            }
        )
    return {"templates": tmpls, "pats": pats, "steps": steps}


def expected(case, step, state: dict):
    """independent reading of the statement; returns expected content of the target (None = absent)"""
    t = step["target"] if "." in step["target"] else step["target"] + ".zo"
    cur = state.get(t)
    if cur is not None and not step["overwrite"]:
        return t, cur
    chosen, vars_ = step["explicit"], dict(step["vars"])
    for rx, tp in case["pats"]:
        m = re.compile(rx).match(t)
        if m:
            chosen = tp
            vars_.update(m.groupdict())
            break
    if chosen is None:
        return t, cur
    return t, py_render(py_build(case["templates"][chosen]), vars_)


def _move_into_templated_page(ctx, res, rng, job):
    """`note move` initialises a MISSING destination from its template; an existing destination whose path matches a template
    pattern (with content, or empty) keeps what it holds.  The command runs with a working directory different from the notes dir."""
    zdir = ctx.tmp / "z"
    (zdir / "log").mkdir(parents=True)
    (zdir / "log.zot").write_text("# TEMPLATE log\n\n## {{ name }}\n- templated note\n")
    cfg = Z.write_config(ctx.tmp / "cfg.yml", template_pattern_map={r"^log/(?P<name>[a-z]+)\.zo$": "log.zot"})
    (zdir / "src.zo").write_text("# Src\n\n- 240101#00 first\n- 240101#01 second\no P1 240101#02 third\n")
    existing = rng.choice(["# Existing log\n\n- 240202#00 a note that lives here\n- 240202#01 another one\n", "# Existing\n", ""])
    (zdir / "log" / "today.zo").write_text(existing)
    Z.clear_engine_cache()
    rc, _, _ = Z.zorg_main(zdir, "db", "create", config=cfg)
    if rc != 0 and existing != "":
        res.notes.append("move scenario: db create failed")
        return None
    if existing == "":
        # an empty page is no valid page for the index: it is created after indexing (the editor left it empty)
        (zdir / "log" / "today.zo").unlink()
        Z.clear_engine_cache()
        Z.zorg_main(zdir, "db", "create", config=cfg)
        (zdir / "log" / "today.zo").write_text("")
    moved = []
    for zid in rng.sample(["240101#00", "240101#01", "240101#02"], 2):
        Z.clear_engine_cache()
        rc, _, _ = Z.zorg_main(zdir, "note", "move", zid, rng.choice(["log/today", "log/today.zo"]), config=cfg)
        res.evaluations += 1
        after = (zdir / "log" / "today.zo").read_text()
        moved.append(zid)
        lost = [l for l in existing.split("\n") if l.strip() and l not in after.split("\n")]
        if rc != 0 or lost or "TEMPLATE" in after or "templated note" in after or any(z not in after for z in moved):
            res.failures.append(C.Failure(f"note move {zid} into the existing page log/today.zo (matches a template pattern): rc={rc}, lost lines {lost[:2]}, page now {after[:200]!r}",
                                          {"kind": "move_overwrites", "existing": existing, "after": after[:600]}))
            return None
    # a missing destination IS created from the template
    Z.clear_engine_cache()
    rc, _, _ = Z.zorg_main(zdir, "note", "move", [z for z in ["240101#00", "240101#01", "240101#02"] if z not in moved][0], "log/fresh", config=cfg)
    fresh = (zdir / "log" / "fresh.zo").read_text() if (zdir / "log" / "fresh.zo").exists() else None
    if rc != 0 or fresh is None or "fresh" not in fresh:
        res.failures.append(C.Failure(f"note move into a missing page that matches a template pattern: rc={rc}, page {str(fresh)[:200]!r}", {"kind": "move_missing"}))
    res.count("move_into_templated_page")
    return None


def _failed_then_repaired(ctx, res, rng, job):
    """an initialisation that cannot be rendered (template file not there yet, a variable only another entry path supplies, a
    date-shaped capture that is no date) writes nothing; once the cause is gone the same call writes exactly the rendering"""
    from zorg.service.templates import init_from_template

    zdir = ctx.tmp / "z"
    zdir.mkdir(parents=True)
    variant = job % 3
    tmpl = ["# TEMPLATE log\n\n## {{ name }}\n- templated note\n",
            "# TEMPLATE child\n\n## Child of {{ parent.upper() }}\n- see [[{{ parent }}]]\n",
            "# TEMPLATE day\n\n## {{ date.strftime('%Y-%m-%d') }}\n- a day\n"][variant]
    rx, target, vars1, vars2 = [(r"^log/(?P<name>[a-z]+)\.zo$", "log/today.zo", None, None),
                                (r"^kids/(?P<name>[a-z]+)\.zo$", "kids/tom.zo", None, {"parent": "home"}),
                                (r"^(?P<date>[0-9]{8})\.zo$", "20240230.zo", None, None)][variant]
    # (forked workers share ZorgTemplateManager's class-level scratch directory, which is keyed by the template's file name: every
    # job uses a name of its own)
    tname = f"t{job}.zot"
    pmap = {re.compile(rx): Path("tmpl") / tname}
    (zdir / "tmpl").mkdir()
    if variant != 0:
        (zdir / "tmpl" / tname).write_text(tmpl)

    def attempt(tgt, vm):
        try:
            with contextlib.redirect_stderr(io.StringIO()), contextlib.redirect_stdout(io.StringIO()):
                init_from_template(zdir, pmap, tgt, var_map=vm)
            return None
        except Exception as e:  # noqa
            return f"{type(e).__name__}: {e}"[:200]

    before = Z.snapshot_dir(zdir)
    exc = attempt(target, vars1)
    res.evaluations += 1
    res.count(f"failed_init variant={variant} raised={exc is not None}")
    after = Z.snapshot_dir(zdir)
    case = {"kind": "failed_init", "variant": variant, "template": tmpl, "pattern": rx, "target": target, "raised": exc}
    if after != before:
        res.failures.append(C.Failure(f"an initialisation that could not be rendered ({exc}) changed the notes directory: {sorted(set(after) ^ set(before))} "
                                      f"{target}={after.get(target)!r}", case))
        return None
    # the cause goes away
    if variant == 0:
        (zdir / "tmpl" / tname).write_text(tmpl)
    if variant == 2:
        target = "20240229.zo"
    exc2 = attempt(target, vars2)
    got = (zdir / target).read_text() if (zdir / target).exists() else None
    cap = re.compile(rx).match(target).groupdict()
    want = py_render(py_build(tmpl), {**(vars2 or {}), **cap})
    res.evaluations += 1
    if exc2 or got != want:
        res.failures.append(C.Failure(f"after the cause of the failure was removed, init of {target} gives {got!r} (raised {exc2}), want {want!r}", {**case, "kind": "retry"}))
    res.nontrivial.add(("failed_init", variant))
    return None


def _optional_group(ctx, res, rng, job):
    """the variables are the captures of the matching pattern - all of them: a named group that took no part in the match is a
    capture too (None), and captures override what the caller passed under the same name"""
    from zorg.service.templates import init_from_template

    zdir = ctx.tmp / "z"
    (zdir / "tmpl").mkdir(parents=True)
    tname = f"opt{job}.zot"
    tmpl = "# TEMPLATE opt\n\n## Project {{ name }}\n- started {{ date }}\n"
    (zdir / "tmpl" / tname).write_text(tmpl)
    rx = r"^proj/(?P<name>[a-z]+)(?:_(?P<date>[0-9]{8}))?\.zo$"
    pmap = {re.compile(rx): Path("tmpl") / tname}
    for target, vm in (("proj/beta.zo", None), ("proj/gamma.zo", {"date": "20200101"}), ("proj/delta_20240229.zo", {"date": "20200101"})):
        try:
            with contextlib.redirect_stderr(io.StringIO()), contextlib.redirect_stdout(io.StringIO()):
                init_from_template(zdir, pmap, target, var_map=vm)
            exc = None
        except Exception as e:  # noqa
            exc = f"{type(e).__name__}: {e}"[:200]
        got = (zdir / target).read_text() if (zdir / target).exists() else None
        want = py_render(py_build(tmpl), {**(vm or {}), **re.compile(rx).match(target).groupdict()})
        res.evaluations += 1
        res.count("optional_group_targets")
        if exc or got != want:
            res.failures.append(C.Failure(f"pattern with an optional named group: init of {target} (caller variables {vm}) gives {got!r} (raised {exc}), want {want!r}",
                                          {"kind": "optional_group", "pattern": rx, "target": target, "vars": vm, "template": tmpl}))
            return None
    res.nontrivial.add(("optional_group", job))
    return None


def body(ctx: C.Ctx, proof: C.ProofStatus) -> C.Result:
    from zorg.service.templates import init_from_template

    Z.silence_logs()
    res, _ = C.parallel_jobs(ctx, ctx.scale(9, 60), _move_into_templated_page)
    res2, _ = C.parallel_jobs(ctx, 6, _failed_then_repaired)
    res.merge(res2)
    res3, _ = C.parallel_jobs(ctx, 2, _optional_group)
    res.merge(res3)
    rng = ctx.rng
    n = ctx.scale(600, 15000)
    reqs, metas = [], []
    zdir = ctx.tmp / "z"
    for i in range(n):
        case = gen_case(rng)
        if zdir.exists():
            shutil.rmtree(zdir)
        zdir.mkdir(parents=True)
        for p, txt in case["templates"].items():
            (zdir / p).parent.mkdir(parents=True, exist_ok=True)
            (zdir / p).write_text(txt)
        pmap = {re.compile(rx): Path(tp) for rx, tp in case["pats"]}
        state = {}
        for si, step in enumerate(case["steps"]):
            t = step["target"] if "." in step["target"] else step["target"] + ".zo"
            if step["pre"] is not None and t not in state:
                (zdir / t).parent.mkdir(parents=True, exist_ok=True)
                (zdir / t).write_text(step["pre"])
                state[t] = step["pre"]
            before = Z.snapshot_dir(zdir)
            tname, want = expected(case, step, state)
            existed = tname in state
            res.evaluations += 1
            try:
                if step["via"] == "main" and step["explicit"] is None:
                    cfg = Z.write_config(ctx.tmp / "cfg.yml", template_pattern_map={rx: tp for rx, tp in case["pats"]})
                    args = ["template", "init"] + (["-f"] if step["overwrite"] else []) + [step["target"]] + [f"{k}={v}" for k, v in step["vars"].items()]
                    rc, _, err = Z.zorg_main(zdir, *args, config=cfg)
                    if rc != 0:
                        raise RuntimeError(f"main rc={rc} {err[-200:]}")
                else:
                  with contextlib.redirect_stderr(io.StringIO()):
                    init_from_template(
                        zdir, pmap, (zdir / step["target"]) if step["abs"] else step["target"],
                        template=Path(step["explicit"]) if step["explicit"] else None, var_map=step["vars"] or None,
                        should_overwrite_existing=step["overwrite"],
                    )
                exc = None
            except Exception as e:  # noqa
                exc = f"{type(e).__name__}: {e}"
            after = Z.snapshot_dir(zdir)
            got = after.get(tname)
            res.count(("exists" if existed else "missing") + ("+force" if step["overwrite"] else "") + (" written" if got != before.get(tname) else " untouched"))
            if exc:
                res.failures.append(C.Failure(f"init raised {exc}", {"case": case, "step": si}))
                break
            others_changed = [k for k in set(after) | set(before) if k != tname and after.get(k) != before.get(k)]
            if got != want or others_changed:
                res.failures.append(C.Failure(f"step {si}: target {tname!r} is {got!r}, want {want!r}; other files changed: {others_changed}", {"case": case, "step": si}))
                break
            if got is not None:
                state[tname] = got
            if got != before.get(tname):
                res.nontrivial.add((tname, got))
            # model request
            pr = []
            for rx, tp in case["pats"]:
                m = re.compile(rx).match(tname)
                pr.append({"tmpl": tp, "groups": [[k, v] for k, v in m.groupdict().items()] if m else None})
            req = {"op": "template.init", "exists": existed, "overwrite": step["overwrite"], "pats": pr, "vars": [[k, v] for k, v in step["vars"].items()]}
            if step["explicit"]:
                req["explicit"] = step["explicit"]
            reqs.append(req)
            metas.append((case, si, before.get(tname), got))
            if i < 2 and si == 0:
                res.sample({"target": tname, "pats": case["pats"], "explicit": step["explicit"], "overwrite": step["overwrite"], "existed": existed, "result": got})
        # idempotence on the implementation: repeat the last step
    if proof.driver_ok and reqs:
        ms = C.model_batch(reqs)
        builds = {}
        breqs = []
        for (case, si, prev, got), m in zip(metas, ms):
            if m.get("action") == "write":
                key = case["templates"][m["tmpl"]]
                if key not in builds:
                    builds[key] = None
                    breqs.append({"op": "template.build", "txt": key})
        bs = C.model_batch(breqs) if breqs else []
        for r, b in zip(breqs, bs):
            builds[r["txt"]] = b["built"]
        import jinja2

        for (case, si, prev, got), m in zip(metas, ms):
            if m.get("action") == "noop":
                mgot = prev
            else:
                built = builds[case["templates"][m["tmpl"]]]
                pv = {k: (dt.datetime.strptime(v, "%Y%m%d") if isdate else v) for k, v, isdate in m["vars"]}
                mgot = jinja2.Environment().from_string(built).render(pv | {"dt": dt})
            if mgot != got:
                res.disagreements.append(C.Failure(f"model says {m.get('action')} -> {mgot!r}, implementation has {got!r}", {"case": case, "step": si}, "correspondence"))
                break
    return res


RULE = (
    "random pattern maps (0-5 overlapping regexes with named groups / date-like captures), templates incl. equal basenames in "
    "different directories, 1-4 init steps per directory in one process (existing/missing targets, sub-directories, -f, explicit "
    "template, variables; via init_from_template and `zorg template init`); target bytes + all other files before/after vs. an "
    "independent reading and vs. the Lean decision model + template pre-processing; failed renderings (template file missing, undefined variable, date-shaped non-date) write nothing and the retry writes the rendering; a pattern with an optional named group (capture None, captures over caller variables); non-trivial = a step that wrote a file"
)
ASSUME = ["re.match and jinja2 rendering are parameters (computed by Python on both sides)", "file system atomic"]

if __name__ == "__main__":
    sys.exit(C.run_check(PROP, MODULES, body, rule=RULE, assumptions=ASSUME))
