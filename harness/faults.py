"""Effect tracing and crash injection for `db create` / `db reindex` (C13).

External effects are intercepted from outside the code base (no source hooks):
  write   Path.write_text / Path.open("w"...)+json.dump   (nested primitive calls are folded into one effect)
  unlink  Path.unlink
  rename  Path.replace / Path.rename (the second half of an atomic write: temporary file -> target)
  commit  sqlalchemy Session.commit (only when the session has something to flush or an open transaction with changes)
A kill is a BaseException raised *before* effect number k (nothing after it happens; SQLSession.__exit__ rolls back
exactly as an un-committed SQLite transaction is lost on a real kill).  The torn variant lets a file write persist
only a prefix of its payload and kills right after.
"""
from __future__ import annotations

import json
import pathlib
import re
import shutil
from pathlib import Path

import zorgapi as Z


class Kill(BaseException):
    pass


class Effects:
    def __init__(self, zdir: Path, kill_at: int | None = None, torn: float | None = None):
        self.zdir = Path(zdir)
        self.kill_at = kill_at
        self.torn = torn
        self.trace: list[tuple[str, str]] = []
        self.payload: list = []  # per effect: what it did (hash map written, sha of the page written, pages committed)
        self.depth = 0
        self.killed = False
        self._torn_pending = False

    def rel(self, p) -> str:
        try:
            return str(Path(p).resolve().relative_to(self.zdir.resolve()))
        except ValueError:
            return str(p)

    def _effect(self, kind: str, target: str) -> bool:
        """records the effect; returns True when the process is to be killed at this point"""
        idx = len(self.trace)
        if self.killed:
            # the kill has been delivered: what cleanup handlers (`finally`, `except BaseException`) still do takes effect
            self.trace.append((kind + ":cleanup", target))
            self.payload.append(None)
            return False
        if self.kill_at is not None and idx == self.kill_at:
            self.killed = True
            return True
        self.trace.append((kind, target))
        self.payload.append(None)
        return False

    def __enter__(self):
        import sqlalchemy.orm

        eff = self
        P = pathlib.Path
        self._orig = (P.write_text, P.open, P.unlink, sqlalchemy.orm.Session.commit, json.dump, P.replace, P.rename)
        o_write_text, o_open, o_unlink, o_commit, o_dump, o_replace, o_rename = self._orig

        def in_scope(p):
            try:
                Path(p).resolve().relative_to(eff.zdir.resolve())
                return True
            except ValueError:
                return False

        def write_text(self, data, *a, **kw):
            if eff.depth or not in_scope(self):
                return o_write_text(self, data, *a, **kw)
            if eff._effect("write", eff.rel(self)):
                if eff.torn is not None:
                    eff.depth += 1
                    try:
                        o_write_text(self, data[: int(len(data) * eff.torn)], *a, **kw)
                    finally:
                        eff.depth -= 1
                raise Kill()
            eff.depth += 1
            try:
                return o_write_text(self, data, *a, **kw)
            finally:
                eff.depth -= 1

        def open_(self, mode="r", *a, **kw):
            if eff.depth or not any(c in mode for c in "wax+") or not in_scope(self):
                return o_open(self, mode, *a, **kw)
            if eff._effect("write", eff.rel(self)):
                if eff.torn is None:
                    raise Kill()
                eff._torn_pending = True  # the open truncates; json.dump persists a prefix and dies
            return o_open(self, mode, *a, **kw)

        def dump(obj, fp, *a, **kw):
            if eff._torn_pending:
                s = json.dumps(obj, *a, **kw)
                fp.write(s[: int(len(s) * eff.torn)])
                fp.flush()
                raise Kill()
            return o_dump(obj, fp, *a, **kw)

        def unlink(self, *a, **kw):
            if eff.depth or not in_scope(self):
                return o_unlink(self, *a, **kw)
            if eff._effect("unlink", eff.rel(self)):
                raise Kill()
            return o_unlink(self, *a, **kw)

        def replace(self, target, *a, **kw):
            if eff.depth or not in_scope(target):
                return o_replace(self, target, *a, **kw)
            if eff._effect("rename", eff.rel(target)):
                raise Kill()
            eff.depth += 1
            try:
                r = o_replace(self, target, *a, **kw)
            finally:
                eff.depth -= 1
            try:
                data = Path(target).read_bytes()
                import hashlib

                eff.payload[-1] = json.loads(data) if str(target).endswith("file_hash.json") else hashlib.sha256(data).hexdigest()
            except Exception:  # noqa: BLE001
                pass
            return r

        def rename(self, target, *a, **kw):
            if eff.depth or not in_scope(target):
                return o_rename(self, target, *a, **kw)
            if eff._effect("rename", eff.rel(target)):
                raise Kill()
            eff.depth += 1
            try:
                return o_rename(self, target, *a, **kw)
            finally:
                eff.depth -= 1

        import os as _os

        self._orig_os = (_os.replace, _os.rename)
        oo_replace, oo_rename = self._orig_os

        def os_move(orig):
            def f(src, dst, *a, **kw):
                if eff.depth or not in_scope(dst):
                    return orig(src, dst, *a, **kw)
                if eff._effect("rename", eff.rel(dst)):
                    raise Kill()
                r = orig(src, dst, *a, **kw)
                try:
                    import hashlib

                    data = Path(dst).read_bytes()
                    eff.payload[-1] = json.loads(data) if str(dst).endswith("file_hash.json") else hashlib.sha256(data).hexdigest()
                except Exception:  # noqa: BLE001
                    pass
                return r
            return f

        _os.replace, _os.rename = os_move(oo_replace), os_move(oo_rename)

        def commit(self, *a, **kw):
            changed = bool(self.new or self.dirty or self.deleted) or getattr(self, "_zv_flushed", False)
            if not changed:
                return o_commit(self, *a, **kw)
            if eff._effect("commit", ""):
                raise Kill()
            self._zv_flushed = False
            r = o_commit(self, *a, **kw)  # flushes: the listener below sees the pages of this transaction
            eff.payload[-1] = getattr(self, "_zv_pages", [])
            self._zv_pages = []
            self._zv_flushed = False
            return r

        # autoflush moves pending objects out of new/dirty/deleted before commit() is called: remember it
        from sqlalchemy import event

        def after_flush(session, ctx):
            session._zv_flushed = True
            pages = getattr(session, "_zv_pages", [])
            for what, objs in (("new", session.new), ("deleted", session.deleted)):
                for o in objs:
                    if type(o).__name__ == "Page":
                        pages.append([what, o.path])
            session._zv_pages = pages

        self._after_flush = after_flush
        event.listen(sqlalchemy.orm.Session, "after_flush", after_flush)
        P.write_text, P.open, P.unlink, sqlalchemy.orm.Session.commit, json.dump, P.replace, P.rename = write_text, open_, unlink, commit, dump, replace, rename
        return self

    def __exit__(self, *exc):
        import sqlalchemy.orm
        from sqlalchemy import event

        P = pathlib.Path
        P.write_text, P.open, P.unlink, sqlalchemy.orm.Session.commit, json.dump, P.replace, P.rename = self._orig
        event.remove(sqlalchemy.orm.Session, "after_flush", self._after_flush)
        import os as _os

        _os.replace, _os.rename = self._orig_os
        return False


def run_cmd(zdir: Path, cfg: Path, now, *args, kill_at=None, torn=None, want_payload=False):
    """returns (rc or 'killed' or 'exc:<type>', trace) [+ payload list]"""
    from freezegun import freeze_time

    Z.clear_engine_cache()
    eff = Effects(zdir, kill_at, torn)
    try:
        with freeze_time(now), eff:
            rc, out, err = Z.zorg_main(zdir, *args, config=cfg)
    except Kill:
        rc = "killed"
    except BaseException as e:  # noqa: BLE001
        rc = f"exc:{type(e).__name__}:{str(e)[:120]}"
    finally:
        Z.clear_engine_cache()
        import gc

        gc.collect()
    if want_payload:
        return rc, eff.trace, eff.payload
    return rc, eff.trace


def sha(text: str) -> str:
    import hashlib

    return hashlib.sha256(text.encode()).hexdigest()


def store_of(zdir: Path):
    """the abstract store of a notes directory: files / hash map / indexed page paths (texts as 'path:sha')"""
    import sqlite3

    files = {}
    for p in sorted(zdir.rglob("*.zo"), key=lambda p: p.name):
        if ".zorg" in p.parts:
            continue
        rel = str(p.relative_to(zdir))
        files[rel] = f"{rel}:{sha(p.read_text())}"
    hp = zdir / ".zorg" / "file_hash.json"
    hashes = {k: f"{k}:{v}" for k, v in json.loads(hp.read_text()).items()} if hp.exists() else {}
    db = []
    dbp = zdir / ".zorg" / "zorg.db"
    if dbp.exists():
        con = sqlite3.connect(dbp)
        try:
            db = [r[0] for r in con.execute("select path from page order by id")]
        except sqlite3.Error:
            db = []
        con.close()
    return files, hashes, db


def abstract_trace(trace, payload):
    """the real effect trace in the alphabet of Model/Crash.lean (temporary files, next_ids.json, the whitelist and
    the damage commits inside remove_file_by_name are outside the model's store)"""
    out = []
    for (kind, target), pl in zip(trace, payload):
        if kind == "commit":
            new = sorted(p for w, p in (pl or []) if w == "new")
            deleted = sorted(p for w, p in (pl or []) if w == "deleted")
            if len(new) > 1:
                out.append(["dbPutAll", new])
            elif new:
                out.append(["dbPut", new[0]])
            elif deleted:
                out += [["dbDrop", p] for p in deleted]
        elif kind == "rename" and target.endswith("file_hash.json"):
            out.append(["hash", sorted([k, f"{k}:{v}"] for k, v in (pl or {}).items())])
        elif kind == "rename" and target.endswith(".zo"):
            out.append(["file", target, f"{target}:{pl}"])
    return out


def model_request(op: str, start, final_files: dict, real_abs):
    """request for the Lean model's effect list of the run from the abstract start store; the processing result of
    each file is taken from the real run's outcome (final text), the intermediate text of a twice-rewritten page too"""
    files, hashes, db = start
    proc = [[t, [final_files.get(p, t), final_files.get(p, t)]] for p, t in files.items() if final_files.get(p, t) != t]
    writes = {}
    for e in real_abs:
        if e[0] == "file":
            writes.setdefault(e[1], []).append(e[2])
    mid = [[p, [ws[0]]] for p, ws in writes.items() if len(ws) == 2]
    return {"op": op, "files": [[p, [t]] for p, t in files.items()], "hashes": [[p, [t]] for p, t in hashes.items()],
            "db": [[p, ["old:" + p]] for p in db], "proc": proc, "mid": mid}


def model_abstract(m: dict):
    """the model's answer in the comparison alphabet"""
    out = []
    for e in m.get("effects", []):
        if e[0] in ("dbDamage", "dbReset"):
            continue
        if e[0] == "dbPut":
            out.append(["dbPut", e[1]])
        elif e[0] == "dbPutAll":
            ps = sorted(x[0] for x in e[1])
            out.append(["dbPutAll", ps] if len(ps) > 1 else ["dbPut", ps[0]] if ps else ["dbPutAll", []])
        elif e[0] == "hash":
            out.append(["hash", sorted(e[1])])
        else:
            out.append(e)
    return out


ZID_RE = r"\d{6}#[0-9A-Za-z]{2,3}"
FIRST_RE = re.compile(rf"^([-ox~<>] (?:P\d )?)(?:(\d{{6}}) )?(?:({ZID_RE})(?: |$))?")


def user_text(text: str) -> str:
    """the page with stamp and ZID words at identity position erased"""
    out = []
    for line in text.split("\n"):
        m = FIRST_RE.match(line)
        if m and m.group(3):
            line = m.group(1) + line[m.end():]
        out.append(line.rstrip(" "))
    return "\n".join(out).rstrip("\n")


def stamped_text(text: str) -> str:
    """the page with the VALUES of identity ZIDs erased (counters may be burnt by a killed run) but modify-date stamps kept"""
    out = []
    for line in text.split("\n"):
        m = FIRST_RE.match(line)
        if m and m.group(3):
            line = m.group(1) + (m.group(2) + " " if m.group(2) else "") + "<ZID> " + line[m.end():]
        out.append(line.rstrip(" "))
    return "\n".join(out).rstrip("\n")


def identity_zids(text: str):
    out = []
    for line in text.split("\n"):
        m = FIRST_RE.match(line)
        if m and m.group(3):
            out.append(m.group(3))
    return out


def copy_dir(src: Path, dst: Path):
    if dst.exists():
        shutil.rmtree(dst)
    shutil.copytree(src, dst)
