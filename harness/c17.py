"""C17 — `action open` offers and opens exactly the link targets on the line."""
from __future__ import annotations

import datetime as dt
import re
import shutil
import sys
from pathlib import Path

import common as C
import pagegen as G
import zorgapi as Z

PROP = "C17"
MODULES = ["ZorgVerif.Props.C17"]
TODAY = (2024, 6, 15)
STRIP = "(),.?!;:"


def gen_line(rng, ctx):
    """a page line with 0-5 targets of all kinds, any prefix shape; returns (line, expected targets per the statement)"""
    kind = rng.choice(["-", "o", "x", "~", "<", ">"])
    parts = [kind]
    if kind != "-" and rng.random() < 0.4:
        parts.append(f"P{rng.randint(0, 9)}")
    primary = None
    if rng.random() < 0.35:
        parts.append("24%02d%02d" % (rng.randint(1, 12), rng.randint(1, 28)))
    if rng.random() < 0.8:
        primary = rng.choice(ctx["own_zids"]) if ctx["own_zids"] else "240101#00"
        parts.append(primary)
    expected = []
    n = rng.choice([0, 1, 1, 2, 2, 3, 5])
    words = []
    for _ in range(rng.randint(1, 6)):
        words.append(("plain", rng.choice(["alpha", "see", "the", "Foo", "x9", "k::v", "#tag", "@ctx", "2024"])))
    for _ in range(n):
        r = rng.random()
        if r < 0.3:
            p = rng.choice(ctx["pages"])
            t = f"[[{p}]]" if rng.random() < 0.6 else f"[[{p}#{rng.choice(['top', 'sec1', 'ab', 'x1z'])}]]"
        elif r < 0.42:
            t = f"[^{rng.choice(['lid1', 'x', 'LID2'])}]"
        elif r < 0.57:
            t = f"[#{rng.choice(ctx['gids'])}]"
        elif r < 0.7:
            t = f"[@{rng.choice(ctx['rids'])}]"
        elif r < 0.85:
            t = rng.choice(ctx["zids"]) if ctx["zids"] else "240101#zz"
        else:
            t = "[" + (rng.choice(ctx["zids"]) if ctx["zids"] else "240101#zz") + "]"
        words.insert(rng.randint(0, len(words)), ("target", t))
    out = []
    for pos, (typ, w) in enumerate(words):
        if pos == 0 and primary is None and typ == "target" and re.fullmatch(r"\d{6}#\w{2,3}", w):
            # a bare ZID in identity position IS the primary ZID of the line
            primary = w
            out.append(w)
            continue
        deco = w
        if rng.random() < 0.25:
            deco = rng.choice(["(", ""]) + w + rng.choice([")", ",", ".", "?", "!", ";", ":", ")."])
        out.append(deco)
        if typ == "target":
            expected.append(w.strip("[]") if re.fullmatch(r"\[?\d{6}#\w{2,3}\]?", w) else w)
    return " ".join(parts + out), expected, primary


def one_dir(ctx, res, rng, d):
    from freezegun import freeze_time

    zdir = ctx.tmp / "z"
    cfg = Z.write_config(ctx.tmp / "cfg.yml")
    reqs, metas = [], []
    for _once in (0,):
        zdir.mkdir(parents=True)
        files = G.gen_dir(rng, npages=(2, 4), with_zid=True, sections=False)
        # notes sharing ID / RID values: g1 twice on ONE page, g2 on two pages, G3 once; r1 once, r2 twice
        files["ids.zo"] = ("# Ids\n\n- 200101#i0 first ID::g1\n- 200101#i1 second ID::g1\n- 200101#i2 third ID::g2\n"
                           "- 200101#i3 only ID::G3\n- 200101#i4 ref RID::r1\n- 200101#i5 ref RID::r2\n")
        files["ids2.zo"] = "# Ids 2\n\n- 200102#i0 other ID::g2\n- 200102#i1 ref RID::r2\n- 200103#00A a note with a three-character ZID\n- 200103#zzz another one\n"
        G.write_dir(zdir, files)
        Z.clear_engine_cache()
        with freeze_time(dt.datetime(*TODAY, 12, 0)):
            rc, _, _ = Z.zorg_main(zdir, "db", "create", config=cfg)
        if rc != 0:
            continue
        rows = G.dump_index(zdir)
        zid_page = {r["zid"]: r["path"] for r in rows}
        ids, rids = {}, {}
        for r in rows:
            for k, v in r["props"]:
                if k == "ID":
                    ids.setdefault(v, []).append(r["path"])
                if k == "RID":
                    rids.setdefault(v, []).append(r["path"])
        lctx = {"pages": [p[:-3] for p in files] + ["nosuch", "sub/new", "notes.v2", "media/talk.m4a", "zorg-v1.2", "240510", "240510"], "zids": sorted(zid_page), "own_zids": sorted(zid_page)[:5],
                "gids": ["g1", "g2", "G3", "g3", "G1", "nogid"], "rids": ["r1", "r2", "R1", "norid"]}
        # the page holding the line lives at the root of the notes directory or in a sub-directory that also holds a page
        # named like a link target missing at the root (`[[nosuch]]` must still mean <notes dir>/nosuch.zo)
        (zdir / "sub").mkdir(exist_ok=True)
        (zdir / "sub" / "nosuch.zo").write_text("# A neighbour page\n")
        for is_zoq, loc in ((False, ""), (True, ""), (False, "sub/"), (True, "sub/")):
            ext = ".zoq" if is_zoq else ".zo"
            lines, exps = ["# Scratch page" if not is_zoq else "# scratch (not a query)", ""], [None, None]
            if (is_zoq, loc) in ((True, ""), (False, "sub/")):
                # characters that str.splitlines() takes for line breaks, above every requested line: the line number the editor
                # passes counts "\n" only
                lines[0] += " \x0c page break \u2028 pasted \x85 text\x1c"
            # pinned lines on every page: a link to a page that is missing at the root (but has a neighbour in sub/), alone and with
            # company, and a target whose extension holds a digit
            for line, exp, prim in (("- see [[nosuch]] there", ["[[nosuch]]"], None),
                                    ("o P1 both [[nosuch#top]], and [[notes.v2]].", ["[[nosuch#top]]", "[[notes.v2]]"], None),
                                    ("- 200101#i0 see [200103#00A] and 200103#zzz too", ["200103#00A", "200103#zzz"], "200101#i0"),
                                    ("- journal [[240510#ab]] of that day", ["[[240510#ab]]"], None),
                                    ("- both [[240510#x1z]] and [[240510]]", ["[[240510#x1z]]", "[[240510]]"], None)):
                lines.append(line)
                exps.append((exp, prim))
            for _ in range(ctx.scale(40, 60) if loc == "" else 12):
                line, exp, primary = gen_line(rng, lctx)
                lines.append(line)
                exps.append((exp, primary))
            page = f"{loc}scratch{ext}"
            (zdir / page).write_text("\n".join(lines) + "\n")

            def run(line_no, option=None, path=page):
                args = ["action", "open", path, str(line_no)] + ([str(option)] if option is not None else [])
                Z.clear_engine_cache()
                with freeze_time(dt.datetime(*TODAY, 12, 0)):
                    rc, out, err = Z.zorg_main(zdir, *args, config=cfg)
                return rc, [l for l in out.split("\n") if l]

            for ln in range(3, len(lines) + 1):
                line = lines[ln - 1]
                exp, primary = exps[ln - 1]
                rc, out = run(ln)
                res.evaluations += 1
                res.count(f"targets={min(len(exp), 4)}{'+' if len(exp) > 4 else ''}")
                case = {"line": line, "zoq": is_zoq, "expected_targets": exp, "files": {k: v[:200] for k, v in files.items()}}
                if exp:
                    res.nontrivial.add(line)
                bad = [l for l in out if not l.startswith(("EDIT ", "SEARCH ", "PROMPT ", "ECHO "))]
                if bad:
                    res.failures.append(C.Failure(f"non-protocol output {bad[:2]} for line {line!r}", {**case, "kind": "protocol"}))
                    continue
                # in a .zoq page every ZID is a target, including the one in identity position
                want = list(exp)
                if is_zoq and primary:
                    want = [primary] + want
                if len(want) >= 2:
                    if out != ["PROMPT " + " ".join(want)]:
                        res.failures.append(C.Failure(f"line {line!r}: expected PROMPT {want}, got {out}", {**case, "kind": "targets", "want": want, "got": out}))
                        continue
                    # option k == a line holding only the k-th target
                    ks = list(range(1, len(want) + 1)) + [-1]
                    k = rng.choice(ks)
                    rck, outk = run(ln, k)
                    tk = want[k - 1] if k > 0 else want[-1]
                    solo = "- solo " + (tk if not re.fullmatch(r"\d{6}#\w{2,3}", tk) else tk)
                    (zdir / f"{loc}solo{ext}").write_text("# solo\n\n" + solo + "\n")
                    rcs, outs = run(3, None, f"{loc}solo{ext}")
                    res.evaluations += 1
                    if (rck, outk) != (rcs, outs):
                        res.failures.append(C.Failure(f"option {k} of {line!r} gives {outk} (rc {rck}) but a line with only {tk!r} gives {outs} (rc {rcs})", {**case, "kind": "option", "k": k}))
                        continue
                    for bad_k in (0, len(want) + 1):
                        rcb, outb = run(ln, bad_k)
                        if rcb == 0 or outb:
                            res.failures.append(C.Failure(f"option {bad_k} (out of range) of {line!r} gives {outb} rc {rcb}", {**case, "kind": "option_range"}))
                elif len(want) == 1:
                    t = want[0]
                    ok = True
                    if t.startswith("[["):
                        p = t[2:-2].split("#")[0]
                        exp_out = [f"EDIT {zdir}/{p if '.' in p else p + '.zo'}"] + ([f"SEARCH LID::{t[2:-2].split('#')[1]}"] if "#" in t else [])
                        ok = out == exp_out and rc == 0
                    elif re.fullmatch(r"\d{6}#\w{2,3}", t):
                        exp_out = [f"EDIT {zdir}/{zid_page[t]}", f"SEARCH \\s\\zs{t}"] if t in zid_page else []
                        ok = out == exp_out
                    elif t.startswith("[#"):
                        pages = sorted(set(ids.get(t[2:-1], [])))
                        ok = (out[0] == f"EDIT {zdir}/{pages[0]}") if len(pages) == 1 else (out and out[0].startswith("ECHO "))
                    elif t.startswith("[@"):
                        ns = rids.get(t[2:-1], [])
                        ok = (out[0] == f"EDIT {zdir}/{ns[0]}") if len(ns) == 1 else (out and out[0].startswith("ECHO "))
                    elif t.startswith("[^"):
                        ok = out and out[0].startswith(f"SEARCH LID::{t[2:-1]}")
                    if not ok:
                        res.failures.append(C.Failure(f"line {line!r}: single target {t!r} opened as {out} (rc {rc})", {**case, "kind": "resolve", "target": t}))
                        continue
                else:
                    if not (len(out) == 1 and out[0].startswith("ECHO ")):
                        res.failures.append(C.Failure(f"line {line!r} has no target but the answer is {out}", {**case, "kind": "targets", "want": [], "got": out}))
                        continue
                reqs.append({"op": "action.open", "zdir": str(zdir), "isZoq": is_zoq, "line": line, "lineNo": ln, "option": None,
                             "zids": [[z, [p]] for z, p in zid_page.items()], "ids": [[k, v] for k, v in ids.items()], "rids": [[k, v] for k, v in rids.items()]})
                metas.append((case, rc, out))
                if len(res.samples) < 3 and len(want) >= 2:
                    res.sample({"line": line, "answer": out})
    return list(zip(reqs, metas))


def body(ctx: C.Ctx, proof: C.ProofStatus) -> C.Result:
    res, rets = C.parallel_jobs(ctx, ctx.scale(16, 240), one_dir)
    pairs = [x for r in rets if r for x in r]
    reqs = [q for q, _ in pairs]
    metas = [m for _, m in pairs]
    if proof.driver_ok and reqs:
        for (case, rc, out), m in zip(metas, C.model_batch(reqs)):
            res.evaluations += 1
            if m.get("lines") != out or m.get("rc") != rc:
                res.disagreements.append(C.Failure(f"Action model {m.get('lines')} rc {m.get('rc')} vs implementation {out} rc {rc} on {case['line']!r}", case, "correspondence"))
    return res


def classify(f: C.Failure, entry: dict) -> bool:
    return False


RULE = (
    "scratch pages (.zo and .zoq, at the root and in a sub-directory holding a same-named neighbour of a missing link target; two of the four with form feed / U+2028 / NEL / FS in the header line; links to a page named like a date with 2-3 character anchors) on indexed directories with 40 / 12 generated lines each: any kind prefix, priority, modify date, primary ZID, 0-5 targets "
    "of every kind (page links with / without anchor, local, global, reference links, bare and bracketed ZIDs) between plain words, with surrounding "
    "punctuation; `zorg action open PATH LINE [IDX]` in-process: protocol lines only, PROMPT lists exactly the targets in order, option k / -1 equals the "
    "answer for a line holding only that target, out-of-range options, resolution of single targets against the raw index; all also vs the Lean Action model"
)
ASSUME = ["[!name] URL links and z:: cite keys spawn external programs: not generated", "index up to date (C05/C06)"]

if __name__ == "__main__":
    sys.exit(C.run_check(PROP, MODULES, body, rule=RULE, assumptions=ASSUME, classify=classify))
