"""C06 — Incremental reindexing is equivalent to rebuilding the index."""
from __future__ import annotations

import shutil
import sys
from pathlib import Path

import common as C
import history as H
import pagegen as G
import zorgapi as Z

PROP = "C06"
MODULES = ["ZorgVerif.Props.C06"]
QUERIES = ["W o | x | ~ | < | > | -", "W #work", "W o P0-3", "W due:*", "W 'edited'", "W [[a]]", "W f=new*", "W !#work -", "S file W o | -", "W ^240601:240701"]


class TrackedWorld(H.World):
    """records the history in the alphabet of Model/Index.lean (write / remove / reindex / reindexOnly) together with the
    outcome of processing each changed text (its text after write-back), so that the model can replay it"""

    def start_tracking(self):
        import faults as F

        self.F = F
        files, hashes, db = F.store_of(self.zdir)
        self.m_files = dict(files)
        self.start = {"files": files, "hashes": hashes, "db": {p: files.get(p, "?") for p in db}}
        self.ops, self.proc, self.model_ok = [], {}, True

    def _cur(self):
        return self.F.store_of(self.zdir)[0]

    def run(self, *args):
        tracked = hasattr(self, "ops") and args[:2] == ("db", "reindex")
        if tracked:
            cur = self._cur()
            for p in sorted(set(self.m_files) - set(cur)):
                self.ops.append(["remove", p])
            for p, t in cur.items():
                if self.m_files.get(p) != t:
                    self.ops.append(["write", p, t])
            paths = [str(Path(a).resolve().relative_to(self.zdir.resolve())) if Path(a).is_absolute() else a for a in args[2:]]
            self.ops.append(["reindexOnly", paths] if paths else ["reindex"])
        rc = super().run(*args)
        if tracked:
            post = self._cur()
            if rc != 0:
                self.model_ok = False
            for p, t in cur.items():
                if p in post and post[p] != t:
                    if self.proc.get(t, post[p]) != post[p]:
                        self.model_ok = False  # the same text processed twice with different outcomes (another day): not a function of the text
                    self.proc[t] = post[p]
            self.m_files = dict(post)
        return rc

    def model_request(self):
        files, hashes, db = self.F.store_of(self.zdir)
        req = {"op": "index.run", "files": [[p, [t]] for p, t in self.start["files"].items()], "hashes": [[p, [t]] for p, t in self.start["hashes"].items()],
               "db": [[p, [t]] for p, t in self.start["db"].items()], "proc": [[k, [v]] for k, v in self.proc.items()], "ops": self.ops}
        return req, {"files": files, "hashes": hashes, "db": sorted(db)}


def run_history(ctx, res, rng, hid, allow=("delete_page", "rename_page", "paths")):
    zdir = ctx.tmp / "z"
    if zdir.exists():
        shutil.rmtree(zdir)
    zdir.mkdir(parents=True)
    cfg = Z.write_config(ctx.tmp / "cfg.yml")
    G.write_dir(zdir, G.gen_dir(rng, npages=(2, 4), with_zid=0.8, date_prob=0.1, far_dates=False))
    w = TrackedWorld(ctx, rng, zdir, cfg)
    if w.run("db", "create") != 0:
        res.notes.append("initial db create failed")
        return
    w.start_tracking()
    nops = rng.randint(8, 22)
    for _ in range(nops):
        r = rng.random()
        if r < 0.55:
            w.edit()
        elif r < 0.62:
            w.move_item()
        elif r < 0.68:
            w.add_page()
        elif r < 0.73 and "delete_page" in allow:
            w.delete_page()
        elif r < 0.77 and "rename_page" in allow:
            w.rename_page()
        elif r < 0.80 and "delete_page" in allow:
            w.restore_page()
        elif r < 0.83 and "rename_page" in allow:
            w.replace_page()
        elif r < 0.85:
            w.advance()
        else:
            files = sorted(w.files())
            if files and rng.random() < 0.35 and "paths" in allow:
                sel = rng.sample(files, rng.randint(1, min(2, len(files))))
                paths = [str(zdir / p) for p in sel]
                rc = w.run("db", "reindex", *paths)
            else:
                rc = w.run("db", "reindex")
            if rc != 0:
                res.failures.append(C.Failure(f"db reindex failed (rc={rc}) on a directory of valid pages", {"log": w.log, "kind": "reindex_failed"}))
                return
    if "rename_page" in allow and rng.random() < 0.35:
        # the last change before the final reindex keeps an old modification time (file replaced by another one / older copy restored)
        w.replace_page()
    w.advance()
    if w.run("db", "reindex") != 0:
        res.failures.append(C.Failure("final db reindex failed", {"log": w.log, "kind": "reindex_failed"}))
        return
    inc = H.canon_dump(zdir)
    mreq = w.model_request() if w.model_ok else None
    files_final = w.files()
    # C06_plain_reindex, second conjunct: after a plain reindex the hash map records exactly the current files
    import hashlib
    import json

    try:
        hm = json.loads((zdir / ".zorg" / "file_hash.json").read_text())
    except Exception as e:  # noqa: BLE001
        hm = {"<unreadable>": str(e)}
    want = {k: hashlib.sha256(v.encode()).hexdigest() for k, v in files_final.items()}
    if hm != want:
        k = next(k for k in sorted(set(hm) | set(want)) if hm.get(k) != want.get(k))
        res.failures.append(C.Failure(f"after the final plain reindex the hash map does not describe the files: entry {k!r} is {str(hm.get(k))[:12]}, file hash {str(want.get(k))[:12]}",
                                      {"log": w.log, "kind": "hash_map", "page": k}))
        return mreq
    # fresh index of a copy of the final files
    fresh = ctx.tmp / "fresh"
    if fresh.exists():
        shutil.rmtree(fresh)
    fresh.mkdir()
    G.write_dir(fresh, files_final)
    w2 = H.World(ctx, rng, fresh, cfg, start=(w.day.year, w.day.month, w.day.day))
    if w2.run("db", "create") != 0:
        res.failures.append(C.Failure("db create on a copy of the final files failed", {"log": w.log, "kind": "create_failed"}))
        return mreq
    fr = H.canon_dump(fresh)
    res.evaluations += 1
    res.nontrivial.add(tuple(str(x) for x in w.log))
    for e in w.log:
        res.count(e["op"] if e["op"] != "cmd" else "reindex" + ("_paths" if len(e["args"]) > 2 else ""))
    if hid < 2:
        res.sample({"log": w.log[:12]})
    if inc != fr:
        extra = [x for x in inc if x not in fr][:2]
        missing = [x for x in fr if x not in inc][:2]
        kinds = []
        deleted = {e["page"] for e in w.log if e["op"] in ("delete_page", "rename_page")}
        if any(x[0] in deleted and x[0] not in files_final for x in extra):
            kinds.append("stale_page")
        res.failures.append(C.Failure(f"incremental index differs from a fresh index of the final files: only-incremental {extra}, only-fresh {missing}",
                                      {"log": w.log, "kind": "differs", "sub": kinds, "stale_paths": sorted({x[0] for x in extra if x[0] not in files_final})}))
        return mreq
    # sampled queries on both
    from freezegun import freeze_time
    from zorg.service import swog

    with freeze_time(w.now()):
        for q in QUERIES:
            Z.clear_engine_cache()
            a = swog.execute(zdir, f"sqlite:///{zdir}/.zorg/zorg.db", q + " O none G none")
            Z.clear_engine_cache()
            b = swog.execute(fresh, f"sqlite:///{fresh}/.zorg/zorg.db", q + " O none G none")
            if a != b:
                res.failures.append(C.Failure(f"query {q!r} answers differently on the incremental and the fresh index", {"log": w.log, "kind": "query"}))
                return mreq
    return mreq


def body(ctx: C.Ctx, proof: C.ProofStatus) -> C.Result:
    res, rets = C.parallel_jobs(ctx, ctx.scale(48, 600), run_history)
    # store-level correspondence: the recorded history replayed by Model/Index.lean (`Index.run`) must end in the same
    # files, the same saved hash map and the same set of indexed pages
    pairs = [r for r in rets if r]
    if proof.driver_ok and pairs:
        for (req, want), m in zip(pairs, C.model_batch([q for q, _ in pairs])):
            res.evaluations += 1
            res.count("model_histories")
            if "files" not in m:
                res.disagreements.append(C.Failure(f"Index model gives no store: {str(m)[:200]}", {"ops": req["ops"]}, "correspondence"))
                continue
            got = {"files": dict(map(tuple, m["files"])), "hashes": dict(map(tuple, m["hashes"])), "db": sorted(k for k, _ in m["db"])}
            for part in ("files", "hashes", "db"):
                if got[part] != want[part]:
                    a, b = got[part], want[part]
                    keys = sorted(set(a) ^ set(b)) if part == "db" else sorted(k for k in set(a) | set(b) if a.get(k) != b.get(k))
                    res.disagreements.append(C.Failure(f"store model vs implementation after the history: {part} differ at {keys[:3]} (model {str([a.get(k) if part != 'db' else k in a for k in keys[:3]])[:200]}, "
                                                       f"implementation {str([b.get(k) if part != 'db' else k in b for k in keys[:3]])[:200]})", {"ops": req["ops"], "part": part}, "correspondence"))
                    break
    return res


def classify(f: C.Failure, entry: dict) -> bool:
    return False


RULE = (
    "histories of 8-22 operations over generated indexed directories: body / bullet / kind / priority edits, added, deleted and moved items, added and "
    "retitled sections, header-line edits, comments, added / deleted / renamed / deleted-then-restored pages, days advancing, `db reindex` with and without explicit paths "
    "(relative and absolute), ending with a plain reindex; canonical raw-SQL dump of the incremental index vs `db create` on a copy of the final "
    "files, the hash map vs the files, plus 10 sampled queries on both; every history is also replayed by the Lean store model "
    "(Index.run over write / remove / reindex / reindexOnly with the observed write-back outcomes): files, saved hash map and indexed pages must coincide; non-trivial = distinct history"
)
ASSUME = ["file system and SQLite atomic; explicit edits only between commands"]

if __name__ == "__main__":
    sys.exit(C.run_check(PROP, MODULES, body, rule=RULE, assumptions=ASSUME, classify=classify))
