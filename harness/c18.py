"""C18 — File-group expansion flattens groups in place and in order."""
from __future__ import annotations

import datetime as dt
import sys
from pathlib import Path

import common as C

PROP = "C18"
MODULES = ["ZorgVerif.Props.C18"]

BOUNDARY_DAYS = [
    (2024, 3, 1), (2024, 3, 5), (2023, 3, 3), (2024, 1, 1), (2024, 1, 6), (2023, 12, 31), (2000, 3, 2), (1900, 3, 4),
    (2024, 2, 29), (2024, 7, 7), (2024, 8, 1), (2024, 5, 3), (2100, 3, 1), (2024, 10, 10), (1999, 1, 2), (2024, 12, 25),
]
PLAIN = ["a.zo", "b.zo", "dir/c.zo", "work/proj/d.zo", "e", "f.txt", "notes/2024.zo", "x y.zo", "-dash.zo",
         # names that look like glob patterns are names (sibling files that such a pattern would match exist in EDIT_ZDIR)
         "ideas[1].zo", "dir/q[12].zo", "what?.zo", "a*.zo"]
EDIT_ZDIR = Path("/zz")   # body() replaces it by a real directory holding ideas1.zo, dir/q1.zo, dir/q2.zo, whatx.zo, a.zo, ab.zo, ...
PATTERNS = [
    "{yyyymmdd[$]}.zo", "log/{yyyymmdd[$]}.zo", "{days[$]:%Y}/{days[$]:%Y%m%d}.zo", "{days[$].year}/{yyyymmdd[$]}.zo",
    "{days[$]:%Y-%m-%d}", "{days[$]:%y%m%d}.zo", "m{days[$].month}/d{days[$].day}.zo", "{{lit}}{yyyymmdd[$]}", "w{days[$]:%m}.zo",
]


def gen_case(rng):
    n = rng.randint(1, 6)
    names = [f"g{i}" for i in range(n)]
    if rng.random() < 0.3:
        names[0] = "default"
    gmap = {}
    for i, g in enumerate(names):
        k = rng.randint(0, 5)
        mem = []
        for _ in range(k):
            r = rng.random()
            if r < 0.35 and i + 1 < n:
                mem.append("@" + rng.choice(names[i + 1 :]))
            elif r < 0.40:
                mem.append("@missing")
            elif r < 0.7:
                pat = rng.choice(PATTERNS)
                while "$" in pat:
                    pat = pat.replace("$", str(rng.randint(0, 6)), 1)
                mem.append(pat)
            else:
                mem.append(rng.choice(PLAIN))
        if mem and rng.random() < 0.2:
            mem.append(mem[0])  # duplicates / shared sub-groups reached twice
        gmap[g] = mem
    na = rng.randint(0, 5)
    args = []
    for _ in range(na):
        r = rng.random()
        if r < 0.55:
            args.append("@" + rng.choice(names))
        elif r < 0.6:
            args.append("@nosuch")
        else:
            args.append(rng.choice(PLAIN + ["{yyyymmdd[0]}.zo"]))
    day = rng.choice(BOUNDARY_DAYS) if rng.random() < 0.7 else (rng.randint(1990, 2100), rng.randint(1, 12), rng.randint(1, 28))
    return {"map": gmap, "args": args, "today": list(day)}


def impl(case):
    from freezegun import freeze_time
    from zorg.service.file_groups import expand_file_group_paths

    y, m, d = case["today"]
    args = [Path(a) if i % 2 else a for i, a in enumerate(case["args"])]
    gmap = case["map"]
    if len(case["args"]) % 2 == 0:
        # half of the cases take the map the way `zorg edit` gets it: through the validated EditConfig object
        from clack import clack_envvars_set
        from zorg.app.config import EditConfig, TemplateRenderConfig

        with clack_envvars_set("zorg", [EditConfig, TemplateRenderConfig]):
            gmap = EditConfig(command="edit", zo_paths=[Path("x")], file_group_map=gmap).file_group_map
    with freeze_time(dt.datetime(y, m, d, 13, 37)):
        try:
            r = expand_file_group_paths(args, file_group_map=gmap)
            if len(case["args"]) % 2 == 0:
                # ... and what `zorg edit` hands to the editor is that expansion, path by path (same order, nothing dropped)
                import zorg.app.runners._run_edit as RE
                from clack import clack_envvars_set
                from zorg.app.config import EditConfig, TemplateRenderConfig
                from zorg.shared import common as zc

                got = []
                o_handle, o_init = RE.messagebus.handle, RE.init_from_template
                RE.messagebus.handle = lambda zdir, url, msgs, **kw: got.extend(msgs[0].paths)
                RE.init_from_template = lambda *a, **k: None
                try:
                    with clack_envvars_set("zorg", [EditConfig, TemplateRenderConfig]):
                        cfg = EditConfig(command="edit", zo_paths=[Path(a) for a in case["args"]], file_group_map=case["map"], zettel_dir=EDIT_ZDIR)
                        RE.run_edit(cfg)
                finally:
                    RE.messagebus.handle, RE.init_from_template = o_handle, o_init
                want = zc.bulk_prepend_zdir(EDIT_ZDIR, r)
                if [str(p) for p in got] != [str(p) for p in want]:
                    return {"err": "edit_paths", "got": [str(p) for p in got], "want": [str(p) for p in want]}
            return {"ok": [str(p) for p in r]}
        except KeyError as e:
            return {"err": "keyError", "name": str(e.args[0])}
        except RecursionError:
            return {"err": "fuel"}
        except (IndexError, ValueError, AttributeError) as e:
            return {"err": "format"}


def spec(case):
    """Independent reading of the statement (no zorg code)."""
    y, m, d = case["today"]
    today = dt.date(y, m, d)
    days = [dt.date.fromordinal(today.toordinal() - i) for i in range(7)]
    ymd = ["%04d%02d%02d" % (x.year, x.month, x.day) for x in days]
    gmap = case["map"]

    def arg(a, depth=0):
        if a.startswith("@"):
            out = []
            for mem in gmap[a[1:]]:
                if mem.startswith("@"):
                    out += arg(mem, depth + 1)
                else:
                    out.append(str(Path(mem.format(days=days, yyyymmdd=ymd))))
            return out
        return [str(Path(a))]

    try:
        out = []
        for a in case["args"]:
            out += arg(a)
        return {"ok": out}
    except KeyError as e:
        return {"err": "keyError", "name": str(e.args[0])}


def body(ctx: C.Ctx, proof: C.ProofStatus) -> C.Result:
    res = C.Result()
    rng = ctx.rng
    n = ctx.scale(1000, 30000)
    cases = []
    corpus_dir = C.CORPUS / PROP
    if corpus_dir.exists():
        import json

        for f in sorted(corpus_dir.glob("*.json")):
            cases.append(json.loads(f.read_text()))
    cases += [gen_case(rng) for _ in range(n)]
    global EDIT_ZDIR
    EDIT_ZDIR = ctx.tmp / "editz"
    for rel in ("ideas1.zo", "dir/q1.zo", "dir/q2.zo", "whatx.zo", "a.zo", "ab.zo", "abc.zo", "b.zo", "dir/c.zo"):
        (EDIT_ZDIR / rel).parent.mkdir(parents=True, exist_ok=True)
        (EDIT_ZDIR / rel).write_text("# page\n")
    reqs = []
    outs = []
    for case in cases:
        got = impl(case)
        want = spec(case)
        outs.append(got)
        res.evaluations += 1
        key = (tuple(sorted((k, tuple(v)) for k, v in case["map"].items())), tuple(case["args"]), tuple(case["today"]))
        if any(a.startswith("@") for a in case["args"]):
            res.nontrivial.add(key)
        res.count("ok" if "ok" in got else got["err"])
        res.count("args_groups", sum(a.startswith("@") for a in case["args"]))
        res.count("nested_refs", sum(m.startswith("@") for v in case["map"].values() for m in v))
        if got != want:
            res.failures.append(C.Failure(f"expansion differs from the in-place, in-order flatten: got {got}, want {want}", case))
        # concatenation law on the implementation
        if "ok" in got and len(case["args"]) >= 2:
            k = rng.randint(0, len(case["args"]))
            a = impl({**case, "args": case["args"][:k]})
            # note: alternate Path/str wrapping restarts at index 0 for the right half; harmless
            b = impl({**case, "args": case["args"][k:]})
            if "ok" in a and "ok" in b and a["ok"] + b["ok"] != got["ok"]:
                res.failures.append(C.Failure("expand(xs ++ ys) != expand(xs) ++ expand(ys)", {**case, "split": k}))
        reqs.append({"op": "groups.expand", "map": [[k, v] for k, v in case["map"].items()], "args": case["args"], "today": case["today"], "fuel": 40})
        if len(res.samples) < 3 and "ok" in got and len(got["ok"]) > 3:
            res.sample({"case": case, "impl": got})
    if proof.driver_ok:
        ms = C.model_batch(reqs)
        for case, got, m in zip(cases, outs, ms):
            if m.get("err") == "format":
                res.unsupported += 1
                continue
            if "ok" in m:
                m = {"ok": [str(Path(x)) for x in m["ok"]]}
            if m != got:
                res.disagreements.append(C.Failure(f"model {m} != impl {got}", case, "correspondence"))
    # "today" is the user's LOCAL calendar day: the real clock in two real time zones (at any moment at least one of them is on
    # another day than UTC); freezegun cannot show this (it shifts time-zone-aware clocks by its offset as well)
    import os
    import time

    from zorg.service.file_groups import expand_file_group_paths

    dated = [c for c in cases if any(a.startswith("@") for a in c["args"]) and any("{" in m for v in c["map"].values() for m in v)][:40]
    old_tz = os.environ.get("TZ")
    try:
        for tzname in ("LINT-14", "AOE12"):
            os.environ["TZ"] = tzname
            time.tzset()
            for case in dated:
                d0 = dt.date.today()
                try:
                    got = {"ok": [str(p) for p in expand_file_group_paths(list(case["args"]), file_group_map=case["map"])]}
                except Exception:  # noqa  (error behaviour is compared in the frozen stage)
                    continue
                if dt.date.today() != d0:
                    continue   # midnight passed during the call
                want = spec({**case, "today": [d0.year, d0.month, d0.day]})
                res.evaluations += 1
                res.count(f"real_clock_{tzname}")
                if got != want:
                    res.failures.append(C.Failure(f"time zone {tzname} (local day {d0}, UTC day {dt.datetime.now(dt.timezone.utc).date()}): expansion {got}, want {want}",
                                                  {**case, "kind": "local_day", "tz": tzname}))
                    break
    finally:
        if old_tz is None:
            os.environ.pop("TZ", None)
        else:
            os.environ["TZ"] = old_tz
        time.tzset()
    # clack_parser: `@group` first argument infers `edit`; no arguments => @default
    try:
        from clack import clack_envvars_set
        from zorg.app.config import EditConfig, TemplateRenderConfig, clack_parser

        with clack_envvars_set("zorg", [EditConfig, TemplateRenderConfig]):
            for argv, want in (
                ([""], {"command": "edit", "zo_paths": [Path("@default")]}),
                (["", "@foo"], {"command": "edit", "zo_paths": [Path("@foo")]}),
                (["", "@foo", "bar.zo", "@baz"], {"command": "edit", "zo_paths": [Path("@foo"), Path("bar.zo"), Path("@baz")]}),
            ):
                got = clack_parser(argv)
                res.evaluations += 1
                if got != want:
                    res.failures.append(C.Failure(f"clack_parser({argv}) = {got}, want {want}", {"argv": argv}))
    except ImportError as e:
        res.notes.append(f"clack_parser part skipped: {e}")
    return res


RULE = (
    "random acyclic group maps (1-6 groups, nesting by index order, shared and repeated sub-groups, missing groups, "
    "date patterns yyyymmdd[i] / days[i]:%Y.. / days[i].attr) x argument lists x frozen 'today' on month/year/leap "
    "boundaries, names that look like glob patterns (run_edit on a real directory holding files they would match), plus the real clock under TZ=LINT-14 and TZ=AOE12 (local day != UTC day in at least one); impl vs Lean model vs independent Python reading of the statement; non-trivial = has a group argument"
)
ASSUME = [
    "str.format / strftime are modelled for the fragment {yyyymmdd[i]}, {days[i]:%Y%m%d%y}, {days[i].year|month|day}, {{ }}",
    "pathlib normalisation applied to both sides",
    "recursion depth is abstracted by fuel (Python: RecursionError on cyclic maps)",
]

if __name__ == "__main__":
    sys.exit(C.run_check(PROP, MODULES, body, rule=RULE, assumptions=ASSUME))
