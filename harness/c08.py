"""C08 — Indexing never crashes on any file and never silently drops a broken one."""
from __future__ import annotations

import datetime as dt
import shutil
import sys
from pathlib import Path

import common as C
import c01
import pagegen as G
import zocheck as ZC
import zorgapi as Z

PROP = "C08"
MODULES = ["ZorgVerif.Props.C08"]
TODAY = (2024, 6, 15)
LEXA = list("abcoxP0123459 -#@%+[](){}:;,.!?'\"=&*~<>_/\\|^$`\n") + ["[[", "]]", "((", "))", "[#", "[^", "[@", "::", "  * ", "\n\n", "--------", "================", "#" * 32, "=" * 24, "+" * 16, "240510#0K", "2024-02-30", "241399", "230229", "250229#01", "https://", "k::v", "[a::b::c]"]


def damage(rng, text: str) -> str:
    for _ in range(rng.randint(1, 5)):
        r = rng.random()
        if not text:
            text = rng.choice(LEXA)
            continue
        i = rng.randrange(len(text))
        if r < 0.25:
            text = text[:i] + rng.choice(LEXA) + text[i:]
        elif r < 0.45:
            text = text[:i] + text[i + rng.randint(1, 3):]
        elif r < 0.6:
            text = text[:i] + rng.choice(LEXA) + text[i + 1:]
        elif r < 0.75:
            lines = text.split("\n")
            j = rng.randrange(len(lines))
            op = rng.random()
            if op < 0.4:
                del lines[j]
            elif op < 0.7:
                lines.insert(j, lines[j])
            else:
                k = rng.randrange(len(lines))
                lines[j], lines[k] = lines[k], lines[j]
            text = "\n".join(lines)
        elif r < 0.85:
            text = text[: rng.randrange(len(text) + 1)]          # truncation
        elif r < 0.92:
            text = text.rstrip("\n")                               # missing trailing newline
        else:
            text = text.replace("\n", "\r\n", rng.randint(1, 5))
    return text


def gen_text(rng):
    r = rng.random()
    feats = set()
    if r < 0.15:
        t, _ = c01.gen_page(rng, feats, crlf=rng.random() < 0.1)
        return t, "valid"
    if r < 0.75:
        t, _ = c01.gen_page(rng, feats)
        return damage(rng, t), "damaged"
    if r < 0.8:
        t, _ = c01.gen_page(rng, feats)
        return "\n".join(t.split("\n")[2:]), "missing_header"
    if r < 0.88:
        return "".join(rng.choice(LEXA) for _ in range(rng.randint(0, 60))), "random_lexer_alphabet"
    if r < 0.94:
        return "".join(chr(rng.randint(1, 126)) for _ in range(rng.randint(0, 80))), "random_ascii"
    return "".join(rng.choice(["é", "ß", "→", "日", " ", " ", "a", " ", "\n", "- ", "# "]) for _ in range(rng.randint(0, 60))), "random_unicode"


def _compile_spy(args):
    """compile + count how often the listener reached a non-empty item (`_add_note`)"""
    idx, text, base = args
    import os

    d = Path(base) / f"w{os.getpid()}"
    d.mkdir(parents=True, exist_ok=True)
    reached = [0]
    spy_ok = True
    try:
        from zorg.service.compiler import _file_compiler as fc

        orig = fc.ZorgFileCompiler._add_note

        def spy(self, note_body, **kw):
            if note_body is not None and note_body.getText().strip() != "":
                reached[0] += 1
            return orig(self, note_body, **kw)

        fc.ZorgFileCompiler._add_note = spy
    except Exception:  # noqa
        spy_ok = False
    try:
        with C.QuietStderr():
            r = ZC.impl_compile(d, "p.zo", text, TODAY)
    finally:
        if spy_ok:
            fc.ZorgFileCompiler._add_note = orig
    r["reached_items"] = reached[0] if spy_ok else None
    # the same text compiled the way `zorg -v db reindex` / `zorg compile` do (verbose > 0): flag and notes must not depend on it
    if idx % 3 == 0 and "exc" not in r:
        import contextlib
        import io

        from freezegun import freeze_time
        from zorg.service.compiler import _api

        try:
            with C.QuietStderr(), contextlib.redirect_stdout(io.StringIO()), freeze_time(dt.datetime(*TODAY, 12, 0)):
                pv = _api.walk_zorg_page(d, Path("p.zo"), verbose=1)
            v = (bool(pv.has_errors), len(pv.notes))
        except Exception as e:  # noqa: BLE001
            v = ("exc", f"{type(e).__name__}: {str(e)[:80]}")
        if v != (bool(r["has_errors"]), len(r["notes"])):
            r["verbose_mismatch"] = [list(v), [bool(r["has_errors"]), len(r["notes"])]]
    return idx, r


BROKEN_POOL = []


def one_scenario(ctx, res, rng, k):
    """refusal logic of db create / db reindex around one broken page"""
    from freezegun import freeze_time

    cfg = Z.write_config(ctx.tmp / "cfg.yml")
    zdir = ctx.tmp / "d"
    broken_pool = BROKEN_POOL
    if not broken_pool:
        return None
    if k % 4 == 0:
        # error-free pages of every section shape: all of their notes are indexed (also sections that precede the first H1)
        sd = ctx.tmp / "shapes"
        sd.mkdir(parents=True, exist_ok=True)
        shapes = {
            "h2first.zo": "# T\n\n======================== Sec\n- note a\no note b\n",
            "h2thenh1.zo": "# T\n\n======================== S\n- a\n\n++++++++++++++++ Deep\nx b2\n\n################################ H\n- b\n",
            "notes_then_h2.zo": "# T\n\n- top\n\n======================== S\n- in s\n",
            "h1only.zo": "# T\n\n################################ H\n- c\n\n======================== S2\n- d\n",
        }
        G.write_dir(sd, shapes)
        Z.clear_engine_cache()
        with freeze_time(dt.datetime(*TODAY, 12, 0)):
            rc0, _, _ = Z.zorg_main(sd, "db", "create", config=cfg)
        res.evaluations += 1
        res.count("section_shape_dirs")
        per_page = {}
        for r in G.dump_index(sd) if rc0 == 0 else []:
            per_page[r["path"]] = per_page.get(r["path"], 0) + 1
        for rel, text in shapes.items():
            want = sum(1 for l in text.split("\n") if l[:2] in ("- ", "o ", "x "))
            if rc0 != 0 or per_page.get(rel, 0) != want:
                res.failures.append(C.Failure(f"error-free page {rel} ({want} notes) has {per_page.get(rel, 0)} notes in the index after db create (rc={rc0})", {"kind": "notes_not_indexed", "page": rel, "text": text}))
                break
    if zdir.exists():
        shutil.rmtree(zdir)
    zdir.mkdir(parents=True)
    files = G.gen_dir(rng, npages=(2, 3), sections=False)
    G.write_dir(zdir, files)
    bad = rng.choice(broken_pool)
    (zdir / "zbroken.zo").write_text(bad)
    case = {"files": files, "broken": bad}
    Z.clear_engine_cache()
    with freeze_time(dt.datetime(*TODAY, 12, 0)):
        rc, _, err = Z.zorg_main(zdir, "db", "create", config=cfg)
        res.evaluations += 1
        if rc == 0:
            res.failures.append(C.Failure("db create accepted a broken page that is not whitelisted", {**case, "kind": "not_refused"}))
            return None
        # -f whitelists it
        Z.clear_engine_cache()
        rc2, _, _ = Z.zorg_main(zdir, "db", "create", "-f", config=cfg)
        wl = (zdir / ".zorg" / "error_file_whitelist.txt").read_text().split("\n")
        if rc2 != 0 or "zbroken.zo" not in wl:
            res.failures.append(C.Failure(f"db create -f failed (rc={rc2}) or did not whitelist the broken page: {wl}", {**case, "kind": "force"}))
            return None
        rows = G.dump_index(zdir)
        if any(r["path"] == "zbroken.zo" for r in rows):
            res.failures.append(C.Failure("notes of a broken page were indexed", {**case, "kind": "partial_index"}))
        good = set(G.dump_pages(zdir)) - {"zbroken.zo"}
        if good != {p for p in files}:
            res.failures.append(C.Failure(f"with the broken page whitelisted the good pages are not all indexed: {sorted(good)} vs {sorted(files)}", {**case, "kind": "good_pages"}))
        # whitelisted: a plain create is accepted now
        Z.clear_engine_cache()
        rc3, _, _ = Z.zorg_main(zdir, "db", "create", config=cfg)
        if rc3 != 0:
            res.failures.append(C.Failure("db create refuses a whitelisted broken page", {**case, "kind": "whitelist"}))
        # reindex: break a good page -> refused
        victim = sorted(files)[0]
        (zdir / victim).write_text(bad)
        Z.clear_engine_cache()
        rc4, _, _ = Z.zorg_main(zdir, "db", "reindex", config=cfg)
        res.evaluations += 1
        if rc4 == 0:
            res.failures.append(C.Failure("db reindex accepted a newly broken page", {**case, "kind": "reindex_not_refused", "victim": victim}))
        res.count("refusal_scenarios")
        # ---- two pages change before one reindex: an earlier one stays valid, a later one breaks ----
        if zdir.exists():
            shutil.rmtree(zdir)
        zdir.mkdir(parents=True)
        G.write_dir(zdir, files)
        Z.clear_engine_cache()
        rc, _, _ = Z.zorg_main(zdir, "db", "create", config=cfg)
        names = sorted(files, key=lambda p: Path(p).name)
        if rc != 0 or len(names) < 2:
            return None
        early, late = names[0], names[-1]
        (zdir / early).write_text(files[early].rstrip("\n") + "\n\n- 240101#zz appended note\n")
        (zdir / late).write_text(bad)
        outcomes = []
        for attempt in range(3):
            Z.clear_engine_cache()
            rcx, _, _ = Z.zorg_main(zdir, "db", "reindex", config=cfg)
            outcomes.append(rcx)
        res.evaluations += 1
        res.count("reindex_two_pages_scenarios")
        if any(o == 0 for o in outcomes):
            stale = [r["zid"] for r in G.dump_index(zdir) if r["path"] == late]
            res.failures.append(C.Failure(f"a broken, non-whitelisted page was accepted by a repeated `db reindex` (exit codes {outcomes}); stale notes of it in the index: {stale[:3]}",
                                          {**case, "kind": "reindex_repeat_accepts", "early": early, "late": late}))
        # ---- a whitelisted page is fixed, indexed, and breaks again: nobody whitelisted THAT breakage ----
        if zdir.exists():
            shutil.rmtree(zdir)
        zdir.mkdir(parents=True)
        G.write_dir(zdir, files)
        (zdir / "zbroken.zo").write_text(bad)
        Z.clear_engine_cache()
        rc, _, _ = Z.zorg_main(zdir, "db", "create", "-f", config=cfg)
        if rc != 0:
            return None
        (zdir / "zbroken.zo").write_text("# Fixed page\n\n- 240101#zy a note of the fixed page\n")
        Z.clear_engine_cache()
        rc_fix, _, _ = Z.zorg_main(zdir, "db", "reindex", config=cfg)
        fixed_indexed = any(r["path"] == "zbroken.zo" for r in G.dump_index(zdir))
        (zdir / "zbroken.zo").write_text(bad)
        Z.clear_engine_cache()
        rc_again, _, _ = Z.zorg_main(zdir, "db", "reindex", config=cfg)
        res.evaluations += 1
        res.count("fixed_then_broken_scenarios")
        if rc_fix != 0 or not fixed_indexed:
            res.failures.append(C.Failure(f"a whitelisted page that was fixed is not indexed by the next reindex (rc={rc_fix})", {**case, "kind": "fixed_not_indexed"}))
        elif rc_again == 0:
            left = [r["zid"] for r in G.dump_index(zdir) if r["path"] == "zbroken.zo"]
            res.failures.append(C.Failure("a page that was whitelisted, then fixed and indexed, then broken again is accepted silently by `db reindex` "
                                          f"(its notes now in the index: {left}): the breakage was never whitelisted", {**case, "kind": "rebroken_accepted"}))
        # ---- the whitelist names pages exactly: `arch/zbroken.zo` on it says nothing about `zbroken.zo` (a suffix of that entry)
        #      or `rch/zbroken.zo` / `zbroken.zo2`
        if zdir.exists():
            shutil.rmtree(zdir)
        zdir.mkdir(parents=True)
        G.write_dir(zdir, files)
        (zdir / "arch").mkdir()
        (zdir / "arch" / "zbroken.zo").write_text(bad)
        Z.clear_engine_cache()
        rc, _, _ = Z.zorg_main(zdir, "db", "create", "-f", config=cfg)
        if rc != 0:
            return None
        other = rng.choice(["zbroken.zo", "rch/zbroken.zo", "broken.zo"])
        (zdir / other).parent.mkdir(parents=True, exist_ok=True)
        (zdir / other).write_text(bad)
        for cmd in (("db", "create"), ("db", "reindex")):
            Z.clear_engine_cache()
            rcl, _, _ = Z.zorg_main(zdir, *cmd, config=cfg)
            res.evaluations += 1
            if rcl == 0:
                wl = (zdir / ".zorg" / "error_file_whitelist.txt").read_text().split("\n")
                res.failures.append(C.Failure(f"`{' '.join(cmd)}` accepted the broken page {other} although only arch/zbroken.zo is whitelisted (whitelist now {wl})",
                                              {**case, "kind": "whitelist_lookalike", "other": other}))
                break
        res.count("whitelist_lookalike_scenarios")
    return None


def body(ctx: C.Ctx, proof: C.ProofStatus) -> C.Result:
    import multiprocessing as mp
    from freezegun import freeze_time

    res = C.Result()
    rng = ctx.rng
    n = ctx.scale(2000, 40000)
    base = ctx.tmp / "z"
    base.mkdir(parents=True)
    texts = [("", "empty_file"), ("- foo\n", "item_without_header"), ("# T", "header_without_newline"), ("# T\n\n- zz [#} yy\n", "kf_e"),
             ("# T\n\n- x:: y  *   * z\n", "bullet"), ("# T\n\n- a:: b\n  * 240101\n", "bullet"), ("# T 2024-02-30\n\n- 241399 foo\n- 240230#00 foo\n", "dates"),
             ("# T\n\n- foo [a::b::c] bar\n", "inline"),
             # impossible calendar days in every position that is parsed as a date: 29 February of non-leap years, day 0, month 0 / 13
             ("# T 2023-02-29\n\n- 230229 counted items\no P2 250229#01 zid of a non-leap day\n- 210229 250101#aa stamp\n- 240229 real leap day\n- 000229#00 leap day of 2000\n- 240100 240001 241301 x\n", "dates"), ("# T\n\n- ok\n\n- zz [@+ [^# [#o\n", "brackets")]
    texts += [gen_text(rng) for _ in range(n)]
    with mp.get_context("fork").Pool(14) as pool:
        outs = sorted(pool.imap_unordered(_compile_spy, [(i, t, str(base)) for i, (t, _) in enumerate(texts)], chunksize=16))
    ms = ZC.model_compile_batch([t for t, _ in texts], TODAY) if proof.driver_ok else [None] * len(texts)
    for (i, r), (text, kind), m in zip(outs, texts, ms):
        res.evaluations += 1
        res.count(kind)
        case = {"text": text, "stream": kind}
        if r.get("verbose_mismatch"):
            res.failures.append(C.Failure(f"compiled with verbose=1 the page gives (has_errors, notes) = {r['verbose_mismatch'][0]}, without {r['verbose_mismatch'][1]}", {**case, "kind": "verbose"}))
        if "exc" in r:
            res.count("exception")
            res.failures.append(C.Failure(f"compiling raised {r['exc']}", {**case, "kind": "exception"}))
            continue
        res.count("errors>0" if r["errors"] else "errors=0")
        if r["errors"] or kind != "valid":
            res.nontrivial.add(text)
        if r["errors"] and not r["has_errors"]:
            res.failures.append(C.Failure(f"the parser reported {r['errors']} syntax errors but the page is not flagged ({len(r['notes'])} notes, listener reached {r['reached_items']} items)",
                                          {**case, "kind": "unflagged", "notes": len(r["notes"]), "reached_items": r["reached_items"]}))
        if not r["errors"] and r["has_errors"]:
            res.failures.append(C.Failure("page flagged although the parser reported no syntax error", {**case, "kind": "flagged_without_error"}))
        if r["errors"] and r["notes"]:
            res.failures.append(C.Failure(f"page with syntax errors compiled partially ({len(r['notes'])} notes)", {**case, "kind": "partial"}))
        if m is not None and not r["errors"]:
            if "ok" in m:
                d = ZC.diff_notes(r["notes"], m["ok"])
                if d:
                    res.disagreements.append(C.Failure(f"error-free page: Zo model vs walk_zorg_page: {d}", case, "correspondence"))
                res.count("model_compared")
            else:
                res.unsupported += 1
        if len(res.samples) < 3 and kind == "damaged" and r["errors"]:
            res.sample({"text": text[:300], "errors": r["errors"], "has_errors": r["has_errors"]})
    # ---- pages given as BYTES: not every file is valid UTF-8 (Latin-1 / Windows-1252 text, a stray 0xff, a multi-byte character
    #      cut in the middle): such a page is compiled like its ASCII remainder - flagged or not, never an internal exception
    valid = [t for (t, k), (_, r) in zip(texts, outs) if k == "valid" and "exc" not in r and t.isascii()][:6]
    byte_pages = []
    for t in valid:
        ls = t.split("\n")
        j = next((i for i, l in enumerate(ls) if l[:2] in ("- ", "o ", "x ")), None)
        if j is None:
            continue
        for ins in (b" caf\xe9", b" it\x92s", b" \xff", " na\u00efve".encode("utf-8")[:-1], " \u2028".encode("utf-8")):
            bs = [l.encode("ascii") for l in ls]
            bs[j] = bs[j] + ins
            byte_pages.append(b"\n".join(bs))
    for bp in byte_pages[: ctx.scale(15, 30)]:
        rb = ZC.impl_compile(ctx.tmp / "bytes", "p.zo", bp, TODAY)
        ra = ZC.impl_compile(ctx.tmp / "bytes", "q.zo", bytes(b for b in bp if b < 128).decode("ascii"), TODAY)
        res.evaluations += 1
        res.count("byte_level_pages")
        case = {"bytes": repr(bp[:600]), "kind": "bytes"}
        if "exc" in rb:
            res.failures.append(C.Failure(f"a page that is not valid UTF-8 makes the compiler raise {rb['exc']}", case))
            break
        sig = lambda r: (bool(r["has_errors"]), [(n["kind"], n["zid"], n["body"]) for n in r["notes"]])
        if "exc" not in ra and sig(rb) != sig(ra):
            res.failures.append(C.Failure(f"a page with non-ASCII bytes compiles differently from its ASCII remainder: {str(sig(rb))[:200]} vs {str(sig(ra))[:200]}", case))
            break
    # ---- refusal logic of db create / db reindex ----------------------------------------------
    global BROKEN_POOL
    BROKEN_POOL = [t for (t, k), (_, r) in zip(texts, outs) if "exc" not in r and r["errors"] and r["has_errors"]][:400]
    if BROKEN_POOL:
        sres, _ = C.parallel_jobs(ctx, ctx.scale(28, 200), one_scenario)
        res.merge(sres)
    return res


def classify(f: C.Failure, entry: dict) -> bool:
    case = f.case if isinstance(f.case, dict) else {}
    if entry.get("classifier") == "broken_page_without_notes_unflagged":
        return case.get("kind") == "unflagged" and case.get("notes") == 0 and case.get("reached_items") == 0
    return False


RULE = (
    "texts: valid generated pages, the same with 1-5 random character / token / line edits, truncations, missing header, missing trailing "
    "newline, CRLF, random strings over the lexer alphabet, ASCII and Unicode, pages given as bytes that are no valid UTF-8, plus a corpus of formerly crashing inputs; per text: exception, "
    "parser error count (spy on ErrorManager), has_errors, notes, and whether the listener reached an item; error-free texts also vs the Lean Zo "
    "model; then db create / -f / whitelist / reindex refusal scenarios with a broken page, incl. two pages changed before one reindex and a "
    "whitelisted page that is fixed, indexed and broken again, and broken pages whose names are suffixes / infixes of a whitelisted one; non-trivial = damaged or erroneous text"
)
ASSUME = ["termination and error reporting of the ANTLR runtime are sampled, not proved (partial)", "file system atomic"]

if __name__ == "__main__":
    sys.exit(C.run_check(PROP, MODULES, body, rule=RULE, assumptions=ASSUME, classify=classify))
