"""Generator of well-formed notes directories (shared by several checks) and raw-SQL dump of the index."""
from __future__ import annotations

import datetime as dt
import sqlite3
from pathlib import Path

H_MARK = {1: "#" * 32, 2: "=" * 24, 3: "+" * 16, 4: "-" * 8}
KINDS = ["-", "o", "x", "~", "<", ">"]
ZALPHA = "0123456789ABCDEFGHJKLMNPRTUVWXYZabcdefhkmnorstuvwxz"
AREAS = ["work", "home", "gtd", "a1"]
CONTEXTS = ["desk", "phone", "home"]
PEOPLE = ["bob", "ann"]
PROJECTS = ["zorg", "proj_x", "gtd"]
PLAIN = ["alpha", "beta", "gamma", "Foo", "BAR", "mixedCase", "x9", "2024", "memo", "the", "of", "task", "Build", "fix", "bug"]
META = ["50%_done", "a_b", "back\\slash", "it's", "100%", "under_score", "a%b", "x_y_z", "Foo_bar", "d:\\dir", "q?", "*star*", "[sq]", "semi;colon", "pi|pe"]
LOOKALIKE = ["o", "x", "P5", "1230", "2024-01-01", "240510", "240510#0K", "~", "<", ">"]
PAGES = ["a", "ab", "a_b", "axb", "b", "bb", "proj/a", "proj/sub/x", "notes_2024", "log/day1", "foo", "foo_bar"]


class ZidAlloc:
    def __init__(self, rng):
        self.rng = rng
        self.used = set()

    def fresh(self, date: dt.date | None = None):
        rng = self.rng
        while True:
            d = date or dt.date(rng.randint(2020, 2025), rng.randint(1, 12), rng.randint(1, 28))
            z = d.strftime("%y%m%d") + "#" + "".join(rng.choice(ZALPHA) for _ in range(2))
            if z not in self.used:
                self.used.add(z)
                return z


def gen_word(rng, ctx):
    """one body word; ctx: dict with pools (pages, zids, gids, rids)"""
    r = rng.random()
    if r < 0.38:
        return rng.choice(PLAIN)
    if r < 0.46:
        return rng.choice(META)
    if r < 0.52:
        return rng.choice(LOOKALIKE)
    if r < 0.60:
        return rng.choice(["#" + rng.choice(AREAS), "@" + rng.choice(CONTEXTS), "%" + rng.choice(PEOPLE), "+" + rng.choice(PROJECTS)])
    if r < 0.70:
        p = rng.choice(ctx["pages"])
        return rng.choice([f"[[{p}]]", f"[[{p}]]", f"[[{p}#{rng.choice(['top', 'sec1', 'x'])}]]"])
    if r < 0.75:
        return rng.choice([f"[#{rng.choice(ctx['gids'])}]", f"[@{rng.choice(ctx['rids'])}]"] + ([f"[{rng.choice(ctx['zids'])}]"] if ctx["zids"] else []))
    if r < 0.88:
        k = rng.choice(["due", "n", "k", "est", "LID", "who"])
        if k == "due":
            v = "%04d-%02d-%02d" % (rng.randint(2023, 2025), rng.randint(1, 12), rng.randint(1, 28))
            if rng.random() < 0.12:
                v = rng.choice(["someday", "tbd", "Soon"])  # no date at all: satisfies no date comparison (C03)
        elif k in ("n", "est"):
            v = str(rng.choice([0, 10, 15, 17, 42, 100, 17, 5]))
        else:
            v = rng.choice(["abc", "Abc", "b", "zz", "m1", "top"])
        return f"{k}::{v}"
    if r < 0.92:
        return rng.choice([f"ID::{rng.choice(ctx['gids'])}", f"RID::{rng.choice(ctx['rids'])}"])
    return rng.choice(["(paren)", "word,", "end.", "semi;", "a-b", "x/y", "k:v", "e=mc2", "wow!", "[x]", "q&a"])


def gen_item(rng, ctx, zalloc, with_zid=True, multiline=0.25):
    kind = rng.choice(KINDS)
    prio = rng.choice([None, None, 0, 1, 2, 3, 5, 9]) if kind != "-" else None
    has_zid = with_zid if isinstance(with_zid, bool) else (rng.random() < with_zid)
    zid = zalloc.fresh() if has_zid else None
    mdate = None
    if zid and rng.random() < 0.3:
        d = dt.date(2000 + int(zid[:2]), int(zid[2:4]), int(zid[4:6])) + dt.timedelta(days=rng.randint(0, 400))
        mdate = d.strftime("%y%m%d")
    words = [gen_word(rng, ctx) for _ in range(rng.randint(1, 8))]
    # the first body word after the identity must not itself look like an identity word
    while words[0] in LOOKALIKE or words[0].startswith(("P", "2024")) or words[0][0] in "\"'":
        words[0] = rng.choice(PLAIN)
    cont = []
    if rng.random() < multiline:
        for _ in range(rng.randint(1, 3)):
            cw = [gen_word(rng, ctx) for _ in range(rng.randint(1, 5))]
            cont.append(rng.choice(["  * ", "  ", "    - "]) + " ".join(cw))
    return {"kind": kind, "prio": prio, "zid": zid, "mdate": mdate, "words": words, "cont": cont}


def render_item(it) -> list[str]:
    parts = [it["kind"]]
    if it["prio"] is not None:
        parts.append(f"P{it['prio']}")
    if it["mdate"]:
        parts.append(it["mdate"])
    if it["zid"]:
        parts.append(it["zid"])
    if it.get("ldate"):
        parts.append(it["ldate"])
    parts += it["words"]
    return [" ".join(parts)] + it["cont"]


def gen_block(rng, ctx, zalloc, with_zid=True, n=None):
    return [gen_item(rng, ctx, zalloc, with_zid) for _ in range(n or rng.randint(1, 5))]


def deco(rng, ctx, p=0.5):
    """decorations for title / section headers"""
    out = []
    if rng.random() < p:
        out.append(rng.choice(["#" + rng.choice(AREAS), "@" + rng.choice(CONTEXTS), "+" + rng.choice(PROJECTS), "%" + rng.choice(PEOPLE)]))
    if rng.random() < p * 0.5:
        out.append(f"[[{rng.choice(ctx['pages'])}]]")
    if rng.random() < p * 0.5:
        out.append(rng.choice(["k::sec", "who::ann", "est::3"]))
    if rng.random() < ctx.get("date_prob", 0.0):
        out.append(rng.choice(["2024-05-10", "2099-12-31", "2100-01-01", "2150-03-01", "2019-02-28", "2250-07-04"] if ctx.get("far_dates", True) else ["2024-05-10", "2099-12-31", "2000-01-01", "2019-02-28", "2068-07-04", "2069-01-01"]))
    return out


def gen_page(rng, ctx, zalloc, with_zid=True, sections=True):
    lines = ["# " + " ".join([rng.choice(["Title", "Page", "Notes"])] + deco(rng, ctx))]
    if rng.random() < 0.3:
        lines.append("# " + rng.choice(["about k::file", "more who::bob", "just a comment"]))
    lines.append("")
    blocks = []

    def emit_blocks(nmax=2):
        for _ in range(rng.randint(0, nmax)):
            b = gen_block(rng, ctx, zalloc, with_zid)
            blocks.append(b)
            for it in b:
                lines.extend(render_item(it))
            lines.append("")

    emit_blocks(2)
    if sections and rng.random() < 0.6:
        # legal skeleton: first header H1 or H2, each next level <= previous + 1
        level = rng.choice([1, 2])
        for _ in range(rng.randint(1, 4)):
            name = rng.choice(["Sec", "Part", "Topic"]) + str(rng.randint(1, 9))
            if rng.random() < 0.3:
                # titles of which one is a word-wise prefix of another (grouping labels that only differ by a suffix)
                name = rng.choice(["Home", "Home Office", "Home Office Desk", "Home P1", "Home -"])
            lines.append(H_MARK[level] + " " + " ".join([name] + deco(rng, ctx, 0.4)))
            if rng.random() < 0.5:
                lines.append("")
            emit_blocks(2)
            level = rng.randint(1, min(4, level + 1))
    while lines and lines[-1] == "":
        lines.pop()
    return "\n".join(lines) + "\n", blocks


def gen_dir(rng, npages=(2, 5), with_zid=True, sections=True, date_prob=0.0, far_dates=True):
    names = rng.sample(PAGES, rng.randint(*npages))
    zalloc = ZidAlloc(rng)
    ctx = {"pages": names + ["nosuch"], "zids": [], "gids": ["g1", "g2", "G3"], "rids": ["r1", "r2"], "date_prob": date_prob, "far_dates": far_dates}
    files = {}
    for nm in names:
        txt, blocks = gen_page(rng, ctx, zalloc, with_zid, sections)
        files[nm + ".zo"] = txt
        ctx["zids"] = sorted(zalloc.used)[:20]
    return files


def add_exotic_chars(rng, files, p=0.25):
    """characters that Python's str.splitlines() treats as line ends but the grammar does not (NL is \\r?\\n): U+2028 inside a
    note, a form feed alone on a line between blocks.  The lexer drops them silently, the page stays error-free, and line
    numbers keep counting `\\n` only."""
    out = {}
    for rel, text in files.items():
        lines = text.split("\n")
        if rng.random() < p and len(lines) > 3:
            cand = [i for i, l in enumerate(lines) if i > 1 and l[:2] in ("- ", "o ", "x ", "~ ", "< ", "> ")]
            if cand:
                i = rng.choice(cand[: max(1, len(cand) // 2)])   # early in the page: everything below is shifted for splitlines()
                lines[i] = lines[i] + " pasted\u2028text"
            blanks = [i for i, l in enumerate(lines) if i > 1 and l == ""]
            if blanks and rng.random() < 0.5:
                lines[rng.choice(blanks)] = "\x0c"
        out[rel] = "\n".join(lines)
    return out


def write_dir(zdir: Path, files: dict[str, str]):
    for rel, txt in files.items():
        p = zdir / rel
        p.parent.mkdir(parents=True, exist_ok=True)
        p.write_text(txt)


def dump_index(zdir: Path):
    """Independent read of the index: raw SQLite rows flattened to one record per note."""
    db = zdir / ".zorg" / "zorg.db"
    con = sqlite3.connect(f"file:{db}?mode=ro", uri=True)
    con.row_factory = sqlite3.Row
    rows = []
    notes = con.execute("select * from note order by id").fetchall()

    def tags(table, link, col, nid):
        return sorted(r[0] for r in con.execute(f"select t.name from {table} t join {link} l on l.{col} = t.id where l.note_id = ?", (nid,)))

    for n in notes:
        nid = n["id"]
        props = sorted((r[0], r[1]) for r in con.execute("select p.name, l.value from property p join propertylink l on l.prop_id = p.id where l.note_id = ?", (nid,)))
        status = n["todo_status"]
        rows.append(
            {
                "id": nid,
                "zid": n["zid"],
                "path": n["page_path"],
                "line": n["line_no"],
                "kind": status if status else "BASIC",
                "priority": int(n["todo_priority"][1:]) if n["todo_priority"] else None,
                "body": n["body"],
                "cdate": [int(x) for x in str(n["create_date"]).split("-")],
                "mdate": [int(x) for x in str(n["modify_date"]).split("-")],
                "areas": tags("area", "arealink", "area_id", nid),
                "contexts": tags("context", "contextlink", "context_id", nid),
                "people": tags("person", "personlink", "person_id", nid),
                "projects": tags("project", "projectlink", "project_id", nid),
                "links": tags("link", "linklink", "link_id", nid),
                "props": [list(p) for p in props],
                "block_id": n["block_id"],
            }
        )
    con.close()
    return rows


def dump_pages(zdir: Path):
    db = zdir / ".zorg" / "zorg.db"
    con = sqlite3.connect(f"file:{db}?mode=ro", uri=True)
    rows = sorted(r[0] for r in con.execute("select path from page"))
    con.close()
    return rows
