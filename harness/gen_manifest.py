"""Writes MANIFEST.json from the table below (keeps it valid at all times)."""
import json
from pathlib import Path

VERIF = Path(__file__).resolve().parent.parent
ALL = [f"C{i:02d}" for i in range(1, 19)]

NOTE_STD = ("Trusted: Lean kernel, axioms propext/Classical.choice/Quot.sound as reported by #print axioms, harness/translate.py, "
            "the correspondence harness (sampled tie between model and code). ")

CHECKS = {
    "C01": dict(
        text="Lean theorems about a model of the .zo compiler (generated file-lexer DFAs + line/atom reading of ZorgFile.g4 + the listener's state machine): "
        "every note of a compiled page is an item line's (at most one note per item, line/kind/priority/body of that item; comments, headers, blank and "
        "continuation lines never become notes), notes are appended in file order, and after the first three body words nothing can change the identity "
        "(ZID, dates) - tight. The model is compared field by field with walk_zorg_page on generated pages (every kind, priority, 7 identity shapes, 55 word "
        "forms with look-alikes, bullets, irregular spacing, in-block comments, CRLF) and the pages' token streams with the real lexer.",
        note=NOTE_STD + "ANTLR's ALL(*) parse is not modelled: the line/atom reading is validated on every generated page (sampled). Character-level lexing of body "
        "words rests on the token correspondence.",
        technique="Lean 4 proof (page automaton invariants, identity window) + compile correspondence",
        design="§4 C01",
    ),
    "C02": dict(
        text="Lean theorems about the scoping logic of the compiler model: opening a level-k header removes exactly the scopes of level >= k, the stack of open "
        "sections is strictly increasing at all times, every note is built from the file scope and that stack only, in-block comments are inert, all-digit "
        "tags never enter a scope, scope flags gate tags/props/dates, innermost property wins. Tied to the code on every legal header sequence up to 6 (8) "
        "headers, exhaustively, with uniquely named decorations on title, header lines, section headers, comments and notes.",
        note=NOTE_STD + "The correspondence between the listener's per-level stores and the model's scope stack is validated, not proved.",
        technique="Lean 4 proof (scope-stack invariant over the page automaton) + exhaustive skeleton correspondence",
        design="§4 C02",
    ),
    "C03": dict(
        text="Lean theorem C03_refines: for every index, note and filter tree (any depth, every atom kind, every literal incl. % _ \\) the meaning of the "
        "emitted SQL (model of _query_converter.py helper by helper, with SQLite LIKE/ESCAPE, lower, date, CAST, IN/NOT IN) equals the specification "
        "evaluator sat (direct reading of the statement); corollaries: result set = filter sat, text literals literal, negation = complement, negated "
        "comparison needs the property. Both evaluators are tied to the code on real indexes built by `db create`: implementation result vs sat vs SQL "
        "model, universe read back from raw SQLite rows.",
        note=NOTE_STD + "SQLite/SQLAlchemy behaviour is modelled (Model/Sql.lean), not verified; date comparisons on digit-free values never hold (date() is NULL), other values that do "
        "not parse in the filter's type are open; ASCII, lower-case page/link names (LIKE folds case).",
        technique="Lean 4 proof (SQL meaning refines spec evaluator; LIKE-escape lemma) + index correspondence",
        design="§4 C03",
    ),
    "C04": dict(
        text="Lean theorem C04_denotes: for every well-formed query syntax tree (every select form, filter tree of any shape/depth, both clause orders) "
        "the parser+listener model applied to its token rendering yields its denotation, errors included; all 64 priority spellings are checked through "
        "the generated lexer DFAs by the kernel; calendar lemmas for relative dates (month clamping, short-date round trip). The model is tied to "
        "build_zorg_query by generated queries under a frozen clock on boundary days plus boundary enumerations, and token-stream correspondence of the "
        "generated DFAs with the real lexer.",
        note=NOTE_STD + "ANTLR's parse of a well-formed query = recursive-descent reading of the grammar (sampled); lexing of arbitrary identifiers rests on the "
        "token correspondence (only priority spellings are proved at character level). Juxtaposed kind letters are a recorded known finding.",
        technique="Lean 4 proof (parser model computes the denotation, induction over syntax trees) + generated lexer + correspondence",
        design="§4 C04",
    ),
    "C08": dict(
        text="PARTIAL. Lean: the listener's string processing is total for every input (identity words, metadata events, bullet-property scan: no crash branch "
        "reachable), and the flag / refusal decision logic (unflagged iff indexed, flagged => refused unless whitelisted or forced, never indexed as an "
        "ordinary page; flag iff parser error AND a note was reached + kernel-checked counterexample for the full statement). Sampled, not proved: that the "
        "ANTLR runtime terminates without raising and which texts it reports as erroneous - damaged-stream correspondence (valid pages with random edits, "
        "truncations, random strings over several alphabets) plus create / -f / whitelist / repeated-reindex refusal scenarios.",
        note=NOTE_STD + "ANTLR runtime behaviour on arbitrary text is outside the model. Unflagged broken pages without notes are a recorded known finding.",
        technique="Lean 4 proof (totality of listener string processing, decision logic) + damaged-stream fault sampling",
        design="§4 C08",
    ),
    "C09": dict(
        text="Lean theorems about a model of the executor (group -> order -> select): the rendered tree contains every matching note exactly once "
        "(permutation), every note sits under labels equal to its key per GROUP BY dimension, sibling labels strictly increasing, leaves sorted by the "
        "ORDER BY key, selections = distinct values (sorted under alpha), count = length; plus the kernel-checked counterexample for `O none`. "
        "The model's rendering is compared character by character with swog.execute on real indexes (all select forms, 0-4 grouping dimensions, "
        "order lists 0-4) and the output is compared with an independent rendering of the statement.",
        note=NOTE_STD + "Which rows match is taken from the emitted SQL (C03); the matching notes themselves are compiled from the files by (page, line), independently of the repo's row-to-note resolution; dates from the index rows; Note.to_string from the implementation (C12). For value selections without `O alpha` the set of values per group is compared (the statement fixes no order). `O none` string comparison is a recorded known finding.",
        technique="Lean 4 proof (permutation / sortedness invariants of group-order-select) + output correspondence",
        design="§4 C09",
    ),
    "C15": dict(
        text="Lean theorems about a model of _saved_queries.py: a missing reference (also nested) makes the expansion fail, queries without references are "
        "unchanged, recursion depth dep+1 suffices for acyclic sets (termination), substituted filters with alternatives are parenthesised, a "
        "parenthesised sub-filter is a conjunct (C15_meaning_sub), and the kernel-checked counterexample for un-parenthesised splices (kind pooling). "
        "Tied to the code by textual correspondence on generated acyclic saved-query sets and by executing referencing queries vs explicit conjunctions.",
        note=NOTE_STD + "Meaning is proved for parenthesised substitutions only; the un-parenthesised splice is a recorded known finding.",
        technique="Lean 4 proof (expansion model: termination, missing refs, grouping) + textual and execution correspondence",
        design="§4 C15",
    ),
    "C12": dict(
        text="Lean theorems at token level: the first line Note.to_string() writes (kind char, priority for todos that are not done, one space, stripped body) "
        "is classified by the compiler model with the same kind, the same priority and the same body atoms (hence the same identity words, tags, links and "
        "properties); the body survives up to outer whitespace (strip lemmas); kernel-checked counterexample for done todos whose body starts with Pn. "
        "Tied to the code by rendering every note compiled from generated pages with to_string(), recompiling the renderings under a header in original and "
        "shuffled order, and by swog.execute / refresh_zoq_file outputs on indexed directories.",
        note=NOTE_STD + "Lexing of the rendered text = tokens of the original body rests on the token correspondence. The done-todo/Pn case is a recorded known finding.",
        technique="Lean 4 proof (classification of rendered lines, strip idempotence) + render/recompile round trip",
        design="§4 C12",
    ),
    "C14": dict(
        text="Lean theorem: Python's two str.replace passes ('[[A]'->'[[B]', then '[[A#'->'[[B#') equal the one-pass specification "
        "(every link to A retargeted, every other character copied) for every text and all link-safe names, plus near-miss and "
        "no-link corollaries. The replace model is tied to run_file_rename by running the CLI on generated directories "
        "(.zo/.zot/.zoq, sub-directories, regex-metacharacter names, 11 near-miss link targets) and diffing all file bytes.",
        note=NOTE_STD + "File system atomic; names without [ ] # for the spec theorem.",
        technique="Lean 4 proof (two-pass replace = one-pass spec, induction on the text) + CLI correspondence",
        design="§4 C14",
    ),
    "C16": dict(
        text="Lean theorems about the decision logic of init_from_template (no clobber without overwrite, first matching pattern wins over "
        "later ones and over an explicit template, no match => nothing written, idempotence) for every pattern-match outcome, with "
        "re.match and jinja2 as parameters; _build_template_in_dir is modelled executably. Tied to the code by multi-step init "
        "sequences in one process (equal template basenames, sub-directories, -f, CLI and API) compared with the model and an independent reading.",
        note=NOTE_STD + "re.match / jinja2 / strptime are parameters computed by Python on both sides.",
        technique="Lean 4 proof (decision logic, all pattern outcomes) + multi-step correspondence",
        design="§4 C16",
    ),
    "C18": dict(
        text="Lean theorems about a model of file_groups.py: expansion of a concatenation = concatenation of expansions, plain paths untouched, "
        "group = in-order expansion of members, fuel (recursion depth) irrelevant for acyclic maps (depth-function argument, any nesting), "
        "date fields = today minus i days. Tied to the code by random acyclic maps x argument lists x frozen boundary days, compared with "
        "the model and an independent flatten.",
        note=NOTE_STD + "str.format/strftime modelled for the fragment listed in the evidence; pathlib normalisation applied to both sides.",
        technique="Lean 4 proof (structural induction, acyclicity by depth function) + correspondence",
        design="§4 C18",
    ),
    "C05": dict(
        text="Lean theorems about a model of the write-back path (_add_zids + the NewZorgNotes / EditedZorgNotes handlers + note_utils line surgery): the "
        "ZID is inserted right after the kind / priority prefix of the note's first line for every line of that shape, the rewrite touches only the first "
        "lines of the listed notes (line count and every other line unchanged), split/join loses no character. Idempotence at store level is C06_quiescent. "
        "Tied to the code by `db create` / `db reindex` on generated directories (new notes of every kind, long create dates, sections, several pages), "
        "diffing every file byte against the model and against an independent reading; second reindex must change nothing.",
        note=NOTE_STD + "File system atomic (crash windows are C13). Create dates outside 2000-2099, a modify-date-like first word without ZID and a page that is also reachable through a symbolic link inside the notes directory (the link name's file) are recorded known findings.",
        technique="Lean 4 proof (first-line surgery shape lemmas, minimal diff) + file-byte correspondence",
        design="§4 C05",
    ),
    "C06": dict(
        text="Lean theorems about an abstract store model (files, recorded hashes, indexed pages; operations edit / add / delete / rename / reindex(paths) / "
        "plain reindex / create, page semantics a parameter with a stability hypothesis): the invariant `a page whose recorded hash matches is indexed as its "
        "from-scratch page` is preserved by every operation sequence; after any history a plain reindex leaves exactly the from-scratch index of the current "
        "files (C06_equiv), a second one changes nothing (C06_quiescent). Tied to the code by random histories (edits, moved items, added / deleted / renamed "
        "pages, deleted-then-restored pages, clock advances) on real directories: incremental index vs fresh `db create` of a copy, row by row; the saved hash map vs the files; "
        "and every history replayed by the model (Index.run) must end in the same files, hash map and set of indexed pages.",
        note=NOTE_STD + "The page semantics (compile + write-back) is a parameter: its stability (reindexing a written-back page is a no-op) is validated by C05's runs; SQLite atomic per commit.",
        technique="Lean 4 proof (store invariant by induction over operation histories, refinement to from-scratch index) + history correspondence",
        design="§4 C06",
    ),
    "C10": dict(
        text="Lean theorems about the model of note_utils.add_note / delete_note (insertion index by create date, header-only / no-trailing-newline pages, "
        "first-line recognition at identity position): the source loses exactly the moved note's block (prefix and suffix lines untouched), the destination "
        "gains the note once and keeps every line in order for every page shape (the only line ever taken away is an empty line: C10_dest_only_empty_line_replaced, after repair 9873616); the moved text carries every tag and property of the note as a word "
        "(Model/Move.lean: _add_hidden_metadata; properties under the guard that keys are single words, kernel-checked counterexample otherwise). Tied to the code by `note move`/`note promote` style runs on generated "
        "directories (ZIDs mentioned in other notes, multi-line notes, template-created destinations), diffing source and destination bytes against the model and an independent oracle; the inserted text vs Move.movedText computed from the index row.",
        note=NOTE_STD + "File writes atomic; the move is two writes (crash between them is C13).",
        technique="Lean 4 proof (list surgery lemmas: block removal, order-preserving insertion) + file-byte correspondence",
        design="§4 C10",
    ),
    "C11": dict(
        text="Lean theorems about the modify-date decision and stamp: a freshly compiled note is stamped iff it carries a ZID the previous index held with a "
        "different state; new and unchanged notes are never stamped; the stamp is inserted in front of the ZID for every first line of the note shape; a "
        "later stamp replaces the earlier one; all other lines byte-identical. Tied to the code by edit histories under a frozen, advancing clock: which "
        "notes got stamped, with which day, and the file bytes, against the model and an independent reading.",
        note=NOTE_STD + "Note equality = the dataclass comparison of the compiled notes, modelled as equality of the compared fields (validated by the histories).",
        technique="Lean 4 proof (stamp decision iff, first-line surgery) + history correspondence",
        design="§4 C11",
    ),
    "C17": dict(
        text="Lean theorems about a model of run_action_open: the scan with its state variable equals the declarative target list of the statement (prefix words "
        "skipped, primary ZID left out, every later link / ZID offered in order), every answer line is a protocol message, one target is opened directly, "
        "several are offered through PROMPT, option k / -1 answers like a one-target line, out-of-range options fail without output, page links open "
        "zdir/p(.zo) (+ anchor search), ZID / ID / RID targets open the page given by the index lookup. Tied to the code by `zorg action open` on "
        "generated lines in .zo and .zoq pages of indexed directories against the model and an independent oracle.",
        note=NOTE_STD + "Index lookups are parameters computed from the raw SQLite rows; named-URL links and cite keys (external programs) are modelled but not exercised.",
        technique="Lean 4 proof (scan = declarative spec, dispatch case analysis) + CLI correspondence",
        design="§4 C17",
    ),
    "C13": dict(
        text="PARTIAL. Lean theorems about a small-step model of `db reindex` / `db create` (Model/Crash.lean: the run as the list of its external effects "
        "- commits, hash-map and page replacements - in the code's order, on top of C06's store model): for EVERY crash point k and every store satisfying "
        "C06's invariant, killing before effect k and running the command again yields full agreement of index, hash map and files, keeps every page's user "
        "text and the set of pages (C13_reindex, C13_create); the crash-state invariant; the complete effect list equals the big-step run; no ZID is "
        "assigned twice across a kill (C07's allocation theorem over the concatenated allocation sequences); kernel-checked counterexample showing that "
        "the effect order before the repair does not converge.  Tied to the code by (i) trace correspondence: effect order and hash-map payloads of every "
        "uninterrupted real run vs the model's effect list, (ii) fault injection at every effect boundary of real runs (kill = BaseException before the "
        "effect, rollback), rerun, comparison with the uninterrupted run; torn writes for direct file writes (all writes in thorough).",
        note=NOTE_STD + "Effects are atomic and ordered: fsync ordering, power loss and SQLite journal recovery are below the model (that is why this is partial). "
        "The damaged page versions left by the commits inside remove_file_by_name are arbitrary in the model. next_ids.json / whitelist are outside the store model. "
        "A modify date lost when the kill falls inside the removal of a page is a recorded known finding.",
        technique="Lean 4 proof (crash-state invariant over effect prefixes, refinement to C06's big-step reindex) + trace correspondence + fault injection",
        design="§4 C13",
    ),
    "C07": dict(
        text="Lean theorems about a model of _zid_manager.py transcribed character by character (odometer rank induction: "
        "uniqueness for every allocation sequence and restart pattern, shape, exhaustion point; the generated exclusion list "
        "is re-checked by decide +kernel). Model tied to the code by exhaustive comparison of the complete 135k successor chain "
        "and sampled allocation interleavings; allocated ZIDs are lexed by both real lexers and recompiled; is_zid over every calendar day 2000-2099; "
        "index-level allocation histories (all notes of a day leave, the database is created again, a new note of that day).",
        note="Trusted: Lean kernel, axioms propext/Classical.choice/Quot.sound, harness/translate.py, the correspondence harness; "
        "file IO atomic. The last-suffix off-by-one is a recorded known finding.",
        technique="Lean 4 proof (odometer induction + allocation invariant) + exhaustive chain correspondence",
        design="§4 C07",
    ),
}


def main():
    checks = []
    for pid in ALL:
        if pid not in CHECKS:
            continue
        c = CHECKS[pid]
        checks.append(
            {
                "property_id": pid,
                "quick_cmd": f"./check {pid} --tier quick",
                "thorough_cmd": f"./check {pid} --tier thorough",
                "evidence_file": f"evidence/{pid}.json",
                "replay_cmd_template": f"./check {pid} --replay {{path}}",
                "engine": "lean4+correspondence",
                "level_claimed": {"category": "proof", "text": c["text"], "design_ref": c["design"]},
                "level_note": c["note"],
                "technique": c["technique"],
            }
        )
    na = [
        {"property_id": pid, "reason": "model and check not built yet in this session (planned, see DESIGN.md §4/§9); not claimed until its check runs"}
        for pid in ALL
        if pid not in CHECKS
    ]
    assert not na
    m = {
        "version": 1,
        "setup_cmd": "cd lean && lake build ZorgVerif driver",
        "hooks": {
            "guard": "ZORG_VERIF",
            "enable": "no source hooks: the harness wraps library primitives from outside (ZORG_VERIF=1 is exported by ./check but read by nothing in /repo)",
            "baseline_off_cmd": "cd /repo && /venv/bin/python -m pytest -ra -q -p no:cacheprovider --timeout=900 --continue-on-collection-errors",
            "source_commits": [],
            "add_only": True,
        },
        "engines": [
            {
                "name": "lean4+correspondence",
                "path": "lean/ + harness/",
                "serves_properties": [c["property_id"] for c in checks],
                "kind_free_text": "Lean 4 models and theorems (lake build + #print axioms audit), Gen/*.lean regenerated from /repo on every run, Python harness driving the real code and the native Lean model driver on the same inputs",
            }
        ],
        "checks": checks,
        "notes": "Every check: regenerate Gen from /repo, lake build Props, audit axioms, correspondence + direct oracle on the implementation; see DESIGN.md §2.2 for the verdict protocol.",
        "not_applicable": na,
    }
    (VERIF / "MANIFEST.json").write_text(json.dumps(m, indent=1) + "\n")


if __name__ == "__main__":
    main()
