"""C12 — A note's text form compiles back to the same note."""
from __future__ import annotations

import datetime as dt
import re
import shutil
import sys
from pathlib import Path

import common as C
import c01
import history as H
import pagegen as G
import zocheck as ZC
import zorgapi as Z

PROP = "C12"
MODULES = ["ZorgVerif.Props.C12"]
TODAY = (2024, 6, 15)
FIELDS = ("kind", "zid", "body", "areas", "contexts", "people", "projects", "links", "props")


def compare(orig, back):
    """fields the statement requires to survive; returns message or None"""
    for k in FIELDS:
        if orig[k] != back[k]:
            return f"{k}: {orig[k]!r} -> {back[k]!r}"
    if orig["zid"]:
        for k in ("cdate", "mdate"):
            if orig[k] != back[k]:
                return f"{k}: {orig[k]!r} -> {back[k]!r}"
    if orig["kind"] not in ("BASIC", "CLOSED_TODO", "CANCELED_TODO") and orig["priority"] != back["priority"]:
        return f"priority: {orig['priority']!r} -> {back['priority']!r}"
    return None


def _to_strings(args):
    """compile a page and return ([note json], [to_string()])"""
    idx, text, base = args
    import os
    from freezegun import freeze_time
    from zorg.service.compiler import walk_zorg_page

    d = Path(base) / f"w{os.getpid()}"
    d.mkdir(parents=True, exist_ok=True)
    with C.QuietStderr():
        r = ZC.impl_compile(d, "p.zo", text, TODAY)
        if "exc" in r or r["errors"]:
            return idx, r, None
        with freeze_time(dt.datetime(*TODAY, 12, 0)):
            page = walk_zorg_page(d, Path("p.zo"))
        strs = [n.to_string() for n in page.notes]
    return idx, r, strs


def one_query_dir(ctx, res, rng, k):
    """an indexed directory: the note selector's output (swog.execute, refresh_zoq_file) compiled again"""
    from freezegun import freeze_time
    from zorg.service import swog
    from zorg.service.swog._refresh_zoq_file import refresh_zoq_file

    cfg = Z.write_config(ctx.tmp / "cfg.yml")
    zdir = ctx.tmp / "q"
    if zdir.exists():
        shutil.rmtree(zdir)
    zdir.mkdir(parents=True)
    files = G.gen_dir(rng, npages=(2, 3), sections=False)
    # every fourth directory: a note copied (with its ZID) to another page and edited there - the same ZID on two pages is a legal
    # index content, and an ungrouped selection brings both notes onto one page
    dup = False
    if k % 4 == 1 and len(files) >= 2:
        a, b = sorted(files)[:2]
        cands = [l for l in files[a].split("\n") if re.match(r"^[-ox~<>] (P\d )?(\d{6} )?\d{6}#\w\w\w? ", l)]
        if cands:
            files[b] = files[b].rstrip("\n") + "\n\n" + cands[len(cands) // 2] + " (copied and edited)\n"
            dup = True
    if k % 3 == 0 and len(files) >= 2:
        # tags / people / property keys that differ only by letter case are different names
        a, b = sorted(files)[:2]
        files[a] = files[a].rstrip("\n") + "\n\n- 200101#c0 upper #CaseTag %Bob +Proj @Ctx Due::friday\n"
        files[b] = files[b].rstrip("\n") + "\n\n- 200101#c1 lower #casetag %bob +proj @ctx due::monday\no 200101#c2 mixed #CASETAG %BOB DUE::never\n"
    if k % 5 == 2:
        # a page in DOS format (every note has its ZID already, so zorg never rewrites it): the line ends inside a multi-line
        # note are part of its body
        files["dos.zo"] = "# DOS page\r\n\r\n- 200101#d0 first line #dos\r\n  * bullet one\r\n  second line\r\no P2 200101#d1 todo\r\n  more\r\nx 200101#d2 single\r\n"
    G.write_dir(zdir, files)
    Z.clear_engine_cache()
    with freeze_time(dt.datetime(*TODAY, 12, 0)):
        rc, _, _ = Z.zorg_main(zdir, "db", "create", config=cfg)
        if rc != 0:
            return None
        url = f"sqlite:///{zdir}/.zorg/zorg.db"
        all_rows = G.dump_index(zdir)
        rows = {r["zid"]: r for r in all_rows}
        res.count("dir_with_zid_on_two_pages" if dup else "dir_with_distinct_zids")
        if k % 2 == 0:
            # notes edited and stamped on three later days (multi-line ones every day): what the selector prints must still
            # compile to the notes as they are written in the files
            w = H.World(ctx, rng, zdir, cfg, start=TODAY)
            for _rnd in range(3):
                w.advance(1)
                for rel, text in w.files().items():
                    ls = text.split("\n")
                    spans = H.item_spans(ls)
                    for a, _b in ([sp for sp in spans if sp[1] - sp[0] > 1][:2] or spans[:1]):
                        ls[a] += f" r{_rnd}"
                    (zdir / rel).write_text("\n".join(ls))
                if w.run("db", "reindex") != 0:
                    return None
            all_rows = G.dump_index(zdir)
            rows = {r["zid"]: r for r in all_rows}
        written = {}
        for pth in sorted(zdir.rglob("*.zo")):
            if ".zorg" not in pth.parts:
                comp = ZC.impl_compile(ctx.tmp / "w", "p.zo", pth.open(newline="").read(), TODAY)
                for n in comp.get("notes", []):
                    if n["zid"]:
                        written[n["zid"]] = n["body"]
        # the text form `note move` writes (inherited tags / properties made explicit after the ZID) compiles back to the note
        from zorg.service import note_utils
        from zorg.storage.sql import SQLSession

        with SQLSession(zdir, url) as session:
            moved_texts = []
            for zid, r in ({} if dup else rows).items():
                n = session.repo.get_note_by_zid(zid)
                if n is not None:
                    moved_texts.append((zid, note_utils._add_hidden_metadata(n).to_string()))
        for zid, text in moved_texts:
            back = ZC.impl_compile(ctx.tmp / "b", "p.zo", "# moved\n\n" + text, TODAY)
            res.evaluations += 1
            r = rows[zid]
            ok = "exc" not in back and not back["errors"] and len(back["notes"]) == 1
            if ok:
                n = back["notes"][0]
                ok = n["zid"] == zid and n["kind"] == r["kind"] and n["cdate"] == r["cdate"] and all(set(r[k]) <= set(n[k]) for k in ("areas", "contexts", "people", "projects"))
            if not ok:
                res.failures.append(C.Failure(f"the text `note move` writes for {zid} does not compile back to that note: {text!r} -> {str(back.get('notes', back))[:300]}",
                                              {"kind": "moved_text", "zid": zid, "text": text, "orig": r}))
                break
        for order in ("none", "alpha", "create modify", "type priority", "priority", "modify"):
            q = f"S note W o | x | ~ | < | > | - O {order} G none"
            out = swog.execute(zdir, url, q)
            zoq = zdir / "zoq" / "r.zoq"
            zoq.parent.mkdir(exist_ok=True)
            zoq.write_text(f"# {q}\n")
            refresh_zoq_file(zdir, url, zoq)
            for label, text in (("swog.execute output under a header", "# results\n\n" + out + "\n"), ("refreshed .zoq page", zoq.open(newline="").read() + "\n")):
                back = ZC.impl_compile(ctx.tmp / "b", "p.zo", text, TODAY)
                res.evaluations += 1
                if "exc" in back or back["errors"]:
                    res.failures.append(C.Failure(f"{label} is not a valid page", {"query": q, "text": text[:2000], "kind": "invalid_page"}))
                    break
                got = sorted(n["zid"] or "" for n in back["notes"])
                if got != sorted(r["zid"] for r in all_rows):
                    res.failures.append(C.Failure(f"{label}: compiled notes {got[:5]} are not the selected notes {sorted(rows)[:5]}", {"query": q, "text": text[:2000]}))
                    break
                if dup:
                    gb, wb = sorted((n["zid"], n["body"], n["kind"]) for n in back["notes"]), sorted((r["zid"], r["body"], r["kind"]) for r in all_rows)
                    if gb != wb:
                        res.failures.append(C.Failure(f"{label}: compiled notes differ from the selected notes: {[x for x in gb if x not in wb][:2]} vs {[x for x in wb if x not in gb][:2]}", {"query": q, "kind": "dup_zid"}))
                        break
                    continue
                for n in back["notes"]:
                    r = rows[n["zid"]]
                    # what the printed note carries itself is part of what the index holds for it (same spelling)
                    lost = [(f, x) for f in ("areas", "contexts", "people", "projects", "links") for x in n[f] if x not in r[f]]
                    lost += [("props", tuple(kv)) for kv in n["props"] if list(kv) not in [list(p) for p in r["props"]]]
                    if lost:
                        res.failures.append(C.Failure(f"{label}: note {n['zid']} is printed with {lost[:3]} which the index does not hold for it ({ {f: r[f] for f, _ in lost[:3]} })",
                                                      {"query": q, "kind": "own_metadata"}))
                        break
                    if n["body"] != r["body"] or n["kind"] != r["kind"]:
                        res.failures.append(C.Failure(f"{label}: note {n['zid']} body/kind changed: {r['body']!r} -> {n['body']!r}", {"query": q}))
                        break
                    if n["body"] != written.get(n["zid"], n["body"]):
                        res.failures.append(C.Failure(f"{label}: note {n['zid']} is printed as {n['body']!r} but the page holds {written[n['zid']]!r}", {"query": q, "kind": "printed_vs_page"}))
                        break
    return None


def body(ctx: C.Ctx, proof: C.ProofStatus) -> C.Result:
    import multiprocessing as mp

    res = C.Result()
    rng = ctx.rng
    n = ctx.scale(500, 12000)
    base = ctx.tmp / "z"
    base.mkdir(parents=True)
    pages = []
    # pinned witness of the known finding + its neighbours (body of a todo starting with a Pn word)
    pages.append("# T\n\nx P3 P1 foo\n~ P2 P0 bar\no P2 P1 open keeps its priority\n- P5 is a plain word here\nx 240101#00 P1 after a zid\n")
    for _ in range(n):
        feats = set()
        text, exp = c01.gen_page(rng, feats, crlf=False)
        pages.append(text)
    with mp.get_context("fork").Pool(14) as pool:
        firsts = sorted(pool.imap_unordered(_to_strings, [(i, t, str(base)) for i, t in enumerate(pages)], chunksize=8))
    # second pass: each page's notes rendered with to_string() under a fresh header, in 3 orders
    seconds, metas = [], []
    for i, r, strs in firsts:
        if strs is None:
            continue
        notes = r["notes"]
        order = list(range(len(notes)))
        for variant in range(2):
            if variant == 1:
                rng.shuffle(order)
            text2 = "# rendered\n\n" + "".join(strs[j] for j in order)
            seconds.append(text2)
            metas.append((i, [notes[j] for j in order], [strs[j] for j in order]))
    backs = ZC.impl_compile_many(base, seconds, TODAY)
    for (i, origs, strs), text2, back in zip(metas, seconds, backs):
        res.evaluations += 1
        case = {"page": pages[i], "rendered": text2}
        if not origs:
            continue
        res.nontrivial.add(text2)
        if "exc" in back:
            res.failures.append(C.Failure(f"the page made of to_string() texts does not compile: {back['exc']}", case))
            continue
        if back["errors"] or back["has_errors"]:
            res.failures.append(C.Failure("the ungrouped rendering placed under a header is not a valid page (syntax errors)", {**case, "kind": "invalid_page"}))
            continue
        if len(back["notes"]) != len(origs):
            res.failures.append(C.Failure(f"{len(origs)} notes rendered, {len(back['notes'])} compiled back", {**case, "kind": "count"}))
            continue
        for o, b, s in zip(origs, back["notes"], strs):
            msg = compare(o, b)
            res.count("notes_round_tripped")
            if msg:
                res.failures.append(C.Failure(f"to_string() {s!r} compiles back with a different {msg}", {**case, "note_text": s, "orig": o, "back": b}))
                break
        if len(res.samples) < 2 and len(origs) > 2:
            res.sample({"rendered_page": text2[:500]})
    # model: to_string of the model vs implementation is part of the Zo correspondence (C01); here the model's
    # classify-round-trip theorem is tied by checking that the first line of every to_string() classifies as the note's kind
    if proof.driver_ok:
        reqs = [{"op": "zo.compile", "text": t, "today": list(TODAY)} for t in seconds[: ctx.scale(300, 5000)]]
        for (m, back, t) in zip(C.model_batch(reqs), backs, seconds):
            if "ok" in m and "notes" in back and not back["errors"]:
                d = ZC.diff_notes(back["notes"], m["ok"])
                if d:
                    res.disagreements.append(C.Failure(f"Zo model vs walk_zorg_page on a rendered page: {d}", {"text": t}, "correspondence"))
            elif "err" in m:
                res.unsupported += 1
    # query output / saved query page path
    from freezegun import freeze_time
    from zorg.service import swog
    from zorg.service.swog._refresh_zoq_file import refresh_zoq_file

    sres, _ = C.parallel_jobs(ctx, ctx.scale(12, 120), one_query_dir)
    res.merge(sres)
    return res


def classify(f: C.Failure, entry: dict) -> bool:
    case = f.case if isinstance(f.case, dict) else {}
    if entry.get("classifier") == "done_todo_body_starts_with_priority":
        o = case.get("orig")
        import re

        return bool(o) and o["kind"] in ("CLOSED_TODO", "CANCELED_TODO") and re.match(r"^P\d( |$)", o["body"]) is not None
    return False


RULE = (
    "every note compiled from C01's generated pages (all kinds, priorities, identity shapes, multi-line, 55 word forms) is rendered with "
    "Note.to_string(), the renderings are placed under a page header in original and shuffled order and compiled again; also swog.execute "
    "'S note … G none' under 6 orderings and refresh_zoq_file pages on indexed directories (every second one with notes stamped on three later days, every fourth one with a note copied with its ZID to another page, every third one with tags / keys differing only by case; printed metadata vs index row); non-trivial = distinct rendered page with notes"
)
ASSUME = ["compile correspondence of C01 for the second compilation"]

if __name__ == "__main__":
    sys.exit(C.run_check(PROP, MODULES, body, rule=RULE, assumptions=ASSUME, classify=classify))
