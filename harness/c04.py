"""C04 — Query text is compiled into the structure its syntax denotes."""
from __future__ import annotations

import datetime as dt
import sys

import common as C

PROP = "C04"
MODULES = ["ZorgVerif.Props.C04"]

IDS = ["foo", "bar", "a1", "zorg", "proj_x", "o", "x", "P5", "file", "none", "type", "priority", "alpha", "create", "modify",
       "section", "2024", "0", "10", "x9", "Sx", "note1", "B", "k_1", "LID", "due", "p", "ab", "W2", "cc", "Oo"]
KINDS = {"-": "BASIC", "o": "OPEN_TODO", "x": "CLOSED_TODO", "~": "CANCELED_TODO", "<": "BLOCKED_TODO", ">": "PARENT_TODO"}
TAGS = {"#": "areas", "@": "contexts", "%": "people", "+": "projects"}
DAYS = [(2024, 1, 31), (2024, 2, 29), (2023, 2, 28), (2024, 3, 31), (2024, 12, 31), (2023, 12, 31), (2000, 1, 3), (2024, 5, 30), (2024, 8, 31),
        (2024, 10, 31), (2023, 1, 29), (2023, 1, 30), (2024, 1, 30), (2020, 2, 29), (2024, 6, 15), (2099, 12, 31), (2024, 7, 1), (1999, 3, 31)]
SELECTS = [("note", ["field", "note"]), ("file", ["field", "file"]), ("prop", ["field", "prop"]), ("links", ["field", "links"]),
           ("#", ["field", "area"]), ("@", ["field", "context"]), ("%", ["field", "person"]), ("+", ["field", "project"])]
ORDERS = {"alpha": "ALPHA", "create": "CREATE_DATE", "modify": "MODIFY_DATE", "priority": "PRIORITY", "type": "NOTE_TYPE", "none": "NONE"}
GROUPS = {"@": "CONTEXT", "#": "AREA", "%": "PERSON", "+": "PROJECT", "file": "FILE", "type": "NOTE_TYPE", "priority": "PRIORITY", "section": "SECTION"}


# ---------------------------------------------------------------- expected dates (independent of zorg and of the Lean model)
def add_months(d: dt.date, n: int) -> dt.date:
    import calendar

    k = d.year * 12 + (d.month - 1) + n
    y, m = divmod(k, 12)
    m += 1
    return dt.date(y, m, min(d.day, calendar.monthrange(y, m)[1]))


def date_of_spec(today: dt.date, spec: str) -> dt.date:
    if len(spec) == 6 and spec.isdigit():
        return dt.date(2000 + int(spec[:2]), int(spec[2:4]), int(spec[4:]))
    if len(spec) == 10 and spec[4] == "-":
        return dt.date(int(spec[:4]), int(spec[5:7]), int(spec[8:]))
    neg = spec.startswith("-")
    body = spec.lstrip("-")
    n, u = int(body[:-1]), body[-1].lower()
    if neg:
        n = -n
    if u == "d":
        return dt.date.fromordinal(today.toordinal() + n)
    if u == "m":
        return add_months(today, n)
    return add_months(today, 12 * n)


def _valid_short(v: str) -> bool:
    try:
        dt.date(2000 + int(v[:2]), int(v[2:4]), int(v[4:]))
        return True
    except ValueError:
        return False


def vtype_of(v: str) -> str:
    body = v[1:] if v.startswith("-") else v
    if (len(v) == 6 and v.isdigit() and _valid_short(v)) or (len(v) == 10 and v[4] == "-" and v[7] == "-" and v.replace("-", "").isdigit()) or (
        len(body) > 1 and body[:-1].isdigit() and body[-1].lower() in "dmy"
    ):
        return "DATE"
    if all(ch.isdigit() for ch in v):
        return "INTEGER"
    return "STRING"


# ---------------------------------------------------------------- generator: abstract query + its text + its expected canonical form
def empty_and():
    return {"kinds": [], "priorities": [], "areas": [], "contexts": [], "people": [], "projects": [], "created": [], "modified": [],
            "props": [], "descs": [], "files": [], "links": [], "subs": []}


def gen_date_spec(rng):
    r = rng.random()
    if r < 0.35:
        return "%02d%02d%02d" % (rng.randint(0, 99), rng.randint(1, 12), rng.randint(1, 28))
    n = rng.choice([0, 1, 2, 3, 7, 11, 12, 13, 24, 30, 31, 59, 365, 366, 400])
    return ("-" if rng.random() < 0.4 else "") + f"{n}{rng.choice('dmy')}"


def gen_atom(rng, today, depth, feats):
    """returns (text, mutate(and_dict))"""
    r = rng.random()
    if r < 0.14:
        ks = rng.sample(list(KINDS), rng.randint(1, 3))
        # juxtaposed spelling only where no two letters are adjacent
        txt = "".join(ks)
        if "ox" in txt or "xo" in txt:
            ks = [k for k in ks if k != "x"]
            txt = "".join(ks)
        feats.add("kinds" + str(len(ks)))
        return txt, lambda a: a["kinds"].extend(KINDS[k] for k in ks)
    if r < 0.26:
        n = rng.randint(0, 9)
        if rng.random() < 0.5 and n <= 9:
            m = rng.randint(max(n, 1), 9)
            feats.add("prio_range")
            return f"P{n}-{m}", lambda a: a["priorities"].extend(range(n, m + 1))
        feats.add("prio")
        return f"P{n}", lambda a: a["priorities"].append(n)
    if r < 0.40:
        sym = rng.choice(list(TAGS))
        neg = rng.random() < 0.3
        name = rng.choice(IDS)
        feats.add("tag" + ("!" if neg else ""))
        return ("!" if neg else "") + sym + name, lambda a: a[TAGS[sym]].append(("-" if neg else "") + name)
    if r < 0.54:
        head = rng.choice("^$")
        s = gen_date_spec(rng)
        e = gen_date_spec(rng) if rng.random() < 0.5 else None
        txt = head + s + (":" + e if e else "")
        ds = date_of_spec(today, s)
        de = date_of_spec(today, e) if e else None
        feats.add("range_" + ("rel" if not s.isdigit() else "abs") + ("_tail" if e else ""))
        key = "created" if head == "^" else "modified"
        return txt, lambda a: a[key].append([[ds.year, ds.month, ds.day], [de.year, de.month, de.day] if de else None])
    if r < 0.68:
        neg = rng.random() < 0.25
        key = rng.choice(IDS)
        op, opname = rng.choice([("", "EQ"), ("<", "LT"), ("<=", "LE"), (">", "GT"), (">=", "GE")])
        rv = rng.random()
        if rv < 0.15:
            txt, val, opname, op = "*", "", "EXISTS", ""
        elif rv < 0.35:
            txt = val = "%04d-%02d-%02d" % (rng.randint(2000, 2030), rng.randint(1, 12), rng.randint(1, 28))
        elif rv < 0.5:
            txt = val = rng.choice(["0", "10", "42", "007", "2024", "987654"])
        elif rv < 0.6:
            txt = val = rng.choice(["1", "5", "9"])  # single digits 1-9 are literal tokens (parser recovers)
            feats.add("prop_single_digit")
        elif rv < 0.75:
            txt = val = rng.choice(["240101", "991231", "100000", "0d", "-7d", "3m", "12y", "-1y", "365d"])
            feats.add("prop_dateish" + ("_noop" if not op else ""))
            if not op and key in ("o", "x", "P5"):
                key = "due"  # Open: keys that are kind characters / Pn with a glued ':date' value (prediction takes them for kinds)
        else:
            txt = val = rng.choice(IDS)
        feats.add("prop_" + opname)
        vt = vtype_of(val)
        return ("!" if neg else "") + f"{key}:{op}{txt}", lambda a: a["props"].append([key, val, opname, vt, neg])
    if r < 0.80:
        neg = rng.random() < 0.25
        cs = rng.random() < 0.3
        q = rng.choice("'\"")
        oq = "\"" if q == "'" else "'"
        words = []
        for _ in range(rng.randint(1, 3)):
            w = rng.choice(IDS + ["Foo", "a-b", "x.y", "a/b", "k:v", "#t", "50%", "a_b", "(z)", "it" + ("\"" if q == "'" else "'") + "s", "2024-01-01", "*", "=", "~"]
                           # the other quote character at the very start / end of a word (and so, often, of the whole description)
                           + [oq + "tis", "n" + oq, oq + "foo" + oq, oq])
            words.append(w)
        val = " ".join(words)
        feats.add("desc" + ("_c" if cs else "") + ("!" if neg else ""))
        return ("!" if neg else "") + ("c" if cs else "") + q + val + q, lambda a: a["descs"].append([val, cs, neg])
    if r < 0.88:
        neg = rng.random() < 0.25
        d = rng.choice(["", "", "dir/", "a/b/"])
        pre = rng.choice(["", "", "*", "*_"])
        post = rng.choice(["", "", "*"])
        name = rng.choice(IDS)
        g = d + pre + name + post
        glob = g if g.endswith("*") else g + ".zo"
        feats.add("file" + ("!" if neg else ""))
        return ("!" if neg else "") + "f=" + g, lambda a: a["files"].append([glob, neg])
    if r < 0.95 or depth >= 4:
        neg = rng.random() < 0.25
        link = rng.choice(["", "", "dir/", "a/b/"]) + rng.choice(IDS)
        feats.add("link" + ("!" if neg else ""))
        return ("!" if neg else "") + f"[[{link}]]", lambda a: a["links"].append([link, neg])
    txt, orf = gen_or(rng, today, depth + 1, feats)
    feats.add(f"sub_depth{depth + 1}")
    return "(" + txt + ")", lambda a: a["subs"].append(orf)


def gen_and(rng, today, depth, feats):
    a = empty_and()
    parts = []
    for _ in range(rng.randint(1, 4)):
        t, f = gen_atom(rng, today, depth, feats)
        parts.append(t)
        f(a)
    return " ".join(parts), a


def gen_or(rng, today, depth, feats):
    n = 1 if rng.random() < 0.6 else rng.randint(2, 3)
    ts, out = [], []
    for _ in range(n):
        t, a = gen_and(rng, today, depth, feats)
        ts.append(t)
        out.append(a)
    return " | ".join(ts), out


def gen_query(rng, defaults):
    today = dt.date(*rng.choice(DAYS))
    feats = set()
    sel_txt, sel = None, defaults["select"]
    if rng.random() < 0.5:
        r = rng.random()
        if r < 0.2:
            k = rng.choice(IDS)
            sel_txt, sel = f"prop:{k}", ["field", "propValues", k]
        else:
            sel_txt, sel = rng.choice(SELECTS)
            sel = list(sel)
        if rng.random() < 0.3:
            sel_txt, sel = f"count({sel_txt})", ["count"] + sel[1:]
        feats.add("select")
    where_txt, where = None, None
    if sel_txt is None or rng.random() < 0.8:
        where_txt, where = gen_or(rng, today, 0, feats)
    order_txt, order = None, defaults["order"]
    if rng.random() < 0.5:
        ks = [rng.choice(list(ORDERS)) for _ in range(rng.randint(1, 4))]
        order_txt, order = " ".join(ks), [ORDERS[k] for k in ks]
    group_txt, group = None, defaults["group"]
    if rng.random() < 0.5:
        ks = [rng.choice(list(GROUPS) + ["none"]) for _ in range(rng.randint(1, 4))]
        group_txt, group = " ".join(ks), [GROUPS[k] for k in ks if k != "none"]
    parts = []
    if sel_txt:
        parts.append("S " + sel_txt)
    if where_txt:
        parts.append("W " + where_txt)
    og = []
    if order_txt:
        og.append("O " + order_txt)
    if group_txt:
        og.append("G " + group_txt)
    if len(og) == 2 and rng.random() < 0.5:
        og.reverse()
        feats.add("G_before_O")
    text = " ".join(parts + og)
    return {"text": text, "today": [today.year, today.month, today.day], "expect": {"select": sel, "where": where, "order": order, "group": group}, "feats": sorted(feats)}


# ---------------------------------------------------------------- canonical forms
def canon_and(a):
    out = {}
    for k in ("kinds", "priorities", "areas", "contexts", "people", "projects"):
        out[k] = sorted(set(a[k]))
    for k in ("created", "modified", "props", "descs", "files", "links"):
        out[k] = sorted({C.json.dumps(x) for x in a[k]})
    out["subs"] = [[canon_and(x) for x in o] for o in a["subs"]]
    return out


def canon_expect(e):
    return {"select": e["select"], "where": None if e["where"] is None else [canon_and(a) for a in e["where"]], "order": e["order"], "group": e["group"]}


def and_of_model(m):
    a = empty_and()
    for at in m["atoms"]:
        t = at[0]
        if t == "kinds":
            a["kinds"] += at[1]
        elif t == "priorities":
            a["priorities"] += at[1]
        elif t == "tag":
            a[at[1]].append(("-" if at[2] else "") + at[3])
        elif t in ("created", "modified"):
            a[t].append([at[1], at[2]])
        elif t == "prop":
            a["props"].append(at[1:])
        elif t == "desc":
            a["descs"].append(at[1:])
        elif t == "file":
            a["files"].append(at[1:])
        elif t == "link":
            a["links"].append(at[1:])
    a["subs"] = [[and_of_model(x) for x in o] for o in m["subs"]]
    return a


def canon_model(m):
    return {"select": m["select"], "where": None if m["where"] is None else [canon_and(and_of_model(a)) for a in m["where"]], "order": m["order"], "group": m["group"]}


def and_of_impl(w):
    d = lambda x: [x.year, x.month, x.day]
    a = empty_and()
    a["kinds"] = [k.name for k in w.allowed_note_types]
    a["priorities"] = [int(p[1:]) for p in w.priorities]
    a["areas"], a["contexts"], a["people"], a["projects"] = list(w.areas), list(w.contexts), list(w.people), list(w.projects)
    a["created"] = [[d(r.start), d(r.end) if r.end else None] for r in w.create_date_ranges]
    a["modified"] = [[d(r.start), d(r.end) if r.end else None] for r in w.modify_date_ranges]
    a["props"] = [[p.key, p.value, p.op.name, p.value_type.name, p.negated] for p in w.property_filters]
    a["descs"] = [[f.value, bool(f.case_sensitive), f.op.name == "NOT_CONTAINS"] for f in w.desc_filters]
    a["files"] = [[f.path_glob, f.negated] for f in w.file_filters]
    a["links"] = [[f.link, f.negated] for f in w.link_filters]
    a["subs"] = [[and_of_impl(x) for x in o.and_filters] for o in w.or_filters]
    return a


def select_of_impl(s):
    from zorg.domain.types import SelectAggregation, SelectPropertyValues

    names = {"FILE": "file", "NOTE": "note", "AREA": "area", "CONTEXT": "context", "PERSON": "person", "PROJECT": "project", "PROPERTY": "prop", "LINKS": "links"}
    if isinstance(s, SelectAggregation):
        return ["count"] + select_of_impl(s.select_type)[1:]
    if isinstance(s, SelectPropertyValues):
        return ["field", "propValues", s.key]
    return ["field", names[s.name]]


def run_impl(text, today):
    from freezegun import freeze_time
    from zorg.service.compiler import build_zorg_query

    with freeze_time(dt.datetime(*today, 12, 0)):
        try:
            q = build_zorg_query(text)
        except Exception as e:  # noqa
            return {"err": type(e).__name__, "what": str(e)[:200]}
    return {"ok": {"select": select_of_impl(q.select), "where": None if q.where is None else [canon_and(and_of_impl(a)) for a in q.where.and_filters],
                   "order": [o.name for o in q.order_by], "group": [g.name for g in q.group_by]}}


def boundary_cases(defaults):
    out = []
    base = {"select": defaults["select"], "order": defaults["order"], "group": defaults["group"]}
    # all 64 priority spellings of the 55 ascending sets (+ P0 alone etc.)
    for n in range(10):
        a = empty_and(); a["priorities"] = [n]
        out.append({"text": f"W P{n}", "today": [2024, 1, 1], "expect": {**base, "where": [a]}, "feats": ["prio_boundary"]})
        for m in range(max(n, 1), 10):
            a = empty_and(); a["priorities"] = list(range(n, m + 1))
            out.append({"text": f"W P{n}-{m}", "today": [2024, 1, 1], "expect": {**base, "where": [a]}, "feats": ["prio_boundary"]})
    # every non-empty subset of kind characters, space-separated
    import itertools

    for r in range(1, 7):
        for ks in itertools.combinations(list(KINDS), r):
            a = empty_and(); a["kinds"] = [KINDS[k] for k in ks]
            out.append({"text": "W " + " ".join(ks), "today": [2024, 1, 1], "expect": {**base, "where": [a]}, "feats": ["kinds_boundary"]})
    # every select field x count
    for txt, sel in SELECTS:
        out.append({"text": f"S {txt}", "today": [2024, 1, 1], "expect": {**base, "select": list(sel), "where": None}, "feats": ["select_boundary"]})
        out.append({"text": f"S count({txt})", "today": [2024, 1, 1], "expect": {**base, "select": ["count"] + list(sel)[1:], "where": None}, "feats": ["select_boundary"]})
    # known finding witness: juxtaposed kind characters containing a letter pair lex as one identifier
    a = empty_and(); a["kinds"] = [KINDS[k] for k in "ox~<>-"]
    out.append({"text": "W ox~<>-", "today": [2024, 1, 1], "expect": {**base, "where": [a]}, "feats": ["kf_juxtaposed"]})
    # relative dates on month-end / leap days
    for day in DAYS:
        t = dt.date(*day)
        for spec in ("1m", "-1m", "2m", "12m", "-13m", "1y", "-1y", "4y", "1d", "-1d", "0d", "31d", "366d", "13m", "-2m", "11m"):
            a = empty_and(); ds = date_of_spec(t, spec)
            a["created"] = [[[ds.year, ds.month, ds.day], None]]
            out.append({"text": f"W ^{spec}", "today": list(day), "expect": {**base, "where": [a]}, "feats": ["date_boundary"]})
    return out


def _short_valid_chunk(yy):
    from zorg.shared import dates as zdt

    out = []
    for mm in range(100):
        for dd in range(100):
            s = "%02d%02d%02d" % (yy, mm, dd)
            if zdt.is_short_date_spec(s):
                out.append(s)
    return out


def calendar_exhaustive(res, proof):
    """the calendar core shared by C01 / C04 / C07 / C08, exhaustively: every six-digit string through `is_short_date_spec`
    (implementation) vs the real calendar (datetime.date, 20YY) vs Model/Date.lean; long dates on boundary years"""
    import multiprocessing as mp

    from zorg.shared import dates as zdt

    with mp.get_context("fork").Pool(14) as pool:
        impl = [s for chunk in pool.map(_short_valid_chunk, range(100)) for s in chunk]
    real = []
    for yy in range(100):
        for mm in range(1, 13):
            for dd in range(1, 32):
                try:
                    dt.date(2000 + yy, mm, dd)
                    real.append("%02d%02d%02d" % (yy, mm, dd))
                except ValueError:
                    pass
    res.evaluations += 1000000
    res.count("six_digit_strings", 1000000)
    if impl != real:
        diff = sorted(set(impl) ^ set(real))
        res.failures.append(C.Failure(f"is_short_date_spec disagrees with the calendar on {len(diff)} six-digit strings, e.g. {diff[:5]} (accepted by the implementation: {[d in set(impl) for d in diff[:5]]})",
                                      {"kind": "calendar", "strings": diff[:20]}))
    for s in real[:: 997] + ["000229", "240229", "991231"]:
        got = zdt.from_short_date_spec(s)
        if (got.year, got.month, got.day) != (2000 + int(s[:2]), int(s[2:4]), int(s[4:6])):
            res.failures.append(C.Failure(f"from_short_date_spec({s!r}) = {got}, a YYMMDD date means 20YY-MM-DD", {"kind": "calendar", "string": s}))
            break
    # long dates: `is_long_date_spec` is the SHAPE test (callers ignore impossible dates); conversion succeeds iff the day exists
    longs = ["%04d-%02d-%02d" % (y, m, d) for y in (1, 1999, 2000, 2023, 2024, 2100, 2400, 9999) for m in range(0, 14) for d in range(0, 33)]
    impl_long = []
    for x in longs:
        if not zdt.is_long_date_spec(x):
            res.failures.append(C.Failure(f"is_long_date_spec({x!r}) is False for a YYYY-MM-DD shaped word", {"kind": "calendar", "string": x}))
            break
        try:
            got = zdt.from_date_spec(x)
            impl_long.append((got.year, got.month, got.day) == (int(x[:4]), int(x[5:7]), int(x[8:])))
        except ValueError:
            impl_long.append(False)
    real_long = []
    for x in longs:
        try:
            dt.date(int(x[:4]), int(x[5:7]), int(x[8:]))
            real_long.append(True)
        except ValueError:
            real_long.append(False)
    res.evaluations += len(longs)
    if len(impl_long) == len(longs) and impl_long != real_long:
        k = next(i for i in range(len(longs)) if impl_long[i] != real_long[i])
        res.failures.append(C.Failure(f"from_date_spec({longs[k]!r}) {'converts' if impl_long[k] else 'fails'}, the calendar says the day {'exists' if real_long[k] else 'does not exist'}", {"kind": "calendar", "string": longs[k]}))
    if proof.driver_ok:
        m1, m2 = C.model_batch([{"op": "date.validShortAll"}, {"op": "date.validLong", "dates": longs}])
        if m1.get("valid") != impl:
            diff = sorted(set(m1.get("valid", [])) ^ set(impl))
            res.disagreements.append(C.Failure(f"Date.parseShort vs is_short_date_spec differ on {diff[:5]}", {"strings": diff[:20]}, "correspondence"))
        if m2.get("valid") != impl_long:
            k = next((i for i in range(len(longs)) if m2.get("valid", [None] * len(longs))[i] != impl_long[i]), 0)
            res.disagreements.append(C.Failure(f"Date.parseLong vs is_long_date_spec differ on {longs[k]!r}", {"string": longs[k]}, "correspondence"))


def body(ctx: C.Ctx, proof: C.ProofStatus) -> C.Result:
    import lexcheck as LC
    from zorg.domain.models import Query

    res = C.Result()
    rng = ctx.rng
    q0 = Query()
    defaults = {"select": select_of_impl(q0.select), "order": [o.name for o in q0.order_by], "group": [g.name for g in q0.group_by]}
    cases = []
    cdir = C.CORPUS / PROP
    if cdir.exists():
        for f in sorted(cdir.glob("*.json")):
            cases.append(C.json.loads(f.read_text()))
    cases += boundary_cases(defaults)
    cases += [gen_query(rng, defaults) for _ in range(ctx.scale(3000, 80000))]
    reqs = [{"op": "query.parse", "text": c["text"], "today": c["today"]} for c in cases]
    ms = C.model_batch(reqs) if proof.driver_ok else [None] * len(cases)
    for c, m in zip(cases, ms):
        got = run_impl(c["text"], c["today"])
        want = canon_expect(c["expect"])
        res.evaluations += 1
        for f in c["feats"]:
            res.count(f)
        if c["expect"]["where"] is not None and len(c["text"]) > 8:
            res.nontrivial.add(c["text"])
        if len(res.samples) < 4 and "sub_depth1" in c["feats"]:
            res.sample({"text": c["text"], "today": c["today"], "impl": got})
        if got.get("ok") != want:
            res.failures.append(C.Failure(f"build_zorg_query({c['text']!r}) on {c['today']}: got {C.json.dumps(got)[:600]} want {C.json.dumps(want)[:600]}", c))
        if m is not None:
            mm = {"ok": canon_model(m["ok"])} if "ok" in m else m
            if "ok" in mm or "ok" in got:
                if mm.get("ok") != got.get("ok"):
                    if False:
                        pass
                    else:
                        res.disagreements.append(C.Failure(f"model vs impl on {c['text']!r}: model {C.json.dumps(mm)[:500]} impl {C.json.dumps(got)[:500]}", c, "correspondence"))
            elif mm.get("err") == "ValueError" and got.get("err") != "ValueError":
                res.disagreements.append(C.Failure(f"error class differs on {c['text']!r}: model {mm} impl {got}", c, "correspondence"))
    # _process_query normalisation through the CLI parser
    try:
        from zorg.app.config import _process_query

        texts = [c["text"] for c in cases[:400]] + ["o P1", "S note", "S file", "S + W o", "W o G none", "o G file", "S note W o", "S file O none", "x O alpha"]
        texts += [t[2:] for t in texts if t.startswith("W ")]
        nm = C.model_batch([{"op": "query.normalise", "text": t} for t in texts]) if proof.driver_ok else []
        for t, m in zip(texts, nm):
            kw = {"command": "query", "query": t}
            _process_query(kw)
            res.evaluations += 1
            if kw["query"] != m["out"]:
                res.disagreements.append(C.Failure(f"_process_query({t!r}) = {kw['query']!r}, model {m['out']!r}", {"text": t}, "correspondence"))
    except ImportError:
        res.notes.append("_process_query not importable; normalisation not compared")
    # token streams of the generated queries
    LC.check_texts("query", [c["text"] for c in cases[: ctx.scale(1500, 20000)]], res, "queries", use_model=proof.driver_ok)
    calendar_exhaustive(res, proof)
    return res


def classify(f: C.Failure, entry: dict) -> bool:
    import re

    case = f.case if isinstance(f.case, dict) else {}
    if entry.get("classifier") == "query_juxtaposed_kind_letters":
        words = case.get("text", "").split(" ")
        bad = [w for w in words if re.fullmatch(r"[-ox~<>]+", w) and re.search(r"[ox][ox]", w)]
        # the failure must be *caused* by such a word: removing the adjacency makes the query compile as expected
        return bool(bad) and "kf_juxtaposed" in case.get("feats", [])
    return False


RULE = (
    "query structures generated from the abstract syntax (every select form, filter trees to depth 5 over every atom kind, both clause "
    "orders, descriptions with the other quote character inside and at their edges, date forms under a frozen clock on 18 boundary days) rendered to text; boundary enumerations (64 priority spellings, all 63 "
    "kind subsets, all select fields x count, 16 relative offsets x 18 days); build_zorg_query vs expected structure vs Lean model; "
    "plus the calendar core exhaustively: all 10^6 six-digit strings through is_short_date_spec vs the real calendar (20YY) vs Date.parseShort, "
    "long dates of 8 boundary years x months 0-13 x days 0-32 through from_date_spec vs calendar vs Date.parseLong; "
    "non-trivial = distinct query text with a WHERE clause"
)
ASSUME = ["ANTLR's parse of a well-formed query equals the recursive-descent reading of the grammar (validated by correspondence)",
          "today is passed in (freezegun)"]

if __name__ == "__main__":
    sys.exit(C.run_check(PROP, MODULES, body, rule=RULE, assumptions=ASSUME, classify=classify))
