#!/bin/sh
# usage: harness/try_seed.sh <seed-dir-name> [tier]   -- applies the seeded change to /repo, runs the property's check, reverts
S="$1"; T="${2:-quick}"
D="/verif/seeded/$S"
P=$(python3 -c "import json;print(json.load(open('$D/meta.json'))['property'])")
cd /repo || exit 2
if [ -n "$(git status --porcelain)" ]; then echo "/repo not clean"; exit 2; fi
git apply "$D/patch.diff" || exit 2
cd /verif && cp "evidence/$P.json" "/tmp/evidence-$P.bak" 2>/dev/null
./check "$P" --tier "$T"; rc=$?
cp "/tmp/evidence-$P.bak" "evidence/$P.json" 2>/dev/null
git -C /repo checkout -- . 
git -C /repo status --porcelain
echo "seed $S property $P rc=$rc"
