"""C01 — Compiling a page yields exactly the notes written in it (also drives C02's generator)."""
from __future__ import annotations

import datetime as dt
import sys
from pathlib import Path

import common as C
import pagegen as G
import zocheck as ZC

PROP = "C01"
MODULES = ["ZorgVerif.Props.C01"]
TODAY = (2024, 6, 15)
KIND_NAME = {"-": "BASIC", "o": "OPEN_TODO", "x": "CLOSED_TODO", "~": "CANCELED_TODO", "<": "BLOCKED_TODO", ">": "PARENT_TODO"}
DEFAULT_PRIORITY = "P3"

# body word forms; the look-alikes merely *look like* prefixes / identity words
WORDS = ["alpha", "Beta", "x9", "2024", "a_b", "it's", "50%", "e=mc2", "(paren)", "word,", "end.", "a-b", "x/y", "k:v", "q&a", "semi;", "wow!", "[x]", "*star*", "~tilde", "<lt", ">gt",
         "#area1", "@home", "%bob", "+proj", "[[page]]", "[[dir/page#anc]]", "[#gid]", "[@rid]", "[^lid]", "((embed))", "key::value", "due::2024-03-13", "n::42", "[type:: awesome note]",
         "https://example.com/a/b", "http://x.org", "'quoted", "\"dq\"", "'#notag'", "#t1#t2", "foo#bar", "1230", "P5", "o", "x", "240510", "2024-01-01", "240510#0K", "[240510#0K]", "-", "--", "#", "@"]
LOOKALIKES = ["o", "x", "P5", "1230", "2024-01-01", "240510", "240510#0K", "-", "~", "<", ">", "P0",
              # date-shaped words that are no calendar days are words (also as the first word of an item)
              "2023-02-29", "2024-04-31", "2024-13-01", "2024-00-10"]
NON_ID_FIRST = ["(", "[#gid]", "[@rid]", "[240101#01]", "*", "-", "#", "~x", "=", "&"]   # words that produce no `id` event


def gen_item(rng, zalloc, feats):
    kind = rng.choice(list(KIND_NAME))
    prio = rng.choice([None, None] + list(range(10))) if kind != "-" else None
    shape = rng.choice(["none", "none", "zid", "zid", "mdate+zid", "ldate", "mdate"])
    zid = mdate = ldate = None
    if shape in ("zid", "mdate+zid"):
        zid = zalloc.fresh(dt.date(rng.choice([2000, 2001, 2024, 2024, 2025, 2068, 2069, 2070, 2099, rng.randint(2000, 2099)]), rng.randint(1, 12), rng.randint(1, 28)))
    if shape in ("mdate+zid", "mdate"):
        mdate = "%02d%02d%02d" % (rng.choice([0, 24, 24, 68, 69, 99, rng.randint(0, 99)]), rng.randint(1, 12), rng.randint(1, 28))
    if shape == "ldate":
        ldate = "%04d-%02d-%02d" % (rng.randint(2000, 2150), rng.randint(1, 12), rng.randint(1, 28))
    feats.add("identity=" + shape)
    n = rng.randint(1, 9)
    words = []
    for i in range(n):
        r = rng.random()
        if i < 3 and r < 0.3:
            words.append(rng.choice(LOOKALIKES))
        else:
            words.append(rng.choice(WORDS))
    # an item without identity words: its first body word must not itself be date- or ZID-shaped, nor `Pn` right after a todo prefix
    def idlike(w):
        return (len(w) == 6 and w.isdigit()) or w == "2024-01-01" or w.startswith("240510#") or w in ("P5", "P0") or w[0] in "'\""
    j = 0
    if shape in ("none", "mdate"):
        while idlike(words[0]):
            words[0] = rng.choice(["alpha", "Beta", "x9", "(paren)", "#area1", "[[page]]", "o", "x", "-"])
    elif idlike(words[0]) and words[0] in ("P5", "P0"):
        pass
    if shape == "none" and rng.random() < 0.25 and len(words) >= 2:
        # identity look-alike after a word that produces no `id` event (C01-a territory)
        words[0] = rng.choice(NON_ID_FIRST)
        words[1] = rng.choice(["240510#0K", "240510", "2024-01-01"])
        feats.add("lookalike_after_non_id_word")
    cont = []
    if rng.random() < 0.3:
        for _ in range(rng.randint(1, 3)):
            cw = [rng.choice(WORDS) for _ in range(rng.randint(0, 5))]
            cont.append(rng.choice(["  * ", "  ", "    - ", "      + ", "   "]) + " ".join(cw))
        feats.add("multiline")
    sep = " " if rng.random() < 0.93 else "  "
    if sep == "  ":
        feats.add("irregular_spacing")
    return {"kind": kind, "prio": prio, "zid": zid, "mdate": mdate, "ldate": ldate, "words": words, "cont": cont, "sep": sep}


def render_item(it):
    parts = [it["kind"]]
    if it["prio"] is not None:
        parts.append(f"P{it['prio']}")
    head = " ".join(parts)
    ident = [x for x in (it["mdate"], it["zid"], it["ldate"]) if x]
    body_words = ident + it["words"]
    first = head + " " + it["sep"].join(body_words) if it["sep"] == " " else head + " " + body_words[0] + it["sep"] + " ".join(body_words[1:])
    return [first] + it["cont"]


def gen_page(rng, feats, crlf=False):
    zalloc = G.ZidAlloc(rng)
    lines = ["# Title of the page"]
    if rng.random() < 0.3:
        lines.append("# second header comment")
    lines.append("")
    expected = []
    state = {"level": 0}

    def emit_block():
        for _ in range(rng.randint(1, 5)):
            if rng.random() < 0.12:
                lines.append(rng.choice(["#", "# in-block comment", "# o P1 240101#00 looks like a todo #tag k::v"]))
                feats.add("in_block_comment")
                continue
            if rng.random() < 0.07:
                # an item with an empty body (prefix, optional priority, one trailing space) is legal and yields no note;
                # whatever it carries (priority, kind) must not leak into the items after it
                k = rng.choice(list(KIND_NAME))
                lines.append(k + (f" P{rng.randint(0, 9)}" if k != "-" and rng.random() < 0.7 else "") + " ")
                feats.add("empty_item")
                continue
            it = gen_item(rng, zalloc, feats)
            ls = render_item(it)
            body_lines = [ls[0][len(it["kind"]) + (len(f" P{it['prio']}") if it["prio"] is not None else 0):]] + ls[1:]
            body = ("\r\n" if crlf else "\n").join(body_lines).strip()
            cd = None
            if it["zid"]:
                cd = [2000 + int(it["zid"][:2]), int(it["zid"][2:4]), int(it["zid"][4:6])]
            elif it["ldate"]:
                cd = [int(x) for x in it["ldate"].split("-")]
            else:
                cd = list(TODAY)
            md = [2000 + int(it["mdate"][:2]), int(it["mdate"][2:4]), int(it["mdate"][4:6])] if it["mdate"] else cd
            expected.append({"line": len(lines) + 1, "kind": KIND_NAME[it["kind"]],
                             "priority": None if it["kind"] == "-" else (f"P{it['prio']}" if it["prio"] is not None else DEFAULT_PRIORITY),
                             "body": body, "zid": it["zid"], "cdate": cd, "mdate": md})
            lines.extend(ls)
        for _ in range(rng.choice([1, 1, 2])):
            lines.append("")

    for _ in range(rng.randint(0, 2)):
        emit_block()
    if rng.random() < 0.6:
        level = rng.choice([1, 2])
        for _ in range(rng.randint(1, 5)):
            lines.append(G.H_MARK[level] + " " + rng.choice(["Section", "Topic A", "Part (two)", "o", "240510"]))
            feats.add(f"H{level}")
            if rng.random() < 0.5:
                lines.append("")
            for _ in range(rng.randint(0, 2)):
                emit_block()
            level = rng.randint(1, min(4, level + 1))
    while lines and lines[-1] == "":
        lines.pop()
    text = ("\r\n" if crlf else "\n").join(lines) + ("\r\n" if crlf else "\n")
    return text, expected


CORE = ("line", "kind", "priority", "body", "zid", "cdate", "mdate")


def body(ctx: C.Ctx, proof: C.ProofStatus) -> C.Result:
    import lexcheck as LC

    res = C.Result()
    rng = ctx.rng
    n = ctx.scale(1200, 24000)
    zdir = ctx.tmp / "z"
    zdir.mkdir(parents=True)
    cases = []
    for i in range(n):
        feats = set()
        crlf = rng.random() < 0.08
        text, exp = gen_page(rng, feats, crlf)
        if crlf:
            feats.add("crlf")
        cases.append((text, exp, sorted(feats)))
    ms = ZC.model_compile_batch([c[0] for c in cases], TODAY) if proof.driver_ok else [None] * len(cases)
    gots = ZC.impl_compile_many(zdir, [c[0] for c in cases], TODAY)
    for (text, exp, feats), m, got in zip(cases, ms, gots):
        res.evaluations += 1
        for f in feats:
            res.count(f)
        res.nontrivial.add(text)
        if len(res.samples) < 3 and "multiline" in feats and "H2" in feats:
            res.sample({"page": text[:700], "notes": len(exp)})
        case = {"text": text, "feats": feats}
        if "exc" in got:
            res.failures.append(C.Failure(f"compiling a well-formed page raised {got['exc']}", case))
            continue
        if got["errors"] or got["has_errors"]:
            res.failures.append(C.Failure(f"a well-formed page was reported to have {got['errors']} syntax errors", case))
            continue
        core = [{k: x[k] for k in CORE} for x in got["notes"]]
        if core != exp:
            d = ZC.diff_notes(exp, core)
            res.failures.append(C.Failure(f"compiled notes differ from the items written: {d}".replace("impl", "written").replace("model", "compiled"), {**case, "diff": d}))
        if m is not None:
            if "err" in m:
                res.unsupported += 1
                res.count("model_" + m["err"])
            else:
                d = ZC.diff_notes(got["notes"], m["ok"])
                if d:
                    res.disagreements.append(C.Failure(f"Zo model vs walk_zorg_page: {d}", case, "correspondence"))
    # token streams of the generated pages through the generated file-lexer DFAs
    LC.check_texts("file", [c[0] for c in cases[: ctx.scale(300, 5000)]], res, "pages", use_model=proof.driver_ok)
    return res


def classify(f: C.Failure, entry: dict) -> bool:
    return False


RULE = (
    "pages generated from an abstract syntax (0-2 top-level blocks, up to 5 sections of legal nesting, 1-5 items per block of every kind, "
    "priority none/P0-P9, 7 identity shapes, 1-9 body words from 55 word forms with look-alikes over-weighted at positions 1-3, continuation "
    "lines with bullet indentation, irregular spacing, in-block comments, CRLF); walk_zorg_page vs the items written (kind, priority, body, "
    "line, zid, dates) and vs the Lean Zo model (all fields); non-trivial = distinct page"
)
ASSUME = ["ANTLR's parse of a well-formed page = the line/atom reading of Model/Zo.lean (validated on every generated page)", "today passed in (freezegun)"]

if __name__ == "__main__":
    sys.exit(C.run_check(PROP, MODULES, body, rule=RULE, assumptions=ASSUME, classify=classify))
