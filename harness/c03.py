"""C03 — A WHERE filter returns exactly the indexed notes that satisfy it."""
from __future__ import annotations

import datetime as dt
import shutil
import sys
from pathlib import Path

import common as C
import pagegen as G
import zorgapi as Z

PROP = "C03"
MODULES = ["ZorgVerif.Props.C03"]
TODAY = (2024, 6, 15)


def gen_atom(rng, rows, depth):
    """query atoms with literals taken from the index so that results are non-trivial"""
    r = rng.random()
    row = rng.choice(rows)
    neg = "!" if rng.random() < 0.3 else ""
    if r < 0.10:
        return rng.choice(["-", "o", "x", "~", "<", ">", "o <", "x ~", "o>"])
    if r < 0.18:
        n = rng.randint(0, 9)
        return f"P{n}" if rng.random() < 0.5 else f"P{n}-{rng.randint(max(n, 1), 9)}"
    if r < 0.32:
        pool = [("#", t) for t in row["areas"]] + [("@", t) for t in row["contexts"]] + [("%", t) for t in row["people"]] + [("+", t) for t in row["projects"]]
        if not pool or rng.random() < 0.15:
            pool = [("#", "work"), ("@", "nosuch"), ("+", "gtd")]
        s, t = rng.choice(pool)
        return neg + s + t
    if r < 0.42:
        d = row["cdate"] if rng.random() < 0.5 else row["mdate"]
        head = rng.choice("^$")
        start = dt.date(*d) - dt.timedelta(days=rng.choice([0, 0, 1, 30, 400]))
        txt = head + start.strftime("%y%m%d")
        if rng.random() < 0.6:
            end = dt.date(*d) + dt.timedelta(days=rng.choice([0, 0, 1, 30, 400]))
            txt += ":" + end.strftime("%y%m%d")
        if rng.random() < 0.2:
            txt = head + rng.choice(["-400d", "-2y", "-18m:0d", "-5y:-1y", "0d"])
        elif rng.random() < 0.12:
            # two-digit years up to 99 mean 2000-2099: ranges that end late in the century contain today's notes
            txt = head + rng.choice(["000101:991231", "230101:690101", "240101:750615", "200101:990101", "681231:690101"])
        return txt
    if r < 0.58:
        if row["props"] and rng.random() < 0.85:
            k, v = rng.choice(row["props"])
        else:
            k, v = rng.choice([("due", "2024-01-01"), ("n", "7"), ("k", "abc"), ("nokey", "v")])
        rr = rng.random()
        if rr < 0.2:
            return f"{neg}{k}:*"
        op = rng.choice(["", "<", "<=", ">", ">="])
        if rng.random() < 0.3:
            # a different value of the same type
            if v[:2] == "20" and len(v) == 10:
                v = rng.choice(["2024-01-01", "2023-06-30", "2025-12-31", v])
            elif v.isdigit():
                v = rng.choice(["0", "5", "7", "10", "42", "100"])
            else:
                v = rng.choice(["abc", "Abc", "b", "m1", "zz", "top"])
        if not all(ch.isalnum() or ch in "-_" for ch in v) or v == "":
            v = "abc"
        if v[:2] == "20" and len(v) == 10 and v[4] == "-" and rng.random() < 0.35:
            # the same day written as a short date (six digits: a DATE, not an integer), or a relative date
            v = rng.choice([v[2:4] + v[5:7] + v[8:10], v[2:4] + v[5:7] + v[8:10], "0d", "-30d", "-1y"])
        return f"{neg}{k}:{op}{v}"
    if r < 0.76:
        body = row["body"]
        words = [w for w in body.replace("\n", " ").split(" ") if w and not (len(w) == 6 and w.isdigit()) and "'" not in w and '"' not in w and "|" not in w and "!" not in w and "[" not in w and "]" not in w and ";" not in w and "\\" not in w]
        meta = [w for w in body.replace("\n", " ").split(" ") if w and any(ch in w for ch in "_%\\*?[") and "'" not in w and "|" not in w and "[[" not in w and "[#" not in w and "[@" not in w and "!" not in w and ";" not in w and not w[1:7].isdigit()]
        cs = "c" if rng.random() < 0.25 else ""
        if meta and rng.random() < 0.5:
            w = rng.choice(meta)
            # `\` cannot be written inside a query (SYMBOL is allowed: it includes backslash)
            val = w
        elif words:
            i = rng.randrange(len(words))
            val = " ".join(words[i : i + rng.randint(1, 2)])
            if rng.random() < 0.3 and len(val) > 3:
                a = rng.randrange(len(val) - 2)
                val = val[a : a + rng.randint(2, 5)].strip() or val
        else:
            val = "alpha"
        rr = rng.random()
        if rr < 0.15:
            val = val.lower()
        elif rr < 0.25:
            val = val.upper()
        if not val.strip() or val != val.strip() or "  " in val or "^" in val or "$" in val:
            val = "alpha"
        return f"{neg}{cs}'{val}'"
    if r < 0.86:
        p = row["path"][:-3]
        variants = [p, p, "*" + p[-2:], p[:2] + "*", "*" + p[1:-1] + "*" if len(p) > 2 else p, p.replace("_", "x") if "_" in p else p, p[:-1] + "*"]
        g = rng.choice(variants)
        if not all(ch.isalnum() or ch in "_*/" for ch in g) or g.startswith("/") or "**" in g or "*/" in g:
            g = p
        return f"{neg}f={g}"
    if r < 0.95 or depth >= 3:
        links = [l for l in row["links"] if ":" not in l]
        pages = sorted({x["path"][:-3] for x in rows})
        if links and rng.random() < 0.6:
            t = rng.choice(links).split("#")[0]
        else:
            t = rng.choice(pages)
        return f"{neg}[[{t}]]"
    return "(" + gen_or(rng, rows, depth + 1) + ")"


def gen_and(rng, rows, depth):
    if rng.random() < 0.08:
        # two or three tags of ONE kind in one AND group, each negated or not: (not a) and (not b), never not (a and b)
        kind, sig = rng.choice([("areas", "#"), ("contexts", "@"), ("people", "%"), ("projects", "+")])
        names = sorted({t for r in rows for t in r[kind]})
        if len(names) >= 2:
            pick = rng.sample(names, min(len(names), rng.choice([2, 2, 3])))
            negs = rng.choice([["!"] * len(pick), ["!"] * len(pick), [rng.choice(["!", ""]) for _ in pick]])
            return " ".join(n + sig + t for n, t in zip(negs, pick))
    return " ".join(gen_atom(rng, rows, depth) for _ in range(rng.choice([1, 1, 2, 2, 3])))


def gen_or(rng, rows, depth):
    return " | ".join(gen_and(rng, rows, depth) for _ in range(rng.choice([1, 1, 1, 2, 3])))


def impl_query(zdir: Path, text: str):
    from freezegun import freeze_time
    from zorg.service.compiler import build_zorg_query
    from zorg.storage.sql import SQLSession

    url = f"sqlite:///{zdir}/.zorg/zorg.db"
    with freeze_time(dt.datetime(*TODAY, 12, 0)):
        try:
            q = build_zorg_query(text)
            with SQLSession(zdir, url) as session:
                notes = session.repo.get_notes_by_query(q.where)
                return {"zids": sorted(n.zid for n in notes)}
        except Exception as e:  # noqa
            return {"err": f"{type(e).__name__}: {str(e)[:200]}"}


DRIVER_OK = True
N_Q = 40
RET = None


def one_index(ctx, res, rng, i):
    from freezegun import freeze_time

    cfg = Z.write_config(ctx.tmp / "cfg.yml")
    zdir = ctx.tmp / "z"
    n_q = N_Q
    if zdir.exists():
        shutil.rmtree(zdir)
    zdir.mkdir(parents=True)
    files = G.gen_dir(rng, npages=(2, 5))
    G.write_dir(zdir, files)
    Z.clear_engine_cache()
    with freeze_time(dt.datetime(*TODAY, 12, 0)):
        rc, out, err = Z.zorg_main(zdir, "db", "create", config=cfg)
    if rc != 0:
        res.notes.append(f"db create failed rc={rc} on a generated directory (C05/C08 territory): {err[-200:]}")
        return RET
    rows = G.dump_index(zdir)
    if not rows:
        return RET
    universe = sorted(r["zid"] for r in rows)
    queries = ["W " + gen_or(rng, rows, 0) for _ in range(n_q)]
    mres = None
    if DRIVER_OK:
        mres = C.model_batch([{"op": "filter.eval", "index": rows, "today": list(TODAY), "queries": queries}])[0]
    for qi, q in enumerate(queries):
        got = impl_query(zdir, q)
        res.evaluations += 1
        m = mres[qi] if mres else None
        if m is None or "err" in m:
            res.unsupported += 1
            res.count("model_rejects_query")
            continue
        open_z = {z for z, s, sq in m["rows"] if s is None or sq is None}
        sat = {z for z, s, sq in m["rows"] if s is True} - open_z
        sql = {z for z, s, sq in m["rows"] if sq is True} - open_z
        if "err" in got:
            res.failures.append(C.Failure(f"query {q!r} raised {got['err']}", {"files": files, "query": q}))
            continue
        impl = set(got["zids"]) - open_z
        k = len(impl)
        res.count("result_empty" if k == 0 else ("result_all" if k == len(universe) - len(open_z) else "result_proper_subset"))
        if open_z:
            res.count("notes_open_for_query", len(open_z))
        if 0 < k < len(universe):
            res.nontrivial.add((i, q))
        if len(res.samples) < 4 and 0 < k < len(universe) and "(" in q:
            res.sample({"query": q, "n_notes": len(universe), "returned": sorted(impl)[:5]})
        if impl != sat:
            extra, missing = sorted(impl - sat), sorted(sat - impl)
            res.failures.append(
                C.Failure(
                    f"query {q!r}: returned-but-not-satisfying {extra[:3]}, satisfying-but-not-returned {missing[:3]}",
                    {"files": files, "query": q, "extra": extra, "missing": missing,
                     "rows": [r for r in rows if r["zid"] in (extra + missing)[:3]]},
                )
            )
        if impl != sql:
            res.disagreements.append(
                C.Failure(f"query {q!r}: SQL model {sorted(sql)[:6]} != implementation {sorted(impl)[:6]}", {"files": files, "query": q}, "correspondence")
            )
    return RET


def body(ctx: C.Ctx, proof: C.ProofStatus) -> C.Result:
    global DRIVER_OK
    DRIVER_OK = proof.driver_ok
    res, _ = C.parallel_jobs(ctx, ctx.scale(48, 600), one_index)
    return res


def classify(f: C.Failure, entry: dict) -> bool:
    return False


RULE = (
    "indexes built by `db create` from generated directories (2-5 pages whose names differ in one character / contain _ / are prefixes, "
    "5-40 notes, tags, typed properties, links of every form, bodies with % _ \\ and mixed case); 40 filters per index with literals taken "
    "from the index (every atom kind, operators, negation, nesting <= 4; date-valued property filters also as short and relative dates); universe read back from raw SQLite rows; impl result vs sat "
    "(spec) vs SQL model; non-trivial = (index, query) with a proper non-empty subset as result"
)
ASSUME = [
    "SQLite semantics of LIKE/ESCAPE, lower(), date(), CAST, IN/NOT IN as modelled in Model/Sql.lean",
    "typed comparisons on values that do not parse in the filter's type are open (excluded per note)",
    "ASCII only; page names and link targets lower-case (LIKE folds ASCII case)",
]

if __name__ == "__main__":
    sys.exit(C.run_check(PROP, MODULES, body, rule=RULE, assumptions=ASSUME, classify=classify))
