"""C11 — Modification dates are stamped on exactly the notes that were edited."""
from __future__ import annotations

import re
import shutil
import sys
from pathlib import Path

import common as C
import c05
import history as H
import pagegen as G
import zocheck as ZC
import zorgapi as Z

PROP = "C11"
MODULES = ["ZorgVerif.Props.C11"]
EDITS = ["body", "body", "body", "bullet", "kind", "priority", "add_item", "title", "comment", "whitespace", "retitle"]


def page_state(rows):
    return {r["zid"]: r for r in rows if r["zid"]}


def run_history(ctx, res, rng, hid):
    zdir = ctx.tmp / "z"
    if zdir.exists():
        shutil.rmtree(zdir)
    zdir.mkdir(parents=True)
    cfg = Z.write_config(ctx.tmp / "cfg.yml")
    files = G.gen_dir(rng, npages=(1, 3), with_zid=0.9, date_prob=0.1, far_dates=False)
    # blanks at the end of a line inside a multi-line note are part of its body (they survive the index and must not make the
    # note look edited)
    for rel in list(files):
        ls = files[rel].split("\n")
        for i in range(len(ls) - 1):
            if ls[i].startswith(("  ", "- ", "o ", "x ")) and ls[i].strip() and ls[i + 1].startswith("  ") and ls[i + 1].strip() and rng.random() < 0.3:
                ls[i] += " " * rng.randint(1, 2)
        files[rel] = "\n".join(ls)
    if rng.random() < 0.5:
        files = G.add_exotic_chars(rng, files)
    if rng.random() < 0.5:
        # a new note whose first word has the shape of a date without being one (the ZID takes its place in file and index alike)
        rel = sorted(files)[0]
        files[rel] = files[rel].rstrip("\n") + "\n\n- 2024-02-30 starts with a date-shaped word\no P1 2023-13-01 another one\n"
    G.write_dir(zdir, files)
    w = H.World(ctx, rng, zdir, cfg)
    if w.run("db", "create") != 0:
        return
    model_reqs = []
    for step in range(rng.randint(3, 7)):
        if step > 0 and rng.random() < 0.3:
            # a reindex limited to one page in between (nothing is pending: it only rewrites the hash map, for that page alone);
            # the other pages are still indexed, and their notes are still stamped when they are edited later
            only = rng.choice(sorted(w.files()))
            if w.run("db", "reindex", str(zdir / only)) != 0:
                res.failures.append(C.Failure(f"db reindex {only} failed with nothing pending", {"log": w.log, "kind": "reindex_failed"}))
                return
            res.count("path_limited_reindex_between_rounds")
        before_files = w.files()
        before_idx = c05.index_notes(zdir)
        for _ in range(rng.randint(1, 3)):
            w.edit(kinds=EDITS)
        w.advance()
        today = (w.day.year, w.day.month, w.day.day)
        short = "%02d%02d%02d" % (today[0] % 100, today[1], today[2])
        edited = w.files()
        # expected stamp set from the previous index state and the new text
        expected = {}
        for rel, text in edited.items():
            if before_files.get(rel) == text:
                continue
            comp = ZC.impl_compile(ctx.tmp / "c11", "p.zo", text, today)
            old = page_state(before_idx.get(rel, []))
            for n in comp["notes"]:
                o = old.get(n["zid"]) if n["zid"] else None
                if o is None:
                    continue
                changed = n["body"] != o["body"] or n["kind"] != o["kind"] or n["priority"] != o["priority"]
                # the priority as WRITTEN (todo state also of done / cancelled todos), read from the two texts, not from a compile
                idre = re.compile(r"^[-ox~<>] (?:P\d )?(?:\d{6} )?" + re.escape(n["zid"]) + r"( |$)")
                old_line = next((l for l in before_files.get(rel, "").split("\n") if idre.match(l)), None)
                new_line = text.split("\n")[n["line"] - 1]
                if old_line is not None and old_line[0] in "ox~<>" and new_line[0] in "ox~<>":
                    wp = lambda l: int(l[3]) if re.match(r"^[ox~<>] P\d ", l) else 3
                    if wp(old_line) != wp(new_line):
                        changed = True
                if changed and n["mdate"] != list(today):
                    expected[(rel, n["zid"])] = n["line"]
        rc = w.run("db", "reindex")
        res.evaluations += 1
        case = {"log": w.log, "step": step}
        if rc != 0:
            res.failures.append(C.Failure(f"db reindex failed (rc={rc})", {**case, "kind": "reindex_failed"}))
            return
        after_files = w.files()
        after_idx = c05.index_notes(zdir)
        res.count("stamped", len(expected))
        if expected:
            res.nontrivial.add((hid, step))
        for rel, text in after_files.items():
            old_lines, new_lines = edited[rel].split("\n"), text.split("\n")
            if len(old_lines) != len(new_lines):
                res.failures.append(C.Failure(f"{rel}: reindex changed the number of lines", {**case, "kind": "lines"}))
                return
            stamped_lines = {ln for (r, z), ln in expected.items() if r == rel}
            for i, (o, n) in enumerate(zip(old_lines, new_lines)):
                if i + 1 in stamped_lines:
                    zid = next(z for (r, z), ln in expected.items() if r == rel and ln == i + 1)
                    m = re.match(r"^( *[-ox~<>] (?:P\d )?)(?:(\d{6}) )?(" + re.escape(zid) + r".*)$", o)
                    want = (m.group(1) + short + " " + m.group(3)) if m else None
                    if n != want:
                        res.failures.append(C.Failure(f"{rel} line {i + 1}: edited note not stamped as {short} in front of its ZID: {o!r} -> {n!r}", {**case, "kind": "not_stamped", "old": o, "new": n}))
                        return
                    model_reqs.append(({"op": "nt.stamp", "date": short, "line": o}, n))
                elif o != n:
                    # only new notes may change (they gain a ZID, C05)
                    if not re.match(r"^[-ox~<>] (P\d )?\d{6}#", n) or re.match(r"^[-ox~<>] (P\d )?(\d{6} )?\d{6}#", o):
                        res.failures.append(C.Failure(f"{rel} line {i + 1}: a note that was not edited (or is new / already dated today) was rewritten: {o!r} -> {n!r}", {**case, "kind": "spurious", "old": o, "new": n}))
                        return
        # index side: stamped notes are dated today, and index == recompiled files
        for rel, text in after_files.items():
            comp = ZC.impl_compile(ctx.tmp / "c11", "p.zo", text, today)
            inotes = after_idx.get(rel, [])
            if len(comp["notes"]) != len(inotes):
                res.failures.append(C.Failure(f"{rel}: {len(comp['notes'])} notes in file, {len(inotes)} in index", {**case, "kind": "count"}))
                return
            for a, b in zip(comp["notes"], inotes):
                for k in ("zid", "body", "kind", "priority", "mdate", "cdate"):
                    if a[k] != b[k]:
                        res.failures.append(C.Failure(f"{rel} line {a['line']}: after stamping file and index differ in {k}: file {a[k]!r} index {b[k]!r}", {**case, "kind": "disagree", "field": k}))
                        return
                if (rel, a["zid"]) in expected and b["mdate"] != list(today):
                    res.failures.append(C.Failure(f"{rel}: edited note {a['zid']} is not dated today in the index", {**case, "kind": "index_not_stamped"}))
                    return
        # quiescence
        rc = w.run("db", "reindex")
        if rc != 0 or w.files() != after_files or H.canon_dump(zdir) != sorted(H.canon_dump(zdir)) or c05.index_notes(zdir) != after_idx:
            res.failures.append(C.Failure("an immediately following reindex changed files or index", {**case, "kind": "not_quiescent"}))
            return
    for e in w.log:
        res.count(e["op"] if e["op"] != "cmd" else "reindex")
    if hid < 2:
        res.sample({"log": w.log[:10]})
    return model_reqs


def body(ctx: C.Ctx, proof: C.ProofStatus) -> C.Result:
    res, rets = C.parallel_jobs(ctx, ctx.scale(42, 500), run_history)
    reqs = [q for r in rets if r for q in r]
    if proof.driver_ok and reqs:
        for (q, want), m in zip(reqs, C.model_batch([q for q, _ in reqs])):
            res.evaluations += 1
            if m.get("ok") != want:
                res.disagreements.append(C.Failure(f"NoteText.addOrUpdateModifyDate({q['date']!r}, {q['line']!r}) = {m!r}, the file has {want!r}", q, "correspondence"))
                break
    return res


def classify(f: C.Failure, entry: dict) -> bool:
    return False


RULE = (
    "edit histories over several calendar days on indexed directories: 3-7 rounds of 1-3 edits (body, bullet, kind, priority, new note, header line, "
    "section title, comment, whitespace) + 0-3 days + `db reindex` (30% of the rounds preceded by a reindex limited to one page); per round an independent oracle computes the stamp set from the previous index "
    "rows and the new text (priority as written, also for done todos) and checks iff-stamping in file (date inserted / replaced in front of the ZID) and index, byte identity of every other "
    "line, file/index agreement and quiescence; stamped lines also vs NoteText.addOrUpdateModifyDate; non-trivial = round with at least one stamp"
)
ASSUME = ["edits never touch an existing stamp (open in the statement)", "file system atomic"]

if __name__ == "__main__":
    sys.exit(C.run_check(PROP, MODULES, body, rule=RULE, assumptions=ASSUME, classify=classify))
