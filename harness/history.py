"""Edit histories over an indexed notes directory (shared by C06, C11)."""
from __future__ import annotations

import datetime as dt
import re
import shutil
from pathlib import Path

import common as C
import pagegen as G
import zocheck as ZC
import zorgapi as Z

ITEM_RE = re.compile(r"^([-ox~<>])( P\d)? ")


def item_spans(lines):
    """[(start, end)] of items (first line + continuation lines) below the header block"""
    out = []
    i = 0
    while i < len(lines):
        if ITEM_RE.match(lines[i]):
            j = i + 1
            while j < len(lines) and lines[j].startswith("  ") and lines[j].strip() != "":
                j += 1
            out.append((i, j))
            i = j
        else:
            i += 1
    return out


class World:
    def __init__(self, ctx, rng, zdir: Path, cfg: Path, start=(2024, 6, 10)):
        self.ctx, self.rng, self.zdir, self.cfg = ctx, rng, zdir, cfg
        self.day = dt.date(*start)
        self.n = 0
        self.log = []

    def now(self):
        return dt.datetime(self.day.year, self.day.month, self.day.day, 12, 0)

    def files(self):
        return {str(p.relative_to(self.zdir)): p.read_text() for p in sorted(self.zdir.rglob("*.zo")) if ".zorg" not in p.parts}

    def run(self, *args):
        from freezegun import freeze_time

        Z.clear_engine_cache()
        with freeze_time(self.now()):
            rc, out, err = Z.zorg_main(self.zdir, *args, config=self.cfg)
        self.log.append({"op": "cmd", "args": list(args), "day": str(self.day), "rc": rc})
        return rc

    def valid(self, text):
        r = ZC.impl_compile(self.ctx.tmp / "hv", "p.zo", text, (self.day.year, self.day.month, self.day.day))
        return "exc" not in r and not r["errors"]

    def write(self, rel, text, what):
        p = self.zdir / rel
        p.parent.mkdir(parents=True, exist_ok=True)
        p.write_text(text)
        self.log.append({"op": what, "page": rel, "day": str(self.day)})

    # ---- edit operations; each returns True when applied -------------------------------------
    def edit(self, kinds=None):
        rng = self.rng
        files = self.files()
        if not files:
            return self.add_page()
        rel = rng.choice(sorted(files))
        lines = files[rel].split("\n")
        spans = item_spans(lines)
        self.n += 1
        kind = rng.choice(kinds or ["body", "body", "bullet", "kind", "priority", "add_item", "delete_item", "title", "add_section", "retitle", "whitespace", "comment"])
        new = list(lines)
        if kind in ("body", "bullet", "kind", "priority", "delete_item", "whitespace") and not spans:
            kind = "add_section"
        if kind == "body":
            s, e = rng.choice(spans)
            new[s] = new[s] + f" edited{self.n}"
        elif kind == "bullet":
            s, e = rng.choice(spans)
            if e > s + 1 and rng.random() < 0.5:
                new[e - 1] = new[e - 1] + f" more{self.n}"
            else:
                new.insert(e, f"  * bullet{self.n} added")
        elif kind == "kind":
            s, e = rng.choice(spans)
            m = ITEM_RE.match(new[s])
            k2 = rng.choice([k for k in "-ox~<>" if k != m.group(1)])
            rest = new[s][m.end():]
            prio = (m.group(2) or "") if k2 != "-" else ""
            if k2 == "-" and re.match(r"^P\d( |$)", rest):
                return False
            new[s] = k2 + prio + " " + rest
        elif kind == "priority":
            s, e = rng.choice(spans)
            m = ITEM_RE.match(new[s])
            if m.group(1) == "-":
                return False
            new[s] = m.group(1) + f" P{rng.randint(0, 9)} " + new[s][m.end():]
        elif kind == "add_item":
            if spans:
                s, e = rng.choice(spans)
                new.insert(e, rng.choice(["- ", "o ", "x P2 "]) + f"fresh note {self.n} #work")
            else:
                new += ["", f"- fresh note {self.n}"]
        elif kind == "delete_item":
            s, e = rng.choice(spans)
            del new[s:e]
        elif kind == "title":
            new[0] = new[0] + f" +t{self.n}"
        elif kind == "add_section":
            while new and new[-1] == "":
                new.pop()
            new += ["", G.H_MARK[1] + f" Added {self.n}", f"o section note {self.n}", ""]
        elif kind == "retitle":
            hs = [i for i, l in enumerate(new) if l.startswith(tuple(G.H_MARK.values()))]
            if not hs:
                return False
            i = rng.choice(hs)
            new[i] = new[i] + f" r{self.n}"
        elif kind == "whitespace":
            new.append("")
        elif kind == "comment":
            if spans:
                s, e = rng.choice(spans)
                new.insert(s, f"# comment {self.n}")
            else:
                return False
        text = "\n".join(new)
        if not text.endswith("\n"):
            text += "\n"
        if not self.valid(text):
            return False
        self.write(rel, text, "edit:" + kind)
        return True

    def move_item(self):
        files = self.files()
        if len(files) < 2:
            return False
        a, b = self.rng.sample(sorted(files), 2)
        la, lb = files[a].split("\n"), files[b].split("\n")
        sa, sb = item_spans(la), item_spans(lb)
        if not sa or not sb:
            return False
        s, e = self.rng.choice(sa)
        chunk = la[s:e]
        del la[s:e]
        s2, e2 = self.rng.choice(sb)
        lb[e2:e2] = chunk
        ta, tb = "\n".join(la), "\n".join(lb)
        if not (self.valid(ta) and self.valid(tb)):
            return False
        self.write(a, ta, "move_item:from")
        self.write(b, tb, "move_item:to")
        return True

    def add_page(self):
        self.n += 1
        rel = self.rng.choice(["", "sub/", "proj/"]) + f"new{self.n}.zo"
        self.write(rel, f"# New page {self.n} #work\n\n- first note of page {self.n}\no P1 a todo there\n", "add_page")
        return True

    def delete_page(self):
        files = self.files()
        if len(files) < 2:
            return False
        rel = self.rng.choice(sorted(files))
        (self.zdir / rel).unlink()
        self.log.append({"op": "delete_page", "page": rel, "day": str(self.day)})
        return True

    def restore_page(self):
        """a page disappears, the index is brought up to date, and the very same file comes back (archive / git checkout)"""
        files = self.files()
        if len(files) < 2:
            return False
        rel = self.rng.choice(sorted(files))
        text = files[rel]
        (self.zdir / rel).unlink()
        self.log.append({"op": "delete_page", "page": rel, "day": str(self.day)})
        if self.run("db", "reindex") != 0:
            return False
        self.write(rel, text, "restore_page")
        return True

    def replace_page(self):
        """a page is replaced by another one's file (rename onto an existing name keeps the old modification time), or an
        older copy is restored with its time stamps (`cp -p`, `rsync -t`): the content changes, the mtime does not move forward"""
        import os

        files = self.files()
        if len(files) < 2:
            return False
        a, b = self.rng.sample(sorted(files), 2)
        pa, pb = self.zdir / a, self.zdir / b
        if self.rng.random() < 0.5:
            os.replace(pb, pa)
            self.log.append({"op": "replace_page", "page": a, "by": b, "day": str(self.day)})
        else:
            st = pa.stat()
            lines = files[a].split("\n")
            self.n += 1
            lines.append(f"- restored older note {self.n}")
            text = "\n".join(lines) + "\n"
            if not self.valid(text):
                return False
            pa.write_text(text)
            os.utime(pa, ns=(st.st_atime_ns, st.st_mtime_ns))
            self.log.append({"op": "restore_old_copy", "page": a, "day": str(self.day)})
        return True

    def rename_page(self):
        files = self.files()
        if not files:
            return False
        self.n += 1
        rel = self.rng.choice(sorted(files))
        new = str(Path(rel).with_name(f"renamed{self.n}.zo"))
        (self.zdir / rel).rename(self.zdir / new)
        self.log.append({"op": "rename_page", "page": rel, "to": new, "day": str(self.day)})
        return True

    def advance(self, days=None):
        d = days if days is not None else self.rng.choice([0, 1, 1, 2, 3])
        self.day += dt.timedelta(days=d)
        if d:
            self.log.append({"op": "advance", "days": d})


def canon_dump(zdir: Path):
    rows = G.dump_index(zdir)
    return sorted(
        (r["path"], r["line"], r["zid"] or "", r["kind"], str(r["priority"]), r["body"], tuple(r["cdate"]), tuple(r["mdate"]),
         tuple(r["areas"]), tuple(r["contexts"]), tuple(r["people"]), tuple(r["projects"]), tuple(r["links"]), tuple(map(tuple, r["props"])))
        for r in rows
    )
