import ZorgVerif.Gen.Consts
import ZorgVerif.Model.Basic
import ZorgVerif.Model.Date
import ZorgVerif.Model.Zid
import ZorgVerif.Model.Groups
import ZorgVerif.Lemmas.Zid
import ZorgVerif.Lemmas.ZidAlloc
import ZorgVerif.Props.C07
