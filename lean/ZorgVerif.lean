import ZorgVerif.Gen.Consts
import ZorgVerif.Model.Zid
import ZorgVerif.Lemmas.Zid
import ZorgVerif.Lemmas.ZidAlloc
import ZorgVerif.Props.C07
