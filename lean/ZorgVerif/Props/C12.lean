import ZorgVerif.Lemmas.Zo
import ZorgVerif.Model.NoteText
import ZorgVerif.Gen.FileLexer
/-!
# C12 — A note's text form compiles back to the same note
`Note.to_string()` writes `kind-char [" " priority] " " body.strip() "\n"` (priority only for todos that are
not done / cancelled).  At token level the first line of that text is `prefix SPACE [PRIORITY SPACE] atoms`;
the theorems say how the compiler model classifies such a line, i.e. that kind, priority and the body
atoms (hence every event: identity words, tags, links, properties) are read back unchanged.
-/
namespace ZorgVerif.C12
open ZorgVerif ZorgVerif.Lex ZorgVerif.Zo
open ZorgVerif.Query (NoteKind)

def sp : Tok := ⟨"SPACE", [' ']⟩

/-- a plain note line reads back as a plain note with the same body atoms -/
theorem C12_note_line (ts : List Tok) :
    classify (⟨"DASH", ['-']⟩ :: sp :: ts) = .item .basic none (sp :: ts) := by
  simp [classify, sp, headerLevel]

/-- a todo line written with its priority reads back with that kind, that priority and the same atoms -/
theorem C12_todo_line (t : Tok) (k : NoteKind) (hk : todoKind t = some k) (p : Tok) (hp : p.name = "PRIORITY") (ts : List Tok) :
    classify (t :: sp :: p :: sp :: ts) = .item k (some p.text) (sp :: ts) := by
  have h1 : t.name ≠ "HASH" := by intro h; simp [todoKind, h] at hk
  have h2 : headerLevel t = none := by
    unfold todoKind at hk; unfold headerLevel
    split at hk <;> simp_all
  have h3 : t.name ≠ "DASH" := by intro h; simp [todoKind, h] at hk
  simp [classify, h1, h2, h3, hk, sp, hp]

/-- a done / cancelled todo is written without priority: it reads back with the default priority and the
same atoms **provided its body does not itself start with a `Pn` word** -/
theorem C12_done_line (t : Tok) (k : NoteKind) (hk : todoKind t = some k) (a : Tok) (ha : a.name ≠ "PRIORITY") (ts : List Tok) :
    classify (t :: sp :: a :: ts) = .item k none (sp :: a :: ts) := by
  have h1 : t.name ≠ "HASH" := by intro h; simp [todoKind, h] at hk
  have h2 : headerLevel t = none := by
    unfold todoKind at hk; unfold headerLevel
    split at hk <;> simp_all
  have h3 : t.name ≠ "DASH" := by intro h; simp [todoKind, h] at hk
  cases ts with
  | nil => simp [classify, h1, h2, h3, hk, sp]
  | cons b rest => simp [classify, h1, h2, h3, hk, sp, ha]

/-- **Negative result** (known finding C12.done_todo_body_starts_with_priority): a done todo whose body
starts with a `Pn` word reads back with that word as its priority and a shorter body. -/
theorem C12_done_priority_counterexample :
    classify [⟨"LOWER_X", ['x']⟩, sp, ⟨"PRIORITY", "P1".toList⟩, sp, ⟨"ID", "foo".toList⟩] =
      .item .closedTodo (some "P1".toList) [sp, ⟨"ID", "foo".toList⟩] := by
  simp [classify, sp, headerLevel, todoKind]

/-- the body is compared up to outer whitespace: the single space `to_string` writes in front of the
stripped body disappears again, and stripping is idempotent -/
theorem C12_body_round_trip (b : Str) : strip (' ' :: strip b) = strip b ∧ strip (strip b) = strip b :=
  ⟨strip_space_strip b, strip_strip b⟩

/-! Non-vacuity: a rendered note through the generated lexer and the compiler model (kernel-evaluated): a blocked todo keeps
kind, priority and body; a done one drops the priority word and reads back with the default -/
private def roundTrip (kindChar : Char) (prio : Option String) (done : Bool) (body : String) : List (NoteKind × Option String × String) :=
  let text := "# T\n\n".toList ++ NoteText.noteToString kindChar (prio.map String.toList) done body.toList
  match compileToks ⟨2024, 6, 15⟩ "P3".toList ((lex Gen.FileLexer.rules text).filter (·.name != "<err>")) with
  | .ok r => r.notes.map (fun (n : Note) => (n.kind, n.priority.map Str.toStr, Str.toStr n.body))
  | .error _ => []

example : roundTrip '<' (some "P1") false "240101#00 blocked #tag body" = [(.blockedTodo, some "P1", "240101#00 blocked #tag body")] := by decide +kernel
example : roundTrip 'x' (some "P1") true "  240101#00 done body \n" = [(.closedTodo, some "P3", "240101#00 done body")] := by decide +kernel

end ZorgVerif.C12
