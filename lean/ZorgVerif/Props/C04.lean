import ZorgVerif.Model.Query
namespace ZorgVerif.C04
open ZorgVerif.Query
theorem C04_placeholder : prioritiesOf 2 (some 4) = [2, 3, 4] := by decide
end ZorgVerif.C04
