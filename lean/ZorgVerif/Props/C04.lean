import ZorgVerif.Lemmas.QueryParse
import ZorgVerif.Lemmas.Date
import ZorgVerif.Gen.QueryLexer
import ZorgVerif.Gen.Consts
/-!
# C04 — Query text is compiled into the structure its syntax denotes

`Model/Query.lean`: generated query lexer (`Gen.QueryLexer.rules`, translated from the ATN that runs) +
recursive descent over tokens + the listener's semantic actions.  `Model/QuerySyn.lean`: syntax trees
with tokens at the leaves, `toks` (rendering) and `denote` (the structure the syntax spells).
-/
namespace ZorgVerif.C04
open ZorgVerif ZorgVerif.Query ZorgVerif.Lex

/-- **Main theorem** (token level): for every well-formed syntax tree — any select form, filter tree of
any shape and depth, both clause orders — compiling its rendering yields exactly its denotation, errors
(impossible dates) included.  Read right-to-left it is the round trip "render then compile". -/
theorem C04_denotes (dflt : Defaults) (today : Date) (q : QSyn) (h : q.wf = true) :
    parseToks dflt today q.toks = q.denote dflt today := parse_denotes dflt today q h

/-- the WHERE clause alone: juxtaposition = one and-filter, `|` = alternatives, parentheses nest -/
theorem C04_where (dflt : Defaults) (today : Date) (first : List ItemSyn) (alts : List (List ItemSyn))
    (h : (andWf first && orWf alts) = true) :
    parseToks dflt today ([tk "'W'" "W", sp] ++ orToks (first :: alts)) =
      (orDenote today (first :: alts)).map (fun o => ⟨dflt.select, some o, dflt.orderBy, dflt.groupBy⟩) :=
  parse_where_denotes dflt today first alts h

/-- omitted S / O / G clauses take the defaults (here: whatever `dflt` is; the driver instantiates it
with the *generated* `Query()` defaults of `Gen/Consts.lean`) -/
theorem C04_defaults (dflt : Defaults) (today : Date) (first : List ItemSyn) (alts : List (List ItemSyn))
    (h : (andWf first && orWf alts) = true) (q : Query)
    (hq : parseToks dflt today ([tk "'W'" "W", sp] ++ orToks (first :: alts)) = .ok q) :
    q.select = dflt.select ∧ q.orderBy = dflt.orderBy ∧ q.groupBy = dflt.groupBy := by
  rw [C04_where dflt today first alts h] at hq
  cases ho : orDenote today (first :: alts) with
  | error e => rw [ho] at hq; cases hq
  | ok o => rw [ho] at hq; simp only [Except.map, Except.ok.injEq] at hq; subst hq; exact ⟨rfl, rfl, rfl⟩

/-! ## Character level: all 64 priority spellings through the generated lexer -/

/-- compile a query *text*: generated lexer, then the parser -/
def compileText (dflt : Defaults) (today : Date) (s : Str) : Except Err Query :=
  parseToks dflt today (lex Gen.QueryLexer.rules s)

def dflt0 : Defaults := ⟨.field .note, [], []⟩
def day0 : Date := ⟨2024, 1, 1⟩

/-- the priorities of a query that is a single and-filter with a single atom -/
def singlePriorities : Except Err Query → Option (List Nat)
  | .ok ⟨_, some [AndF.mk [.priorities ps] []], _, _⟩ => some ps
  | _ => none

def spellingOk (n : Nat) (m : Option Nat) : Bool :=
  let txt : Str := "W P".toList ++ [digitChar n] ++ (match m with | some m => ['-', digitChar m] | none => [])
  singlePriorities (compileText dflt0 day0 txt) == some (match m with | some m => (List.range (m + 1)).drop n | none => [n])

/-- `Pn` for n = 0..9 and `Pn-m` for every ascending pair with 1 ≤ m ≤ 9: 64 spellings, each lexed by the
generated DFAs and parsed — a finite table checked by the kernel (re-checked whenever the lexer changes) -/
theorem C04_priority_spellings :
    (List.range 10).all (fun n => spellingOk n none &&
      ((List.range 10).filter (fun m => decide (n ≤ m ∧ 1 ≤ m))).all (fun m => spellingOk n (some m))) = true := by
  decide +kernel

/-- `Pn-m` denotes every priority from n to m inclusive (as a statement about the expansion) -/
theorem C04_priority_range (n m : Nat) (k : Nat) : k ∈ prioritiesOf n (some m) ↔ n ≤ k ∧ k ≤ m := by
  simp only [prioritiesOf, List.mem_drop_iff_getElem]
  constructor
  · rintro ⟨i, hi, rfl⟩
    simp only [List.length_range] at hi
    simp only [List.getElem_range]; omega
  · rintro ⟨h1, h2⟩
    exact ⟨k - n, by simp only [List.length_range]; omega, by simp only [List.getElem_range]; omega⟩

/-! ## Dates: absolute, and offsets from today in days / calendar months (end-of-month clamping) / years -/

/-- a relative spec `Nd` / `Nm` / `Ny` (no sign) means today plus N days / months / years -/
theorem C04_relative_future (today : Date) (n : Str) (hn : allDigits n = true) (hne : n ≠ []) :
    fromRelative today (n ++ ['d']) = (let d := Date.addDays (natOfDigits n) today; if d.valid then .ok d else .error (.valueError "date out of range")) ∧
    fromRelative today (n ++ ['m']) = (let d := Date.addMonths (natOfDigits n) today; if d.valid then .ok d else .error (.valueError "date out of range")) ∧
    fromRelative today (n ++ ['y']) = (let d := Date.addYears (natOfDigits n) today; if d.valid then .ok d else .error (.valueError "date out of range")) := by
  have hlow : n.map lowerAscii = n := by
    induction n with
    | nil => rfl
    | cons c cs ih =>
      simp only [allDigits, List.all_cons, Bool.and_eq_true] at hn
      have hc : lowerAscii c = c := by
        have := hn.1
        simp only [isDigit, Bool.and_eq_true, decide_eq_true_eq] at this
        unfold lowerAscii
        have h2 : ¬ ('A' ≤ c ∧ c ≤ 'Z') := by
          intro ⟨ha, _⟩
          have : c ≤ '9' := this.2
          exact absurd (Char.le_trans ha this) (by decide)
        simp [h2]
      simp only [List.map_cons, hc]
      cases cs with
      | nil => rfl
      | cons d ds => rw [ih (by simpa [allDigits] using hn.2) (by simp)]
  have hhead : ∀ u : Char, (n ++ [u]).head? ≠ some '-' := by
    intro u
    cases n with
    | nil => exact absurd rfl hne
    | cons c cs =>
      simp only [allDigits, List.all_cons, Bool.and_eq_true, isDigit, decide_eq_true_eq] at hn
      simp only [List.cons_append, List.head?_cons, ne_eq, Option.some.injEq]
      intro hc; rw [hc] at hn; exact absurd hn.1.1 (by decide)
  refine ⟨?_, ?_, ?_⟩ <;>
  · unfold fromRelative
    simp only [List.map_append, hlow, List.map_cons, List.map_nil]
    cases n with
    | nil => exact absurd rfl hne
    | cons c cs =>
      have hc : c ≠ '-' := by
        have := hhead 'd'; simpa using this
      simp [lowerAscii, hc, List.reverse_append]

/-- end-of-month clamping and calendar arithmetic of `Nm` (from `Lemmas/Date.lean`) -/
theorem C04_months_clamp (n : Nat) (t : Date) (h : t.valid = true) :
    let r := Date.addMonths n t
    r.y * 12 + (r.m - 1) = t.y * 12 + (t.m - 1) + n ∧ 1 ≤ r.m ∧ r.m ≤ 12 ∧ r.d = min t.d (Date.daysIn r.y r.m) :=
  Date.addMonths_spec n t h

/-- a range without end is the single start day (what `DateRange(start, None)` is compared against is
stated in C03: `end or start`) ; an absolute short date denotes itself -/
theorem C04_short_date (t : Date) (h : t.valid = true) (h1 : 2000 ≤ t.y) (h2 : t.y ≤ 2099) (today : Date) :
    fromDateSpec today (Date.fmtShort t) = .ok t := by
  have hl := Date.fmtShort_length t
  have hp := Date.parseShort_fmtShort t h h1 h2
  have hd : allDigits (Date.fmtShort t) = true := by
    rw [Date.fmtShort_eq]
    simp [allDigits, isDigit, digitChar]
    refine ⟨?_, ?_, ?_, ?_, ?_, ?_⟩ <;>
    · generalize hk : (_ % 10) = k
      have : k < 10 := by rw [← hk]; exact Nat.mod_lt _ (by omega)
      have : k = 0 ∨ k = 1 ∨ k = 2 ∨ k = 3 ∨ k = 4 ∨ k = 5 ∨ k = 6 ∨ k = 7 ∨ k = 8 ∨ k = 9 := by omega
      rcases this with h | h | h | h | h | h | h | h | h | h <;> subst h <;> decide
  simp [fromDateSpec, isShortDateSpec, hl, hd, hp]

/-- value types are inferred from the value -/
theorem C04_value_type (v : Str) :
    (valueType v = .date ↔ isDateSpec v = true) ∧
    (valueType v = .integer ↔ isDateSpec v = false ∧ allDigits v = true) ∧
    (valueType v = .string ↔ isDateSpec v = false ∧ allDigits v = false) := by
  unfold valueType
  cases h1 : isDateSpec v <;> cases h2 : allDigits v <;> simp

/-! ## Non-vacuity: a concrete query text through lexer + parser -/
example : (compileText dflt0 day0 "S count(note) W (o | x P1-3) #foo !@bar | - G type # O create".toList).toOption.isSome = true := by
  decide +kernel

end ZorgVerif.C04
