import ZorgVerif.Gen.Consts
import ZorgVerif.Lemmas.Action
import ZorgVerif.Lemmas.ActionSolo
/-! # C17 — `action open` offers and opens exactly the link targets on the line

Model: `Model/Action.lean` (`run_action_open`: the word scan with its `found_primary_zid` state variable, the
PROMPT / option protocol, `_open_link` dispatch with the index lookups as parameters).
Spec: `Model/ActionSpec.lean` (`specTargets`: skip the prefix words; the first other word is left out iff it is
the note's own bare ZID; from then on every word offers its target). -/
namespace ZorgVerif.C17
open ZorgVerif ZorgVerif.Action

/-- **Targets** — for every line (any words, any prefix shape, `.zo` or `.zoq`) the scan of the implementation
yields exactly the targets of the statement, in line order. -/
theorem C17_targets (vd : Str → Bool) (isZoq : Bool) (line : Str) :
    targets vd isZoq line = specTargets vd isZoq 0 ((splitOn ' ' line).map (stripSet "(),.?!;:".toList)) :=
  targets_eq_spec vd isZoq line

/-- once the body has started, every word offers its target: nothing is skipped, nothing invented -/
theorem C17_body_words (vd : Str → Bool) (isZoq : Bool) (i : Nat) (ws : List Str) :
    scan vd isZoq i true ws = ws.filterMap (wordTarget vd) := scan_found vd isZoq i ws

/-- in a `.zoq` page (and for the first word of any line) a ZID is never treated as primary -/
theorem C17_zoq_all_zids (vd : Str → Bool) (i : Nat) (w : Str) : isPrimary vd true i w = false := by
  simp [isPrimary]

/-- **Protocol** — every answer line starts with EDIT, SEARCH, PROMPT or ECHO, for every target list, option and index -/
theorem C17_protocol (zdir : Str) (lk : Lookup) (ts : List Target) (n : Nat) (opt : Option Int) :
    ∀ l ∈ (respond zdir lk ts n opt).lines, isProtocol l = true := respond_protocol zdir lk ts n opt

/-- one target is opened directly, whatever the option -/
theorem C17_single (zdir : Str) (lk : Lookup) (t : Target) (n : Nat) (opt : Option Int) :
    respond zdir lk [t] n opt = openLink zdir lk t := respond_single zdir lk t n opt

/-- several targets are offered through PROMPT, in line order -/
theorem C17_prompt (zdir : Str) (lk : Lookup) (ts : List Target) (n : Nat) (h : 2 ≤ ts.length) :
    respond zdir lk ts n none = ⟨["PROMPT ".toList ++ joinWith [' '] (ts.map Target.text)], 0⟩ :=
  respond_prompt zdir lk ts n h

/-- **Option k** opens the same thing as a line containing only the k-th target (any line number / option there) -/
theorem C17_option (zdir : Str) (lk : Lookup) (ts : List Target) (n n' : Nat) (k : Nat) (h : 2 ≤ ts.length)
    (hk1 : 1 ≤ k) (hk : k ≤ ts.length) (opt' : Option Int) :
    ∃ t, ts[k - 1]? = some t ∧ respond zdir lk ts n (some (k : Int)) = respond zdir lk [t] n' opt' :=
  respond_option zdir lk ts n n' k h hk1 hk opt'

/-- … and "a line containing only the k-th target" offers exactly that target: for every target whose text is one
already-stripped word (what the scan produces), the line `- solo <target>` has the target list `[t]` — so by `C17_option` and
`C17_single`, choosing option k answers exactly like running `action open` on that one-target line. -/
theorem C17_solo_line (vd : Str → Bool) (isZoq : Bool) (t : Target)
    (hsp : ' ' ∉ t.text) (hst : stripSet "(),.?!;:".toList t.text = t.text)
    (ht : (∃ w, t = .word w ∧ isLinkWord w = true) ∨
          (∃ z, t = .zid z ∧ isZid vd z = true ∧ isLinkWord z = false ∧ stripSet ['[', ']'] z = z)) :
    targets vd isZoq ("- solo ".toList ++ t.text) = [t] := solo_line_of_target vd isZoq t hsp hst ht

/-- option -1 opens the last target -/
theorem C17_option_last (zdir : Str) (lk : Lookup) (ts : List Target) (n n' : Nat) (h : 2 ≤ ts.length) (opt' : Option Int) :
    ∃ t, ts.getLast? = some t ∧ respond zdir lk ts n (some (-1)) = respond zdir lk [t] n' opt' :=
  respond_option_last zdir lk ts n n' h opt'

/-- any other option fails without output -/
theorem C17_option_out_of_range (zdir : Str) (lk : Lookup) (ts : List Target) (n : Nat) (k : Int) (h : 2 ≤ ts.length)
    (hk : k = 0 ∨ k < -1 ∨ (ts.length : Int) < k) : respond zdir lk ts n (some k) = ⟨[], 1⟩ :=
  respond_option_out_of_range zdir lk ts n k h hk

/-- **Page links**: `[[p]]` opens page p under the notes directory -/
theorem C17_page_link (zdir : Str) (lk : Lookup) (p : Str) (hp : '#' ∉ p) :
    openLink zdir lk (.word ("[[".toList ++ p ++ "]]".toList)) = ⟨["EDIT ".toList ++ fullPath zdir p], 0⟩ :=
  open_page_link zdir lk p hp

/-- `[[p#a]]` opens page p and searches for anchor a -/
theorem C17_page_anchor_link (zdir : Str) (lk : Lookup) (p a : Str) (hp : '#' ∉ p) (ha : '#' ∉ a) :
    openLink zdir lk (.word ("[[".toList ++ p ++ ['#'] ++ a ++ "]]".toList)) =
      ⟨["EDIT ".toList ++ fullPath zdir p, "SEARCH LID::".toList ++ a], 0⟩ :=
  open_page_anchor_link zdir lk p a hp ha

/-- **ZID targets** open the page of the indexed note that owns the ZID (and nothing when no note owns it) -/
theorem C17_zid (vd : Str → Bool) (zdir : Str) (lk : Lookup) (z : Str) (hz : isZid vd z = true) (hl : isLinkWord z = false) :
    openLink zdir lk (.zid z) = match lk.zidPage z with
      | some page => ⟨["EDIT ".toList ++ fullPath zdir page, "SEARCH \\s\\zs".toList ++ z], 0⟩
      | none => ⟨[], 1⟩ := open_zid vd zdir lk z hz hl

/-- **ID targets** open the one page whose notes carry the ID -/
theorem C17_id_link (zdir : Str) (lk : Lookup) (v page : Str) (hv : ∀ c ∈ v, c ≠ '^' ∧ c ≠ '[')
    (h : dedupSorted (lk.idPages v) = [page]) :
    openLink zdir lk (.word ("[#".toList ++ v ++ "]".toList)) =
      ⟨["EDIT ".toList ++ fullPath zdir page, "SEARCH ID::".toList ++ v ++ searchEnd], 0⟩ := open_id_link zdir lk v page hv h

/-- … and that page is a page of a note carrying the ID (the de-duplication neither adds nor drops pages) -/
theorem C17_id_pages (xs : List Str) (x : Str) : x ∈ dedupSorted xs ↔ x ∈ xs := dedupSorted_mem xs x

/-- **RID targets** open the page of the one note carrying the RID -/
theorem C17_rid_link (zdir : Str) (lk : Lookup) (v page : Str) (hv : ∀ c ∈ v, c ≠ '^' ∧ c ≠ '[') (h : lk.ridPages v = [page]) :
    openLink zdir lk (.word ("[@".toList ++ v ++ "]".toList)) =
      ⟨["EDIT ".toList ++ fullPath zdir page, "SEARCH RID::".toList ++ v ++ searchEnd], 0⟩ := open_rid_link zdir lk v page hv h

/-- **Source constants** (regenerated from /repo on every run, `Gen/Consts.lean`): the punctuation stripped from words, the ZID
brackets, the local-link mark, the search suffix and the "nothing to open" message of `_run_action.py` are the ones the model uses -/
theorem C17_source_constants :
    Gen.actionStripSets = ["(),.?!;:", "[]"] ∧ Gen.actionLocalLinkLeftMark = "[^" ∧
    Gen.actionSearchEnd.toList = searchEnd ∧
    (respond [] ⟨fun _ => none, fun _ => [], fun _ => []⟩ [] 7 none).lines =
      ["ECHO ".toList ++ Gen.actionNothingMsg.toList ++ " #7".toList] := by decide +kernel

/-! Non-vacuity: concrete lines (kernel-evaluated). -/
private def vd : Str → Bool := fun _ => true
example : (targets vd false "o P1 240612 240101#aa 240202#bb see [240303#cc], [[page#top]] and ([#gid]).".toList).map Target.text
    = ["240202#bb", "240303#cc", "[[page#top]]", "[#gid]"].map String.toList := by decide +kernel
example : (targets vd true "- 240101#aa x".toList).map Target.text = ["240101#aa".toList] := by decide +kernel
example : (targets vd false "- 240101#aa x".toList) = [] := by decide +kernel

end ZorgVerif.C17
