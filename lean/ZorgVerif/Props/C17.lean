import ZorgVerif.Model.Action
namespace ZorgVerif.C17
theorem C17_placeholder : (1 : Nat) = 1 := rfl
end ZorgVerif.C17
