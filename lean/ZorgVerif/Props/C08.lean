import ZorgVerif.Lemmas.Zo
import ZorgVerif.Gen.FileLexer
import ZorgVerif.Model.Refuse
/-!
# C08 — Indexing never crashes on any file and never silently drops a broken one  *(partial)*

What Lean carries: (i) the listener's string processing is total — for **every** event list and body no
branch of the model raises (the `.crash` constructors of `Zo.Err` are unreachable in `identity`, `addEv`,
`bulletProps`); (ii) the flag / refusal decision logic.  That the ANTLR runtime terminates and which
texts it reports as erroneous is sampled by the correspondence run, not proved.
-/
namespace ZorgVerif.C08
open ZorgVerif ZorgVerif.Zo ZorgVerif.Refuse

/-- identity words never crash: six-digit words, ZIDs and long dates that are not real dates are words -/
theorem C08_identity_total (evs : List Ev) : ∃ r, identity evs = .ok r := identity_ok evs

/-- metadata events never crash (impossible long dates are ignored) -/
theorem C08_events_total (q : Bool) (sc : Scope) (tt tp td : Bool) (ev : Ev) : ∃ sc', addEv q sc tt tp td ev = .ok sc' :=
  addEv_ok q sc tt tp td ev

theorem foldlM_pure_ok {α β : Type} (f : β → α → Except Err β) (h : ∀ b a, ∃ b', f b a = .ok b') :
    ∀ (xs : List α) (b : β), ∃ b', xs.foldlM f b = .ok b' := by
  intro xs
  induction xs with
  | nil => intro b; exact ⟨b, rfl⟩
  | cons x xs ih =>
    intro b
    obtain ⟨b1, hb1⟩ := h b x
    obtain ⟨b2, hb2⟩ := ih b1
    exact ⟨b2, by simp [List.foldlM, hb1, hb2, bind, Except.bind]⟩

theorem bind_ok {α β : Type} {x : Except Err α} {f : α → Except Err β}
    (hx : ∃ a, x = .ok a) (hf : ∀ a, ∃ b, f a = .ok b) : ∃ b, (x >>= f) = .ok b := by
  obtain ⟨a, rfl⟩ := hx
  exact hf a

theorem anyFirst_ok (pieces : List Str) : ∃ r, anyFirstWordHasColons pieces = .ok r := ⟨_, rfl⟩

/-- the bullet-property scan never crashes, whatever the body (empty bullets, bullets that hold only a
date or a ZID, `::` anywhere) -/
theorem C08_bullets_total (body : Str) : ∃ r, bulletProps body = .ok r := by
  simp only [bulletProps]
  refine bind_ok ?_ (fun any2 => ?_)
  · apply foldlM_pure_ok
    intro b a; split
    · exact ⟨_, rfl⟩
    · exact anyFirst_ok _
  refine bind_ok ?_ (fun any3 => ?_)
  · apply foldlM_pure_ok
    intro b a; split
    · exact ⟨_, rfl⟩
    · exact anyFirst_ok _
  apply foldlM_pure_ok
  intro acc bullet
  split <;> (try split) <;> exact ⟨_, rfl⟩

/-! ## flag and refusal logic -/

/-- no parser error ⇒ the page is not flagged (and the compiler model keeps every item, C01) -/
theorem C08_noerr (items : Nat) : flagged 0 items = false := by simp [flagged]

/-- a flagged page is refused by `db create` unless it is whitelisted or `-f` is given; by `db reindex`
unless whitelisted; it is never indexed as an ordinary page -/
theorem C08_refuse (wl force : Bool) :
    (createDecision true wl force = .refuse ↔ (wl = false ∧ force = false)) ∧
    (reindexDecision true wl = .refuse ↔ wl = false) ∧
    createDecision true wl force ≠ .index ∧ reindexDecision true wl ≠ .index := by
  cases wl <;> cases force <;> simp [createDecision, reindexDecision]

/-- an unflagged page is indexed -/
theorem C08_index (wl force : Bool) : createDecision false wl force = .index ∧ reindexDecision false wl = .index := by
  simp [createDecision, reindexDecision]

/-- what holds of the flag (`…_partial`): the page is flagged iff the parser reported an error **and** the
listener reached a note … -/
theorem C08_flag_partial (errs items : Nat) : flagged errs items = true ↔ (0 < errs ∧ 0 < items) := by
  simp [flagged]

/-- **Negative result** (known finding C08.unflagged_broken_page_without_notes): the full statement
"syntax error ⇒ flagged" fails for pages on which no note is reached. -/
theorem C08_flag_counterexample : flagged 3 0 = false ∧ createDecision (flagged 3 0) false false = .index := by
  decide

/-! Non-vacuity: the formerly crashing inputs (impossible dates, `::` inside an inline property, empty bullet) compile in the
model, through the generated lexer -/
private def compileText (s : String) : Except Err PageResult :=
  compileToks ⟨2024, 6, 15⟩ "P3".toList ((Lex.lex Gen.FileLexer.rules s.toList).filter (·.name != "<err>"))

example : (match compileText "# T\n\n- 241399 impossible date word\no P1 240230#00 impossible zid\n- [a::b::c] odd\n  * \n" with
    | .ok r => r.notes.map (fun (n : Note) => (n.line, n.zid.map Str.toStr, n.props.map (fun (kv : Str × Str) => (Str.toStr kv.1, Str.toStr kv.2))))
    | .error _ => [(0, none, [])]) = [(3, none, []), (4, none, []), (5, none, [("a", "b::c")])] := by decide +kernel

end ZorgVerif.C08
