import ZorgVerif.Model.Rename
namespace ZorgVerif.C14
open ZorgVerif.Rename
/-- placeholder until Lemmas/Rename.lean lands -/
theorem C14_placeholder : renameText [] [] [] = [] := by rfl
end ZorgVerif.C14
