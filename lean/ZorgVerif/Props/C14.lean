import ZorgVerif.Lemmas.Rename
/-!
# C14 — `file rename` retargets every link to the page and nothing else
Model: `Model/Rename.lean` — `renameText` is Python's two `str.replace` passes; `spec` is the
one-pass reading of the statement: at every position where `[[A]` or `[[A#` starts, `[[A` becomes
`[[B`, every other character is copied.
-/
namespace ZorgVerif.C14
open ZorgVerif ZorgVerif.Rename

/-- The two textual replacement passes compute exactly the one-pass specification, for every text and
all link-safe names (no `[`, `]`, `#` in page names). -/
theorem C14_spec (a b : Str) (ha : linkSafe a = true) (hb : linkSafe b = true) (txt : Str) :
    renameText a b txt = spec a b 0 txt := renameText_eq_spec a b ha hb txt

/-- A file without any `[[A]` / `[[A#` is unchanged — by the guard, and also by the replacement. -/
theorem C14_no_link_unchanged (a b txt : Str) (h : needsRewrite a txt = false) : renameText a b txt = txt :=
  renameText_no_link a b txt h

/-- `[[A]…` becomes `[[B]…` and `[[A#…` becomes `[[B#…`, wherever they stand (`u` bracket-free). -/
theorem C14_links_retargeted (a b u v : Str) (ha : linkSafe a = true) (hb : linkSafe b = true)
    (hu : ∀ c ∈ u, c ≠ '[') :
    renameText a b (u ++ linkClose a ++ v) = u ++ linkClose b ++ renameText a b v ∧
    renameText a b (u ++ linkHash a ++ v) = u ++ linkHash b ++ renameText a b v := by
  simp only [C14_spec a b ha hb, List.append_assoc]
  exact ⟨by rw [spec_append_plain a b u _ hu, spec_link_close a b v ha],
         by rw [spec_append_plain a b u _ hu, spec_link_hash a b v ha]⟩

/-- Near misses: a link whose target merely extends `A` (`[[Ax…`, `[[A/x`, `[[A.zo`) or has `A` as a
suffix (`[[xA]]`, `[[x/A]]`) is a fixed point: in `[[` ++ t ++ `]]`, nothing is rewritten unless `t`
is `A` itself or starts with `A#`. -/
theorem C14_near_miss (a b t : Str) (ht : ∀ c ∈ t, c ≠ '[')
    (hne : ¬ (linkClose a).isPrefixOf ('[' :: '[' :: (t ++ [']', ']'])) = true)
    (hnh : ¬ (linkHash a).isPrefixOf ('[' :: '[' :: (t ++ [']', ']'])) = true) :
    spec a b 0 ('[' :: '[' :: (t ++ [']', ']'])) = '[' :: '[' :: (t ++ [']', ']']) := by
  have h0 : isLinkAt a ('[' :: '[' :: (t ++ [']', ']'])) = false := by
    simp only [isLinkAt, Bool.or_eq_false_iff]
    exact ⟨Bool.eq_false_iff.2 hne, Bool.eq_false_iff.2 hnh⟩
  have h1 : isLinkAt a ('[' :: (t ++ [']', ']'])) = false := by
    simp only [isLinkAt, linkClose, linkHash, Bool.or_eq_false_iff]
    cases t with
    | nil => simp [List.isPrefixOf]
    | cons c cs =>
      have : c ≠ '[' := ht c (by simp)
      simp [List.isPrefixOf, this.symm]
  rw [spec_zero_cons, if_neg (by simp [h0]), spec_zero_cons, if_neg (by simp [h1])]
  have := spec_append_plain a b (t ++ [']', ']']) [] (by
    intro c hc
    rcases List.mem_append.1 hc with h | h
    · exact ht c h
    · simp at h; rw [h]; decide)
  simp only [List.append_nil, spec_nil] at this
  rw [this]

/-! Non-vacuity / examples (evaluated by the kernel) -/
example : renameText "foo".toList "sub/bar".toList "see [[foo]] [[foo#x]] [[foobar]] [[xfoo]] [[foo/x]] [foo] [[foo".toList
    = "see [[sub/bar]] [[sub/bar#x]] [[foobar]] [[xfoo]] [[foo/x]] [foo] [[foo".toList := by decide
example : linkSafe "sicp(2e)".toList = true ∧ linkSafe "a#b".toList = false := by decide

end ZorgVerif.C14

namespace ZorgVerif.C14
open ZorgVerif ZorgVerif.Rename

/-- **The link name of the renamed file**: only a trailing `.zo` is dropped; a query page or template keeps its extension
in links (`[[inbox.zoq]]`), so renaming `inbox.zoq` never touches links to the page `inbox` (seed C14-2) -/
theorem C14_link_name (a : Str) :
    simplify (a ++ ".zo".toList) = a ∧
    simplify (a ++ ".zoq".toList) = a ++ ".zoq".toList ∧
    simplify (a ++ ".zot".toList) = a ++ ".zot".toList := by
  have key : ∀ (x : Str) (c : Char), ¬ (".zo".toList <:+ x ++ [c]) ∨ c = 'o' := by
    intro x c
    by_cases hc : c = 'o'
    · exact Or.inr hc
    · refine Or.inl ?_
      intro ⟨t, ht⟩
      have := congrArg List.getLast? ht
      simp at this
      exact hc this.symm
  refine ⟨?_, ?_, ?_⟩
  · unfold simplify
    have : ".zo".toList.isSuffixOf (a ++ ".zo".toList) = true := by
      rw [List.isSuffixOf_iff_suffix]; exact List.suffix_append _ _
    simp [this]
  · unfold simplify
    have : ".zo".toList.isSuffixOf (a ++ ".zoq".toList) = false := by
      rcases key (a ++ ".zo".toList) 'q' with h | h
      · cases hb : ".zo".toList.isSuffixOf (a ++ ".zoq".toList) with
        | false => rfl
        | true =>
          rw [List.isSuffixOf_iff_suffix] at hb
          exact absurd (by simpa using hb) h
      · exact absurd h (by decide)
    rw [if_neg (by rw [this]; simp)]
  · unfold simplify
    have : ".zo".toList.isSuffixOf (a ++ ".zot".toList) = false := by
      rcases key (a ++ ".zo".toList) 't' with h | h
      · cases hb : ".zo".toList.isSuffixOf (a ++ ".zot".toList) with
        | false => rfl
        | true =>
          rw [List.isSuffixOf_iff_suffix] at hb
          exact absurd (by simpa using hb) h
      · exact absurd h (by decide)
    rw [if_neg (by rw [this]; simp)]

end ZorgVerif.C14
