import ZorgVerif.Model.Template
/-!
# C16 — Template initialisation never overwrites existing files
Model: `Model/Template.lean`.  `render` (jinja2 on the pre-processed template) and the `re.match`
results are parameters; the theorems hold for every instantiation of them.
-/
namespace ZorgVerif.C16
open ZorgVerif ZorgVerif.Template

variable (render : Str → Vars → Str)

/-- An existing file is left byte-identical unless overwriting was explicitly requested. -/
theorem C16_no_clobber (pats : List PatResult) (explicit : Option Str) (vars : Vars) (c : Str) :
    step render false pats explicit vars (some c) = some c := by
  simp [step, init]

/-- …and the decision itself is `noop` (nothing is rendered, no directory is created). -/
theorem C16_no_clobber_action (pats : List PatResult) (explicit : Option Str) (vars : Vars) :
    init true false pats explicit vars = .noop := by
  simp [init]

/-- The first matching pattern wins, whatever comes after it and whatever explicit template was given;
its captured groups are merged into the variable map. -/
theorem C16_first_match (ex ow : Bool) (h : (ex && !ow) = false) (pre post : List PatResult)
    (hpre : ∀ p ∈ pre, p.groups = none) (t : Str) (g : Vars) (explicit : Option Str) (vars : Vars) :
    init ex ow (pre ++ ⟨some g, t⟩ :: post) explicit vars = .write t (merge vars g) := by
  have hf : firstMatch (pre ++ ⟨some g, t⟩ :: post) = some (t, g) := by
    induction pre with
    | nil => simp [firstMatch]
    | cons p rest ih =>
      have hp := hpre p (by simp)
      simp only [List.cons_append, firstMatch, hp]
      exact ih (fun q hq => hpre q (by simp [hq]))
  simp [init, h, hf]

/-- No pattern matches and no explicit template: nothing is written. -/
theorem C16_no_match (ex ow : Bool) (pats : List PatResult) (h : ∀ p ∈ pats, p.groups = none) (vars : Vars)
    (c : Option Str) :
    init ex ow pats none vars = .noop ∧ step render ow pats none vars c = c := by
  have hf : firstMatch pats = none := by
    induction pats with
    | nil => rfl
    | cons p rest ih =>
      simp only [firstMatch, h p (by simp)]
      exact ih (fun q hq => h q (by simp [hq]))
  have : init ex ow pats none vars = .noop := by
    simp only [init, hf]; split <;> rfl
  refine ⟨this, ?_⟩
  have h2 : init c.isSome ow pats none vars = .noop := by
    simp only [init, hf]; split <;> rfl
  simp [step, h2]

/-- Doing it twice equals doing it once (with or without overwrite). -/
theorem C16_idempotent (ow : Bool) (pats : List PatResult) (explicit : Option Str) (vars : Vars) (c : Option Str) :
    step render ow pats explicit vars (step render ow pats explicit vars c) = step render ow pats explicit vars c := by
  cases c with
  | some c0 =>
    cases ow with
    | false => simp [step, init]
    | true =>
      simp only [step, init, Option.isSome_some, Bool.not_true, Bool.and_false]
      cases firstMatch pats with
      | some tg => simp
      | none => cases explicit <;> simp
  | none =>
    simp only [step, init, Option.isSome_none, Bool.false_and]
    cases hf : firstMatch pats with
    | some tg =>
      cases ow <;> simp [hf]
    | none =>
      cases explicit with
      | none => simp [hf]
      | some t => cases ow <;> simp [hf]

/-- captured variables override given ones with the same key and keep the others -/
theorem C16_merge_lookup (vars : Vars) (k v : Str) : (update vars k v).lookup k = some v := by
  induction vars with
  | nil => simp [update, List.lookup]
  | cons p rest ih =>
    obtain ⟨a, b⟩ := p
    by_cases h : a = k
    · subst h; simp [update, List.lookup]
    · have : (k == a) = false := by simp; exact fun e => h e.symm
      simp [update, h, List.lookup, this, ih]

/-! Non-vacuity -/
example : init false false [⟨none, "a.zot".toList⟩, ⟨some [("date".toList, "20240102".toList)], "b.zot".toList⟩,
    ⟨some [], "c.zot".toList⟩] (some "x.zot".toList) [("date".toList, "old".toList), ("k".toList, "v".toList)] =
    .write "b.zot".toList [("date".toList, "20240102".toList), ("k".toList, "v".toList)] := by decide
example : build "# T {{x}}\n# more\n\n## Heading {{date}}\nbody\n##\n### keep\n".toList =
    "# Heading {{date}}\nbody\n#\n### keep\n".toList := by decide

end ZorgVerif.C16
