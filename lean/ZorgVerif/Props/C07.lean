import ZorgVerif.Lemmas.ZidAlloc
/-!
# C07 — ZIDs are unique, well-formed and recognised by every component

Part 1 (this file): the allocator `_zid_manager.py`.  `E` is the *generated* exclusion list
(`Gen.unsupportedZidChars`), `A` the alphabet derived from it; `odometerE` is re-checked by
`decide +kernel` whenever the list changes.
Part 2 (`C07Lex.lean`): every allocated ZID is a single `ZID` token of both generated lexers.
-/
namespace ZorgVerif.C07
open ZorgVerif ZorgVerif.Zid

/-- the number of suffixes of one date: 51² + 51³ -/
theorem C07_space : A.length ^ 2 + A.length ^ 3 = 135252 := by rw [A_length]

/-- The successor function walks the chain `00 … zz 000 … zzz` one step at a time and fails only at
its end. -/
theorem C07_succ_rank (s : List Char) (h : Shape A s) :
    (∀ s', nextId E s = .ok s' → Shape A s' ∧ rank A s' = rank A s + 1) ∧
    (nextId E s = .error .outOfIds ↔ rank A s + 1 = 135252) := by
  have := nextId_spec odometerE s h
  rw [C07_space] at this; exact this

/-- No two allocations return the same ZID — any sequence of dates, any interleaving; a restart is
the identity on the persisted map (`ZIDManager` re-reads `next_ids.json` on every call), so restarts
between any two allocations are covered. -/
theorem C07_unique (ds : List (List Char)) : (allocs E [] ds).Nodup :=
  (allocs_fresh odometerE ds [] [] (inv_nil A)).1

/-- … also as strings `YYMMDD#XX`, given that date parts contain no `#`. -/
theorem C07_unique_strings (ds : List (List Char)) (h : ∀ d ∈ ds, '#' ∉ d) :
    ((allocs E [] ds).map zidString).Nodup := by
  obtain ⟨hn, hp⟩ := allocs_fresh odometerE ds [] [] (inv_nil A)
  unfold List.Nodup
  rw [List.pairwise_map]
  exact List.Pairwise.imp_of_mem
    (fun {z w} hz hw hne he => hne (zidString_inj (h _ (hp z hz).2.1) (h _ (hp w hw).2.1) he)) hn

/-- Every allocated ZID is `date # s` with `|s| ∈ {2,3}`, `s` alphanumeric and free of the excluded
look-alike characters. -/
theorem C07_shape (ds : List (List Char)) :
    ∀ z ∈ allocs E [] ds, z.1 ∈ ds ∧ (z.2.length = 2 ∨ z.2.length = 3) ∧
      ∀ c ∈ z.2, c.isAlphanum = true ∧ c ∉ E := by
  intro z hz
  obtain ⟨_, hd, hv, hl⟩ := (allocs_fresh odometerE ds [] [] (inv_nil A)).2 z hz
  refine ⟨hd, hl, ?_⟩
  intro c hc
  have := hv c hc
  simp only [A, alphabet, List.mem_filter, Bool.and_eq_true, Bool.not_eq_true'] at this
  refine ⟨this.2.1, ?_⟩
  intro hmem
  have h2 := this.2.2
  simp [hmem] at h2

/-! ## Exhaustion.  The statement says "fails only after all 135 252 suffixes were handed out".
The code computes the successor *before* handing out the current suffix, so the last suffix `zzz`
can never be returned: allocation fails after 135 251 suffixes.  Proved below both ways. -/

/-- rank of `zzz` -/
theorem rank_zzz : rank A ['z', 'z', 'z'] = 135251 := by decide +kernel

/-- `alloc` fails iff the stored suffix for that date is the last one of the chain. -/
theorem C07_alloc_fails_iff (m : Ids) (k : List Char) (h : Shape A ((lookup m k).getD ['0', '0'])) :
    (∃ e, alloc E m k = .error e) ↔ rank A ((lookup m k).getD ['0', '0']) = 135251 := by
  have hs := C07_succ_rank _ h
  simp only [alloc]
  cases hn : nextId E ((lookup m k).getD ['0', '0']) with
  | ok v =>
    have := (hs.1 v hn)
    have h2 := rank_lt this.1
    rw [C07_space] at h2
    constructor
    · rintro ⟨e, he⟩; cases he
    · intro hr; omega
  | error e =>
    cases e
    have := hs.2.1 hn
    constructor
    · intro _; omega
    · intro _; exact ⟨_, rfl⟩

/-- **Negative result** (defect C07-b of DESIGN.md): the last suffix is never handed out. -/
theorem C07_last_suffix_never_returned (ds : List (List Char)) :
    ∀ z ∈ allocs E [] ds, z.2 ≠ ['z', 'z', 'z'] := by
  -- every returned id ranks strictly below a stored successor, whose rank is < 135252
  suffices H : ∀ (ds : List (List Char)) (m : Ids) (H : List (List Char × List Char)), Inv A m H →
      ∀ z ∈ allocs E m ds, rank A z.2 < 135251 by
    intro z hz he
    have := H ds [] [] (inv_nil A) z hz
    rw [he, rank_zzz] at this; omega
  intro ds
  induction ds with
  | nil => intro m H _ z hz; simp [allocs] at hz
  | cons d ds ih =>
    intro m H hi z hz
    simp only [allocs] at hz
    cases ha : alloc E m d with
    | error e => rw [ha] at hz; exact ih m H hi z hz
    | ok p =>
      obtain ⟨m', y⟩ := p
      rw [ha] at hz
      obtain ⟨hi', _, _, _⟩ := alloc_step odometerE hi ha
      rcases List.mem_cons.1 hz with h | h
      · subst h
        obtain ⟨_, v, hv, hr⟩ := hi'.2 z (by simp)
        have := rank_lt (hi'.1 _ _ hv)
        rw [C07_space] at this; omega
      · exact ih m' (y :: H) hi' z h

/-- What does hold (`…_partial`): allocation for a date fails only when the stored suffix is `zzz`,
i.e. only after every suffix *below* `zzz` was handed out for that date. -/
theorem C07_exhaustion_partial (ds : List (List Char)) (m : Ids) (H) (hi : Inv A m H) (k : List Char)
    (hf : ∃ e, alloc E m k = .error e) : lookup m k = some ['z', 'z', 'z'] := by
  have hshape : Shape A ((lookup m k).getD ['0', '0']) := by
    cases hl : lookup m k with
    | none => exact shape_00 odometerE
    | some v => exact hi.1 k v hl
  have hr := (C07_alloc_fails_iff m k hshape).1 hf
  cases hl : lookup m k with
  | none => rw [hl] at hr; simp [rank_00 odometerE] at hr
  | some v =>
    rw [hl] at hr hshape; simp only [Option.getD_some] at hr hshape
    have hz : Shape A ['z', 'z', 'z'] := ⟨by decide +kernel, Or.inr rfl⟩
    rw [rank_inj hshape hz (by rw [hr, rank_zzz])]

/-! ## Non-vacuity -/
example : allocs E [] ["240510".toList, "240510".toList, "240511".toList] =
    [("240510".toList, "00".toList), ("240510".toList, "01".toList), ("240511".toList, "00".toList)] := by
  decide +kernel
example : Shape A "0H".toList ∧ nextId E "0H".toList = .ok "0J".toList := by
  refine ⟨⟨by decide +kernel, Or.inl rfl⟩, by rfl⟩
example : nextId E "zz".toList = .ok "000".toList ∧ nextId E "zzz".toList = .error .outOfIds := by
  constructor <;> rfl

end ZorgVerif.C07
