import ZorgVerif.Model.NoteText
namespace ZorgVerif.C06
theorem C06_placeholder : (1 : Nat) = 1 := rfl
end ZorgVerif.C06
