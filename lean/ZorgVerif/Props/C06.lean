import ZorgVerif.Lemmas.Index
/-!
# C06 — Incremental reindexing is equivalent to rebuilding the index
Model: `Model/Index.lean` — files, indexed pages and the hash map; the page compiler together with the
write-back (ZIDs, modify dates) is the parameter `sem.process`.  The theorems hold for every history of
edits, deletions and reindex runs (with or without explicit paths), of any length, and for every `sem`
that is `Stable`: re-processing a written-back text reproduces it (what is indexed depends only on the
text that ends up in the file — the agreement of index and files that C05 / C11 establish).
-/
namespace ZorgVerif.C06
open ZorgVerif ZorgVerif.Index

variable {Page : Type}

/-- the invariant that every operation preserves: a page whose recorded hash is `t` is indexed as the
from-scratch page of `t` -/
theorem C06_invariant (sem : Sem Page) (hs : Stable sem) (s : Store Page) (h : Inv sem s) (ops : List Op) :
    Inv sem (run sem s ops) := Inv.run hs ops h

/-- what a plain reindex achieves, after any history: the index is exactly the from-scratch index of the
files as they are now — no page of a deleted or renamed file survives, no page is missing, no edit is
missed — and the hash map records exactly the current files -/
theorem C06_plain_reindex (sem : Sem Page) (hs : Stable sem) (s : Store Page) (h : Inv sem s) (hu : Uniq s.files) :
    (∀ p, get (reindexPlain sem s).db p = (get (reindexPlain sem s).files p).map (pageOf sem)) ∧
    (∀ p, get (reindexPlain sem s).hashes p = get (reindexPlain sem s).files p) ∧
    (∀ p, (get (reindexPlain sem s).files p).isSome = (get s.files p).isSome) := by
  obtain ⟨a, _, c, _, e⟩ := reindexPlain_spec hs h hu
  exact ⟨a, c, e⟩

/-- **Equivalence**: for every history ending with a plain reindex, the index answers like an index
freshly created from the final files (equal as maps from page path to indexed page), and rebuilding
changes no file. -/
theorem C06_equiv (sem : Sem Page) (hs : Stable sem) (s0 : Store Page) (h : Inv sem s0) (hu : Uniq s0.files)
    (ops : List Op) :
    let s := run sem s0 (ops ++ [Op.reindex])
    let fresh := create sem ⟨s.files, [], []⟩
    (∀ p, get s.db p = get fresh.db p) ∧ (∀ p, get fresh.files p = get s.files p) :=
  reindex_eq_rebuild hs h hu ops

/-- C05's idempotence at store level: a second reindex changes no file and no indexed page -/
theorem C06_quiescent (sem : Sem Page) (hs : Stable sem) (s : Store Page) (h : Inv sem s) (hu : Uniq s.files) :
    (reindexPlain sem (reindexPlain sem s)).files = (reindexPlain sem s).files ∧
    (∀ p, get (reindexPlain sem (reindexPlain sem s)).db p = get (reindexPlain sem s).db p) :=
  ⟨(reindexPlain_idem hs h hu).1, (reindexPlain_idem hs h hu).2.1⟩

/-- `db create` from scratch indexes every file as its from-scratch page -/
theorem C06_create (sem : Sem Page) (hs : Stable sem) (s : Store Page) (hu : Uniq s.files) :
    ∀ p, get (create sem s).db p = (get (create sem s).files p).map (pageOf sem) :=
  (create_spec hs s hu).1

/-! Non-vacuity: a concrete `Stable` semantics (pages = texts, write-back appends a marker once) and a
history with an edit, a deletion and an explicit-path reindex -/
def exSem : Sem Str := ⟨fun _ t => if t.getLast? == some '!' then (t, t) else (t ++ ['!'], t ++ ['!'])⟩
theorem exSem_stable : Stable exSem := by
  intro old t
  simp only [exSem]
  split <;> simp_all
def exFinal : Store Str := run exSem ⟨[("a".toList, "x".toList), ("b".toList, "y!".toList)], [], []⟩
  [Op.reindex, Op.write "a".toList "z".toList, Op.reindexOnly ["b".toList], Op.remove "b".toList, Op.reindex]
example : (get exFinal.db "a".toList, get exFinal.db "b".toList, get exFinal.files "a".toList) =
    (some "z!".toList, none, some "z!".toList) := by decide +kernel

end ZorgVerif.C06
