import ZorgVerif.Lemmas.Identity
import ZorgVerif.Lemmas.NoteText
/-!
# C05 — After `db create` index and files agree; files change only to gain ZIDs
Model: `Model/NoteText.lean` (`_add_zid_to_line`, `_pop_line_before_zid`, `_update_zo_file`, `_add_zids`,
transcribed on characters with Python's `split(" ")` / `" ".join`).  The store-level statements
(agreement of index and files, idempotence) are proved in `Props/C06.lean` for the abstract index model
under the law that the write-back text recompiles to the indexed page; that law is what this check's
correspondence run establishes on real directories (index rows vs recompiled files).
-/
namespace ZorgVerif.C05
open ZorgVerif ZorgVerif.NoteText

/-- **The ZID is inserted right after the kind / priority prefix** — for every first line of the shape
`indent kind [Pn] extra-spaces body…`: indentation and prefix are kept, a leading `YYYY-MM-DD` creation
date is replaced, every later word is kept verbatim (extra spaces after the prefix are dropped). -/
theorem C05_zid_after_prefix (zid : Str) (k j : Nat) (sym : Str) (prio body : List Str) (h : Shape sym prio j body)
    (hsp : ∀ w ∈ shapeWords k sym prio j body, ' ' ∉ w) :
    addZidToLine zid (joinSp (shapeWords k sym prio j body)) =
      .ok (shapePre k sym prio ++ zid ++ [' '] ++ joinSp (dropLeading isLongDate body)) :=
  addZidToLine_shape zid k j sym prio body h hsp

/-- **Minimal diff**: rewriting touches only the first lines of the listed notes; the number of lines and
every other line are unchanged. -/
theorem C05_minimal_diff (f : Str → Str → Except Err Str) (us : List Upd) (ls ls' : List Str)
    (h : updateLines f us ls = .ok ls') :
    ls'.length = ls.length ∧ ∀ i, (∀ u ∈ us, u.lineNo - 1 ≠ i) → ls'[i]? = ls[i]? :=
  updateLines_spec f us ls ls' h

/-- **File and index agree on the rewritten first line**: the body `_add_zids` stores in the index
(`addZidToBody`, computed from the compiled body) is exactly what follows the prefix in the line that
`_add_zid_to_line` writes (`C05_zid_after_prefix`) — for every body whose first word is not blank. -/
theorem C05_index_body_agrees (zid : Str) (body : List Str) (hb : body ≠ [])
    (hh : ∀ w, body.head? = some w → w ≠ [] ∧ ∀ c ∈ w,
      (c == ' ' || c == '\t' || c == '\n' || c == '\r' || c == '\x0b' || c == '\x0c') = false) :
    addZidToBody zid (joinSp body) = zid ++ [' '] ++ joinSp (dropLeading isLongDate body) := by
  cases body with
  | nil => exact absurd rfl hb
  | cons w r =>
    obtain ⟨hne, hw⟩ := hh w rfl
    have hdw : ∀ (p : Char → Bool) (u v : Str), (∀ c ∈ u, p c = true) → (v = [] ∨ ∃ c t, v = c :: t ∧ p c = false) →
        (u ++ v).takeWhile p = u := by
      intro p u v hu hv
      induction u with
      | nil =>
        rcases hv with rfl | ⟨c, t, rfl, hc⟩
        · rfl
        · simp [List.takeWhile, hc]
      | cons a u ih =>
        have ha : p a = true := hu a (by simp)
        simp only [List.cons_append, List.takeWhile_cons, ha, if_true]
        rw [ih (fun c hc => hu c (by simp [hc]))]
    obtain ⟨c0, cs0, hw0⟩ : ∃ c cs, w = c :: cs := by
      cases w with
      | nil => exact absurd rfl hne
      | cons c cs => exact ⟨c, cs, rfl⟩
    have hc0 := hw c0 (by simp [hw0])
    -- the joined text: the first word followed by `rest` (nothing, or a space and the other words)
    have key : ∀ rest : Str, (rest = [] ∨ ∃ t, rest = ' ' :: t) →
        addZidToBody zid (w ++ rest) = zid ++ [' '] ++
          (if isLongDate w then (match rest with | ' ' :: t => t | _ => rest) else w ++ rest) := by
      intro rest hr
      unfold addZidToBody
      have hd : (w ++ rest).dropWhile (fun c => c == ' ' || c == '\t' || c == '\n' || c == '\r' || c == '\x0b' || c == '\x0c') = w ++ rest := by
        rw [hw0]; simp only [List.cons_append, List.dropWhile_cons, hc0]; rfl
      have htw : (w ++ rest).takeWhile (fun c => !(c == ' ' || c == '\t' || c == '\n' || c == '\r' || c == '\x0b' || c == '\x0c')) = w := by
        apply hdw
        · intro c hc; simp [hw c hc]
        · rcases hr with h | ⟨t, h⟩
          · exact Or.inl h
          · exact Or.inr ⟨' ', t, h, by decide⟩
      simp only [hd, htw, List.drop_left]
      split <;> first | rfl | (rcases hr with rfl | ⟨t, rfl⟩ <;> rfl)
    cases r with
    | nil =>
      have : joinSp [w] = w ++ [] := by simp [joinSp, joinWith]
      rw [this, key [] (Or.inl rfl)]
      simp only [dropLeading]
      split <;> simp [joinSp, joinWith]
    | cons y ys =>
      have : joinSp (w :: y :: ys) = w ++ (' ' :: joinSp (y :: ys)) := by simp [joinSp, joinWith]
      rw [this, key _ (Or.inr ⟨_, rfl⟩)]
      simp only [dropLeading]
      split <;> simp [joinSp, joinWith]

/-- **The written ZID is read back**: a line whose first word after the prefix is a ZID (what `C05_zid_after_prefix` writes,
one `ZID` token by `C07_allocated_lexes`) compiles to a note with that ZID and the ZID's date, whatever the rest of the line is —
so the second compile allocates nothing and file and index keep agreeing on identity. -/
theorem C05_written_zid_is_read (z : Str) (dt : Date) (hz : Zo.isZid z = true) (hd : Date.parseShort (z.take 6) = some dt)
    (rest : List Zo.Ev) : Zo.identity (.word :: .id z :: rest) = .ok (none, some z, some dt) :=
  Zo.identity_zid_first z dt hz hd rest

/-- splitting a line at spaces and joining it again is the identity (the rewriting loses no character) -/
theorem C05_split_join (s : Str) : joinSp (splitOn ' ' s) = s := joinSp_splitOn s

/-! Non-vacuity and the repaired corner cases, evaluated by the kernel -/
example : (addZidToLine "240615#00".toList "  o P1   2024-01-02 spaced  todo".toList).toOption = some ("  o P1 240615#00 spaced  todo".toList) := by decide +kernel
example : (addZidToLine "240615#00".toList "- P5 is a word".toList).toOption = some ("- 240615#00 P5 is a word".toList) := by decide +kernel
example : (addZidToLine "240615#00".toList "- 1234567890 is my phone".toList).toOption = some ("- 240615#00 1234567890 is my phone".toList) := by decide +kernel
example : addZidToBody "240615#00".toList "2024-01-02 spaced  todo".toList = "240615#00 spaced  todo".toList := by decide +kernel
-- the create date as the only word of the first line (repaired, see known_findings.json): the continuation lines are kept
example : addZidToBody "240102#00".toList "2024-01-02\n  continuation text".toList = "240102#00 \n  continuation text".toList := by decide +kernel
-- `C05_index_body_agrees` on a concrete body: what the index stores is what the file line shows after the prefix
example : addZidToBody "240615#00".toList (joinSp ["2024-01-02".toList, "buy".toList, "milk".toList]) =
    "240615#00".toList ++ [' '] ++ joinSp (dropLeading isLongDate ["2024-01-02".toList, "buy".toList, "milk".toList]) := by decide +kernel

end ZorgVerif.C05
