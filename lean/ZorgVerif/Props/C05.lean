import ZorgVerif.Model.Zo
namespace ZorgVerif.C05
theorem C05_placeholder : (1 : Nat) = 1 := rfl
end ZorgVerif.C05
