import ZorgVerif.Lemmas.Lexer
import ZorgVerif.Lemmas.ZidAlloc
import ZorgVerif.Model.Date
import ZorgVerif.Gen.FileLexer
import ZorgVerif.Gen.QueryLexer
/-!
# C07 part 2 — every allocated ZID is one `ZID` token of both lexers
The DFAs are *generated* from the ATNs of the lexers that run (`Gen/FileLexer.lean`,
`Gen/QueryLexer.lean`); the set-wise runs below are re-checked by the kernel whenever a lexer or the
exclusion list changes.  No enumeration of ZIDs: `allAccepted` / `noneAccepted` run the automata on
*sets* of characters per position.
-/
namespace ZorgVerif.C07
open ZorgVerif ZorgVerif.Lex ZorgVerif.Zid

def D : List Char := "0123456789".toList

/-- `YYMMDD#XX` / `YYMMDD#XXX` as a product of character sets; `A` = the allocator's alphabet -/
def zidSets (three : Bool) : List (List Char) :=
  [D, D, ['0', '1'], D, ['0', '1', '2', '3'], D, ['#'], A, A] ++ (if three then [A] else [])

def ruleIndex (rules : Rules) (name : String) : Nat := (rules.map (·.1)).idxOf name

/-- the checkable condition: rule `name` accepts the whole product, no earlier rule accepts any of it -/
def singleTokenCheck (rules : Rules) (name : String) (sets : List (List Char)) : Bool :=
  let k := ruleIndex rules name
  match rules[k]? with
  | some r => r.1 == name && allAccepted r.2 sets && (rules.take k).all (fun r' => noneAccepted r'.2 sets)
  | none => false

theorem singleToken_of_check (rules : Rules) (name : String) (sets : List (List Char))
    (h : singleTokenCheck rules name sets = true) (s : Str) (hs : InProduct s sets) (hne : s ≠ []) :
    lex rules s = [⟨name, s⟩] := by
  simp only [singleTokenCheck] at h
  generalize hk : ruleIndex rules name = k at h
  cases hr : rules[k]? with
  | none => rw [hr] at h; simp at h
  | some r =>
    rw [hr] at h
    simp only [Bool.and_eq_true, beq_iff_eq, List.all_eq_true] at h
    obtain ⟨⟨hname, hacc⟩, hprev⟩ := h
    have hklt : k < rules.length := by
      apply Nat.lt_of_not_le; intro hge
      rw [List.getElem?_eq_none hge] at hr; cases hr
    have hrk : rules[k] = r := by
      rw [List.getElem?_eq_getElem hklt] at hr; exact Option.some.inj hr
    have := lex_single rules k hklt s hne
      (by rw [hrk]; exact allAccepted_sound r.2 sets s hacc hs)
      (by
        intro j hj
        have hmem : rules[j]'(Nat.lt_trans hj hklt) ∈ rules.take k := by
          rw [List.mem_take_iff_getElem]
          exact ⟨j, by rw [Nat.min_eq_left (Nat.le_of_lt hklt)]; exact hj, rfl⟩
        exact noneAccepted_sound _ sets s (hprev _ hmem) hs)
    rw [this, hrk, hname]

/-- **Every** string `YYMMDD#XX(X)` over the allocator's alphabet is a single `ZID` token of both
lexers (maximal munch, rule priority included). -/
theorem C07_lexes (three : Bool) (z : Str) (h : InProduct z (zidSets three)) :
    lex Gen.FileLexer.rules z = [⟨"ZID", z⟩] ∧ lex Gen.QueryLexer.rules z = [⟨"ZID", z⟩] := by
  have hne : z ≠ [] := by
    intro h0; subst h0; cases three <;> simp [zidSets, InProduct] at h
  cases three with
  | false =>
    exact ⟨singleToken_of_check _ _ _ (by decide +kernel) z h hne,
           singleToken_of_check _ _ _ (by decide +kernel) z h hne⟩
  | true =>
    exact ⟨singleToken_of_check _ _ _ (by decide +kernel) z h hne,
           singleToken_of_check _ _ _ (by decide +kernel) z h hne⟩

theorem digitChar_mem (n : Nat) : digitChar n ∈ D := by
  have : n % 10 < 10 := Nat.mod_lt _ (by omega)
  unfold digitChar
  generalize n % 10 = k at this
  have : k = 0 ∨ k = 1 ∨ k = 2 ∨ k = 3 ∨ k = 4 ∨ k = 5 ∨ k = 6 ∨ k = 7 ∨ k = 8 ∨ k = 9 := by omega
  rcases this with h | h | h | h | h | h | h | h | h | h <;> subst h <;> decide

/-- The date part of a ZID (`to_short_date_spec` of a valid date) lies in the product above. -/
theorem C07_datePart (t : Date) (hv : t.valid = true) :
    InProduct (Date.fmtShort t) [D, D, ['0', '1'], D, ['0', '1', '2', '3'], D] := by
  simp only [Date.valid, Bool.and_eq_true, decide_eq_true_eq] at hv
  obtain ⟨⟨⟨⟨⟨_, _⟩, hm1⟩, hm2⟩, hd1⟩, hd2⟩ := hv
  have hdd : t.d ≤ 31 := by
    have : Date.daysIn t.y t.m ≤ 31 := by unfold Date.daysIn; split <;> (try split) <;> (try split) <;> omega
    omega
  simp only [Date.fmtShort, Date.fmtYmd, padNat, List.nil_append, List.cons_append,
    List.drop_succ_cons, List.drop_zero, InProduct]
  refine ⟨digitChar_mem _, digitChar_mem _, ?_, digitChar_mem _, ?_, digitChar_mem _, trivial⟩
  · have : t.m / 10 = 0 ∨ t.m / 10 = 1 := by omega
    unfold digitChar
    rcases this with h | h <;> rw [h] <;> decide
  · have : t.d / 10 = 0 ∨ t.d / 10 = 1 ∨ t.d / 10 = 2 ∨ t.d / 10 = 3 := by omega
    unfold digitChar
    rcases this with h | h | h | h <;> rw [h] <;> decide

/-- Combined: date part of a valid date, `#`, a suffix of the allocator's shape ⇒ one `ZID` token. -/
theorem C07_allocated_lexes (t : Date) (hv : t.valid = true) (suffix : Str) (hs : Shape A suffix) :
    lex Gen.FileLexer.rules (zidString (Date.fmtShort t, suffix)) = [⟨"ZID", zidString (Date.fmtShort t, suffix)⟩] ∧
    lex Gen.QueryLexer.rules (zidString (Date.fmtShort t, suffix)) = [⟨"ZID", zidString (Date.fmtShort t, suffix)⟩] := by
  obtain ⟨hval, hlen⟩ := hs
  have hd := C07_datePart t hv
  generalize Date.fmtShort t = dp at hd
  match dp, hd with
  | [a, b, c, d, e, f], hd =>
    simp only [InProduct] at hd
    obtain ⟨h1, h2, h3, h4, h5, h6, _⟩ := hd
    rcases hlen with hl | hl
    · match suffix, hl, hval with
      | [x, y], _, hval =>
        apply C07_lexes false
        simp only [zidString, zidSets, List.cons_append, List.nil_append, InProduct, List.append_nil,
          Bool.false_eq_true, if_false]
        exact ⟨h1, h2, h3, h4, h5, h6, by simp, hval x (by simp), hval y (by simp), trivial⟩
    · match suffix, hl, hval with
      | [x, y, w], _, hval =>
        apply C07_lexes true
        simp only [zidString, zidSets, List.cons_append, List.nil_append, InProduct, if_true]
        exact ⟨h1, h2, h3, h4, h5, h6, by simp, hval x (by simp), hval y (by simp), hval w (by simp), trivial⟩

instance instDecInProduct : (s : Str) → (sets : List (List Char)) → Decidable (InProduct s sets)
  | [], [] => isTrue trivial
  | c :: cs, S :: rest =>
    match (inferInstance : Decidable (c ∈ S)), instDecInProduct cs rest with
    | isTrue h1, isTrue h2 => isTrue ⟨h1, h2⟩
    | isFalse h1, _ => isFalse (fun h => h1 h.1)
    | _, isFalse h2 => isFalse (fun h => h2 h.2)
  | [], _ :: _ => isFalse (fun h => h)
  | _ :: _, [] => isFalse (fun h => h)

/-! Non-vacuity -/
example : InProduct "240510#0K".toList (zidSets false) := by decide +kernel
example : InProduct "991231#zzz".toList (zidSets true) := by decide +kernel

end ZorgVerif.C07
