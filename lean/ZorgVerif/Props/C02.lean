import ZorgVerif.Model.Zo
namespace ZorgVerif.C02
open ZorgVerif.Zo
theorem C02_placeholder : mergeProps [("k".toList, "a".toList)] [("k".toList, "b".toList)] = [("k".toList, "b".toList)] := by decide
end ZorgVerif.C02
