import ZorgVerif.Lemmas.Zo
import ZorgVerif.Gen.FileLexer
/-!
# C02 — Notes inherit metadata from the page title and enclosing sections only
Model: `Model/Zo.lean`.  A note is built by `finishItem` from the file scope, the stack of open section
scopes and its own events; these theorems pin down what that stack can contain.
-/
namespace ZorgVerif.C02
open ZorgVerif ZorgVerif.Lex ZorgVerif.Zo

/-- opening a level-k header removes every scope of level ≥ k (sibling, earlier and deeper sections) and
keeps exactly the enclosing ones -/
theorem C02_header_resets (k : Nat) (s : List (Nat × Str × Scope)) (x : Nat × Str × Scope) :
    x ∈ closeTo k s ↔ x ∈ s ∧ x.1 < k := mem_closeTo k s x

/-- the stack of open sections is strictly increasing in level at all times, so it holds at most one
section per level — the enclosing ones, innermost last -/
theorem C02_stack_sorted (today : Date) (dp : Str) (fuel f : Nat) (st st' : St) (cur : Option Item) (lines : List Line)
    (h : bodyLines today dp fuel f st cur lines = .ok st') (hs : Sorted st.scopes) :
    Sorted st'.scopes ∧ st'.file = st.file := by
  obtain ⟨a, b, _⟩ := bodyLines_sorted h hs
  exact ⟨a, b⟩

/-- every note of a compiled page was built from the page's file scope and a sorted stack of enclosing
sections (nothing else is in reach of `finishItem`) -/
theorem C02_built_from_enclosing (today : Date) (dp : Str) (toks : List Tok) (res : PageResult)
    (h : compileToks today dp toks = .ok res) :
    ∀ note ∈ res.notes, ∃ file, BuiltSorted today dp (toks.length + 2) file note :=
  fun n hn => ((compileToks_notes h).2 n hn).2

/-- in-block comments are inert: a comment line changes nothing but the block bookkeeping -/
theorem C02_comment_inert (today : Date) (dp : Str) (fuel f : Nat) (st : St) (no : Nat) (ts : List Tok) (nl : Str)
    (rest : List Line) (atoms : List Tok) (hc : classify ts = .comment atoms) :
    bodyLines today dp fuel (f + 1) st none ((no, ts, nl) :: rest) =
      if nl.isEmpty then .error (.syntax "missing newline at end of file")
      else (spaceAtoms fuel atoms).bind fun _ => bodyLines today dp fuel f (openBlock st) none rest :=
  bodyLines_comment_step today dp fuel f st no ts nl rest atoms hc

/-- tag names made only of digits never enter a scope -/
theorem C02_digit_tags_dropped (q : Bool) (sc sc' : Scope) (tt tp td : Bool) (ev : Ev)
    (h : addEv q sc tt tp td ev = .ok sc') :
    (∀ p ∈ sc'.tags, p ∈ sc.tags ∨ p.2.all isDigit = false) ∧ (∀ l ∈ sc'.links, l ∈ sc.links ∨ l.all isDigit = false) :=
  ⟨addEv_tags h, addEv_links h⟩

/-- tags / links are taken only where the scope flag allows (first header line, section headers, notes);
properties only in the header block, section headers and notes; dates likewise -/
theorem C02_flags (q : Bool) (sc sc' : Scope) (tt tp td : Bool) (ev : Ev) :
    (addEv q sc false tp td ev = .ok sc' → sc'.tags = sc.tags ∧ sc'.links = sc.links) ∧
    (addEv q sc tt false td ev = .ok sc' → sc'.props = sc.props) ∧
    (addEv q sc tt tp false ev = .ok sc' → sc'.date = sc.date) :=
  ⟨addEv_noTags, addEv_noProps, addEv_noDate⟩

/-- for properties with the same key the innermost scope wins (right-biased merge) -/
theorem C02_innermost_wins (outer inner : List (Str × Str)) (k : Str) :
    (mergeProps outer inner).lookup k = (inner.lookup k).orElse (fun _ => outer.lookup k) :=
  mergeProps_lookup outer inner k

/-! Non-vacuity: a concrete page through the generated lexer and the model — file scope, an H1 with two H2 children that
override / do not override `k`, and a second H1 (what the sibling after an overriding section sees is seed C02-2's case) -/
private def compileText (s : String) : Except Err PageResult :=
  compileToks ⟨2024, 6, 15⟩ "P3".toList ((lex Gen.FileLexer.rules s.toList).filter (·.name != "<err>"))

example : (match compileText "# T #ft k::file\n\n- n0\n\n################################ A #a k::1\n- n1\n\n======================== B #b k::2\n- n2\n\n======================== C #c\n- n3\n\n################################ D\n- n4\n" with
    | .ok r => r.notes.map (fun (n : Note) => (n.line, n.areas.map Str.toStr, n.props.map (fun (kv : Str × Str) => (Str.toStr kv.1, Str.toStr kv.2))))
    | .error _ => []) =
  [(3, ["ft"], [("k", "file")]), (6, ["a", "ft"], [("k", "1")]), (9, ["a", "b", "ft"], [("k", "2")]),
   (12, ["a", "c", "ft"], [("k", "1")]), (15, ["ft"], [("k", "file")])] := by decide +kernel

end ZorgVerif.C02
