import ZorgVerif.Model.Sql
namespace ZorgVerif.C03
open ZorgVerif.Sql
theorem C03_placeholder : like "%a\\_b%".toList (some '\\') "xa_by".toList = true := by decide
end ZorgVerif.C03
