import ZorgVerif.Lemmas.SqlRefines
/-!
# C03 — A WHERE filter returns exactly the indexed notes that satisfy it

`Model/Filter.lean` — `satOr`: the specification, a direct reading of the statement (membership tests,
presence tests, inclusive date ranges, typed property comparisons, smart-case literal substring,
`*`-glob, link resolution through ID/RID/ZID, ∧/∨/nesting, negation as complement; negated comparison =
exists ∧ ¬cmp).  `Model/Sql.lean` — `sqlOr`: the meaning of the SQL `_query_converter.py` emits, helper by
helper, with SQLite's `LIKE … ESCAPE`, `lower()`, `date()`, `CAST`, `IN`/`NOT IN`.
-/
namespace ZorgVerif.C03
open ZorgVerif ZorgVerif.Query ZorgVerif.Filter ZorgVerif.Sql

/-- **Refinement**: for every index, every note with one value per property key and lower-case path /
link names, and every filter tree (any depth, every atom kind, every literal — `%`, `_`, `\` included)
whose file/link literals are lower-case, the emitted SQL evaluates exactly like the specification. -/
theorem C03_refines (idx : Index) (today : Date) (n : NoteRow) (hn : RowWF n) (f : List AndF) (hf : OrWF f) :
    sqlOr idx today n f = satOr idx today n f := Sql.C03_refines idx today n hn f hf

/-- the notes a query returns (those for which the SQL condition is true) -/
def resultSql (idx : Index) (today : Date) (f : List AndF) : List NoteRow :=
  idx.filter (fun n => sqlOr idx today n f == some true)

/-- …are exactly the indexed notes that satisfy the expression. -/
theorem C03_result (idx : Index) (today : Date) (f : List AndF) (hidx : ∀ n ∈ idx, RowWF n) (hf : OrWF f) :
    resultSql idx today f = idx.filter (fun n => satOr idx today n f == some true) := by
  unfold resultSql
  apply List.filter_congr
  intro n hn
  rw [C03_refines idx today n (hidx n hn) f hf]

/-- every text literal is taken literally: the LIKE pattern built for a quoted text matches exactly the
bodies that contain it up to ASCII case (then the smart-case rule decides which comparison is used) -/
theorem C03_text_literal (v b : Str) : like (descLikeArg v) (some '\\') b = ciInfix v b :=
  like_descLikeArg v b

/-- a negated tag / text / file / link / existence filter is the complement of its positive form -/
theorem C03_negation_complement (idx : Index) (today : Date) (n : NoteRow) :
    (∀ k name, satAtom idx today n (.tag k true name) = (satAtom idx today n (.tag k false name)).map (!·)) ∧
    (∀ v cs, satAtom idx today n (.desc v cs true) = (satAtom idx today n (.desc v cs false)).map (!·)) ∧
    (∀ g, satAtom idx today n (.file g true) = (satAtom idx today n (.file g false)).map (!·)) ∧
    (∀ t, satAtom idx today n (.link t true) = (satAtom idx today n (.link t false)).map (!·)) ∧
    (∀ k v vt, satAtom idx today n (.prop k v .exists vt true) = (satAtom idx today n (.prop k v .exists vt false)).map (!·)) := by
  refine ⟨?_, ?_, ?_, ?_, ?_⟩
  · intro k name; simp [satAtom]
  · intro v cs; simp [satAtom]
  · intro g; simp [satAtom]
  · intro t; simp [satAtom]
  · intro k v vt; simp only [satAtom]; cases n.props.lookup k <;> simp

/-- a negated comparison keeps the requirement that the property exists -/
theorem C03_negated_comparison_needs_property (idx : Index) (today : Date) (n : NoteRow)
    (k v : Str) (op : PropOp) (vt : VType) (hop : op ≠ .exists) (hno : n.props.lookup k = none) :
    satAtom idx today n (.prop k v op vt true) = some false := by
  cases op <;> first | exact absurd rfl hop | (simp only [satAtom, hno]; rfl)

/-! Non-vacuity: a concrete index and filters with metacharacters, evaluated by the kernel -/
def exRow (zid path body : String) (links : List String) (props : List (String × String)) : NoteRow :=
  { zid := zid.toList, path := path.toList, kind := .openTodo, priority := some 1, body := body.toList,
    cdate := ⟨2024, 1, 1⟩, mdate := ⟨2024, 1, 2⟩, areas := ["work".toList], contexts := [], people := [], projects := [],
    links := links.map String.toList, props := props.map (fun (a, b) => (a.toList, b.toList)) }
def exIdx : Index := [exRow "240101#00" "a_b.zo" "fix Foo_bar 50%_done" ["axb#x", "a_b"] [("due", "2024-03-13")],
                      exRow "240101#01" "axb.zo" "fix foo-bar 50x_done" ["a_b#top"] [("ID", "g1")]]
example : (exIdx.map (fun n => satOr exIdx ⟨2024, 6, 15⟩ n [.mk [.desc "Foo_bar".toList false false] []])) = [some true, some false] := by decide +kernel
example : (exIdx.map (fun n => sqlOr exIdx ⟨2024, 6, 15⟩ n [.mk [.desc "50%_".toList false false, .link "a_b".toList true] []])) = [some false, some false] := by decide +kernel
example : (exIdx.map (fun n => sqlOr exIdx ⟨2024, 6, 15⟩ n [.mk [.file "a_b.zo".toList false] []])) = [some true, some false] := by decide +kernel

end ZorgVerif.C03
