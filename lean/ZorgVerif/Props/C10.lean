import ZorgVerif.Lemmas.NoteText
/-!
# C10 — `note move` relocates exactly one note and loses nothing
Model: `Model/NoteText.lean` — `FileManager.add_note` / `delete_note` on the list of lines of a page
(`text.split("\n")`), as repaired (see known_findings.json).
-/
namespace ZorgVerif.C10
open ZorgVerif ZorgVerif.NoteText

/-- **Source page**: exactly the lines of the moved note are removed — the block starts at the first line
that carries the ZID *in identity position* (no earlier line does, so a line that merely mentions the ZID
is never taken), has the length of the note's body, and every other line is kept in order. -/
theorem C10_source (lines : List Str) (zid : Str) (n : Nat) (r : List Str) (h : deleteNote lines zid n = some r) :
    ∃ i, r = lines.take i ++ lines.drop (i + n) ∧
      isFirstLineOf zid (lines.getD i []) = true ∧ (∀ j, j < i → isFirstLineOf zid (lines.getD j []) = false) ∧
      r.length + min n (lines.length - i) = lines.length := by
  obtain ⟨i, _, h2, h3, h4, h5⟩ := deleteNote_spec lines zid n r h
  exact ⟨i, h2, h3, h4, h5⟩

/-- **Destination page**: the note is added once and no existing line is lost or changed, whatever the
page looks like (ending with a note, with or without trailing newline, header only, empty).  `k` is the
insertion index; either the note is appended after line `k` (all lines up to `k` kept, nothing after
them), or it takes the place of the blank line `k` (all lines before `k` kept, all lines after `k` kept,
shifted by the length of the note text). -/
theorem C10_dest (lines n : List Str) :
    let k := (insertionIndex lines).1
    (lines ≠ [] → k < lines.length) ∧ (∀ i, i < k → (addNote lines n)[i]? = lines[i]?) ∧
    ((lines.take (k + 1) <+: addNote lines n ∧ (addNote lines n)[k]? = lines[k]? ∧ k + 1 ≥ lines.length) ∨
     (isBlankLine (lines.getD k []) = true ∧ addNote lines n = lines.take k ++ n ++ lines.drop (k + 1) ∧
        ∀ i, k < i → (addNote lines n)[i + n.length - 1]? = lines[i]?)) := by
  intro k
  obtain ⟨h1, _, h3, h4⟩ := addNote_spec lines n
  refine ⟨h1, h3, ?_⟩
  rcases h4 with ⟨ht, _, hp, hk⟩ | ⟨ht, hh, _, hp, hk⟩ | ⟨_, _, hb, he, ha⟩
  · -- target line not blank: it is the last line of the page
    refine Or.inl ⟨hp, hk, ?_⟩
    exact targetNotBlank_last lines ht
  · refine Or.inl ⟨hp, hk, ?_⟩
    exact headerOnly_last lines hh
  · exact Or.inr ⟨hb, he, ha⟩

/-! Non-vacuity: the repaired corner cases, evaluated by the kernel -/
example : addNote ["# B".toList, [], "- 240102#00 last line of b".toList] ["- 240101#01 moved".toList, []] =
    ["# B".toList, [], "- 240102#00 last line of b".toList, "- 240101#01 moved".toList, []] := by decide +kernel
example : addNote ["# C".toList, []] ["- 240101#01 moved".toList, []] = ["# C".toList, [], "- 240101#01 moved".toList, []] := by decide +kernel
example : addNote ["# made".toList] ["- 240101#01 moved".toList, []] = ["# made".toList, [], "- 240101#01 moved".toList, []] := by decide +kernel
example : deleteNote ["# S".toList, [], "- 240101#00 alpha see 240101#01 too".toList, "- 240101#01 beta".toList, "  * bullet".toList, []]
    "240101#01".toList 2 = some ["# S".toList, [], "- 240101#00 alpha see 240101#01 too".toList, []] := by decide +kernel

end ZorgVerif.C10
