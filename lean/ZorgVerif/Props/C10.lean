import ZorgVerif.Gen.Consts
import ZorgVerif.Lemmas.NoteText
import ZorgVerif.Lemmas.Move
/-!
# C10 — `note move` relocates exactly one note and loses nothing
Model: `Model/NoteText.lean` — `FileManager.add_note` / `delete_note` on the list of lines of a page
(`text.split("\n")`), as repaired (see known_findings.json).
-/
namespace ZorgVerif.C10
open ZorgVerif ZorgVerif.NoteText

/-- **Source page**: exactly the lines of the moved note are removed — the block starts at the first line
that carries the ZID *in identity position* (no earlier line does, so a line that merely mentions the ZID
is never taken), has the length of the note's body, and every other line is kept in order. -/
theorem C10_source (lines : List Str) (zid : Str) (n : Nat) (r : List Str) (h : deleteNote lines zid n = some r) :
    ∃ i, r = lines.take i ++ lines.drop (i + n) ∧
      isFirstLineOf zid (lines.getD i []) = true ∧ (∀ j, j < i → isFirstLineOf zid (lines.getD j []) = false) ∧
      r.length + min n (lines.length - i) = lines.length := by
  obtain ⟨i, _, h2, h3, h4, h5⟩ := deleteNote_spec lines zid n r h
  exact ⟨i, h2, h3, h4, h5⟩

/-- **Destination page**: the note is added once and no existing line is lost or changed, whatever the
page looks like (ending with a note, with or without trailing newline, header only, empty).  `k` is the
insertion index; either the note is appended after line `k` (all lines up to `k` kept, nothing after
them), or it takes the place of the blank line `k` (all lines before `k` kept, all lines after `k` kept,
shifted by the length of the note text). -/
theorem C10_dest (lines n : List Str) :
    let k := (insertionIndex lines).1
    (lines ≠ [] → k < lines.length) ∧ (∀ i, i < k → (addNote lines n)[i]? = lines[i]?) ∧
    ((lines.take (k + 1) <+: addNote lines n ∧ (addNote lines n)[k]? = lines[k]? ∧ k + 1 ≥ lines.length) ∨
     (isBlankLine (lines.getD k []) = true ∧ addNote lines n = lines.take k ++ n ++ lines.drop (k + 1) ∧
        ∀ i, k < i → (addNote lines n)[i + n.length - 1]? = lines[i]?)) := by
  intro k
  obtain ⟨h1, _, h3, h4⟩ := addNote_spec lines n
  refine ⟨h1, h3, ?_⟩
  rcases h4 with ⟨ht, _, hp, hk⟩ | ⟨ht, hh, _, hp, hk⟩ | ⟨_, _, hb, he, ha⟩
  · -- target line not blank: it is the last line of the page
    refine Or.inl ⟨hp, hk, ?_⟩
    exact targetNotBlank_last lines ht
  · refine Or.inl ⟨hp, hk, ?_⟩
    exact headerOnly_last lines hh
  · exact Or.inr ⟨hb, he, ha⟩

/-- **No character of the destination is lost**: the only line `add_note` ever takes away is an EMPTY line (`""`),
never a line of spaces — such a line is a continuation line of the note above it (repair a9: before it, a
whitespace-only line inside the destination's last note was replaced by the moved note and the rest of that note
was cut off).  So the destination's lines are all kept, in order, except for at most one empty line whose place the
note takes. -/
theorem C10_dest_only_empty_line_replaced (lines n : List Str) :
    let k := (insertionIndex lines).1
    (lines.take (k + 1) <+: addNote lines n ∧ k + 1 ≥ lines.length) ∨
    (lines.getD k [] = [] ∧ addNote lines n = lines.take k ++ n ++ lines.drop (k + 1)) := by
  intro k
  rcases (C10_dest lines n).2.2 with ⟨hp, _, hl⟩ | ⟨hb, he, _⟩
  · exact Or.inl ⟨hp, hl⟩
  · refine Or.inr ⟨?_, he⟩
    simpa [isBlankLine, List.isEmpty_iff] using hb

/-- the page of the repaired defect: the last note of the destination has an indented blank line; the moved note
goes after the whole note (the page does not end with a newline here), nothing is cut off -/
example :
    addNote ["- 240101#00 first line".toList, "  ".toList, "  second para".toList] ["- 240102#00 mover".toList, []] =
      ["- 240101#00 first line".toList, "  ".toList, "  second para".toList, "- 240102#00 mover".toList, []] := by
  decide +kernel

/-- and with a trailing newline the note takes the place of the final empty line -/
example :
    addNote ["- 240101#00 first line".toList, "  ".toList, "  second para".toList, []] ["- 240102#00 mover".toList, []] =
      ["- 240101#00 first line".toList, "  ".toList, "  second para".toList, "- 240102#00 mover".toList, []] := by
  decide +kernel

/-! ## The moved note carries its inherited metadata explicitly
Model: `Model/Move.lean` — `_add_hidden_metadata` (every tag the index knows for the note and that is no word of
its body, every property whose `key::` does not occur in the body, inserted after the ZID) and the text handed
to `add_note`.  Hypotheses: the ZID occurs in the body and every occurrence ends a word (the indexed body starts
with `ZID ` or `date ZID `), tag / property words contain no whitespace and no trailing punctuation. -/
open ZorgVerif.Move in
/-- every tag of the note is a word of the moved text — also those it only inherited from its page and sections -/
theorem C10_tags_explicit (body zid : Str) (m : Move.Meta) (hz : zid ≠ []) (hzw : Move.NoWs zid)
    (he : Move.ZidEndsWords zid body) (ho : Move.occurs zid body = true)
    (hm : ∀ w ∈ Move.missingWords body m, Move.NoWs w ∧ w ≠ [])
    (hs : ∀ w ∈ Move.missingWords body m, Move.stripTagWord w = w) :
    (∀ t ∈ m.projects, Move.bodyHasTag (Move.addHiddenMetadata body zid m) ('+' :: t) = true) ∧
    (∀ t ∈ m.areas,    Move.bodyHasTag (Move.addHiddenMetadata body zid m) ('#' :: t) = true) ∧
    (∀ t ∈ m.contexts, Move.bodyHasTag (Move.addHiddenMetadata body zid m) ('@' :: t) = true) ∧
    (∀ t ∈ m.people,   Move.bodyHasTag (Move.addHiddenMetadata body zid m) ('%' :: t) = true) :=
  Move.tags_explicit body zid m hz hzw he ho hm hs

/-- every property of the note is written in the moved text (keys are single words, as the lexer guarantees).
Without that guard the statement is false: `Move.Counterexample.props_explicit_false` (a key with a space in it
can be torn apart by the insertion). -/
theorem C10_props_explicit_partial (body zid : Str) (m : Move.Meta) (hz : zid ≠ []) (hzw : Move.NoWs zid)
    (he : Move.ZidEndsWords zid body) (ho : Move.occurs zid body = true)
    (hm : ∀ w ∈ Move.missingWords body m, Move.NoWs w ∧ w ≠ [])
    (hk : ∀ kv ∈ m.props, Move.NoWs kv.1) :
    ∀ kv ∈ m.props, Move.occurs (kv.1 ++ "::".toList) (Move.addHiddenMetadata body zid m) = true :=
  Move.props_explicit_noWs_partial body zid m hz hzw he ho hm hk

/-- nothing of the body is lost: every word of the body is still a word of the moved text, and the moved text is
the body with the missing words inserted after the ZID -/
theorem C10_body_words_kept (body zid : Str) (m : Move.Meta) (hz : zid ≠ []) (hzw : Move.NoWs zid)
    (he : Move.ZidEndsWords zid body) :
    (∀ w ∈ Move.splitWs body, w ∈ Move.splitWs (Move.addHiddenMetadata body zid m)) ∧
    (Move.addHiddenMetadata body zid m = body ∨
      Move.addHiddenMetadata body zid m = Rename.replaceAll zid (zid ++ Move.extras body m) body) :=
  ⟨Move.words_kept body zid m hz hzw he, (Move.hidden_only_inserts body zid m hz).imp id (·.2)⟩

example : Move.movedText 'o' (some "P1".toList) (some 'x') "240101#00 alpha #a".toList "240101#00".toList
    ⟨["p".toList], ["a".toList, "b".toList], [], [], [("k".toList, "v".toList)]⟩ = "x 240101#00 +p #b k::v alpha #a\n".toList := by decide +kernel

/-- **Source constants**: the punctuation `_note_body_has_tag` strips from a word is what `Move.stripTagWord` strips -/
theorem C10_source_constants : Gen.tagWordRstrip = ["),.?!;:"] ∧ Gen.tagWordLstrip = ["("] ∧
    Move.stripTagWord "((#tag).,".toList = "#tag".toList := by decide +kernel

/-! Non-vacuity: the repaired corner cases, evaluated by the kernel -/
example : addNote ["# B".toList, [], "- 240102#00 last line of b".toList] ["- 240101#01 moved".toList, []] =
    ["# B".toList, [], "- 240102#00 last line of b".toList, "- 240101#01 moved".toList, []] := by decide +kernel
example : addNote ["# C".toList, []] ["- 240101#01 moved".toList, []] = ["# C".toList, [], "- 240101#01 moved".toList, []] := by decide +kernel
example : addNote ["# made".toList] ["- 240101#01 moved".toList, []] = ["# made".toList, [], "- 240101#01 moved".toList, []] := by decide +kernel
example : deleteNote ["# S".toList, [], "- 240101#00 alpha see 240101#01 too".toList, "- 240101#01 beta".toList, "  * bullet".toList, []]
    "240101#01".toList 2 = some ["# S".toList, [], "- 240101#00 alpha see 240101#01 too".toList, []] := by decide +kernel

end ZorgVerif.C10
