import ZorgVerif.Model.Groups
/-!
# C18 — File-group expansion flattens groups in place and in order
Model: `Model/Groups.lean` (`expand`, `expandArg`, `expandMembers`; the member formatter `f` is a
parameter — `str.format` — instantiated by `fmt today` on the modelled fragment).
-/
namespace ZorgVerif.C18
open ZorgVerif ZorgVerif.Groups

variable (m : GroupMap) (f : Str → Except Err Str)

/-- sequential composition in `Except`, as the Python loops do (first error wins, in order) -/
def seq2 (a b : Except Err (List Str)) : Except Err (List Str) := do
  let x ← a
  let y ← b
  pure (x ++ y)

/-- Expanding a concatenation of argument lists equals concatenating their expansions. -/
theorem C18_append (fuel : Nat) (xs ys : List Str) :
    expand m f fuel (xs ++ ys) = seq2 (expand m f fuel xs) (expand m f fuel ys) := by
  induction xs with
  | nil =>
    simp only [List.nil_append, expand, seq2]
    cases expand m f fuel ys <;> rfl
  | cons a rest ih =>
    simp only [List.cons_append, expand, ih, seq2]
    cases expandArg m f fuel a with
    | error e => rfl
    | ok x =>
      cases expand m f fuel rest with
      | error e => rfl
      | ok y =>
        cases expand m f fuel ys with
        | error e => rfl
        | ok z => simp [bind, Except.bind, pure, Except.pure]

/-- Ordinary paths are left untouched (and are not formatted). -/
theorem C18_plain (fuel : Nat) (a : Str) (h : a.head? ≠ some '@') :
    expand m f (fuel + 1) [a] = .ok [a] := by
  cases a with
  | nil => simp [expand, expandArg, bind, Except.bind, pure, Except.pure]
  | cons c cs =>
    have : c ≠ '@' := by simpa using h
    simp only [expand, expandArg]
    split
    · rename_i name heq; simp at heq; exact absurd heq.1 this
    · simp [bind, Except.bind, pure, Except.pure]

/-- A group argument is replaced by the expansion of its members. -/
theorem C18_group (fuel : Nat) (g : Str) :
    expand m f (fuel + 1) [('@' :: g)] =
      match lookup m g with
      | none => .error (.keyError g)
      | some members => expandMembers m f fuel members := by
  simp only [expand, expandArg]
  cases lookup m g with
  | none => rfl
  | some members =>
    simp only []
    cases h : expandMembersWith (expandArg m f fuel) f members <;> simp [bind, Except.bind, pure, Except.pure, expandMembers, h]

/-- Members expand in place and in order: `@sub` members recursively, others through the formatter. -/
theorem C18_members_cons_group (fuel : Nat) (n : Str) (rest : List Str) :
    expandMembers m f fuel (('@' :: n) :: rest) =
      seq2 (expandArg m f fuel ('@' :: n)) (expandMembers m f fuel rest) := by
  simp only [expandMembers, expandMembersWith, seq2]

theorem C18_members_cons_plain (fuel : Nat) (a : Str) (rest : List Str) (h : a.head? ≠ some '@') :
    expandMembers m f fuel (a :: rest) =
      (do let x ← f a; let y ← expandMembers m f fuel rest; pure (x :: y)) := by
  cases a with
  | nil => simp only [expandMembers, expandMembersWith]
  | cons c cs =>
    have : c ≠ '@' := by simpa using h
    simp only [expandMembers, expandMembersWith]
    split
    · rename_i heq; simp at heq; exact absurd heq.1 this
    · rfl

/-- Acyclicity witnessed by a depth function: every `@sub` member of a group is strictly shallower. -/
def Acyclic (dep : Str → Nat) : Prop :=
  ∀ g members, lookup m g = some members → ∀ n, ('@' :: n) ∈ members → dep n < dep g

/-- For an acyclic map, recursion depth `dep g + 1` suffices: more fuel changes nothing and the fuel
error (Python: RecursionError) never occurs. -/
theorem C18_fuel (dep : Str → Nat) (hac : Acyclic m dep) (hf : ∀ s, f s ≠ .error .fuel) :
    ∀ (fuel : Nat) (g : Str), dep g < fuel →
      expandArg m f fuel ('@' :: g) ≠ .error .fuel ∧
      ∀ k, expandArg m f (fuel + k) ('@' :: g) = expandArg m f fuel ('@' :: g) := by
  intro fuel
  induction fuel with
  | zero => intro g h; omega
  | succ fuel ih =>
    intro g hg
    -- statement about member lists at this fuel
    have hmem : ∀ (members : List Str), (∀ n, ('@' :: n) ∈ members → dep n < fuel) →
        expandMembers m f fuel members ≠ .error .fuel ∧
        ∀ k, expandMembers m f (fuel + k) members = expandMembers m f fuel members := by
      intro members
      induction members with
      | nil => intro _; simp [expandMembers, expandMembersWith]
      | cons a rest ihm =>
        intro hall
        obtain ⟨r1, r2⟩ := ihm (fun n hn => hall n (by simp [hn]))
        by_cases hat : ∃ n, a = '@' :: n
        · obtain ⟨n, rfl⟩ := hat
          obtain ⟨a1, a2⟩ := ih n (hall n (by simp))
          simp only [C18_members_cons_group, seq2]
          refine ⟨?_, ?_⟩
          · cases h1 : expandArg m f fuel ('@' :: n) with
            | error e => intro hc; simp [bind, Except.bind] at hc; subst hc; exact a1 h1
            | ok x =>
              cases h2 : expandMembers m f fuel rest with
              | error e => intro hc; simp [bind, Except.bind] at hc; subst hc; exact r1 h2
              | ok y => intro hc; simp [bind, Except.bind, pure, Except.pure] at hc
          · intro k; rw [a2 k, r2 k]
        · have hh : a.head? ≠ some '@' := by
            intro hc
            cases a with
            | nil => simp at hc
            | cons c cs => simp at hc; exact hat ⟨cs, by rw [hc]⟩
          simp only [C18_members_cons_plain m f _ a rest hh]
          refine ⟨?_, ?_⟩
          · cases h1 : f a with
            | error e => intro hc; simp [bind, Except.bind] at hc; subst hc; exact hf a h1
            | ok x =>
              cases h2 : expandMembers m f fuel rest with
              | error e => intro hc; simp [bind, Except.bind] at hc; subst hc; exact r1 h2
              | ok y => intro hc; simp [bind, Except.bind, pure, Except.pure] at hc
          · intro k; rw [r2 k]
    cases hl : lookup m g with
    | none =>
      refine ⟨by simp [expandArg, hl], ?_⟩
      intro k
      have : fuel + 1 + k = (fuel + k) + 1 := by omega
      rw [this]; simp [expandArg, hl]
    | some members =>
      obtain ⟨q1, q2⟩ := hmem members (fun n hn => by have := hac g members hl n hn; omega)
      refine ⟨by simpa [expandArg, hl] using q1, ?_⟩
      intro k
      have : fuel + 1 + k = (fuel + k) + 1 := by omega
      rw [this]; simpa [expandArg, hl] using q2 k

/-- Member patterns receive today's and the previous six days' dates. -/
theorem C18_dates (today : Date) (i : Nat) (hi : i < 7) :
    field today ("yyyymmdd[".toList ++ [digitChar i] ++ "]".toList) = .ok (Date.fmtYmd (Date.subDays i today)) ∧
    field today ("days[".toList ++ [digitChar i] ++ "]:%Y%m%d".toList) = .ok (Date.fmtYmd (Date.subDays i today)) := by
  have : i = 0 ∨ i = 1 ∨ i = 2 ∨ i = 3 ∨ i = 4 ∨ i = 5 ∨ i = 6 := by omega
  rcases this with h | h | h | h | h | h | h <;> subst h <;>
    simp [field, digitChar, isDigit, digitVal, strftime, Date.fmtYmd, Except.map]

/-! Non-vacuity: a concrete acyclic map with a shared sub-group. -/
def exMap : GroupMap := [("a".toList, ["@b".toList, "x".toList, "@c".toList]), ("b".toList, ["@c".toList, "y".toList]), ("c".toList, ["z".toList])]
example : expand exMap (fun s => .ok s) 3 ["p".toList, "@a".toList] =
    .ok ["p".toList, "z".toList, "y".toList, "x".toList, "z".toList] := by rfl

end ZorgVerif.C18
