import ZorgVerif.Model.Saved
import ZorgVerif.Model.Filter
import ZorgVerif.Gen.QueryLexer
/-!
# C15 — A saved-query reference filters like the saved query's WHERE clause
Model: `Model/Saved.lean` (textual expansion as the code does it, fuel = recursion depth).
-/
namespace ZorgVerif.C15
open ZorgVerif ZorgVerif.Saved ZorgVerif.Query ZorgVerif.Filter

theorem collect_none_of_mem (f : Str → Option Str) (ns : List Str) (n : Str) (hn : n ∈ ns) (hf : f n = none) :
    collect f ns = none := by
  induction ns with
  | nil => cases hn
  | cons m ms ih =>
    simp only [collect]
    rcases List.mem_cons.1 hn with h | h
    · subst h; simp [hf]
    · rw [ih h]; cases f m <;> rfl

/-- A reference to a saved query that does not exist is reported (expansion yields `None`, and
`execute_with_session` raises), never ignored. -/
theorem C15_missing (σ : Str → Option Str) (fuel : Nat) (q name : Str)
    (href : name ∈ names q) (hmiss : σ name = none) : expand σ fuel q = none := by
  have : savedWhere σ fuel name = none := by
    cases fuel with
    | zero => rfl
    | succ f => simp [savedWhere, hmiss]
  simp [expand, collect_none_of_mem _ _ name href this]

/-- …also when the missing reference is nested inside a saved query. -/
theorem C15_missing_nested (σ : Str → Option Str) (fuel : Nat) (outer inner content : Str)
    (hc : σ outer = some content) (href : inner ∈ names (whereText content)) (hmiss : σ inner = none) :
    savedWhere σ (fuel + 1) outer = none := by
  have : savedWhere σ fuel inner = none := by
    cases fuel with
    | zero => rfl
    | succ f => simp [savedWhere, hmiss]
  simp [savedWhere, hc, collect_none_of_mem _ _ inner href this]

/-- A query without references is left as it is. -/
theorem C15_no_refs (σ : Str → Option Str) (fuel : Nat) (q : Str) (h : names q = []) : expand σ fuel q = some q := by
  simp [expand, h, collect, substAll]

/-- acyclicity witnessed by a depth function on names -/
def Acyclic (σ : Str → Option Str) (dep : Str → Nat) : Prop :=
  ∀ name content, σ name = some content → ∀ nm ∈ names (whereText content), dep nm < dep name

theorem collect_congr (f g : Str → Option Str) (ns : List Str) (h : ∀ n ∈ ns, f n = g n) : collect f ns = collect g ns := by
  induction ns with
  | nil => rfl
  | cons m ms ih =>
    simp only [collect, h m (by simp), ih (fun n hn => h n (by simp [hn]))]

/-- **Termination**: for an acyclic set of saved queries the recursion depth `dep name + 1` suffices —
more fuel never changes the result (Python: no RecursionError, the expansion returns). -/
theorem C15_terminates (σ : Str → Option Str) (dep : Str → Nat) (hac : Acyclic σ dep) :
    ∀ (fuel : Nat) (name : Str), dep name < fuel → ∀ k, savedWhere σ (fuel + k) name = savedWhere σ fuel name := by
  intro fuel
  induction fuel with
  | zero => intro name h; omega
  | succ f ih =>
    intro name hname k
    have e : f + 1 + k = (f + k) + 1 := by omega
    rw [e]
    simp only [savedWhere]
    cases hs : σ name with
    | none => rfl
    | some content =>
      simp only []
      have hc : collect (savedWhere σ (f + k)) (names (whereText content)) = collect (savedWhere σ f) (names (whereText content)) := by
        apply collect_congr
        intro nm hnm
        exact ih nm (by have := hac name content hs nm hnm; omega) k
      rw [hc]

/-- A substituted saved filter that contains alternatives is grouped by parentheses. -/
theorem C15_grouped (σ : Str → Option Str) (fuel : Nat) (name w : Str)
    (h : savedWhere σ fuel name = some w) (halt : hasInfix " | ".toList w = true) :
    ∃ body, w = '(' :: body ++ [')'] := by
  cases fuel with
  | zero => simp [savedWhere] at h
  | succ f =>
    simp only [savedWhere] at h
    cases hs : σ name with
    | none => simp [hs] at h
    | some content =>
      simp only [hs] at h
      cases hc : collect (savedWhere σ f) (names (whereText content)) with
      | none => simp [hc] at h
      | some subs =>
        simp only [hc, Option.some.injEq] at h
        split at h
        · exact ⟨_, h.symm⟩
        · rename_i hno
          subst h
          exact absurd halt hno

/-! ## Meaning.  A parenthesised sub-filter is a conjunct of the and-filter it stands in. -/

theorem optAll_insert (xs ys : List (Option Bool)) (y : Option Bool) :
    optAll (xs ++ y :: ys) = optAll [optAll (xs ++ ys), y] := by
  induction xs with
  | nil =>
    simp only [List.nil_append, optAll, List.foldr_cons, List.foldr_nil]
    cases y <;> cases (List.foldr _ (some true) ys) <;> simp [Bool.and_comm]
  | cons x xs ih =>
    simp only [List.cons_append, optAll, List.foldr_cons, List.foldr_nil] at ih ⊢
    rw [ih]
    cases x <;> cases y <;> cases (List.foldr _ (some true) (xs ++ ys)) <;> simp [Bool.and_assoc]

/-- the referenced filter `o`, substituted as `( o )`, is conjoined with the surrounding filter -/
theorem C15_meaning_sub (idx : Index) (today : Date) (n : NoteRow) (atoms : List Atom) (o : List AndF) (subs : List (List AndF)) :
    satAnd idx today n (.mk atoms (o :: subs)) =
      optAll [satAnd idx today n (.mk atoms subs), satOr idx today n o] := by
  simp only [satAnd, satSubs]
  exact optAll_insert (_ :: _ :: (atoms.map (satAtom idx today n))) (satSubs idx today n subs) (satOr idx today n o)

/-! ## Negative result (`C15_meaning` as stated is false for un-parenthesised splices): kinds written
in the surrounding filter and in the saved filter pool into one set.  `W o {q}` with `q: W x` expands to
`W o x`, which a done todo satisfies although it does not satisfy the surrounding filter `o`. -/
def rowX : NoteRow :=
  ⟨"240101#00".toList, "a.zo".toList, .closedTodo, some 2, "240101#00 t".toList, ⟨2024, 1, 1⟩, ⟨2024, 1, 1⟩, [], [], [], [], [], []⟩
def sigmaX : Str → Option Str := fun nm => if nm = "q".toList then some "# W x G none".toList else none
def evalText (s : Str) : Option Bool :=
  match parseToks ⟨.field .note, [], []⟩ ⟨2024, 1, 1⟩ (Lex.lex Gen.QueryLexer.rules s) with
  | .ok ⟨_, some o, _, _⟩ => satOr [rowX] ⟨2024, 1, 1⟩ rowX o
  | _ => none

theorem C15_pooling_counterexample :
    expand sigmaX 5 "W o {q}".toList = some "W o x".toList ∧
    evalText "W o x".toList = some true ∧            -- the expanded query returns the done todo
    evalText "W o".toList = some false ∧             -- …which does not satisfy the surrounding filter
    evalText "W o (x)".toList = some false := by     -- (a grouped substitution would have been right)
  refine ⟨?_, ?_, ?_, ?_⟩ <;> decide +kernel

/-! Non-vacuity -/
def sigma1 : Str → Option Str := fun nm =>
  if nm = "foo".toList then some "# W o {bar} %bob {baz} G file".toList
  else if nm = "bar".toList then some "# W #foo +bar O priority G file".toList
  else if nm = "baz".toList then some "# W @BAZ | buz:* G priority file".toList
  else none
example : expand sigma1 5 "W #fat {foo} O create G none".toList =
    some "W #fat (o #foo +bar %bob (@BAZ | buz:*)) O create G none".toList := by decide +kernel
example : expand sigma1 5 "S count(+) W @CALL {does_not_exist}".toList = none := by decide +kernel

end ZorgVerif.C15
