import ZorgVerif.Lemmas.Crash
import ZorgVerif.Props.C07
/-!
# C13 — Re-running an interrupted index operation converges   (partial: see "What the model cannot exhibit")

Model: `Model/Crash.lean` — `db reindex` / `db create` as the list of their external effects (database commits,
hash-map replacements, page replacements) in the order of `service/handlers.py` + `service/messagebus.py`;
a kill between two effects leaves the store after a prefix of that list (`crashReindex s k`, `crashCreate s k`);
the rerun is the big-step `reindexPlain` / `create` of `Model/Index.lean` (C06's model), tied to the effect list
by `C13_effects_are_the_run`.  The page compiler + write-back is the parameter `sem.process`, assumed `Stable`
(what is indexed depends only on the text that ends up in the file) and user-text preserving (`hut`).

What the model cannot exhibit (checked only by the fault-injection harness, hence *partial*): fsync ordering and
power loss below the level of atomic renames and SQLite commits; the damaged page versions left by the commits
inside `remove_file_by_name` are arbitrary (`Env.junk`), which over-approximates the code.
-/
namespace ZorgVerif.C13
open ZorgVerif ZorgVerif.Index ZorgVerif.Crash

variable {Page : Type}

/-- **Reindex**: kill `db reindex` before any of its effects (k = 0 … number of effects; a larger k is the
complete run), run it again: index, hash map and files agree, every file keeps its user text, no file appears or
disappears — from every store that satisfies C06's invariant (every reachable store, `C06_invariant`). -/
theorem C13_reindex {α : Type} (sem : Sem Page) (hs : Stable sem) (ut : Text → α)
    (hut : ∀ old t, ut (sem.process old t).1 = ut t) (env : Env Page)
    (hmid : ∀ p t m, env.mid p t = some m → ut m = ut t)
    (s : Store Page) (h : Inv sem s) (hu : Uniq s.files) (k : Nat) :
    let r := reindexPlain sem (crashReindex sem env s k)
    Agree sem r ∧ (∀ p, (get r.files p).map ut = (get s.files p).map ut) ∧
      (∀ p, (get r.files p).isSome = (get s.files p).isSome) :=
  crash_reindex_converges hs ut hut env hmid h hu k

/-- **Create**: the same for `db create` (whose rerun starts from the files alone) -/
theorem C13_create {α : Type} (sem : Sem Page) (hs : Stable sem) (ut : Text → α)
    (hut : ∀ old t, ut (sem.process old t).1 = ut t) (s : Store Page) (hu : Uniq s.files) (k : Nat) :
    let r := create sem (crashCreate sem s k)
    Agree sem r ∧ (∀ p, (get r.files p).map ut = (get s.files p).map ut) ∧
      (∀ p, (get r.files p).isSome = (get s.files p).isSome) :=
  crash_create_converges hs ut hut s hu k

/-- the invariant behind it: at every crash point a page whose recorded hash matches its file is settled and
correctly indexed (so skipping it in the rerun is right) -/
theorem C13_crash_invariant (sem : Sem Page) (hs : Stable sem) (env : Env Page) (s : Store Page) (h : Inv sem s)
    (hu : Uniq s.files) (k : Nat) : InvM sem (crashReindex sem env s k) :=
  (crashReindex_InvM hs env h hu k).1

/-- "exactly as after an uninterrupted run": the complete effect list *is* the big-step run (as maps), which
satisfies the same agreement (`C06_plain_reindex`) -/
theorem C13_effects_are_the_run (sem : Sem Page) (hs : Stable sem) (env : Env Page) (s : Store Page) (h : Inv sem s)
    (hu : Uniq s.files) :
    let a := applyAll s (reindexEffs sem env s); let b := reindexPlain sem s
    (∀ p, get a.files p = get b.files p) ∧ (∀ p, get a.db p = get b.db p) ∧ (∀ p, get a.hashes p = get b.hashes p) :=
  reindexEffs_complete hs env h hu

theorem C13_create_effects_are_the_run (sem : Sem Page) (s : Store Page) (hu : Uniq s.files) :
    let a := applyAll s (createEffs sem s); let b := create sem s
    (∀ p, get a.files p = get b.files p) ∧ (∀ p, get a.db p = get b.db p) ∧ (∀ p, get a.hashes p = get b.hashes p) :=
  createEffs_complete s hu

/-- **No ZID is assigned twice across a kill**: `get_next` replaces next_ids.json (atomically) *before* it returns
the ZID, so the allocations of the interrupted run `ds` and those of the rerun `ds'` form one allocation sequence
over the persisted map — C07's theorem for every sequence. -/
theorem C13_zids_unique (ds ds' : List (List Char)) : (Zid.allocs Zid.E [] (ds ++ ds')).Nodup :=
  C07.C07_unique (ds ++ ds')

/-! ## Why the order of effects matters: the order before the repair does not converge

`reindexEffsOld` is the effect list of the code before the "fix:" commit recorded in known_findings.json: the
saved hash map describes *every* file as it was before write-back.  Kernel-checked counterexample: one page
with a new note, killed right after the hash map was saved — the rerun finds nothing to do and the index keeps
a page (with ZIDs) that the file does not show. -/
def reindexEffsOld (sem : Sem Page) (env : Env Page) (s : Store Page) : List (Eff Page) :=
  (stale s).flatMap (fun p => removal env p ++ [Eff.dbDrop p]) ++
  (work sem s).flatMap (fun w => removal env w.1 ++ [Eff.dbPut w.1 w.2.2.2]) ++
  [Eff.hashAll s.files] ++
  (pending sem s).flatMap (fun w =>
    ((env.mid w.1 w.2.1).toList.map (Eff.file w.1)) ++ [Eff.file w.1 w.2.2.1, Eff.hashPut w.1 w.2.2.1])

/-- pages = texts; write-back appends `!` once (the ZID) -/
def exSem : Sem Str := ⟨fun _ t => if t.getLast? == some '!' then (t, t) else (t ++ ['!'], t ++ ['!'])⟩
theorem exSem_stable : Stable exSem := by
  intro old t; simp only [exSem]; split <;> simp_all
def exEnv : Env Str := ⟨fun _ => [], fun _ _ => none⟩
def exStore : Store Str := ⟨[("a".toList, "x".toList)], [], []⟩

theorem C13_old_order_does_not_converge :
    let c := applyAll exStore ((reindexEffsOld exSem exEnv exStore).take 2)
    let r := reindexPlain exSem c
    get r.files "a".toList = some "x".toList ∧ get r.db "a".toList = some "x!".toList := by decide +kernel

/-- the same crash point with the repaired order converges (instance of `C13_reindex`, evaluated) -/
example :
    let r := reindexPlain exSem (crashReindex exSem exEnv exStore 2)
    get r.files "a".toList = some "x!".toList ∧ get r.db "a".toList = some "x!".toList ∧ get r.hashes "a".toList = some "x!".toList := by
  decide +kernel

/-! Non-vacuity of the hypotheses: `exSem` is Stable, the empty-index store satisfies `Inv`, user text = the text
without the marker. -/
example : Inv exSem exStore := Inv.empty exSem _
example : Uniq exStore.files := by simp [Uniq, exStore]
example : ∀ old t, (fun (t : Str) => t.filter (· != '!')) ((exSem.process old t).1) = (fun (t : Str) => t.filter (· != '!')) t := by
  intro old t; simp only [exSem]; split <;> simp [List.filter_append]

end ZorgVerif.C13
