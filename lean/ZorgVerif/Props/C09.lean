import ZorgVerif.Lemmas.Exec
/-!
# C09 — Query output renders the selected notes faithfully
Model: `Model/Exec.lean` (group → order → select → render).  The theorems are about the tree
`execTree q ns` that `render` prints (one header level per GROUP BY dimension, label omitted when empty).
-/
namespace ZorgVerif.C09
open ZorgVerif ZorgVerif.Query ZorgVerif.Exec

/-- every matching note appears exactly once (the leaves, read left to right, are a permutation of the
WHERE result), for every list of notes and every GROUP BY / ORDER BY combination -/
theorem C09_partition (q : Query) (ns : List XNote) : (execTree q ns).notes.Perm ns :=
  execTree_notes_perm q ns

/-- a note sits under the header labels that equal its value for each GROUP BY dimension, one level per
dimension -/
theorem C09_labels (q : Query) (ns : List XNote) :
    ∀ pl ∈ (execTree q ns).paths, ∀ n ∈ pl.2, pl.1 = q.groupBy.map (fun g => groupKey g n) :=
  execTree_labels q ns

/-- sibling headers are strictly increasing: sorted and distinct -/
theorem C09_siblings (q : Query) (ns : List XNote) : SiblingsSorted (execTree q ns) :=
  execTree_siblings q ns

/-- within a group notes appear in the order of the (joined) ORDER BY key -/
theorem C09_order (q : Query) (ns : List XNote) :
    ∀ pl ∈ (execTree q ns).paths, pl.2.Pairwise (fun a b => strLe (orderKey q.orderBy a) (orderKey q.orderBy b) = true) :=
  execTree_leaves_sorted q ns

/-- tag / property-key / property-value / link / file selections list exactly the distinct values carried
by the notes of the group; sorted when ordered by alpha -/
theorem C09_select (f : SelectField) (alpha : Bool) (ns : List XNote) (hf : f ≠ .note) :
    (selectField f alpha ns).Nodup ∧
    (∀ x, x ∈ selectField f alpha ns ↔ x ∈ (match f with
        | .file => ns.map (·.path) | .area => ns.flatMap (·.areas) | .context => ns.flatMap (·.contexts)
        | .person => ns.flatMap (·.people) | .project => ns.flatMap (·.projects) | .links => ns.flatMap (·.links)
        | .prop => ns.flatMap (fun n => n.props.map (·.1)) | .propValues k => ns.filterMap (fun n => n.props.lookup k)
        | .note => [] : List Str)) ∧
    (selectField f true ns).Pairwise (fun a b => strLe a b = true) :=
  ⟨selectField_nodup f alpha ns hf, fun x => selectField_values f alpha ns hf x, selectField_alpha_sorted f ns hf⟩

/-- `count(x)` equals the number of entries that selecting `x` yields for the same group -/
theorem C09_count (f : SelectField) (alpha : Bool) (ns : List XNote) :
    selectLeaf (.count f) alpha ns = natToStr (selectField f alpha ns).length := rfl

/-- **Negative result** (known finding C09.order_none_string_compare): with the string key
`path::line`, line 10 sorts before line 9 — `none` is *not* "page path then line number". -/
def nl (line : Nat) : XNote :=
  ⟨"- n".toList, "p.zo".toList, line, [], [], [], [], [], [], [], [], [], [], []⟩
theorem C09_order_none_counterexample :
    strLt (orderKey [.none] (nl 10)) (orderKey [.none] (nl 9)) = true := by decide +kernel

/-! Non-vacuity (the sort itself is well-founded recursion and does not reduce in the kernel; the
run-splitting and key functions do) -/
example : (runs (groupKey .priority) [{ nl 4 with priority := "P1".toList }, { nl 5 with priority := "P1".toList },
    { nl 3 with priority := "P2".toList }]).map (fun r => (r.1, r.2.map (·.line))) = [("P1".toList, [4, 5]), ("P2".toList, [3])] := by
  decide +kernel

end ZorgVerif.C09
