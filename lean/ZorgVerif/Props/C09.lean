import ZorgVerif.Model.Exec
namespace ZorgVerif.C09
open ZorgVerif.Exec
theorem C09_placeholder : dedup ["a".toList, "b".toList, "a".toList] = ["a".toList, "b".toList] := by decide
end ZorgVerif.C09
