import ZorgVerif.Model.Zo
namespace ZorgVerif.C01
open ZorgVerif.Zo
theorem C01_placeholder : isZid "240510#0K".toList = true := by decide
end ZorgVerif.C01
