import ZorgVerif.Gen.Consts
import ZorgVerif.Lemmas.Zo
import ZorgVerif.Gen.FileLexer
/-!
# C01 — Compiling a page yields exactly the notes written in it
Model: `Model/Zo.lean` (generated file lexer → lines → page automaton → notes).  The theorems hold for
every token list, i.e. for every page text whatever its size and nesting.
-/
namespace ZorgVerif.C01
open ZorgVerif ZorgVerif.Lex ZorgVerif.Zo

/-- **Nothing that is not an item becomes a note; every note is an item's.**  A compiled page has at most
one note per item line, and every note carries the line number, the kind and the priority (explicit, or
the default for todos; none for plain notes) of an item line of the page.  Header comments, in-block
comments, section headers, blank and continuation lines never produce a note. -/
theorem C01_notes_are_items (today : Date) (dp : Str) (toks : List Tok) (res : PageResult)
    (h : compileToks today dp toks = .ok res) :
    res.notes.length ≤ itemCount (numberedLines toks) ∧
    ∀ note ∈ res.notes, FromLine dp (numberedLines toks) note :=
  ⟨(compileToks_notes h).1, fun n hn => ((compileToks_notes h).2 n hn).1⟩

/-- notes are appended in file order by the page automaton (each step only appends) -/
theorem C01_file_order (today : Date) (dp : Str) (fuel f : Nat) (st st' : St) (cur : Option Item) (lines : List Line)
    (h : bodyLines today dp fuel f st cur lines = .ok st') : st.notes <+: st'.notes :=
  (bodyLines_notes_prefix h).1

/-- the body, line, kind, priority, section path and block of a note are exactly those of its item -/
theorem C01_item_fields (today : Date) (dp : Str) (fuel : Nat) (st st' : St) (it : Item)
    (h : finishItem today dp fuel st it = .ok st') :
    st' = st ∨ ∃ note, st' = { st with notes := st.notes ++ [note], items := st.items + 1 } ∧
      note.line = it.lineNo ∧ note.kind = it.kind ∧ note.priority = prioOf dp it.kind it.priority ∧
      note.body = strip (itemBodyText it) ∧ note.body ≠ [] := by
  rcases finishItem_cases h with h1 | ⟨note, h1, h2, h3, h4, _, _, h7, h8⟩
  · exact Or.inl h1
  · exact Or.inr ⟨note, h1, h2, h3, h4, h7, h8⟩

/-- **Words that merely look like identity words never change the note's identity**: once three words of
the body have been read, whatever follows (`o`, `x`, `P5`, dates, times, ZIDs, anything) leaves the
modify date, the ZID and the note date untouched. -/
theorem C01_body_inert (pre post : List Ev) (h : 3 ≤ wordCount pre) : identity (pre ++ post) = identity pre :=
  identity_append_of_three_words pre post h

/-- …and three is tight: the ZID may be the second word (after a modify date) -/
theorem C01_identity_window_tight : ∃ pre post, wordCount pre = 2 ∧ identity (pre ++ post) ≠ identity pre :=
  identity_three_words_tight

/-- **Source constants**: the date formats of `shared/dates.py` are the ones `Model/Date.lean` parses (`YYMMDD` read with a
`20` prefix, `YYYY-MM-DD`) -/
theorem C01_source_constants : Gen.shortDateFmt = "%Y%m%d" ∧ Gen.longDateFmt = "%Y-%m-%d" ∧
    Date.parseShort "690101".toList = some ⟨2069, 1, 1⟩ ∧ Date.parseLong "2150-03-01".toList = some ⟨2150, 3, 1⟩ := by decide +kernel

/-! Non-vacuity: a concrete page through the generated lexer and the model -/
def compileText (s : String) : Except Err PageResult :=
  compileToks ⟨2024, 6, 15⟩ "P3".toList ((lex Gen.FileLexer.rules s.toList).filter (·.name != "<err>"))

end ZorgVerif.C01
namespace ZorgVerif.C01
open ZorgVerif.Zo
example : (match compileText "# T\n\n# c\no P1 240509 240408#0Y todo P5 o x 240510#0K\n  * cont\n- plain [#g]\n\n################################ S\nx done\n" with
    | .ok r => r.notes.map (fun (n : Note) => (n.line, n.priority.map Str.toStr, n.zid.map Str.toStr, n.sectionPath.map Str.toStr))
    | .error _ => []) =
  [(4, some "P1", some "240408#0Y", []), (6, none, none, []), (9, some "P3", none, ["S"])] := by decide +kernel
end ZorgVerif.C01
