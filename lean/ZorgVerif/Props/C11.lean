import ZorgVerif.Lemmas.Identity
import ZorgVerif.Lemmas.NoteText
/-!
# C11 — Modification dates are stamped on exactly the notes that were edited
Model: `Model/NoteText.lean` — `isStamped` (the decision of `_check_for_modified_notes`),
`addOrUpdateModifyDate`, `updateLines`.
-/
namespace ZorgVerif.C11
open ZorgVerif ZorgVerif.NoteText

/-- **iff**: a freshly compiled note is stamped exactly when it carries a ZID that the previous index
state of the page already had, its body or todo state differs from that state, and it is not already
dated today. -/
theorem C11_iff (today : Date) (old : List NoteState) (n : NoteState) :
    isStamped today old n = true ↔ ∃ z o, n.zid = some z ∧
      old.find? (fun o => o.zid == some z) = some o ∧ sameNote n o = false ∧ n.mdate ≠ today :=
  isStamped_iff today old n

/-- a new note (no ZID, or a ZID the old page did not have) and an unchanged note are never stamped -/
theorem C11_not_stamped (today : Date) (old : List NoteState) (n : NoteState) :
    (n.zid = none → isStamped today old n = false) ∧
    (∀ z o, n.zid = some z → old.find? (fun o => o.zid == some z) = some o → sameNote n o = true → isStamped today old n = false) ∧
    (n.mdate = today → isStamped today old n = false) := by
  refine ⟨?_, ?_, ?_⟩
  · intro h; simp [isStamped, h]
  · intro z o hz ho hs; simp [isStamped, hz, ho, hs]
  · intro h
    cases hs : isStamped today old n with
    | false => rfl
    | true =>
      obtain ⟨_, _, _, _, _, hne⟩ := (isStamped_iff today old n).1 hs
      exact absurd h hne

/-- **the stamp goes in front of the ZID**: the date is inserted right after the kind / priority prefix
(replacing an older six-digit stamp), everything else on the line is kept -/
theorem C11_stamp_position (date : Str) (k j : Nat) (sym : Str) (prio body : List Str) (h : Shape sym prio j body)
    (hsp : ∀ w ∈ shapeWords k sym prio j body, ' ' ∉ w) :
    addOrUpdateModifyDate date (joinSp (shapeWords k sym prio j body)) =
      .ok (shapePre k sym prio ++ date ++ [' '] ++ joinSp (dropLeading isSixDigits body)) :=
  addOrUpdateModifyDate_shape date k j sym prio body h hsp

/-- **File and index agree on the stamped first line**: the body `_check_for_modified_notes` stores in the index
(`stampedBody`) is exactly what follows the prefix in the line `_add_or_update_modify_date` writes
(`C11_stamp_position`) — for every body whose first word is not blank and, when it is six digits, is a real date
(a note that is stamped carries its ZID in identity position, so a six-digit first word is its old stamp). -/
theorem C11_index_body_agrees (date : Str) (o n : NoteState) (body : List Str) (hn : n.body = joinSp body)
    (hb : body ≠ []) (hsp : ∀ w ∈ body, ' ' ∉ w)
    (hh : ∀ w, body.head? = some w → (∃ c cs, w = c :: cs ∧
      (c == ' ' || c == '\t' || c == '\n' || c == '\r' || c == '\x0b' || c == '\x0c') = false) ∧
      (isSixDigits w = Query.isShortDateSpec w)) :
    stampedBody date o n = date ++ [' '] ++ joinSp (dropLeading isSixDigits body) := by
  cases body with
  | nil => exact absurd rfl hb
  | cons w r =>
    obtain ⟨⟨c, cs, hw, hc⟩, hd6⟩ := hh w rfl
    obtain ⟨t, ht⟩ : ∃ t, joinSp (w :: r) = c :: t := by
      subst hw; exact ⟨_, joinWith_consChar [' '] c cs r⟩
    unfold stampedBody
    have hd : (joinSp (w :: r)).dropWhile (fun c => c == ' ' || c == '\t' || c == '\n' || c == '\r' || c == '\x0b' || c == '\x0c')
        = joinSp (w :: r) := by
      rw [ht, List.dropWhile_cons, hc]; rfl
    simp only [hn, hd]
    rw [splitOn_joinSp (w :: r) (by simp) hsp]
    simp only [dropLeading, List.headD_cons, List.drop_succ_cons, List.drop_zero, ← hd6]
    cases isSixDigits w <;> simp

/-- **The written stamp is read back**: a line whose first words after the prefix are a six-digit date and the ZID (what
`C11_stamp_position` writes) compiles to a note with that modify date, that ZID and the ZID's creation date, whatever follows -/
theorem C11_written_stamp_is_read (s z : Str) (md cd : Date) (hs : Zo.isShortDate s = true) (hsd : Date.parseShort s = some md)
    (hz : Zo.isZid z = true) (hd : Date.parseShort (z.take 6) = some cd) (rest : List Zo.Ev) :
    Zo.identity (.word :: .id s :: .word :: .id z :: rest) = .ok (some md, some z, some cd) :=
  Zo.identity_stamp_then_zid s z md cd hs hsd hz hd rest

/-- re-stamping on a later day replaces the old stamp (no stamps pile up) -/
theorem C11_restamp (d1 d2 : Str) (k j : Nat) (sym : Str) (prio body : List Str) (h : Shape sym prio j body)
    (hsp : ∀ w ∈ shapeWords k sym prio j body, ' ' ∉ w) (hd1 : isSixDigits d1 = true) (l1 : Str)
    (h1 : addOrUpdateModifyDate d1 (joinSp (shapeWords k sym prio j body)) = .ok l1) :
    addOrUpdateModifyDate d2 l1 = addOrUpdateModifyDate d2 (joinSp (shapeWords k sym prio j body)) :=
  addOrUpdateModifyDate_restamp d1 d2 k j sym prio body h hsp hd1 l1 h1

/-- **every other note's lines stay byte-identical** -/
theorem C11_others_untouched (f : Str → Str → Except Err Str) (us : List Upd) (ls ls' : List Str)
    (h : updateLines f us ls = .ok ls') :
    ls'.length = ls.length ∧ ∀ i, (∀ u ∈ us, u.lineNo - 1 ≠ i) → ls'[i]? = ls[i]? :=
  updateLines_spec f us ls ls' h

/-! Non-vacuity -/
example : (addOrUpdateModifyDate "240616".toList "o P1 240101 240615#00 x".toList).toOption = some ("o P1 240616 240615#00 x".toList) := by decide +kernel
example : (addOrUpdateModifyDate "240616".toList "- 240615#00 first edit".toList).toOption = some ("- 240616 240615#00 first edit".toList) := by decide +kernel

end ZorgVerif.C11
