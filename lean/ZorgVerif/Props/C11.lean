import ZorgVerif.Model.NoteText
namespace ZorgVerif.C11
theorem C11_placeholder : (1 : Nat) = 1 := rfl
end ZorgVerif.C11
