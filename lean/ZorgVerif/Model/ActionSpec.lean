import ZorgVerif.Model.Action
/-! Declarative reading of C17's "targets on the line": independent of the scan's state variable. -/
namespace ZorgVerif.Action
open ZorgVerif

/-- the word is one of the link forms (page, local, global, reference, named-URL link, cite key) -/
def isLinkWord (w : Str) : Bool :=
  (hasSub "[[".toList w && hasSub "]]".toList w) || (hasSub "[^".toList w && hasSub "]".toList w) ||
  (hasSub "[#".toList w && hasSub "]".toList w) || (hasSub "[@".toList w && hasSub "]".toList w) ||
  (hasSub "[!".toList w && hasSub "]".toList w) || "z::".toList.isPrefixOf w

/-- kind symbol, priority or short date: the words that may stand in front of a note's own ZID -/
def isPrefixWord (validDate : Str → Bool) (w : Str) : Bool :=
  isPrefixSymbol w || isPriority w || (isSixDigits w && validDate w)

/-- what a word offers wherever it stands in the body: itself when it is a link, the ZID it carries (bare or bracketed) -/
def wordTarget (validDate : Str → Bool) (w : Str) : Option Target :=
  if isLinkWord w then some (.word w)
  else if isZid validDate (stripSet ['[', ']'] w) then some (.zid (stripSet ['[', ']'] w))
  else none

/-- the first word after the prefix words is the note's own ZID when it is a bare ZID (and the page is not a `.zoq`
    page, and it is not the very first word of the line) -/
def isPrimary (validDate : Str → Bool) (isZoq : Bool) (i : Nat) (w : Str) : Bool :=
  !isZoq && i != 0 && isZid validDate w && !isLinkWord w

/-- C17's targets: skip the prefix words; the first other word is left out iff it is the primary ZID;
    from then on every word offers its target -/
def specTargets (validDate : Str → Bool) (isZoq : Bool) : Nat → List Str → List Target
  | _, [] => []
  | i, w :: rest =>
    match wordTarget validDate w with
    | some t => if isPrimary validDate isZoq i w then rest.filterMap (wordTarget validDate)
                else t :: rest.filterMap (wordTarget validDate)
    | none => if isPrefixWord validDate w then specTargets validDate isZoq (i + 1) rest
              else rest.filterMap (wordTarget validDate)

def isProtocol (l : Str) : Bool :=
  "EDIT ".toList.isPrefixOf l || "SEARCH ".toList.isPrefixOf l || "PROMPT ".toList.isPrefixOf l || "ECHO ".toList.isPrefixOf l

end ZorgVerif.Action
