import ZorgVerif.Model.Filter
/-! `evalSql`: the meaning, on an abstract index, of the SQL that `_query_converter.py` emits for a
filter — helper by helper, including SQLite's `LIKE` (with and without `ESCAPE`), `lower()`, `date()`,
`CAST(… AS INTEGER)` and NULL comparisons.  SQLite itself is not modelled beyond these operators. -/
namespace ZorgVerif.Sql
open ZorgVerif ZorgVerif.Query ZorgVerif.Filter

/-- compiled LIKE pattern -/
inductive PTok where
  | any            -- `%`
  | one            -- `_`
  | lit (c : Char)
  deriving Repr, DecidableEq

/-- SQLite LIKE pattern with optional ESCAPE character -/
def compile (esc : Option Char) : Str → List PTok
  | [] => []
  | c :: rest =>
    if some c = esc then
      match rest with
      | d :: rest' => .lit d :: compile esc rest'
      | [] => [.lit c]
    else if c = '%' then .any :: compile esc rest
    else if c = '_' then .one :: compile esc rest
    else .lit c :: compile esc rest

def anySuffix (f : Str → Bool) : Str → Bool
  | [] => f []
  | c :: cs => f (c :: cs) || anySuffix f cs

/-- SQLite's LIKE is case-insensitive for ASCII letters -/
def likeToks : List PTok → Str → Bool
  | [], s => s.isEmpty
  | .any :: p, s => anySuffix (likeToks p) s
  | .one :: p, s => match s with | [] => false | _ :: s' => likeToks p s'
  | .lit c :: p, s => match s with | [] => false | d :: s' => lowerAscii c == lowerAscii d && likeToks p s'

def like (pat : Str) (esc : Option Char) (s : Str) : Bool := likeToks (compile esc pat) s

/-- Python `s.replace(a, b)` for a single character `a` -/
def replaceChar (a : Char) (b : Str) (s : Str) : Str := s.flatMap (fun c => if c = a then b else [c])

/-- `_escape_like`: `\`, `%`, `_` are preceded by the escape character `\` -/
def escapeLike (s : Str) : Str :=
  s.flatMap (fun c => if c = '\\' ∨ c = '%' ∨ c = '_' then ['\\', c] else [c])

/-- `f"%{_escape_like(value)}%"` — the pattern `desc_filters` builds -/
def descLikeArg (value : Str) : Str := ['%'] ++ escapeLike value ++ ['%']

/-- SQLite `date(x)` on text: the text itself when it is a valid `YYYY-MM-DD`, else NULL
(other accepted formats / Julian day numbers are outside the model: callers treat them as open) -/
def sqliteDate (v : Str) : Option Date := if isLongDateSpec v then Date.parseLong v else none

/-- the comparison of a NULL `date(value)` is NULL: the row is not in the sub-query, whatever the (flipped) operator -/
def sqliteDateIsNull (v : Str) : Bool := noDateValue v

/-- `comp_op_map`: operator actually applied inside the sub-query -/
def flipOp (op : PropOp) (neg : Bool) : PropOp :=
  if neg then
    match op with
    | .eq => .eq   -- `ne`, handled by `cmpNe` below
    | .lt => .ge | .gt => .le | .le => .gt | .ge => .lt | .exists => .exists
  else op

/-- `comp_op(cast_model(value_column), cast_value(filter_value))`; `none` = outside the modelled fragment -/
def sqlCmp (today : Date) (op : PropOp) (neg : Bool) (vt : VType) (nv fv : Str) : Option Bool :=
  let apply (lt eq : Bool) : Bool :=
    if neg && op == .eq then !eq else cmpOp (flipOp op neg) lt eq
  match vt with
  | .string => some (apply (strLt nv fv) (nv == fv))
  | .integer =>
    if allDigits nv && !nv.isEmpty && allDigits fv && !fv.isEmpty then
      some (apply (decide (natOfDigits nv < natOfDigits fv)) (natOfDigits nv == natOfDigits fv))
    else none
  | .date =>
    match fromDateSpec today fv with
    | .ok fd =>
      if isLongDateSpec nv then
        match sqliteDate nv with
        | some nd => some (apply (dateLt nd fd) (nd == fd))
        | none => none
      else none
    | .error _ => none

def sqlAtom (idx : Index) (today : Date) (n : NoteRow) : Atom → Option Bool
  | .kinds _ => some true          -- pooled per and-filter, see `sqlAnd`
  | .priorities _ => some true     -- pooled per and-filter, see `sqlAnd`
  | .tag k neg name => some ((tagsOf n k).any (fun t => t == name) != neg)  -- id IN / NOT IN (join … name == …)
  | .created r => some (dateLe r.start n.cdate && dateLe n.cdate (match r.stop with | some e => e | none => r.start))
  | .modified r => some (dateLe r.start n.mdate && dateLe n.mdate (match r.stop with | some e => e | none => r.start))
  | .prop key value op vt neg =>
    -- rows of the sub-query for this note: property rows with that key (at most one: properties are a dict)
    let rows := n.props.filter (fun kv => kv.1 == key)
    if op == .exists then some (rows.isEmpty == neg)
    else optAny (rows.map (fun kv =>
      if vt == .date && sqliteDateIsNull kv.2 && (fromDateSpec today value).toOption.isSome then some false
      else sqlCmp today op neg vt kv.2 value))
  | .desc value cs neg =>
    let sensitive := cs || !pyIsLower value
    let arg := descLikeArg value
    if sensitive then
      -- LIKE pre-filter (ESCAPE '\'), then Python `value in body`
      let hit := like arg (some '\\') n.body && isInfix value n.body
      some (hit != neg)
    else
      -- `lower(body) LIKE lower(arg) ESCAPE '\'`
      some (like (lowerStr arg) (some '\\') (lowerStr n.body) != neg)
  | .file glob neg => some (like (replaceChar '*' ['%'] (escapeLike glob)) (some '\\') n.path != neg)
  | .link target neg =>
    let inPage := idx.filter (fun m => m.path == target ++ ".zo".toList)
    let globals := inPage.flatMap (fun m => (m.props.filter (fun kv => kv.1 == "ID".toList)).map (fun kv => "global:".toList ++ kv.2))
    let refs := inPage.flatMap (fun m => (m.props.filter (fun kv => kv.1 == "RID".toList)).map (fun kv => "ref:".toList ++ kv.2))
    let zids := inPage.map (fun m => "zid:".toList ++ m.zid)
    let inner (l : Str) : Bool :=
      l == target || like (escapeLike target ++ ['#', '%']) (some '\\') l ||
        globals.contains l || refs.contains l || zids.contains l
    some (n.links.any inner != neg)

mutual
def sqlAnd (idx : Index) (today : Date) (n : NoteRow) : AndF → Option Bool
  | .mk atoms subs =>
    -- `allowed_note_types` / `priorities` are sets pooled over the whole and-filter:
    -- OR of `todo_status == …` (`IS NULL` for plain notes), OR of `todo_priority == 'Pn'`
    let ks := pooledKinds atoms
    let ps := pooledPriorities atoms
    let kOk := ks.isEmpty || ks.any (fun k => k == n.kind)
    let pOk := ps.isEmpty || ps.any (fun p => n.priority == some p)
    optAll (some kOk :: some pOk :: ((atoms.map (sqlAtom idx today n)) ++ sqlSubs idx today n subs))
def sqlSubs (idx : Index) (today : Date) (n : NoteRow) : List (List AndF) → List (Option Bool)
  | [] => []
  | o :: rest => sqlOr idx today n o :: sqlSubs idx today n rest
def sqlOr (idx : Index) (today : Date) (n : NoteRow) : List AndF → Option Bool
  | [] => some false
  | a :: rest =>
    match sqlAnd idx today n a, sqlOr idx today n rest with
    | some x, some y => some (x || y)
    | _, _ => none
end

end ZorgVerif.Sql
