import ZorgVerif.Model.Basic
/-! Model of the link rewriting of `run_file_rename` (`src/zorg/app/runners/_run_file.py`). -/
namespace ZorgVerif.Rename
open ZorgVerif

/-- Python `text.replace(old, new)` for non-empty `old`: left to right, non-overlapping.
`go k s`: `k` characters of a just-replaced occurrence remain to be skipped. -/
def go (old new : Str) : Nat → Str → Str
  | _, [] => []
  | k + 1, _ :: cs => go old new k cs
  | 0, c :: cs =>
    if old.isPrefixOf (c :: cs) then new ++ go old new (old.length - 1) cs
    else c :: go old new 0 cs

def replaceAll (old new s : Str) : Str := go old new 0 s

def linkClose (a : Str) : Str := '[' :: '[' :: a ++ [']']
def linkHash (a : Str) : Str := '[' :: '[' :: a ++ ['#']

/-- the dict `link_map` applied in insertion order: first `[[A]` → `[[B]`, then `[[A#` → `[[B#` -/
def renameText (a b : Str) (txt : Str) : Str :=
  replaceAll (linkHash a) (linkHash b) (replaceAll (linkClose a) (linkClose b) txt)

/-- the `any(src_str in zcontents …)` guard: files without either pattern are not rewritten -/
def occursIn (p : Str) : Str → Bool
  | [] => p.isEmpty
  | c :: cs => p.isPrefixOf (c :: cs) || occursIn p cs

def needsRewrite (a : Str) (txt : Str) : Bool := occursIn (linkClose a) txt || occursIn (linkHash a) txt

/-- **Specification**: one left-to-right pass; at a position where `[[A]` or `[[A#` starts, emit `[[B`
and skip `[[A`; every other character is copied. -/
def isLinkAt (a : Str) (s : Str) : Bool := (linkClose a).isPrefixOf s || (linkHash a).isPrefixOf s

def spec (a b : Str) : Nat → Str → Str
  | _, [] => []
  | k + 1, _ :: cs => spec a b k cs
  | 0, c :: cs =>
    if isLinkAt a (c :: cs) then '[' :: '[' :: b ++ spec a b (a.length + 1) cs
    else c :: spec a b 0 cs

/-- names for which the textual replacement is meant to work: no bracket or anchor characters -/
def linkSafe (a : Str) : Bool := !a.contains '[' && !a.contains ']' && !a.contains '#'

/-- `simplify_fname` on a name relative to the notes directory: strip a trailing `.zo` -/
def simplify (name : Str) : Str :=
  if ".zo".toList.isSuffixOf name then name.take (name.length - 3) else name

/-- `src_name if "." in src_name else src_name + ".zo"` -/
def withExt (name : Str) : Str := if name.contains '.' then name else name ++ ".zo".toList

end ZorgVerif.Rename
