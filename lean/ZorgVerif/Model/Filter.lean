import ZorgVerif.Model.Query
/-! `sat`: the *specification* of WHERE filters — a direct reading of the C03 statement over an abstract
index.  Independent of the SQL translation (`Model/Sql.lean`). -/
namespace ZorgVerif.Filter
open ZorgVerif ZorgVerif.Query

structure NoteRow where
  zid : Str
  path : Str                    -- page path relative to the notes directory, with `.zo`
  kind : NoteKind
  priority : Option Nat         -- `Pn` of todos
  body : Str
  cdate : Date
  mdate : Date
  areas : List Str
  contexts : List Str
  people : List Str
  projects : List Str
  links : List Str
  props : List (Str × Str)
  deriving Repr

abbrev Index := List NoteRow

def dateLe (a b : Date) : Bool :=
  a.y < b.y || (a.y == b.y && (a.m < b.m || (a.m == b.m && a.d ≤ b.d)))

def dateLt (a b : Date) : Bool := dateLe a b && a != b

def isInfix (v b : Str) : Bool := (List.range (b.length + 1)).any (fun i => v.isPrefixOf (b.drop i))

def lowerStr (s : Str) : Str := s.map lowerAscii

def hasUpper (s : Str) : Bool := s.any (fun c => decide ('A' ≤ c ∧ c ≤ 'Z'))
def hasLower (s : Str) : Bool := s.any (fun c => decide ('a' ≤ c ∧ c ≤ 'z'))

/-- Python `str.islower()` on ASCII: at least one cased character, none upper-case -/
def pyIsLower (s : Str) : Bool := hasLower s && !hasUpper s

/-- `*`-glob: only `*` is special -/
def globMatch : Str → Str → Bool
  | [], s => s.isEmpty
  | '*' :: p, s => (List.range (s.length + 1)).any (fun i => globMatch p (s.drop i))
  | c :: p, s => match s with
    | [] => false
    | d :: s' => c == d && globMatch p s'

def cmpOp (op : PropOp) (lt eq : Bool) : Bool :=
  match op with
  | .exists => true
  | .eq => eq
  | .lt => lt
  | .le => lt || eq
  | .gt => !lt && !eq
  | .ge => !lt

/-- comparison of a note's property value `nv` with the filter value `fv` under the filter's type;
`none` = the statement leaves it open (value does not parse in that type) -/
def propCmp (today : Date) (op : PropOp) (vt : VType) (nv fv : Str) : Option Bool :=
  match vt with
  | .string => some (cmpOp op (strLt nv fv) (nv == fv))
  | .integer =>
    if allDigits nv && !nv.isEmpty && allDigits fv && !fv.isEmpty then
      some (cmpOp op (decide (natOfDigits nv < natOfDigits fv)) (natOfDigits nv == natOfDigits fv))
    else none
  | .date =>
    match fromDateSpec today fv, (if isLongDateSpec nv then Date.parseLong nv else none) with
    | .ok fd, some nd => some (cmpOp op (dateLt nd fd) (nd == fd))
    | _, _ => none

/-- a property value that is certainly no date for SQLite's `date()` (→ NULL): it contains no digit and is not
the word `now`.  Such a value satisfies no date comparison, negated or not (the negated comparison still
"compares as date").  Other non-`YYYY-MM-DD` values (times, Julian day numbers, …) stay open. -/
def noDateValue (nv : Str) : Bool := !nv.any isDigit && lowerStr nv != "now".toList

/-- does note `n` link to page `p` (directly, by anchor, or through ID / RID / ZID of a note of `p.zo`)? -/
def linksTo (idx : Index) (n : NoteRow) (p : Str) : Bool :=
  let inPage := idx.filter (fun m => m.path == p ++ ".zo".toList)
  n.links.any (fun l =>
    l == p || (p ++ ['#']).isPrefixOf l ||
    inPage.any (fun m =>
      m.props.any (fun kv => (kv.1 == "ID".toList && l == "global:".toList ++ kv.2) ||
                             (kv.1 == "RID".toList && l == "ref:".toList ++ kv.2)) ||
      l == "zid:".toList ++ m.zid))

def tagsOf (n : NoteRow) : TagKind → List Str
  | .area => n.areas | .context => n.contexts | .person => n.people | .project => n.projects

/-- kinds / priorities written anywhere in one and-filter pool into one set each -/
def pooledKinds (atoms : List Atom) : List NoteKind :=
  atoms.flatMap (fun a => match a with | .kinds ks => ks | _ => [])

def pooledPriorities (atoms : List Atom) : List Nat :=
  atoms.flatMap (fun a => match a with | .priorities ps => ps | _ => [])

/-- one atom; `none` = open (typed comparison undefined) -/
def satAtom (idx : Index) (today : Date) (n : NoteRow) : Atom → Option Bool
  | .kinds _ => some true          -- pooled per and-filter, see `satAnd`
  | .priorities _ => some true     -- pooled per and-filter, see `satAnd`
  | .tag k neg name => some ((tagsOf n k).contains name != neg)
  | .created r => some (dateLe r.start n.cdate && dateLe n.cdate (r.stop.getD r.start))
  | .modified r => some (dateLe r.start n.mdate && dateLe n.mdate (r.stop.getD r.start))
  | .prop key value op vt neg =>
    match n.props.lookup key with
    | none => some (op == .exists && neg)           -- no such property: only a negated existence test holds
    | some nv =>
      if op == .exists then some (!neg)
      else if vt == .date && noDateValue nv && (fromDateSpec today value).toOption.isSome then some false
      else (propCmp today op vt nv value).map (fun b => b != neg)   -- negated comparison: exists ∧ ¬cmp
  | .desc value cs neg =>
    let sensitive := cs || !pyIsLower value
    let hit := if sensitive then isInfix value n.body else isInfix value (lowerStr n.body)
    some (hit != neg)
  | .file glob neg => some (globMatch glob n.path != neg)
  | .link target neg => some (linksTo idx n target != neg)

/-- three-valued conjunction/disjunction over `Option Bool` is avoided: a note is *open* for a filter as
soon as one atom anywhere in the tree is open for it -/
def optAll (xs : List (Option Bool)) : Option Bool :=
  xs.foldr (fun x acc => match x, acc with | some a, some b => some (a && b) | _, _ => none) (some true)

def optAny (xs : List (Option Bool)) : Option Bool :=
  xs.foldr (fun x acc => match x, acc with | some a, some b => some (a || b) | _, _ => none) (some false)

mutual
def satAnd (idx : Index) (today : Date) (n : NoteRow) : AndF → Option Bool
  | .mk atoms subs =>
    -- membership tests in the pooled sets (an empty pool places no requirement)
    let ks := pooledKinds atoms
    let ps := pooledPriorities atoms
    let kOk := ks.isEmpty || ks.contains n.kind
    let pOk := ps.isEmpty || (match n.priority with | some p => ps.contains p | none => false)
    optAll (some kOk :: some pOk :: ((atoms.map (satAtom idx today n)) ++ satSubs idx today n subs))
def satSubs (idx : Index) (today : Date) (n : NoteRow) : List (List AndF) → List (Option Bool)
  | [] => []
  | o :: rest => satOr idx today n o :: satSubs idx today n rest
def satOr (idx : Index) (today : Date) (n : NoteRow) : List AndF → Option Bool
  | [] => some false
  | a :: rest =>
    match satAnd idx today n a, satOr idx today n rest with
    | some x, some y => some (x || y)
    | _, _ => none
end

end ZorgVerif.Filter
