/-! Shared basics: strings as `List Char` (char-level proofs without the `String` API). -/
namespace ZorgVerif

abbrev Str := List Char

def Str.ofString (s : String) : Str := s.toList
def Str.toStr (s : Str) : String := String.ofList s

def isDigit (c : Char) : Bool := decide ('0' ≤ c) && decide (c ≤ '9')

def digitVal (c : Char) : Nat := c.toNat - '0'.toNat

/-- decimal value of a digit string (no validation; callers check `all isDigit`) -/
def natOfDigits (s : Str) : Nat := s.foldl (fun acc c => acc * 10 + digitVal c) 0

def digitChar (n : Nat) : Char := Char.ofNat ('0'.toNat + n % 10)

/-- `n` as exactly `w` decimal digits (most significant first; high digits dropped if too large) -/
def padNat : Nat → Nat → Str
  | 0, _ => []
  | w + 1, n => padNat w (n / 10) ++ [digitChar n]

/-- Python `str(n)` for naturals -/
def natToStr (n : Nat) : Str := (toString n).toList

def startsWith (s p : Str) : Bool := p.isPrefixOf s

/-- Python `s.split(sep)` for a single-character separator -/
def splitOn (sep : Char) : Str → List Str
  | [] => [[]]
  | c :: cs =>
    if c = sep then [] :: splitOn sep cs
    else match splitOn sep cs with
      | [] => [[c]]
      | w :: ws => (c :: w) :: ws

def joinWith (sep : Str) : List Str → Str
  | [] => []
  | [x] => x
  | x :: xs => x ++ sep ++ joinWith sep xs

/-- lexicographic comparison by code point (Python `str <`, SQLite BINARY) -/
def strLt : Str → Str → Bool
  | [], [] => false
  | [], _ :: _ => true
  | _ :: _, [] => false
  | a :: as, b :: bs => a.toNat < b.toNat || (a == b && strLt as bs)

def strLe (a b : Str) : Bool := !strLt b a

end ZorgVerif
