import ZorgVerif.Model.Basic
/-! Proleptic Gregorian dates as used by `datetime.date`, `timedelta(days=N)` and
`dateutil.relativedelta(months=N | years=N)` (`src/zorg/shared/dates.py`). -/
namespace ZorgVerif

structure Date where
  y : Nat
  m : Nat
  d : Nat
  deriving Repr, DecidableEq, BEq

namespace Date

def isLeap (y : Nat) : Bool := (y % 4 == 0 && y % 100 != 0) || y % 400 == 0

def daysIn (y m : Nat) : Nat :=
  if m == 2 then (if isLeap y then 29 else 28)
  else if m == 4 || m == 6 || m == 9 || m == 11 then 30
  else 31

/-- what `datetime.date(y, m, d)` accepts -/
def valid (t : Date) : Bool :=
  1 ≤ t.y && t.y ≤ 9999 && 1 ≤ t.m && t.m ≤ 12 && 1 ≤ t.d && t.d ≤ daysIn t.y t.m

def nextDay (t : Date) : Date :=
  if t.d < daysIn t.y t.m then { t with d := t.d + 1 }
  else if t.m < 12 then ⟨t.y, t.m + 1, 1⟩
  else ⟨t.y + 1, 1, 1⟩

def prevDay (t : Date) : Date :=
  if 1 < t.d then { t with d := t.d - 1 }
  else if 1 < t.m then ⟨t.y, t.m - 1, daysIn t.y (t.m - 1)⟩
  else ⟨t.y - 1, 12, 31⟩

/-- `t + timedelta(days=n)` (range errors are checked by the caller through `valid`) -/
def addDays : Nat → Date → Date
  | 0, t => t
  | n + 1, t => addDays n (nextDay t)

/-- `t - timedelta(days=n)` -/
def subDays : Nat → Date → Date
  | 0, t => t
  | n + 1, t => subDays n (prevDay t)

/-- clamp the day to the length of the month (what `relativedelta` does after moving months/years) -/
def clamp (y m d : Nat) : Date := ⟨y, m, min d (daysIn y m)⟩

/-- `t + relativedelta(months=n)` -/
def addMonths (n : Nat) (t : Date) : Date :=
  let k := (t.m - 1) + n
  clamp (t.y + k / 12) (k % 12 + 1) t.d

/-- `t - relativedelta(months=n)`; `none` when the year would drop below 1 (Python: ValueError) -/
def subMonths (n : Nat) (t : Date) : Option Date :=
  let total := t.y * 12 + (t.m - 1)
  if total < n + 12 then none
  else
    let k := total - n
    some (clamp (k / 12) (k % 12 + 1) t.d)

/-- `t + relativedelta(years=n)` -/
def addYears (n : Nat) (t : Date) : Date := clamp (t.y + n) t.m t.d

def subYears (n : Nat) (t : Date) : Option Date :=
  if t.y < n + 1 then none else some (clamp (t.y - n) t.m t.d)

/-- `strftime("%Y%m%d")` for years ≥ 1000 -/
def fmtYmd (t : Date) : Str := padNat 4 t.y ++ padNat 2 t.m ++ padNat 2 t.d

/-- `to_short_date_spec`: `strftime("%Y%m%d")[2:]` -/
def fmtShort (t : Date) : Str := (fmtYmd t).drop 2

/-- `strftime("%Y-%m-%d")` -/
def fmtLong (t : Date) : Str := padNat 4 t.y ++ '-' :: padNat 2 t.m ++ '-' :: padNat 2 t.d

/-- `from_short_date_spec`: `strptime("20" + s, "%Y%m%d")`; `none` = ValueError.
Caller guarantees 6 digits (`is_short_date_spec`). -/
def parseShort (s : Str) : Option Date :=
  match s with
  | [a, b, c, d, e, f] =>
    let t : Date := ⟨2000 + natOfDigits [a, b], natOfDigits [c, d], natOfDigits [e, f]⟩
    if t.valid then some t else none
  | _ => none

/-- `_from_long_date_spec`: `strptime(s, "%Y-%m-%d")` on a string that passed `is_long_date_spec` -/
def parseLong (s : Str) : Option Date :=
  match s with
  | [a, b, c, d, _, e, f, _, g, h] =>
    let t : Date := ⟨natOfDigits [a, b, c, d], natOfDigits [e, f], natOfDigits [g, h]⟩
    if t.valid then some t else none
  | _ => none

end Date
end ZorgVerif
