/-
Model of `src/zorg/storage/sql/_zid_manager.py` : `_get_next_id` and `ZIDManager.get_next`.
Core Lean only (the driver links this file natively).
-/
namespace ZorgVerif.Zid

/-- `while next_ch in _UNSUPPORTED_ZID_CHARS: next_ch = chr(ord(next_ch) + 1)` (fuel = a bound on the
number of iterations; the Python loop has none, callers pass `excl.length + 1`). -/
def skip (excl : List Char) : Nat → Char → Char
  | 0, c => c
  | fuel + 1, c => if excl.contains c then skip excl fuel (Char.ofNat (c.toNat + 1)) else c

/-- One iteration of the `while next_ch is None` loop body: `none` means "carry" (`ch == 'z'`). -/
def succChar (excl : List Char) (ch : Char) : Option Char :=
  if ch = '9' then some 'A'
  else if ch = 'Z' then some 'a'
  else if ch = 'z' then none
  else some (skip excl (excl.length + 1) (Char.ofNat (ch.toNat + 1)))

/-- The loop walks `last_id` from the right; on the reversed id: bump the first non-`z` character and
replace everything to its right (i.e. before it, in the reversed list) by `'0'` (the padding loop). -/
def bumpRev (excl : List Char) : List Char → Option (List Char)
  | [] => none
  | c :: rest =>
    match succChar excl c with
    | some c' => some (c' :: rest)
    | none => (bumpRev excl rest).map ('0' :: ·)

inductive Err where
  | outOfIds
  deriving Repr, DecidableEq

/-- `_get_next_id` -/
def nextId (excl : List Char) (lastId : List Char) : Except Err (List Char) :=
  match bumpRev excl lastId.reverse with
  | some r => .ok r.reverse
  | none => if lastId.length = 2 then .ok ['0', '0', '0'] else .error .outOfIds

/-- persisted `next_ids.json`: date part ↦ next suffix -/
abbrev Ids := List (List Char × List Char)

def lookup (m : Ids) (k : List Char) : Option (List Char) :=
  match m with
  | [] => none
  | (k', v) :: rest => if k' = k then some v else lookup rest k

def insert (m : Ids) (k v : List Char) : Ids :=
  match m with
  | [] => [(k, v)]
  | (k', v') :: rest => if k' = k then (k, v) :: rest else (k', v') :: insert rest k v

/-- `ZIDManager.get_next` on the persisted map: returns the new map and the ZID (date part, suffix).
A fresh `ZIDManager` object reads the file again, so a restart is the identity on `Ids`. -/
def alloc (excl : List Char) (m : Ids) (datePart : List Char) : Except Err (Ids × (List Char × List Char)) :=
  let idPart := (lookup m datePart).getD ['0', '0']
  match nextId excl idPart with
  | .ok nxt => .ok (insert m datePart nxt, (datePart, idPart))
  | .error e => .error e

def zidString (z : List Char × List Char) : List Char := z.1 ++ '#' :: z.2

/-- Run a list of allocation requests (restarts are no-ops on the persisted state and therefore not
represented); failed allocations return nothing and leave the map unchanged. -/
def allocs (excl : List Char) : Ids → List (List Char) → List (List Char × List Char)
  | _, [] => []
  | m, d :: ds =>
    match alloc excl m d with
    | .ok (m', z) => z :: allocs excl m' ds
    | .error _ => allocs excl m ds

end ZorgVerif.Zid
