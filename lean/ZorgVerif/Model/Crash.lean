import ZorgVerif.Model.Index
/-! Small-step model of `db reindex` / `db create` for C13: the run as the list of its external effects, in
the order in which `service/handlers.py` + `service/messagebus.py` perform them (after the repairs recorded in
known_findings.json: a page that is still to be rewritten is left out of the saved hash map; every file is
replaced atomically).  A kill between two effects leaves the store after a prefix of that list.

What is *not* in the store: `next_ids.json` (ZID uniqueness across a kill is C07's allocation theorem, see
Props/C13), the error-file whitelist, temporary files of the atomic writes (they are no page and no
bookkeeping file), SQLite's own journal (a commit is atomic, an un-committed transaction is lost). -/
namespace ZorgVerif.Crash
open ZorgVerif ZorgVerif.Index

variable {Page : Type}

inductive Eff (Page : Type) where
  | dbDamage (p : Path) (junk : Page)    -- a commit inside `remove_file_by_name`: the page has lost properties / tags
  | dbDrop (p : Path)                    -- the page is gone from the index
  | dbPut (p : Path) (pg : Page)         -- commit after `add_file`
  | dbReset                              -- `db create` deletes the database file
  | dbPutAll (ps : List (Path × Page))   -- the single commit of `db create`
  | hashAll (h : List (Path × Text))     -- file_hash.json replaced by a complete map
  | hashPut (p : Path) (t : Text)        -- write-back refreshes the entry of the page it rewrote
  | file (p : Path) (t : Text)           -- a page replaced by its rewritten text

def Eff.apply (s : Store Page) : Eff Page → Store Page
  | .dbDamage p j => { s with db := put s.db p j }
  | .dbDrop p => { s with db := del s.db p }
  | .dbPut p pg => { s with db := put s.db p pg }
  | .dbReset => { s with db := [] }
  | .dbPutAll ps => { s with db := ps }
  | .hashAll h => { s with hashes := h }
  | .hashPut p t => { s with hashes := put s.hashes p t }
  | .file p t => { s with files := put s.files p t }

def applyAll (s : Store Page) (es : List (Eff Page)) : Store Page := es.foldl Eff.apply s

/-- what the model leaves open -/
structure Env (Page : Type) where
  /-- the damaged versions of an indexed page that the commits inside `remove_file_by_name` leave behind -/
  junk : Path → List Page
  /-- a page with edited *and* new notes is rewritten twice (modify dates, then ZIDs): the text in between -/
  mid : Path → Text → Option Text

/-- files that are new or changed since they were indexed, in processing order -/
def changed (s : Store Page) : List (Path × Text) := s.files.filter (fun kv => get s.hashes kv.1 != some kv.2)

/-- indexed pages whose file is gone -/
def stale (s : Store Page) : List Path := (s.db.filter (fun kv => (get s.files kv.1).isNone)).map (·.1)

def removal (env : Env Page) (p : Path) : List (Eff Page) := (env.junk p).map (Eff.dbDamage p)

/-- (path, text, result of processing it) for every changed file -/
def work (sem : Sem Page) (s : Store Page) : List (Path × Text × Text × Page) :=
  (changed s).map (fun kv => (kv.1, kv.2, sem.process (get s.db kv.1) kv.2))

/-- the pages whose file is going to be rewritten (ZIDs, modify dates) -/
def pending (sem : Sem Page) (s : Store Page) : List (Path × Text × Text × Page) :=
  (work sem s).filter (fun w => w.2.2.1 != w.2.1)

/-- plain `db reindex`, effect by effect -/
def reindexEffs (sem : Sem Page) (env : Env Page) (s : Store Page) : List (Eff Page) :=
  (stale s).flatMap (fun p => removal env p ++ [Eff.dbDrop p]) ++
  (work sem s).flatMap (fun w => removal env w.1 ++ [Eff.dbPut w.1 w.2.2.2]) ++
  [Eff.hashAll (s.files.filter (fun kv => !((pending sem s).any (fun w => w.1 == kv.1))))] ++
  (pending sem s).flatMap (fun w =>
    ((env.mid w.1 w.2.1).toList.map (Eff.file w.1)) ++ [Eff.file w.1 w.2.2.1, Eff.hashPut w.1 w.2.2.1])

/-- `db create`, effect by effect: the database file is deleted, the hash map of all files is saved, every
page is committed at once, then the new ZIDs are written back page by page -/
def createEffs (sem : Sem Page) (s : Store Page) : List (Eff Page) :=
  let w := s.files.map (fun kv => (kv.1, kv.2, sem.process none kv.2))
  [Eff.dbReset, Eff.hashAll s.files, Eff.dbPutAll (w.map (fun x => (x.1, x.2.2.2)))] ++
  (w.filter (fun x => x.2.2.1 != x.2.1)).flatMap (fun x => [Eff.file x.1 x.2.2.1, Eff.hashPut x.1 x.2.2.1])

/-- the store a kill before effect `k` leaves behind -/
def crashReindex (sem : Sem Page) (env : Env Page) (s : Store Page) (k : Nat) : Store Page :=
  applyAll s ((reindexEffs sem env s).take k)

def crashCreate (sem : Sem Page) (s : Store Page) (k : Nat) : Store Page :=
  applyAll s ((createEffs sem s).take k)

/-- index, hash map and files agree: every file is settled (no write-back outstanding), indexed as its
from-scratch page, recorded with its own hash, and nothing else is indexed or recorded -/
def Agree (sem : Sem Page) (s : Store Page) : Prop :=
  (∀ p, get s.db p = (get s.files p).map (fun t => (sem.process none t).2)) ∧
  (∀ p, get s.hashes p = get s.files p) ∧
  (∀ p t, get s.files p = some t → (sem.process none t).1 = t)

end ZorgVerif.Crash
