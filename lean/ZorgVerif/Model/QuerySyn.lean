import ZorgVerif.Model.Query
/-! Abstract syntax of SWOG queries *with tokens at the leaves*, its token rendering `toks` and its
denotation `denote` (the structure the syntax spells).  The theorem `parseToks (toks s) = denote s`
(Props/C04) says the parser+listener model computes the denotation for every syntax tree. -/
namespace ZorgVerif.Query
open ZorgVerif ZorgVerif.Lex

/-- an identifier leaf: a token of one of the `id` kinds -/
structure IdTok where
  tok : Tok
  ok : isId tok = true

def sp : Tok := ⟨"SPACE", [' ']⟩
def tk (name : String) (text : String) : Tok := ⟨name, text.toList⟩

inductive KindChar where
  | dash | o | x | tilde | langle | rangle
  deriving Repr, DecidableEq

def KindChar.tok : KindChar → Tok
  | .dash => tk "DASH" "-" | .o => tk "LOWER_O" "o" | .x => tk "LOWER_X" "x"
  | .tilde => tk "TILDE" "~" | .langle => tk "LANGLE" "<" | .rangle => tk "RANGLE" ">"

def KindChar.kind : KindChar → NoteKind
  | .dash => .basic | .o => .openTodo | .x => .closedTodo
  | .tilde => .canceledTodo | .langle => .blockedTodo | .rangle => .parentTodo

def TagKind.tok : TagKind → Tok
  | .area => tk "HASH" "#" | .context => tk "AT_SIGN" "@" | .person => tk "PERCENT" "%" | .project => tk "PLUS" "+"

/-- property operator spelling -/
inductive OpSyn where
  | none | lt | le | gt | ge
  deriving Repr, DecidableEq

def OpSyn.toks : OpSyn → List Tok
  | .none => [] | .lt => [tk "LANGLE" "<"] | .le => [tk "'<='" "<="] | .gt => [tk "RANGLE" ">"] | .ge => [tk "'>='" ">="]

def OpSyn.op : OpSyn → PropOp
  | .none => .eq | .lt => .lt | .le => .le | .gt => .gt | .ge => .ge

/-- a path `(id FSLASH)* id` -/
structure PathSyn where
  dirs : List IdTok
  last : IdTok

def PathSyn.toks (p : PathSyn) : List Tok :=
  (p.dirs.flatMap (fun d => [d.tok, tk "FSLASH" "/"])) ++ [p.last.tok]

/-- syntax of the atoms that are not sub-filters -/
inductive AtomSyn where
  | kinds (first : KindChar) (more : List KindChar)
  | prio (n : Nat)                                   -- `Pn`, n ≤ 9
  | prioRange (n m : Nat)                            -- `Pn-m`, n ≤ 9, 1 ≤ m ≤ 9
  | tag (neg : Bool) (k : TagKind) (name : IdTok)
  | created (startSpec : Str) (stopSpec : Option Str) -- texts after `^` / `:` (short or relative date)
  | modified (startSpec : Str) (stopSpec : Option Str)
  | propExists (neg : Bool) (key : IdTok)            -- `key:*`
  | prop (neg : Bool) (key : IdTok) (op : OpSyn) (value : IdTok)
  | link (neg : Bool) (path : PathSyn)

def negToks (neg : Bool) : List Tok := if neg then [tk "'!'" "!"] else []

def AtomSyn.toks : AtomSyn → List Tok
  | .kinds f more => f.tok :: more.map KindChar.tok
  | .prio n => [⟨"PRIORITY", ['P', digitChar n]⟩]
  | .prioRange n m => [⟨"PRIORITY", ['P', digitChar n]⟩, tk "DASH" "-", ⟨digit19.getD (m - 1) "?", [digitChar m]⟩]
  | .tag neg k name => negToks neg ++ [TagKind.tok k, name.tok]
  | .created s e => ⟨"CREATE_RANGE_HEAD", '^' :: s⟩ :: (match e with | some e => [⟨"DATE_RANGE_TAIL", ':' :: e⟩] | none => [])
  | .modified s e => ⟨"MODIFY_RANGE_HEAD", '$' :: s⟩ :: (match e with | some e => [⟨"DATE_RANGE_TAIL", ':' :: e⟩] | none => [])
  | .propExists neg key => negToks neg ++ [key.tok, tk "COLON" ":", tk "STAR" "*"]
  | .prop neg key op v => negToks neg ++ [key.tok, tk "COLON" ":"] ++ op.toks ++ [v.tok]
  | .link neg p => negToks neg ++ [tk "'[['" "[["] ++ p.toks ++ [tk "']]'" "]]"]

def rangeOf (today : Date) (s : Str) (e : Option Str) : Except Err DateRange := do
  let a ← fromDateSpec today s
  match e with
  | some e => do let b ← fromDateSpec today e; pure ⟨a, some b⟩
  | none => pure ⟨a, none⟩

/-- what the atom spells -/
def AtomSyn.denote (today : Date) : AtomSyn → Except Err Atom
  | .kinds f more => .ok (.kinds (f.kind :: more.map KindChar.kind))
  | .prio n => .ok (.priorities [n])
  | .prioRange n m => .ok (.priorities ((List.range (m + 1)).drop n))
  | .tag neg k name => .ok (.tag k neg name.tok.text)
  | .created s e => (rangeOf today s e).map .created
  | .modified s e => (rangeOf today s e).map .modified
  | .propExists neg key => .ok (.prop key.tok.text [] .exists (valueType []) neg)
  | .prop neg key op v => .ok (.prop key.tok.text v.tok.text op.op (valueType v.tok.text) neg)
  | .link neg p => .ok (.link (textOf p.toks) neg)

/-- filter trees: an and-filter is a non-empty sequence of items, an or-filter a non-empty sequence of
and-filters -/
inductive ItemSyn where
  | atom (a : AtomSyn)
  | sub (first : List ItemSyn) (alts : List (List ItemSyn))   -- `( and (| and)* )`; each inner list non-empty

abbrev AndSyn := List ItemSyn

def interleave (sep : List Tok) : List (List Tok) → List Tok
  | [] => []
  | [x] => x
  | x :: xs => x ++ sep ++ interleave sep xs

mutual
def ItemSyn.toks : ItemSyn → List Tok
  | .atom a => a.toks
  | .sub first alts => [tk "LPAREN" "("] ++ orToks (first :: alts) ++ [tk "RPAREN" ")"]
def andToks : List ItemSyn → List Tok
  | [] => []
  | [i] => i.toks
  | i :: rest => i.toks ++ [sp] ++ andToks rest
def orToks : List (List ItemSyn) → List Tok
  | [] => []
  | [a] => andToks a
  | a :: rest => andToks a ++ [sp, tk "'|'" "|", sp] ++ orToks rest
end

mutual
def andDenote (today : Date) : List ItemSyn → Except Err AndF
  | [] => .ok (.mk [] [])
  | .atom a :: rest => do
    let x ← a.denote today
    let (AndF.mk atoms subs) ← andDenote today rest
    pure (.mk (x :: atoms) subs)
  | .sub first alts :: rest => do
    let o ← orDenote today (first :: alts)
    let (AndF.mk atoms subs) ← andDenote today rest
    pure (.mk atoms (o :: subs))
def orDenote (today : Date) : List (List ItemSyn) → Except Err OrF
  | [] => .ok []
  | a :: rest => do
    let x ← andDenote today a
    let xs ← orDenote today rest
    pure (x :: xs)
end

/-! well-formedness: and-filters non-empty, priorities in range -/
/-- a property value token must not start with an operator character (true of every real `id` token:
they start with a letter or digit; `:…` for DATE_RANGE_TAIL) -/
def valueOk (v : Str) : Bool :=
  match v with
  | c :: _ => c != '<' && c != '>' && c != '=' && c != '*'
  | [] => false

mutual
def ItemSyn.wf : ItemSyn → Bool
  | .atom (.prio n) => n ≤ 9
  | .atom (.prioRange n m) => n ≤ 9 && 1 ≤ m && m ≤ 9
  | .atom (.prop _ _ _ v) => valueOk v.tok.text
  | .atom _ => true
  | .sub first alts => andWf first && orWf alts
def andWf : List ItemSyn → Bool
  | [] => false
  | [i] => i.wf
  | i :: rest => i.wf && andWf rest
def orWf : List (List ItemSyn) → Bool
  | [] => true
  | a :: rest => andWf a && orWf rest
end

/-! ### whole queries -/

inductive SelFieldSyn where
  | file | note | prop | propValues (k : IdTok) | links | area | context | person | project

def SelFieldSyn.toks : SelFieldSyn → List Tok
  | .file => [tk "'file'" "file"] | .note => [tk "'note'" "note"] | .prop => [tk "'prop'" "prop"]
  | .propValues k => [tk "'prop'" "prop", tk "COLON" ":", k.tok] | .links => [tk "'links'" "links"]
  | .area => [tk "HASH" "#"] | .context => [tk "AT_SIGN" "@"] | .person => [tk "PERCENT" "%"] | .project => [tk "PLUS" "+"]

def SelFieldSyn.denote : SelFieldSyn → SelectField
  | .file => .file | .note => .note | .prop => .prop | .propValues k => .propValues k.tok.text | .links => .links
  | .area => .area | .context => .context | .person => .person | .project => .project

structure SelSyn where
  count : Bool
  field : SelFieldSyn

def SelSyn.toks (s : SelSyn) : List Tok :=
  [tk "'S'" "S", sp] ++ (if s.count then [tk "'count'" "count", tk "LPAREN" "("] ++ s.field.toks ++ [tk "RPAREN" ")"] else s.field.toks)

def SelSyn.denote (s : SelSyn) : Select := if s.count then .count s.field.denote else .field s.field.denote

def OrderBy.tok : OrderBy → Tok
  | .alpha => tk "'alpha'" "alpha" | .createDate => tk "'create'" "create" | .modifyDate => tk "'modify'" "modify"
  | .priority => tk "'priority'" "priority" | .noteType => tk "'type'" "type" | .none => tk "'none'" "none"

/-- a GROUP BY atom: a dimension or the word `none` -/
def groupTok : Option GroupBy → Tok
  | some .context => tk "AT_SIGN" "@" | some .area => tk "HASH" "#" | some .person => tk "PERCENT" "%"
  | some .project => tk "PLUS" "+" | some .file => tk "'file'" "file" | some .noteType => tk "'type'" "type"
  | some .priority => tk "'priority'" "priority" | some .section => tk "'section'" "section" | none => tk "'none'" "none"

structure QSyn where
  sel : Option SelSyn
  where_ : Option (List ItemSyn × List (List ItemSyn))
  order : Option (OrderBy × List OrderBy)
  group : Option (Option GroupBy × List (Option GroupBy))
  groupFirst : Bool

def QSyn.wf (q : QSyn) : Bool :=
  (q.sel.isSome || q.where_.isSome) &&
  (match q.where_ with | some (f, alts) => andWf f && orWf alts | none => true) &&
  (match q.group with | some (_, more) => decide (more.length ≤ 3) | none => true)

def QSyn.toks (q : QSyn) : List Tok :=
  let selT := match q.sel with | some s => s.toks | none => []
  let whT := match q.where_ with
    | some (f, alts) => (if q.sel.isSome then [sp] else []) ++ [tk "'W'" "W", sp] ++ orToks (f :: alts)
    | none => []
  let oT := match q.order with
    | some (o, more) => [sp, tk "'O'" "O", sp] ++ interleave [sp] ((o :: more).map (fun x => [x.tok]))
    | none => []
  let gT := match q.group with
    | some (g, more) => [sp, tk "'G'" "G", sp] ++ interleave [sp] ((g :: more).map (fun x => [groupTok x]))
    | none => []
  selT ++ whT ++ (if q.groupFirst then gT ++ oT else oT ++ gT)

def QSyn.denote (dflt : Defaults) (today : Date) (q : QSyn) : Except Err Query := do
  let wh ← match q.where_ with
    | some (f, alts) => (orDenote today (f :: alts)).map some
    | none => pure none
  pure ⟨(q.sel.map SelSyn.denote).getD dflt.select, wh,
    match q.order with | some (o, more) => o :: more | none => dflt.orderBy,
    match q.group with | some (g, more) => (g :: more).filterMap id | none => dflt.groupBy⟩

end ZorgVerif.Query
