import ZorgVerif.Model.Basic
/-! Abstract model of the index store and of `db create` / `db reindex` (`service/handlers.py` after the
repairs recorded in known_findings.json): files, indexed pages and the hash map.  The page compiler and
the write-back (ZID insertion, modify-date stamping) are one parameter `process`. -/
namespace ZorgVerif.Index
open ZorgVerif

abbrev Path := Str
abbrev Text := Str

/-- association lists as finite maps (first binding wins) -/
def get {β : Type} (m : List (Path × β)) (p : Path) : Option β := (m.find? (fun kv => kv.1 == p)).map (·.2)

def put {β : Type} (m : List (Path × β)) (p : Path) (v : β) : List (Path × β) :=
  (p, v) :: m.filter (fun kv => kv.1 != p)

def del {β : Type} (m : List (Path × β)) (p : Path) : List (Path × β) := m.filter (fun kv => kv.1 != p)

structure Store (Page : Type) where
  files : List (Path × Text)     -- the *.zo files (keys unique)
  db : List (Path × Page)        -- committed index: page path ↦ indexed page
  hashes : List (Path × Text)    -- file_hash.json (the "hash" of a text is the text itself: sha256 assumed injective)

/-- What indexing one file does: given the page's previous index state (if any) and the file's text, the
text after write-back and the page as committed. -/
structure Sem (Page : Type) where
  process : Option Page → Text → Text × Page

variable {Page : Type}

/-- (re)index one file: remove the old page, compile, add, commit, write back -/
def indexOne (sem : Sem Page) (s : Store Page) (p : Path) (t : Text) : Store Page :=
  let r := sem.process (get s.db p) t
  { files := put s.files p r.1, db := put s.db p r.2, hashes := put s.hashes p r.1 }

/-- the loop of `reindex_database` over the files to look at -/
def reindexLoop (sem : Sem Page) : List (Path × Text) → Store Page → Store Page
  | [], s => s
  | (p, t) :: rest, s =>
    if get s.hashes p == some t then reindexLoop sem rest s        -- unchanged since it was indexed
    else reindexLoop sem rest (indexOne sem s p t)

/-- plain `db reindex`: drop indexed pages whose file is gone, reindex every file that is new or changed,
and save the hash map of all files -/
def reindexPlain (sem : Sem Page) (s : Store Page) : Store Page :=
  let s1 : Store Page := { s with db := s.db.filter (fun kv => (get s.files kv.1).isSome),
                                  hashes := s.hashes.filter (fun kv => (get s.files kv.1).isSome) }
  reindexLoop sem s1.files s1

/-- `db reindex PATH…`: only the listed files are looked at; the saved hash map then holds only them
(plus what write-back adds) -/
def reindexPaths (sem : Sem Page) (ps : List Path) (s : Store Page) : Store Page :=
  let listed := s.files.filter (fun kv => ps.contains kv.1)
  let s1 : Store Page := { s with hashes := s.hashes.filter (fun kv => ps.contains kv.1) }
  reindexLoop sem listed s1

/-- `db create`: everything from scratch -/
def create (sem : Sem Page) (s : Store Page) : Store Page :=
  reindexLoop sem s.files { files := s.files, db := [], hashes := [] }

inductive Op where
  | write (p : Path) (t : Text)     -- the user creates or edits a file
  | remove (p : Path)               -- deletes it (a rename is remove + write)
  | reindex                         -- plain `db reindex`
  | reindexOnly (ps : List Path)    -- `db reindex PATH…`

def step (sem : Sem Page) (s : Store Page) : Op → Store Page
  | .write p t => { s with files := put s.files p t }
  | .remove p => { s with files := del s.files p }
  | .reindex => reindexPlain sem s
  | .reindexOnly ps => reindexPaths sem ps s

def run (sem : Sem Page) (s : Store Page) (ops : List Op) : Store Page := ops.foldl (step sem) s

end ZorgVerif.Index
