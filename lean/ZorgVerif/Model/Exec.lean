import ZorgVerif.Model.Query
/-! Model of `src/zorg/service/swog/_executor.py` (group → order → select → render) and of the key
functions of `domain/types.py`. -/
namespace ZorgVerif.Exec
open ZorgVerif ZorgVerif.Query

/-- a note as the executor sees it -/
structure XNote where
  text : Str               -- `Note.to_string().rstrip()`
  path : Str               -- `str(note.file_path)` relative to nothing in particular (as stored)
  line : Nat
  typeLabel : Str          -- `to_header_label()` of the kind
  priority : Str           -- `todo_payload.priority` or ""
  cdate : Str              -- `%Y%m%d`
  mdate : Str
  areas : List Str
  contexts : List Str
  people : List Str
  projects : List Str
  links : List Str
  props : List (Str × Str) -- dict order
  sect : Str               -- `H1 | H2 | …` title path
  deriving Repr, DecidableEq

/-- insertion into a sorted list (used for `sorted(tags)`) -/
def insertSorted (x : Str) : List Str → List Str
  | [] => [x]
  | y :: ys => if strLe x y then x :: y :: ys else y :: insertSorted x ys

def sortStrs (xs : List Str) : List Str := xs.foldr insertSorted []

def tagKey (sym : Char) (tags : List Str) : Str :=
  joinWith " | ".toList ((sortStrs tags).map (fun t => sym :: t))

/-- Python `s.replace(old, new)` (non-empty `old`) -/
def replaceStr (old new : Str) : Nat → Str → Str
  | _, [] => []
  | k + 1, _ :: cs => replaceStr old new k cs
  | 0, c :: cs => if old.isPrefixOf (c :: cs) then new ++ replaceStr old new (old.length - 1) cs else c :: replaceStr old new 0 cs

def groupKey (g : GroupBy) (n : XNote) : Str :=
  match g with
  | .area => tagKey '#' n.areas
  | .context => tagKey '@' n.contexts
  | .person => tagKey '%' n.people
  | .project => tagKey '+' n.projects
  | .file => "[[".toList ++ replaceStr ".zo".toList [] 0 n.path ++ "]]".toList
  | .noteType => n.typeLabel
  | .priority => n.priority
  | .section => n.sect

/-- Python `f"{n:08d}"` -/
def pad8 (n : Nat) : Str := let s := natToStr n; List.replicate (8 - s.length) '0' ++ s

def orderKey1 (o : OrderBy) (n : XNote) : Str :=
  match o with
  | .alpha => n.text ++ ['\n']      -- `note.to_string()` keeps the trailing newline
  | .createDate => n.cdate
  | .modifyDate => n.mdate
  | .none => n.path ++ "::".toList ++ natToStr n.line
  | .noteType => n.typeLabel
  | .priority => n.priority

/-- `" ".join(oby.keyfunc(note) for oby in order_bys)` -/
def orderKey (os : List OrderBy) (n : XNote) : Str := joinWith [' '] (os.map (fun o => orderKey1 o n))

/-- Python's stable `sorted(xs, key=k)` -/
def sortBy (k : XNote → Str) (xs : List XNote) : List XNote := xs.mergeSort (fun a b => strLe (k a) (k b))

/-- `itertools.groupby` on a list: maximal runs of equal keys -/
def runs (k : XNote → Str) : List XNote → List (Str × List XNote)
  | [] => []
  | x :: xs =>
    match runs k xs with
    | (key, grp) :: rest => if k x = key then (key, x :: grp) :: rest else (k x, [x]) :: (key, grp) :: rest
    | [] => [(k x, [x])]

inductive Tree where
  | leaf (notes : List XNote)
  | node (children : List (Str × Tree))
  deriving Repr

/-- `_group_notes_by` -/
def groupBy : List GroupBy → List XNote → Tree
  | [], ns => .leaf ns
  | g :: gs, ns => .node ((runs (groupKey g) (sortBy (groupKey g) ns)).map (fun (key, grp) => (key, groupBy gs grp)))

mutual
/-- `_order_notes_by` -/
def orderTree (os : List OrderBy) : Tree → Tree
  | .leaf ns => .leaf (sortBy (orderKey os) ns)
  | .node cs => .node (orderChildren os cs)
def orderChildren (os : List OrderBy) : List (Str × Tree) → List (Str × Tree)
  | [] => []
  | (k, t) :: rest => (k, orderTree os t) :: orderChildren os rest
end

/-- keep first occurrences -/
def dedup : List Str → List Str
  | [] => []
  | x :: xs => x :: (dedup xs).filter (· != x)

def selectField (f : SelectField) (alpha : Bool) (ns : List XNote) : List Str :=
  let fin (xs : List Str) : List Str := if alpha then sortStrs (dedup xs) else dedup xs
  match f with
  | .note => ns.map (·.text)
  | .file => sortStrs (dedup (ns.map (·.path)))
  | .area => fin (ns.flatMap (·.areas))
  | .context => fin (ns.flatMap (·.contexts))
  | .person => fin (ns.flatMap (·.people))
  | .project => fin (ns.flatMap (·.projects))
  | .links => fin (ns.flatMap (·.links))
  | .prop => fin (ns.flatMap (fun n => n.props.map (·.1)))
  | .propValues k => fin (ns.filterMap (fun n => n.props.lookup k))

def selectLeaf (s : Select) (alpha : Bool) (ns : List XNote) : Str :=
  match s with
  | .field f => joinWith ['\n'] (selectField f alpha ns)
  | .count f => natToStr (selectField f alpha ns).length

def header (level numLevels : Nat) : Str :=
  let nl : Str := if numLevels > 1 then ['\n'] else []
  match level with
  | 1 => nl ++ List.replicate 32 '#'
  | 2 => List.replicate 24 '='
  | 3 => List.replicate 16 '+'
  | _ => List.replicate 8 '-'

mutual
/-- `_select` -/
def render (s : Select) (alpha : Bool) (numLevels : Nat) : Nat → Tree → Str
  | _, .leaf ns => selectLeaf s alpha ns ++ ['\n', '\n']
  | level, .node cs => renderChildren s alpha numLevels level cs
def renderChildren (s : Select) (alpha : Bool) (numLevels : Nat) : Nat → List (Str × Tree) → Str
  | _, [] => []
  | level, (name, t) :: rest =>
    (if name.isEmpty then [] else header level numLevels ++ [' '] ++ name ++ ['\n']) ++
      render s alpha numLevels (level + 1) t ++ renderChildren s alpha numLevels level rest
end

def isPyWs (c : Char) : Bool := c == ' ' || c == '\t' || c == '\n' || c == '\r' || c == '\x0b' || c == '\x0c'
def pyStrip (s : Str) : Str := ((s.dropWhile isPyWs).reverse.dropWhile isPyWs).reverse

def isAlphaOnly (os : List OrderBy) : Bool := !os.isEmpty && os.all (· == .alpha)

/-- `execute_with_session` after the WHERE step -/
def execTree (q : Query) (ns : List XNote) : Tree := orderTree q.orderBy (groupBy q.groupBy ns)

def exec (q : Query) (ns : List XNote) : Str :=
  pyStrip (render q.select (isAlphaOnly q.orderBy) q.groupBy.length 1 (execTree q ns))

/-! all notes of a tree, left to right -/
mutual
def Tree.notes : Tree → List XNote
  | .leaf ns => ns
  | .node cs => childrenNotes cs
def childrenNotes : List (Str × Tree) → List XNote
  | [] => []
  | (_, t) :: rest => t.notes ++ childrenNotes rest
end

end ZorgVerif.Exec
