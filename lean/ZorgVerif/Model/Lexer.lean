import ZorgVerif.Model.Basic
/-! Lexer model: one DFA per token rule (generated from the ATN of the ANTLR lexers that actually run),
maximal munch, ties to the first rule, ANTLR's `LexerNoViableAlt` recovery. -/
namespace ZorgVerif.Lex
open ZorgVerif

structure Dfa where
  start : Nat
  acc : List Nat
  /-- (state, lo, hi, target): on a code point in `[lo, hi]` go to `target` -/
  trans : List (Nat × Nat × Nat × Nat)
  deriving Repr

def Dfa.step (d : Dfa) (q : Nat) (c : Char) : Option Nat :=
  match d.trans.find? (fun t => t.1 == q && decide (t.2.1 ≤ c.toNat) && decide (c.toNat ≤ t.2.2.1)) with
  | some t => some t.2.2.2
  | none => none

/-- state after reading `s` from `q` (`none` = the automaton died) -/
def Dfa.runFrom (d : Dfa) (q : Nat) : Str → Option Nat
  | [] => some q
  | c :: cs =>
    match d.step q c with
    | some q' => d.runFrom q' cs
    | none => none

def Dfa.accepts (d : Dfa) (s : Str) : Bool :=
  match d.runFrom d.start s with
  | some q => d.acc.contains q
  | none => false

/-- `scan q s i best` reads `s` from state `q`, having already consumed `i` characters with the longest
accepted prefix so far being `best`; returns (longest accepted prefix length, characters consumed before
the automaton died or the input ended). -/
def Dfa.scan (d : Dfa) : Nat → Str → Nat → Nat → Nat × Nat
  | _, [], i, best => (best, i)
  | q, c :: cs, i, best =>
    match d.step q c with
    | some q' => d.scan q' cs (i + 1) (if d.acc.contains q' then i + 1 else best)
    | none => (best, i)

/-- (longest accepted non-empty prefix length or 0, characters consumed) -/
def Dfa.longest (d : Dfa) (s : Str) : Nat × Nat := d.scan d.start s 0 0

abbrev Rules := List (String × Dfa)

structure Tok where
  /-- rule name, or "<err>" for characters dropped by error recovery -/
  name : String
  text : Str
  deriving Repr, DecidableEq

/-- index and length of the winning rule: maximal length, first rule on ties -/
def pick : List (Nat × Nat) → Nat → (Nat × Nat) → (Nat × Nat)
  | [], _, cur => cur
  | (b, _) :: rest, k, (bi, bl) => if bl < b then pick rest (k + 1) (k, b) else pick rest (k + 1) (bi, bl)

def maxConsumed : List (Nat × Nat) → Nat
  | [] => 0
  | (_, n) :: rest => max n (maxConsumed rest)

/-- one token from the front of a non-empty input: (token, rest) -/
def next (rules : Rules) (s : Str) : Tok × Str :=
  let res := rules.map (fun r => r.2.longest s)
  let (k, len) := pick res 0 (0, 0)
  if len = 0 then
    -- no rule accepts any prefix: drop the characters up to and including the one where the
    -- longest-living rule died (at least one)
    let n := maxConsumed res + 1
    (⟨"<err>", s.take n⟩, s.drop n)
  else
    (⟨(rules.map (·.1))[k]?.getD "?", s.take len⟩, s.drop len)

def lexFuel (rules : Rules) : Nat → Str → List Tok
  | 0, _ => []
  | _, [] => []
  | fuel + 1, c :: cs =>
    let (t, rest) := next rules (c :: cs)
    t :: lexFuel rules fuel rest

def lex (rules : Rules) (s : Str) : List Tok := lexFuel rules s.length s

/-! ### set-wise runs ("product simulation") -/

/-- all successors of the states `qs` on every character of `S`; `none` if some transition is dead -/
def stepAll (d : Dfa) (qs : List Nat) (S : List Char) : Option (List Nat) :=
  (qs.flatMap (fun q => S.map (fun c => d.step q c))).foldr
    (fun o acc => match o, acc with
      | some q, some l => some (if l.contains q then l else q :: l)
      | _, _ => none) (some [])

/-- live successors of the states `qs` on the characters of `S` (dead transitions dropped) -/
def stepLive (d : Dfa) (qs : List Nat) (S : List Char) : List Nat :=
  (qs.flatMap (fun q => S.filterMap (fun c => d.step q c))).eraseDups

/-- every string of `S₁ × … × Sₙ` is accepted -/
def allAccepted (d : Dfa) (sets : List (List Char)) : Bool :=
  let rec go (qs : List Nat) : List (List Char) → Bool
    | [] => qs.all (fun q => d.acc.contains q)
    | S :: rest =>
      match stepAll d qs S with
      | some qs' => go qs' rest
      | none => false
  go [d.start] sets

/-- no string of `S₁ × … × Sₙ` is accepted -/
def noneAccepted (d : Dfa) (sets : List (List Char)) : Bool :=
  let rec go (qs : List Nat) : List (List Char) → Bool
    | [] => qs.all (fun q => !d.acc.contains q)
    | S :: rest => go (stepLive d qs S) rest
  go [d.start] sets

/-- `s ∈ S₁ × … × Sₙ` -/
def InProduct : Str → List (List Char) → Prop
  | [], [] => True
  | c :: cs, S :: rest => c ∈ S ∧ InProduct cs rest
  | _, _ => False

end ZorgVerif.Lex
