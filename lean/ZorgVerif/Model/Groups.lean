import ZorgVerif.Model.Date
/-! Model of `src/zorg/service/file_groups.py`. -/
namespace ZorgVerif.Groups
open ZorgVerif

abbrev GroupMap := List (Str × List Str)

inductive Err where
  | keyError (name : Str)      -- `file_group_map[group_name]`
  | fuel                       -- Python: RecursionError (cyclic map)
  | format (s : Str)           -- `str.format` raised / form outside the modelled fragment
  deriving Repr, DecidableEq

def lookup (m : GroupMap) (k : Str) : Option (List Str) :=
  match m with
  | [] => none
  | (k', v) :: rest => if k' = k then some v else lookup rest k

/-- `strftime` for the directives `%Y %m %d %y %%` and literal characters -/
def strftime (t : Date) : Str → Except Err Str
  | [] => .ok []
  | '%' :: 'Y' :: r => (strftime t r).map (padNat 4 t.y ++ ·)
  | '%' :: 'm' :: r => (strftime t r).map (padNat 2 t.m ++ ·)
  | '%' :: 'd' :: r => (strftime t r).map (padNat 2 t.d ++ ·)
  | '%' :: 'y' :: r => (strftime t r).map (padNat 2 (t.y % 100) ++ ·)
  | '%' :: '%' :: r => (strftime t r).map ('%' :: ·)
  | '%' :: r => .error (.format ('%' :: r))
  | c :: r => (strftime t r).map (c :: ·)

/-- One replacement field (text between `{` and `}`): `yyyymmdd[i]` or `days[i]:SPEC`, `i < 7`. -/
def field (today : Date) (f : Str) : Except Err Str :=
  match f with
  | 'y' :: 'y' :: 'y' :: 'y' :: 'm' :: 'm' :: 'd' :: 'd' :: '[' :: i :: [']'] =>
    if isDigit i && digitVal i < 7 then .ok (Date.fmtYmd (Date.subDays (digitVal i) today)) else .error (.format f)
  | 'd' :: 'a' :: 'y' :: 's' :: '[' :: i :: ']' :: ':' :: spec =>
    if isDigit i && digitVal i < 7 then strftime (Date.subDays (digitVal i) today) spec else .error (.format f)
  | 'd' :: 'a' :: 'y' :: 's' :: '[' :: i :: ']' :: '.' :: attr =>
    if isDigit i && digitVal i < 7 then
      let t := Date.subDays (digitVal i) today
      if attr = "year".toList then .ok (natToStr t.y)
      else if attr = "month".toList then .ok (natToStr t.m)
      else if attr = "day".toList then .ok (natToStr t.d)
      else .error (.format f)
    else .error (.format f)
  | _ => .error (.format f)

/-- `fname.format(days=days, yyyymmdd=yyyymmdd)` on the modelled fragment (fuel = length bound) -/
def fmt (today : Date) : Nat → Str → Except Err Str
  | 0, _ => .error .fuel
  | _ + 1, [] => .ok []
  | n + 1, '{' :: '{' :: r => (fmt today n r).map ('{' :: ·)
  | n + 1, '}' :: '}' :: r => (fmt today n r).map ('}' :: ·)
  | n + 1, '{' :: r =>
    let f := r.takeWhile (· ≠ '}')
    let rest := r.dropWhile (· ≠ '}')
    match rest with
    | [] => .error (.format r)
    | _ :: rest' => do
      let a ← field today f
      let b ← fmt today n rest'
      pure (a ++ b)
  | _ + 1, '}' :: r => .error (.format r)
  | n + 1, c :: r => (fmt today n r).map (c :: ·)

/-- `_paths_from_file_group`; `rec` is the recursive call `expand_file_group_paths([Path(fname)])` -/
def expandMembersWith (rec : Str → Except Err (List Str)) (f : Str → Except Err Str) :
    List Str → Except Err (List Str)
  | [] => .ok []
  | mem :: rest =>
    match mem with
    | '@' :: _ => do
      let a ← rec mem
      let b ← expandMembersWith rec f rest
      pure (a ++ b)
    | _ => do
      let a ← f mem
      let b ← expandMembersWith rec f rest
      pure (a :: b)

/-- `expand_file_group_paths([a])` for one argument (fuel bounds the recursion depth) -/
def expandArg (m : GroupMap) (f : Str → Except Err Str) : Nat → Str → Except Err (List Str)
  | 0, _ => .error .fuel
  | fuel + 1, a =>
    match a with
    | '@' :: name =>
      match lookup m name with
      | none => .error (.keyError name)
      | some members => expandMembersWith (expandArg m f fuel) f members
    | _ => .ok [a]

abbrev expandMembers (m : GroupMap) (f : Str → Except Err Str) (fuel : Nat) :=
  expandMembersWith (expandArg m f fuel) f

/-- `expand_file_group_paths` -/
def expand (m : GroupMap) (f : Str → Except Err Str) (fuel : Nat) : List Str → Except Err (List Str)
  | [] => .ok []
  | a :: rest => do
    let x ← expandArg m f fuel a
    let y ← expand m f fuel rest
    pure (x ++ y)

end ZorgVerif.Groups
