import ZorgVerif.Model.Basic
/-! Model of `run_action_open` (`src/zorg/app/runners/_run_action.py`): the word scan with the primary-ZID
rule and the dispatch to protocol messages.  Index lookups are parameters. -/
namespace ZorgVerif.Action
open ZorgVerif

def stripSet (set : List Char) (s : Str) : Str := ((s.dropWhile set.contains).reverse.dropWhile set.contains).reverse

def hasSub (pat s : Str) : Bool := (List.range (s.length + 1)).any (fun i => pat.isPrefixOf (s.drop i))

def isSixDigits (s : Str) : Bool := s.length == 6 && s.all isDigit

/-- `dates.is_zid` (date validity is checked by the caller's data: generated ZIDs carry real dates) -/
def isZid (validDate : Str → Bool) (s : Str) : Bool :=
  (s.length == 9 || s.length == 10) && isSixDigits (s.take 6) && validDate (s.take 6) && s.getD 6 ' ' == '#'

def isPrefixSymbol (w : Str) : Bool := ["-", "o", "x", "~", "<", ">"].any (fun p => p.toList == w)
def isPriority (w : Str) : Bool := match w with | ['P', d] => isDigit d | _ => false

inductive Target where
  | word (w : Str)     -- a link word as written (brackets included)
  | zid (z : Str)      -- a bare ZID (brackets stripped)
  deriving Repr, DecidableEq

def Target.text : Target → Str
  | .word w => w
  | .zid z => z

/-- the scan over `[w.strip("(),.?!;:") for w in line.split(" ")]` -/
def scan (validDate : Str → Bool) (isZoq : Bool) : Nat → Bool → List Str → List Target
  | _, _, [] => []
  | i, found, w :: rest =>
    let isLink := hasSub "[[".toList w && hasSub "]]".toList w
    let isLocal := hasSub "[^".toList w && hasSub "]".toList w
    let isId := hasSub "[#".toList w && hasSub "]".toList w
    let isRid := hasSub "[@".toList w && hasSub "]".toList w
    let isUrl := hasSub "[!".toList w && hasSub "]".toList w
    let isCite := "z::".toList.isPrefixOf w
    let zidWord := stripSet ['[', ']'] w
    let bare := isZid validDate w
    let targetable := isZid validDate zidWord && (found || isZoq || i == 0 || !bare)
    if isLink || isLocal || isId || isRid || isUrl || isCite then .word w :: scan validDate isZoq (i + 1) true rest
    else if targetable then .zid zidWord :: scan validDate isZoq (i + 1) true rest
    else if bare then scan validDate isZoq (i + 1) true rest      -- the primary ZID
    else if !found && !isPrefixSymbol w && !isPriority w && !(isSixDigits w && validDate w) then
      scan validDate isZoq (i + 1) true rest
    else scan validDate isZoq (i + 1) found rest

def targets (validDate : Str → Bool) (isZoq : Bool) (line : Str) : List Target :=
  scan validDate isZoq 0 false ((splitOn ' ' line).map (stripSet "(),.?!;:".toList))

/-- index lookups -/
structure Lookup where
  zidPage : Str → Option Str          -- ZID ↦ page path (relative) of the note that owns it
  idPages : Str → List Str            -- ID::v ↦ pages of the notes carrying it (one entry per note)
  ridPages : Str → List Str           -- RID::v ↦ pages (one entry per note)

structure Resp where
  lines : List Str
  rc : Nat
  deriving Repr, DecidableEq

def searchEnd : Str := "\\ze\\(\\s\\|[),.?!;:]\\|$\\)".toList

/-- `prepend_zdir(zdir, p)`: add `.zo` when there is no dot, put under the notes directory -/
def fullPath (zdir p : Str) : Str := zdir ++ ['/'] ++ (if p.contains '.' then p else p ++ ".zo".toList)

def dedupSorted (xs : List Str) : List Str :=
  let ins (x : Str) (l : List Str) : List Str :=
    let rec go : List Str → List Str
      | [] => [x]
      | y :: ys => if x == y then y :: ys else if strLt x y then x :: y :: ys else y :: go ys
    go l
  xs.foldr ins []

/-- `_open_link` -/
def openLink (zdir : Str) (lk : Lookup) (t : Target) : Resp :=
  let w := t.text
  if "[[".toList.isPrefixOf w && "]]".toList.isSuffixOf w then
    let parts := splitOn '#' w
    match parts with
    | [p] => ⟨["EDIT ".toList ++ fullPath zdir ((p.drop 2).take (p.length - 4))], 0⟩
    | p :: a :: _ => ⟨["EDIT ".toList ++ fullPath zdir (p.drop 2), "SEARCH LID::".toList ++ a.take (a.length - 2)], 0⟩
    | [] => ⟨[], 0⟩
  else if hasSub "[^".toList w && hasSub "]".toList w then
    ⟨["SEARCH LID::".toList ++ (w.drop 2).take (w.length - 3) ++ searchEnd], 0⟩
  else if "[#".toList.isPrefixOf w && "]".toList.isSuffixOf w then
    let id := (w.drop 2).take (w.length - 3)
    match dedupSorted (lk.idPages id) with
    | [] => ⟨["ECHO No notes found with the ID::".toList ++ id ++ " property".toList], 1⟩
    | [page] => ⟨["EDIT ".toList ++ fullPath zdir page, "SEARCH ID::".toList ++ id ++ searchEnd], 0⟩
    | pages => ⟨["ECHO Multiple pages found containing notes with the ID::".toList ++ id ++ " property: ".toList ++ joinWith [' '] pages], 1⟩
  else if "[@".toList.isPrefixOf w && "]".toList.isSuffixOf w then
    let rid := (w.drop 2).take (w.length - 3)
    match lk.ridPages rid with
    | [] => ⟨["ECHO No notes found with the RID::".toList ++ rid ++ " property".toList], 1⟩
    | [page] => ⟨["EDIT ".toList ++ fullPath zdir page, "SEARCH RID::".toList ++ rid ++ searchEnd], 0⟩
    | pages => ⟨["ECHO Multiple notes found the with the RID::".toList ++ rid ++ " property: ".toList ++ joinWith [' '] (dedupSorted pages)], 1⟩
  else
    match lk.zidPage w with
    | some page => ⟨["EDIT ".toList ++ fullPath zdir page, "SEARCH \\s\\zs".toList ++ w], 0⟩
    | none => ⟨[], 1⟩

/-- `run_action_open` for a line that is not a query line of a `.zoq` page -/
def respond (zdir : Str) (lk : Lookup) (ts : List Target) (lineNo : Nat) (option : Option Int) : Resp :=
  match ts with
  | [] => ⟨["ECHO We did not find anything zorg knows how to open on line #".toList ++ natToStr lineNo], 0⟩
  | [t] => openLink zdir lk t
  | _ =>
    match option with
    | none => ⟨["PROMPT ".toList ++ joinWith [' '] (ts.map Target.text)], 0⟩
    | some (-1) => match ts.getLast? with | some t => openLink zdir lk t | none => ⟨[], 1⟩
    | some k =>
      if 1 ≤ k then
        match ts[(k - 1).toNat]? with
        | some t => openLink zdir lk t
        | none => ⟨[], 1⟩
      else ⟨[], 1⟩

end ZorgVerif.Action
