import ZorgVerif.Model.Date
/-! Model of `src/zorg/service/templates.py`: the decision logic of `init_from_template` and the
template pre-processing `_build_template_in_dir`.  `re.match` (pattern → captured groups) and jinja2
rendering are parameters. -/
namespace ZorgVerif.Template
open ZorgVerif

abbrev Vars := List (Str × Str)

/-- `var_map |= match.groupdict()`: later bindings replace earlier ones, dict order kept -/
def update (vars : Vars) (k v : Str) : Vars :=
  match vars with
  | [] => [(k, v)]
  | (k', v') :: rest => if k' = k then (k, v) :: rest else (k', v') :: update rest k v

def merge (vars extra : Vars) : Vars := extra.foldl (fun acc kv => update acc kv.1 kv.2) vars

/-- one entry of `template_pattern_map` as seen by one target path: the result of `pattern.match(...)`
(`none` = no match, `some groupdict`) and the template path -/
structure PatResult where
  groups : Option Vars
  tmpl : Str
  deriving Repr

inductive Action where
  | noop                                   -- target left untouched
  | write (tmpl : Str) (vars : Vars)       -- `new_path.write_text(render(tmpl, process_var_map(vars)))`
  deriving Repr, DecidableEq

/-- the `for pattern, tmpl_path in template_pattern_map.items(): … break` loop -/
def firstMatch : List PatResult → Option (Str × Vars)
  | [] => none
  | p :: rest =>
    match p.groups with
    | some g => some (p.tmpl, g)
    | none => firstMatch rest

/-- `init_from_template` -/
def init (targetExists overwrite : Bool) (pats : List PatResult) (explicit : Option Str) (vars : Vars) : Action :=
  if targetExists && !overwrite then .noop
  else
    match firstMatch pats with
    | some (t, g) => .write t (merge vars g)
    | none =>
      match explicit with
      | some t => .write t vars
      | none => .noop

/-- `_var_map_value`: does the value look like `YYYYMMDD` (`^[0-9]{4}[01][0-9][0-3][0-9]$`)? -/
def looksLikeDate (v : Str) : Bool :=
  match v with
  | [a, b, c, d, e, f, g, h] =>
    isDigit a && isDigit b && isDigit c && isDigit d && (e == '0' || e == '1') && isDigit f &&
      (g == '0' || g == '1' || g == '2' || g == '3') && isDigit h
  | _ => false

/-- file content after the call; `render` stands for jinja2 on the pre-processed template -/
def step (render : Str → Vars → Str) (overwrite : Bool) (pats : List PatResult) (explicit : Option Str)
    (vars : Vars) (content : Option Str) : Option Str :=
  match init content.isSome overwrite pats explicit vars with
  | .noop => content
  | .write t vs => some (render t vs)

/-! ### `_build_template_in_dir` -/

def isPyWhitespace (c : Char) : Bool :=
  c == ' ' || c == '\t' || c == '\n' || c == '\r' || c == '\x0b' || c == '\x0c'

def isBlank (line : Str) : Bool := line.all isPyWhitespace

def strip (s : Str) : Str := ((s.dropWhile isPyWhitespace).reverse.dropWhile isPyWhitespace).reverse

/-- lines of a text file as Python's file iteration yields them (terminators kept) -/
def fileLines : Str → List Str
  | [] => []
  | c :: cs =>
    if c = '\n' then [c] :: fileLines cs
    else match fileLines cs with
      | [] => [[c]]
      | l :: ls =>
        -- `c` belongs to the first line of the rest unless the rest starts a new line
        (c :: l) :: ls

def demote (line : Str) : Str :=
  if startsWith line "## ".toList || strip line == "##".toList then line.drop 1 else line

/-- drop everything up to and including the first blank line, then `## ` → `# ` -/
def buildLines : Bool → List Str → List Str
  | _, [] => []
  | false, l :: ls => if isBlank l then buildLines true ls else buildLines false ls
  | true, l :: ls => demote l :: buildLines true ls

def build (txt : Str) : Str := (buildLines false (fileLines txt)).flatten

end ZorgVerif.Template
