import ZorgVerif.Model.Rename
/-! Model of `src/zorg/service/swog/_saved_queries.py`. `σ` maps a saved-query name to the text of
`zoq/NAME.zoq` (`none` = the file does not exist). -/
namespace ZorgVerif.Saved
open ZorgVerif

/-- `re.findall(r"\{(.*?)\}", s)`: non-greedy, no newline inside -/
def refNames : Nat → Str → List Str
  | 0, _ => []
  | _ + 1, [] => []
  | fuel + 1, c :: cs =>
    if c = '{' then
      let name := cs.takeWhile (fun d => d != '}' && d != '\n')
      match cs.drop name.length with
      | '}' :: rest => name :: refNames fuel rest
      | _ => refNames fuel cs        -- no closing brace on this line: try again from the next character
    else refNames fuel cs

def dedupStr : List Str → List Str
  | [] => []
  | x :: xs => x :: (dedupStr xs).filter (· != x)

/-- the set of names, in first-occurrence order (Python iterates a `set`; the order is irrelevant as long
as substituted texts contain no braces, which holds for fully expanded filters) -/
def names (s : Str) : List Str := dedupStr (refNames (s.length + 1) s)

/-- the loop over `qstring.split(" ")` collecting the words between `W` and `O`/`G` -/
def whereWords : Bool → List Str → List Str
  | _, [] => []
  | inW, w :: ws =>
    if w = ['W'] then whereWords true ws
    else if w = ['O'] || w = ['G'] then whereWords false ws
    else if inW then w :: whereWords inW ws else whereWords inW ws

def firstLine (s : Str) : Str := s.takeWhile (· != '\n')

def hasInfix (pat s : Str) : Bool := (List.range (s.length + 1)).any (fun i => pat.isPrefixOf (s.drop i))

def substAll (subs : List (Str × Str)) (s : Str) : Str :=
  subs.foldl (fun acc (nm, txt) => Rename.replaceAll ('{' :: nm ++ ['}']) txt acc) s

/-- look every name up; `none` as soon as one of them fails -/
def collect (f : Str → Option Str) : List Str → Option (List (Str × Str))
  | [] => some []
  | n :: ns =>
    match f n, collect f ns with
    | some t, some r => some ((n, t) :: r)
    | _, _ => none

/-- the WHERE words of a saved query page: first line minus `# `, words between `W` and `O`/`G` -/
def whereText (content : Str) : Str :=
  joinWith [' '] (whereWords false (splitOn ' ' ((firstLine content).drop 2)))

/-- `_get_saved_where_filter` -/
def savedWhere (σ : Str → Option Str) : Nat → Str → Option Str
  | 0, _ => none     -- Python: RecursionError (cyclic saved queries)
  | fuel + 1, name =>
    match σ name with
    | none => none
    | some content =>
      let w := whereText content
      match collect (savedWhere σ fuel) (names w) with
      | none => none
      | some subs =>
        let w' := substAll subs w
        some (if hasInfix " | ".toList w' then '(' :: w' ++ [')'] else w')

/-- `expand_saved_queries` -/
def expand (σ : Str → Option Str) (fuel : Nat) (q : Str) : Option Str :=
  match collect (savedWhere σ fuel) (names q) with
  | none => none
  | some subs => some (substAll subs q)

end ZorgVerif.Saved
