import ZorgVerif.Model.Date
import ZorgVerif.Model.Lexer
import ZorgVerif.Model.Query
/-! Model of the `.zo` compiler: generated file lexer (Gen/FileLexer) + a reading of `ZorgFile.g4` at the
level the listener consumes (lines, atoms, `id` contexts) + the flag/counter state machine of
`_file_compiler.py`.  Anything outside the modelled fragment is reported as `syntaxError` (and never
compared as agreement). -/
namespace ZorgVerif.Zo
open ZorgVerif ZorgVerif.Lex
open ZorgVerif.Query (NoteKind TagKind)

/-! ### token classes of ZorgFile.g4 -/
def tagSymNames : List String := ["HASH", "AT_SIGN", "PERCENT", "PLUS"]
def nonTagSymNames : List String :=
  ["SYMBOL", "AMP", "EQUAL", "LANGLE", "LPAREN", "QMARK", "RANGLE", "RPAREN", "STAR", "TILDE", "UNDERSCORE"]
def idSymNames : List String := ["HASH", "DASH", "DOT", "FSLASH", "COLON"]
def anySymNames : List String :=
  ["SQUOTE", "DQUOTE", "HAT", "DOLLAR"] ++ nonTagSymNames ++ tagSymNames ++ idSymNames ++ ["'['", "']'"]
/-- tokens that start a `priv_id` (the `url` alternative starts with an `https` token too) -/
def idTokNames : List String := ["ID", "NUM_ID", "PRIORITY", "DATE", "TIME", "ZID", "'https'", "'http'", "LOWER_O", "LOWER_X"]

def isTagSym (t : Tok) : Bool := tagSymNames.contains t.name
def isNonTagSym (t : Tok) : Bool := nonTagSymNames.contains t.name
def isAnySym (t : Tok) : Bool := anySymNames.contains t.name
def isIdTok (t : Tok) : Bool := idTokNames.contains t.name
def isHttps (t : Tok) : Bool := t.name == "'https'" || t.name == "'http'"

def tagKindOf (t : Tok) : Option TagKind :=
  match t.name with
  | "HASH" => some .area | "AT_SIGN" => some .context | "PERCENT" => some .person | "PLUS" => some .project
  | _ => none

/-- what the listener hears while an atom is walked, in order -/
inductive Ev where
  | tag (k : TagKind) (name : Str)
  | link (name : Str)
  | prop (key value : Str) (quoted : Bool)
  | word                     -- `enterSpace_atom` with a non-empty atom
  | id (text : Str)          -- `enterId`
  | date (text : Str)        -- `enterDate` (always right after the `id` that contains it)
  deriving Repr, DecidableEq

inductive Err where
  | syntax (what : String)   -- ANTLR would report a syntax error (or the text is outside the modelled fragment)
  | crash (what : String)    -- the listener raises (IndexError / ValueError)
  | fuel
  deriving Repr, DecidableEq

def textOf (ts : List Tok) : Str := (ts.map (·.text)).flatten

/-! ### URLs: `url : url_schema url_domain url_port? url_path? url_query? url_fragment?` -/

def isPathPart (t : Tok) : Bool := t.name == "PERCENT" || t.name == "COLON" || t.name == "DASH" || t.name == "ID"
def isUrlAtom (t : Tok) : Bool := t.name == "ID" || t.name == "PERCENT" || t.name == "DASH" || t.name == "COLON" || t.name == "FSLASH"

/-- `(FSLASH url_path_part+)+`, greedy; returns consumed tokens -/
def urlPath : Nat → List Tok → List Tok × List Tok
  | 0, ts => ([], ts)
  | fuel + 1, s :: p :: rest =>
    if s.name == "FSLASH" && isPathPart p then
      let parts := (p :: rest).takeWhile isPathPart
      let r := (p :: rest).drop parts.length
      let (more, r') := urlPath fuel r
      (s :: parts ++ more, r')
    else ([], s :: p :: rest)
  | _ + 1, ts => ([], ts)

/-- a URL at the head of `ts` (starting at the `https` token); `none` if the schema/domain do not match -/
def parseUrl (ts : List Tok) : Option (List Tok × List Tok) :=
  match ts with
  | h :: c :: s1 :: s2 :: d :: rest =>
    if isHttps h && c.name == "COLON" && s1.name == "FSLASH" && s2.name == "FSLASH" && d.name == "ID" then
      -- domain: ID ('.' ID)*
      let rec dom : Nat → List Tok → List Tok × List Tok
        | 0, ts => ([], ts)
        | f + 1, dot :: i :: r => if dot.name == "DOT" && i.name == "ID" then let (a, b) := dom f r; (dot :: i :: a, b) else ([], dot :: i :: r)
        | _ + 1, ts => ([], ts)
      let (dm, r1) := dom rest.length rest
      -- port: ':' NUM_ID
      let (port, r2) : List Tok × List Tok := match r1 with
        | c :: n :: r => if c.name == "COLON" && n.name == "NUM_ID" then ([c, n], r) else ([], r1)
        | _ => ([], r1)
      let (path, r3) := urlPath r2.length r2
      -- query: QMARK url_key_val (AMP url_key_val)* ; url_key_val : url_atom EQUAL url_atom*
      let keyVal (ts : List Tok) : Option (List Tok × List Tok) := match ts with
        | a :: e :: r => if isUrlAtom a && e.name == "EQUAL" then
            let vs := r.takeWhile isUrlAtom; some (a :: e :: vs, r.drop vs.length) else none
        | _ => none
      let rec kvs : Nat → List Tok → List Tok × List Tok
        | 0, ts => ([], ts)
        | f + 1, amp :: r => if amp.name == "AMP" then
            match keyVal r with
            | some (kv, r') => let (a, b) := kvs f r'; (amp :: kv ++ a, b)
            | none => ([], amp :: r)
          else ([], amp :: r)
        | _ + 1, [] => ([], [])
      let (query, r4) : List Tok × List Tok := match r3 with
        | q :: r => if q.name == "QMARK" then
            match keyVal r with
            | some (kv, r') => let (a, b) := kvs r'.length r'; (q :: kv ++ a, b)
            | none => ([], r3)
          else ([], r3)
        | [] => ([], [])
      -- fragment: FSLASH? HASH url_path_part+ url_path?
      let (frag, r5) : List Tok × List Tok :=
        let (pre, r) : List Tok × List Tok := match r4 with
          | s :: r => if s.name == "FSLASH" && (match r with | h :: _ => h.name == "HASH" | [] => false) then ([s], r) else ([], r4)
          | [] => ([], [])
        match r with
        | h :: p :: r' => if h.name == "HASH" && isPathPart p then
            let parts := (p :: r').takeWhile isPathPart
            let r'' := (p :: r').drop parts.length
            let (pp, r''') := urlPath r''.length r''
            (pre ++ h :: parts ++ pp, r''')
          else ([], r4)
        | _ => ([], r4)
      some (h :: c :: s1 :: s2 :: d :: dm ++ port ++ path ++ query ++ frag, r5)
    else none
  | _ => none

/-! ### id groups -/

/-- `id_group : id (any_sym+ | id)*` and `after_word` tails: a run of any_sym / id tokens.  Emits one `id`
event per id token (a URL reached through `priv_id` is one id and one link), `date` after DATE ids. -/
def idRun : Nat → List Tok → List Ev × List Tok × List Tok
  | 0, ts => ([], [], ts)
  | fuel + 1, t :: rest =>
    if isHttps t then
      match parseUrl (t :: rest) with
      | some (u, r) =>
        let (evs, used, r') := idRun fuel r
        (.id (textOf u) :: .link ("x:".toList ++ textOf u) :: evs, u ++ used, r')
      | none =>
        let (evs, used, r') := idRun fuel rest
        (.id t.text :: evs, t :: used, r')
    else if isIdTok t then
      let (evs, used, r') := idRun fuel rest
      ((if t.name == "DATE" then [.id t.text, .date t.text] else [.id t.text]) ++ evs, t :: used, r')
    else if isAnySym t then
      let (evs, used, r') := idRun fuel rest
      (evs, t :: used, r')
    else ([], [], t :: rest)
  | _ + 1, [] => ([], [], [])

/-- a bracket form `open ID close` with bare tokens -/
def bracket3 (ts : List Tok) (openName : String) (midOk : Tok → Bool) : Option (Tok × List Tok) :=
  match ts with
  | o :: m :: c :: rest => if o.name == openName && midOk m && c.name == "']'" then some (m, rest) else none
  | _ => none

/-- the `word` at word position (after the before-words); returns events, whether a word was recognised,
and the rest.  `quoted` = inside a quoted word. -/
def wordAt (fuel : Nat) (quoted : Bool) (ts : List Tok) : Except Err (List Ev × List Tok) :=
  match ts with
  | [] => .ok ([], [])
  | t :: rest =>
    -- tag
    match tagKindOf t, rest with
    | some k, n :: rest' =>
      if isIdTok n && !quoted then
        -- `tag : HASH id`; the id may itself be a URL start (`#https://…`): not modelled
        if isHttps n then .error (.syntax "tag on a url")
        else .ok ((if n.name == "DATE" then [.tag k n.text, .id n.text, .date n.text] else [.tag k n.text, .id n.text]), rest')
      else .ok ([], ts)
    | some _, [] => .ok ([], ts)
    | none, _ =>
      if t.name == "'[['" then
        let (evs, used, r) := idRun fuel rest
        match used, r with
        | _ :: _, c :: r' =>
          if c.name == "']]'" && (match used with | u :: _ => isIdTok u | [] => false) then .ok (.link (textOf used) :: evs, r')
          else .error (.syntax "malformed [[link]]")
        | _, _ => .error (.syntax "malformed [[link]]")
      else if t.name == "'(('" then
        let (evs, used, r) := idRun fuel rest
        match used, r with
        | u :: _, c :: r' => if c.name == "'))'" && isIdTok u then .ok (evs, r') else .error (.syntax "malformed ((embed))")
        | _, _ => .error (.syntax "malformed ((embed))")
      else if t.name == "'[#'" then
        match bracket3 ts "'[#'" (·.name == "ID") with
        | some (m, r) => .ok ([.link ("global:".toList ++ m.text)], r)
        | none => .error (.syntax "malformed [#id]")
      else if t.name == "'[@'" then
        match bracket3 ts "'[@'" (·.name == "ID") with
        | some (m, r) => .ok ([.link ("ref:".toList ++ m.text)], r)
        | none => .error (.syntax "malformed [@id]")
      else if t.name == "'[^'" then
        match bracket3 ts "'[^'" (·.name == "ID") with
        | some (m, r) => .ok ((if m.text == ['X'] then [] else [.link ("local:".toList ++ m.text)]), r)
        | none => .error (.syntax "malformed [^id]")
      else if t.name == "'['" then
        match bracket3 ts "'['" (·.name == "ZID") with
        | some (m, r) => .ok ([.link ("zid:".toList ++ m.text)], r)
        | none => .ok ([], ts)      -- a plain '[' symbol (inline properties are handled by the caller)
      else if isIdTok t then
        -- simple_prop : id COLON COLON (id | url)
        match rest with
        | c1 :: c2 :: v :: rest' =>
          if c1.name == "COLON" && c2.name == "COLON" && isIdTok v && !isHttps t then
            if isHttps v then
              match parseUrl (v :: rest') with
              | some (u, r) => .ok ([.id t.text, .prop t.text (textOf u) quoted, .id (textOf u), .link ("x:".toList ++ textOf u)], r)
              | none => .ok ([.id t.text, .prop t.text v.text quoted, .id v.text], rest')
            else
              .ok ((if t.name == "DATE" then [.id t.text, .date t.text] else [.id t.text]) ++ [.prop t.text v.text quoted] ++
                   (if v.name == "DATE" then [.id v.text, .date v.text] else [.id v.text]), rest')
          else
            let (evs, _, r) := idRun fuel ts
            .ok (evs, r)
        | _ =>
          let (evs, _, r) := idRun fuel ts
          .ok (evs, r)
      else .ok ([], ts)

/-- the remainder of a word after its `word`: `after_word*` — must start with an any_sym and consist of
any_sym / id tokens up to the next SPACE (or end of line) -/
def afterWords (fuel : Nat) (ts : List Tok) : Except Err (List Ev × List Tok) :=
  match ts with
  | [] => .ok ([], [])
  | t :: _ =>
    if t.name == "SPACE" then .ok ([], ts)
    else if isAnySym t then
      let (evs, _, r) := idRun fuel ts
      match r with
      | [] => .ok (evs, [])
      | s :: _ => if s.name == "SPACE" then .ok (evs, r) else .error (.syntax s!"token {s.name} inside a word")
    else .error (.syntax s!"token {t.name} cannot continue a word")

/-- quoted word: `SQUOTE quoted_word_body+ SQUOTE?` up to the end of the word; tag symbols are plain symbols -/
def quotedBody : Nat → List Tok → Except Err (List Ev × List Tok)
  | 0, _ => .error .fuel
  | _ + 1, [] => .ok ([], [])
  | fuel + 1, t :: rest =>
    if t.name == "SPACE" then .ok ([], t :: rest)
    else if isAnySym t then (quotedBody fuel rest).map (fun (e, r) => (e, r))
    else if t.name == "']]'" then quotedBody fuel rest
    else do
      let (evs, r) ← wordAt fuel true (t :: rest)
      if r.length < (t :: rest).length then do
        let (evs2, r2) ← quotedBody fuel r
        pure (evs ++ evs2, r2)
      else .error (.syntax s!"token {t.name} inside a quoted word")

/-- inline property `'[' id COLON COLON SPACE? id_group (SPACE id_group)* ']'` starting at `'['`.
The key `id` is one id token, or a URL made of schema and domain only (`[https://host:: value]`; longer URLs
as keys are outside the model: the split between `url_path` and `::` is decided by ALL(*) prediction). -/
def inlineProp (fuel : Nat) (ts : List Tok) : Option (Except Err (List Ev × List Tok)) :=
  match ts with
  | o :: k :: c1 :: c2 :: rest =>
    if o.name == "'['" && isIdTok k && !isHttps k && c1.name == "COLON" && c2.name == "COLON" then
      tail [k] [.id k.text] c1 c2 rest
    else if o.name == "'['" && isHttps k then
      match parseUrl (k :: c1 :: c2 :: rest) with
      | some (u, d1 :: d2 :: rest') =>
        if (u.drop 4).all (fun t => t.name == "ID" || t.name == "DOT") && d1.name == "COLON" && d2.name == "COLON" then
          tail u [.id (textOf u), .link ("x:".toList ++ textOf u)] d1 d2 rest'
        else none
      | _ => none
    else none
  | _ => none
where
  tail (key : List Tok) (keyEvs : List Ev) (c1 c2 : Tok) (rest : List Tok) : Option (Except Err (List Ev × List Tok)) :=
      -- `']'` is also an `any_sym`, so the value may run over a closing bracket: the parser (greedy loops, ALL(*) lookahead)
      -- closes the property at the LAST `']'` up to which the tokens still read as `SPACE? id_group (SPACE id_group)*`
      let run := rest.takeWhile (fun t => t.name == "SPACE" || isIdTok t || isAnySym t)
      let okUpTo (n : Nat) : Bool :=
        let inner := run.take n
        -- every word of the value starts with an id token
        let body := match inner with | s :: r => if s.name == "SPACE" then r else inner | [] => []
        !body.isEmpty && (body.head?.map isIdTok).getD false &&
          (body.zip (body.drop 1)).all (fun (a, b) => a.name != "SPACE" || isIdTok b) &&
          (body.getLast?.map (·.name != "SPACE")).getD false
      let cuts := (List.range run.length).filter (fun n => (run[n]?.map (·.name == "']'")).getD false && okUpTo n)
      let inner := match cuts.getLast? with | some n => run.take n | none => rest.takeWhile (fun t => t.name != "']'" && t.name != "NL")
      let wordsOk : Bool := cuts.getLast?.isSome
      match rest.drop inner.length with
      | c :: after =>
        if c.name == "']'" && wordsOk then
          -- the listener: `key, value = ctx.getText()[1:-1].split("::", maxsplit=1)`; value stripped
          let txt := textOf (key ++ c1 :: c2 :: inner)
          let idEvs := (inner.filter isIdTok).map (fun t => Ev.id t.text)
          match splitFirstDouble txt with
          | some (a, b) => some (.ok (keyEvs ++ .prop a (strip b) false :: idEvs, after))
          | none => some (.error (.crash "ValueError: inline prop split"))
        else none
      | [] => none
  /-- Python `s.split("::", maxsplit=1)` when `::` occurs -/
  splitFirstDouble (s : Str) : Option (Str × Str) :=
    let rec go : Str → Str → Option (Str × Str)
      | _, [] => none
      | acc, ':' :: ':' :: r => some (acc.reverse, r)
      | acc, c :: r => go (c :: acc) r
    go [] s
  strip (s : Str) : Str :=
    let ws (c : Char) : Bool := c == ' ' || c == '\t' || c == '\n' || c == '\r' || c == '\x0b' || c == '\x0c'
    ((s.dropWhile ws).reverse.dropWhile ws).reverse

/-- one atom after a SPACE: `tag_sym | word_group` -/
def atom (fuel : Nat) (ts : List Tok) : Except Err (List Ev × List Tok) :=
  match ts with
  | [] => .ok ([], [])
  | t :: rest =>
    if t.name == "SPACE" then .ok ([], ts)           -- empty atom
    else
      -- before_word* : non_tag_sym | DASH
      let pre := (t :: rest).takeWhile (fun x => isNonTagSym x || x.name == "DASH")
      let ts' := (t :: rest).drop pre.length
      match ts' with
      | [] => .ok ([], [])
      | w :: _ =>
        if w.name == "SPACE" then .ok ([], ts')
        else if w.name == "SQUOTE" || w.name == "DQUOTE" then quotedBody fuel (ts'.drop 1)
        else
          match inlineProp fuel ts' with
          | some r => do
            let (evs, r1) ← r
            let (evs2, r2) ← afterWords fuel r1
            pure (evs ++ evs2, r2)
          | none => do
            let (evs, r1) ← wordAt fuel false ts'
            let (evs2, r2) ← afterWords fuel r1
            pure (evs ++ evs2, r2)

/-- `space_atoms : (SPACE atom)+` up to the end of the line -/
def spaceAtoms : Nat → List Tok → Except Err (List Ev)
  | 0, _ => .error .fuel
  | _ + 1, [] => .ok []
  | fuel + 1, s :: rest =>
    if s.name == "SPACE" then do
      let (evs, r) ← atom fuel rest
      let more ← spaceAtoms fuel r
      -- the atom is non-empty iff it consumed a token
      pure ((if r.length < rest.length then [Ev.word] else []) ++ evs ++ more)
    else .error (.syntax s!"SPACE expected, got {s.name}")

/-! ### lines -/

/-- split the token stream at NL tokens; keeps the NL text (`\n` or `\r\n`) with the line it ends -/
def splitLines : List Tok → List Tok → List (List Tok × Str)
  | acc, [] => if acc.isEmpty then [] else [(acc.reverse, [])]
  | acc, t :: rest => if t.name == "NL" then (acc.reverse, t.text) :: splitLines [] rest else splitLines (t :: acc) rest

inductive LineKind where
  | blank
  | comment (atoms : List Tok)                    -- tokens after the HASH
  | header (level : Nat) (atoms : List Tok)       -- tokens after the marker
  | item (kind : NoteKind) (priority : Option Str) (atoms : List Tok)   -- tokens from the first SPACE of the body
  | cont (atoms : List Tok)                       -- continuation line: all its tokens (leading SPACEs included)
  | bad (what : String)
  deriving Repr

def todoKind (t : Tok) : Option NoteKind :=
  match t.name with
  | "LOWER_O" => some .openTodo | "LOWER_X" => some .closedTodo | "TILDE" => some .canceledTodo
  | "LANGLE" => some .blockedTodo | "RANGLE" => some .parentTodo | _ => none

def headerLevel (t : Tok) : Option Nat :=
  match t.name with
  | "H1_HEADER" => some 1 | "H2_HEADER" => some 2 | "H3_HEADER" => some 3 | "H4_HEADER" => some 4 | _ => none

def classify (ts : List Tok) : LineKind :=
  match ts with
  | [] => .blank
  | t :: rest =>
    if t.name == "HASH" then
      match rest with
      | [] => .comment []
      | s :: _ => if s.name == "SPACE" then .comment rest else .bad "comment must be `#` or `# …`"
    else match headerLevel t with
    | some k =>
      (match rest with
       | s :: _ :: _ => if s.name == "SPACE" then .header k rest else .bad "header marker must be followed by a space"
       | _ => .bad "header without title")
    | none =>
      if t.name == "DASH" then
        match rest with
        | s :: _ => if s.name == "SPACE" then .item .basic none rest else .bad "`-` must be followed by a space"
        | [] => .bad "`-` alone"
      else match todoKind t with
      | some k =>
        (match rest with
         | s :: p :: s2 :: more =>
           if s.name == "SPACE" && p.name == "PRIORITY" && s2.name == "SPACE" then .item k (some p.text) (s2 :: more)
           else if s.name == "SPACE" then .item k none rest else .bad "todo prefix must be followed by a space"
         | s :: _ => if s.name == "SPACE" then .item k none rest else .bad "todo prefix must be followed by a space"
         | [] => .bad "todo prefix alone")
      | none =>
        if t.name == "SPACE" then
          match rest with
          | s :: _ => if s.name == "SPACE" then .cont ts else .bad "continuation lines need two leading spaces"
          | [] => .bad "line with a single space"
        else .bad s!"line cannot start with {t.name}"

/-! ### bullet properties (`_add_note`) -/

/-- Python `s.split(sep)` for a non-empty separator string -/
def splitStr (sep : Str) : Nat → Str → Str → List Str
  | 0, acc, _ => [acc.reverse]
  | _ + 1, acc, [] => [acc.reverse]
  | f + 1, acc, c :: r =>
    if sep.isPrefixOf (c :: r) then acc.reverse :: splitStr sep f [] ((c :: r).drop sep.length)
    else splitStr sep f (c :: acc) r

def isWs (c : Char) : Bool := c == ' ' || c == '\t' || c == '\n' || c == '\r' || c == '\x0b' || c == '\x0c'

/-- Python `s.split()` (whitespace runs) -/
def splitWs (s : Str) : List Str :=
  let rec go : Str → Str → List Str
    | acc, [] => if acc.isEmpty then [] else [acc.reverse]
    | acc, c :: r => if isWs c then (if acc.isEmpty then go [] r else acc.reverse :: go [] r) else go (c :: acc) r
  go [] s

def strip (s : Str) : Str := ((s.dropWhile isWs).reverse.dropWhile isWs).reverse
def lstrip (s : Str) : Str := s.dropWhile isWs

def hasInfix (pat s : Str) : Bool := (List.range (s.length + 1)).any (fun i => pat.isPrefixOf (s.drop i))

/-- `is_short_date_spec`: six digits that form a real date (`20YYMMDD`) -/
def isShortDate (s : Str) : Bool := s.length == 6 && s.all isDigit && (Date.parseShort s).isSome
def isZid (s : Str) : Bool := (s.length == 9 || s.length == 10) && isShortDate (s.take 6) && s.getD 6 ' ' == '#'

/-- `"::" in (b.split() or [""])[0]` for the pieces after the first -/
def anyFirstWordHasColons (pieces : List Str) : Except Err Bool :=
  pure ((pieces.drop 1).any (fun b =>
    match splitWs b with
    | w :: _ => hasInfix "::".toList w
    | [] => false))

def takeLinesWhile (p : Str → Bool) (s : Str) : Str := joinWith ['\n'] ((splitOn '\n' s).takeWhile p)

/-- the bullet scan of `_add_note`: returns the bullet properties in order -/
def bulletProps (body : Str) : Except Err (List (Str × Str)) := do
  let l1 := "  * ".toList
  let l2 := "    - ".toList
  let l3 := "      + ".toList
  let n := body.length + 1
  let bullets0 : List Str := if hasInfix ":: ".toList body || hasInfix "::\n".toList body then splitStr l1 n [] body else []
  let any2 ← bullets0.foldlM (fun acc b => if acc then pure true else anyFirstWordHasColons (splitStr l2 n [] b)) false
  let bullets1 : List Str :=
    if any2 then (splitStr l2 n [] body).map (takeLinesWhile (fun x => !l1.isPrefixOf x)) else bullets0
  let any3 ← bullets1.foldlM (fun acc b => if acc then pure true else anyFirstWordHasColons (splitStr l3 n [] b)) false
  let bullets2 : List Str :=
    if any3 then (splitStr l3 n [] body).map (takeLinesWhile (fun x => !(l1.isPrefixOf x || l2.isPrefixOf x))) else bullets1
  let props ← bullets2.foldlM (fun acc bullet => do
    let words := splitWs bullet
    let words := match words with
      | w :: r => if isShortDate w then r else words
      | [] => []
    let words := match words with
      | w :: r => if isZid w then r else words
      | [] => []
    match words with
    | first :: r =>
      if "::".toList.isSuffixOf first then
        pure (acc ++ [(first.take (first.length - 2), joinWith [' '] r)])   -- `re.sub(r"\s+", " ", " ".join(words).strip())`
      else pure acc
    | [] => pure acc) []
  pure props

/-! ### the page -/

structure Scope where
  tags : List (TagKind × Str) := []
  links : List Str := []
  props : List (Str × Str) := []
  date : Option Date := none
  deriving Repr

structure Note where
  line : Nat
  kind : NoteKind
  priority : Option Str        -- `todo_payload.priority` (none for plain notes)
  body : Str
  zid : Option Str
  cdate : Date
  mdate : Date
  areas : List Str
  contexts : List Str
  people : List Str
  projects : List Str
  links : List Str
  props : List (Str × Str)     -- merged, sorted by key
  sectionPath : List Str       -- titles of the enclosing H1..H4 sections
  block : Nat                  -- running number of the block on the page
  deriving Repr

structure St where
  scopes : List (Nat × Str × Scope) := []   -- open sections, outermost first: (level, title, scope)
  file : Scope := {}
  notes : List Note := []
  blockOpen : Bool := false
  blockNo : Nat := 0
  seenH1 : Bool := false
  items : Nat := 0                          -- items with a non-empty body (for the has_errors flag)
  deriving Repr

def dropAllDigits (name : Str) : Bool := name.all isDigit   -- `_add_tag` drops these (also the empty name)

def addEv (quotedSkip : Bool) (sc : Scope) (takeTags takeProps takeDate : Bool) (ev : Ev) : Except Err Scope :=
  match ev with
  | .tag k name => pure (if takeTags && !dropAllDigits name then { sc with tags := sc.tags ++ [(k, name)] } else sc)
  | .link name => pure (if takeTags && !dropAllDigits name then { sc with links := sc.links ++ [name] } else sc)
  | .prop key value quoted => pure (if takeProps && !(quoted && quotedSkip) then { sc with props := sc.props.filter (·.1 != key) ++ [(key, value)] } else sc)
  | .date txt =>
    if takeDate then
      match Date.parseLong txt with
      | some d => pure { sc with date := some d }
      | none => pure sc          -- an impossible date (2024-02-30) is just a word
    else pure sc
  | .id _ => pure sc
  | .word => pure sc

def insertSortedStr (x : Str) : List Str → List Str
  | [] => [x]
  | y :: ys => if strLt x y then x :: y :: ys else if x == y then y :: ys else y :: insertSortedStr x ys

/-- `sorted(set(xs))` -/
def sortedSet (xs : List Str) : List Str := xs.foldr insertSortedStr []

def sortProps (ps : List (Str × Str)) : List (Str × Str) :=
  let rec ins (p : Str × Str) : List (Str × Str) → List (Str × Str)
    | [] => [p]
    | q :: qs => if strLt p.1 q.1 then p :: q :: qs else q :: ins p qs
  ps.foldr ins []

/-- right-biased dict merge -/
def mergeProps (a b : List (Str × Str)) : List (Str × Str) := a.filter (fun kv => !(b.map (·.1)).contains kv.1) ++ b

/-- identity words of a note from its `id` / `date` events (`enterId`, `enterDate`) -/
def identity (evs : List Ev) : Except Err (Option Date × Option Str × Option Date) :=
  -- (modify date, zid, note date)
  let rec go : Nat → Nat → Option Date → Option Str → Option Date → List Ev → Except Err (Option Date × Option Str × Option Date)
    | _, _, m, z, d, [] => pure (m, z, d)
    | n, w, m, z, d, .word :: rest => go n (w + 1) m z d rest
    | n, w, m, z, d, .id txt :: rest =>
      let n := n + 1
      if n != w then go n w m z d rest           -- the Nth id counts only if it is the Nth word
      else if n == 1 && isShortDate txt then
        match Date.parseShort txt with
        | some dt => go n w (some dt) z d rest
        | none => .error (.crash "ValueError: strptime")
      else if (n == 1 || (n == 2 && m.isSome)) && isZid txt then
        match Date.parseShort (txt.take 6) with
        | some dt => go n w m (some txt) (some dt) rest
        | none => .error (.crash "ValueError: strptime")
      else go n w m z d rest
    | n, w, m, z, d, .date txt :: rest =>
      if n == 1 && w == 1 && d.isNone then
        match Date.parseLong txt with
        | some dt => go n w m z (some dt) rest
        | none => go n w m z d rest
      else go n w m z d rest
    | n, w, m, z, d, _ :: rest => go n w m z d rest
  go 0 0 none none none evs

structure PageResult where
  notes : List Note
  hasErrors : Bool
  deriving Repr

def closeTo (k : Nat) (scopes : List (Nat × Str × Scope)) : List (Nat × Str × Scope) := scopes.filter (fun s => s.1 < k)

/-- all lines of one item: (first-line atoms, continuation lines with their NL texts) -/
structure Item where
  lineNo : Nat
  kind : NoteKind
  priority : Option Str
  first : List Tok
  firstNl : Str
  conts : List (List Tok × Str)

def itemBodyText (it : Item) : Str :=
  -- note_body.getText(): tokens of the first line from its first SPACE, then for each continuation line NL SPACE+ atoms
  let rec go (prevNl : Str) : List (List Tok × Str) → Str
    | [] => []
    | (ts, nl) :: rest => prevNl ++ textOf ts ++ go nl rest
  textOf it.first ++ go it.firstNl it.conts

def finishItem (today : Date) (defaultPriority : Str) (fuel : Nat) (st : St) (it : Item) : Except Err St := do
  let evs1 ← spaceAtoms fuel it.first
  let evs2 ← it.conts.foldlM (fun acc (ts, _) => do
    let e ← spaceAtoms fuel (ts.drop 1)
    pure (acc ++ e)) []
  let evs := evs1 ++ evs2
  let body := strip (itemBodyText it)
  if body.isEmpty then pure st       -- "Skipping todo with empty note body"
  else do
    let (mdate, zid, ndate) ← identity evs
    let noteScope ← evs.foldlM (fun sc ev => addEv true sc true true false ev) ({} : Scope)
    let bps ← bulletProps body
    let noteProps := bps.foldl (fun acc kv => acc.filter (·.1 != kv.1) ++ [kv]) noteScope.props
    let chain : List Scope := st.file :: st.scopes.map (·.2.2)
    let allTags := (chain.flatMap (·.tags)) ++ noteScope.tags
    let allLinks := (chain.flatMap (·.links)) ++ noteScope.links
    let props := (chain.foldl (fun acc sc => mergeProps acc sc.props) []) |> (mergeProps · noteProps)
    let cdate : Date := match ndate with
      | some d => d
      | none => ((st.scopes.reverse.map (·.2.2.date)) ++ [st.file.date]).findSome? id |>.getD today
    let tagsOf (k : TagKind) : List Str := sortedSet ((allTags.filter (·.1 == k)).map (·.2))
    let note : Note := {
      line := it.lineNo, kind := it.kind,
      priority := if it.kind == .basic then none else some (it.priority.getD defaultPriority),
      body := body, zid := zid, cdate := cdate, mdate := mdate.getD cdate,
      areas := tagsOf .area, contexts := tagsOf .context, people := tagsOf .person, projects := tagsOf .project,
      links := sortedSet allLinks, props := sortProps props,
      sectionPath := st.scopes.map (·.2.1), block := st.blockNo }
    pure { st with notes := st.notes ++ [note], items := st.items + 1 }

/-- body lines after the head -/
def bodyLines (today : Date) (dp : Str) (fuel : Nat) : Nat → St → Option Item → List (Nat × List Tok × Str) → Except Err St
  | 0, _, _, _ => .error .fuel
  | _ + 1, st, cur, [] =>
    match cur with
    | some it => finishItem today dp fuel st it
    | none => pure st
  | f + 1, st, cur, (no, ts, nl) :: rest =>
    match classify ts with
    | .cont atoms =>
      if nl.isEmpty then .error (.syntax "missing newline at end of file") else
      match cur with
      | some it => bodyLines today dp fuel f st (some { it with conts := it.conts ++ [(atoms, nl)] }) rest
      | none => .error (.syntax "continuation line without an item")
    | k => do
      let st ← match cur with
        | some it => finishItem today dp fuel st it
        | none => pure st
      match k with
      | .blank => bodyLines today dp fuel f { st with blockOpen := false } none rest
      | .comment atoms => do
        if nl.isEmpty then .error (.syntax "missing newline at end of file") else
        let _ ← spaceAtoms fuel atoms
        let st := if st.blockOpen then st else { st with blockOpen := true, blockNo := st.blockNo + 1 }
        bodyLines today dp fuel f st none rest
      | .item kind prio atoms =>
        if nl.isEmpty then .error (.syntax "missing newline at end of file") else
        let st := if st.blockOpen then st else { st with blockOpen := true, blockNo := st.blockNo + 1 }
        bodyLines today dp fuel f st (some ⟨no, kind, prio, atoms, nl, []⟩) rest
      | .header level atoms => do
        -- H(k+1) only inside H(k); top-level H2 sections only before the first H1
        let open_ := closeTo level st.scopes
        let parentOk : Bool :=
          if level == 1 then true
          else if level == 2 then (open_.any (·.1 == 1)) || !st.seenH1
          else open_.any (·.1 == level - 1)
        if !parentOk then .error (.syntax s!"H{level} header outside an H{level - 1} section")
        else do
          let evs ← spaceAtoms fuel atoms
          let sc ← evs.foldlM (fun sc ev => addEv true sc true true true ev) ({} : Scope)
          let title := strip (textOf atoms)
          bodyLines today dp fuel f { st with scopes := open_ ++ [(level, title, sc)], blockOpen := false,
                                               seenH1 := st.seenH1 || level == 1 } none rest
      | .bad w => .error (.syntax w)
      | .cont _ => .error (.syntax "unreachable")

/-- Outside the modelled fragment: a word (run of tokens without SPACE / NL) that contains a URL scheme token together with
`::`.  How ANTLR splits such a word between `url`, `simple_prop` and `inline_prop` (URL as key, `::` inside a URL path, URL as
inline value) is decided by ALL(*) prediction and is not modelled; the driver answers "unsupported" for such pages. -/
def hasUrlColonWord (toks : List Tok) : Bool :=
  let rec go : Bool → Bool → Bool → List Tok → Bool
    | url, dbl, _, [] => url && dbl
    | url, dbl, prevColon, t :: rest =>
      if t.name == "SPACE" || t.name == "NL" then (url && dbl) || go false false false rest
      else go (url || isHttps t) (dbl || (prevColon && t.name == "COLON")) (t.name == "COLON") rest
  go false false false toks

/-- `walk_zorg_page` on a token list -/
def compileToks (today : Date) (dp : Str) (toks : List Tok) : Except Err PageResult := do
  let fuel := toks.length + 2
  let lines := splitLines [] toks
  let numbered := (List.range lines.length).zip lines |>.map (fun (i, (ts, nl)) => (i + 1, ts, nl))
  -- head: comment+
  let headLines := numbered.takeWhile (fun (_, ts, _) => match classify ts with | .comment _ => true | _ => false)
  if headLines.isEmpty then .error (.syntax "page must start with a comment line")
  else do
    let (file, _) ← headLines.foldlM (fun (acc : Scope × Bool) (_, ts, _) => do
      let evs ← spaceAtoms fuel (ts.drop 1)
      -- tags, links and the date only from the first comment; properties from the whole head
      let sc ← evs.foldlM (fun sc ev => addEv true sc acc.2 true acc.2 ev) acc.1
      pure (sc, false)) (({} : Scope), true)
    let rest := numbered.drop headLines.length
    match rest with
    | [] =>
      -- `head body? EOF`: the last comment line must be terminated by NL
      match headLines.getLast? with
      | some (_, _, nl) => if nl.isEmpty then .error (.syntax "missing newline after the header") else pure ⟨[], false⟩
      | none => .error (.syntax "unreachable")
    | (_, ts, _) :: _ =>
      if !ts.isEmpty then .error (.syntax "the header must be followed by a blank line")
      else do
        let st ← bodyLines today dp fuel (rest.length + 1) { file := file } none rest
        pure ⟨st.notes, false⟩

end ZorgVerif.Zo
