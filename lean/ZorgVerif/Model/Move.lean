import ZorgVerif.Model.Rename
import ZorgVerif.Model.NoteText
/-! Model of `note_utils._add_hidden_metadata` / `_to_done_note` and of the text `note move` writes into the
destination page (`Note.to_string()` of the mutated note). -/
namespace ZorgVerif.Move
open ZorgVerif

def isWs (c : Char) : Bool := c == ' ' || c == '\t' || c == '\n' || c == '\r' || c == '\x0b' || c == '\x0c'

/-- Python `s.split()` (runs of whitespace) -/
def splitWs (s : Str) : List Str :=
  let rec go : Str → Str → List Str
    | acc, [] => if acc.isEmpty then [] else [acc.reverse]
    | acc, c :: r => if isWs c then (if acc.isEmpty then go [] r else acc.reverse :: go [] r) else go (c :: acc) r
  go [] s

/-- `word.rstrip("),.?!;:").lstrip("(")` -/
def stripTagWord (w : Str) : Str :=
  ((w.reverse.dropWhile (fun c => "),.?!;:".toList.contains c)).reverse).dropWhile (· == '(')

/-- `_note_body_has_tag` -/
def bodyHasTag (body tag : Str) : Bool := (splitWs body).any (fun w => stripTagWord w == tag)

/-- substring test (`key + "::" in body`) -/
def occurs (pat s : Str) : Bool := (List.range (s.length + 1)).any (fun i => pat.isPrefixOf (s.drop i))

/-- the note's metadata as the index returns it (each list sorted, as `sorted(...)` in the code) -/
structure Meta where
  projects : List Str
  areas : List Str
  contexts : List Str
  people : List Str
  props : List (Str × Str)

/-- tag words that `_get_hidden_metadata_mutates` finds missing in the body, in its order (+ # @ %), then properties -/
def missingWords (body : Str) (m : Meta) : List Str :=
  let tags (ch : Char) (ts : List Str) : List Str := (ts.filter (fun t => !bodyHasTag body (ch :: t))).map (fun t => ch :: t)
  tags '+' m.projects ++ tags '#' m.areas ++ tags '@' m.contexts ++ tags '%' m.people ++
  (m.props.filter (fun kv => !occurs (kv.1 ++ "::".toList) body)).map (fun kv => kv.1 ++ "::".toList ++ kv.2)

def extras (body : Str) (m : Meta) : Str := ((missingWords body m).map (fun w => ' ' :: w)).flatten

/-- `_add_hidden_metadata`: every occurrence of the ZID in the body is followed by the missing words -/
def addHiddenMetadata (body zid : Str) (m : Meta) : Str :=
  if (extras body m).isEmpty then body else Rename.replaceAll zid (zid ++ extras body m) body

/-- the text `add_note` receives: `to_string()` of the note with the requested done-marker and the hidden metadata -/
def movedText (kindChar : Char) (priority : Option Str) (marker : Option Char) (body zid : Str) (m : Meta) : Str :=
  let b := addHiddenMetadata body zid m
  match marker with
  | some k => NoteText.noteToString k none true b          -- `_to_done_note`: fresh TodoPayload(status) without priority
  | none => NoteText.noteToString kindChar priority (kindChar == 'x' || kindChar == '~') b

end ZorgVerif.Move
