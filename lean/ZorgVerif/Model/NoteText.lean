import ZorgVerif.Model.Date
import ZorgVerif.Model.Query
/-! Line-level text operations of `service/handlers.py`, `storage/sql/_repo.py::_add_zids`,
`storage/file/_manager.py` and `Note.to_string` — transcribed on `List Char`, Python's `str.split(" ")`
and `" ".join` included. -/
namespace ZorgVerif.NoteText
open ZorgVerif

inductive Err where
  | indexError (what : String)
  deriving Repr, DecidableEq

/-- `" ".join(words)` -/
def joinSp (ws : List Str) : Str := joinWith [' '] ws

/-- `_pop_line_before_zid(words)`: consumes indentation, the kind symbol and (for todos) the priority, then
extra spaces; returns the text to put back in front and the remaining words -/
def popLineBeforeZid (words : List Str) : Except Err (Str × List Str) :=
  let indent := words.takeWhile (· == [])
  match words.drop indent.length with
  | [] => .error (.indexError "words[0] while skipping indentation")
  | symbol :: rest =>
    match rest with
    | [] =>
      -- `symbol != "-" and len(words[0]) == 2 …` short-circuits for plain notes
      if symbol == ['-'] then .ok (List.replicate indent.length ' ' ++ symbol ++ [' '], [])
      else .error (.indexError "words[0] after the symbol")
    | w :: rest' =>
      let isPrio := symbol != ['-'] && (match w with | ['P', d] => isDigit d | _ => false)
      let (prio, rest2) : Str × List Str := if isPrio then (w ++ [' '], rest') else ([], w :: rest')
      let rest3 := rest2.dropWhile (· == [])
      .ok (List.replicate indent.length ' ' ++ symbol ++ [' '] ++ prio, rest3)

def isLongDate (s : Str) : Bool := Query.isLongDateSpec s

/-- `_add_zid_to_line(zid, line)` -/
def addZidToLine (zid line : Str) : Except Err Str := do
  let (pre, words) ← popLineBeforeZid (splitOn ' ' line)
  let words := match words with
    | w :: r => if isLongDate w then r else words
    | [] => []
  pure (pre ++ zid ++ [' '] ++ joinSp words)

def isSixDigits (s : Str) : Bool := s.length == 6 && s.all isDigit

/-- `_add_or_update_modify_date(short_modify_date, line)` -/
def addOrUpdateModifyDate (date line : Str) : Except Err Str := do
  let (pre, words) ← popLineBeforeZid (splitOn ' ' line)
  let words := match words with
    | w :: r => if isSixDigits w then r else words
    | [] => []
  pure (pre ++ date ++ [' '] ++ joinSp words)

/-- one note to rewrite: 1-based line number of its first line and the text to insert -/
structure Upd where
  lineNo : Nat
  thing : Str

/-- `_update_zo_file` on the list of lines (`text.split("\n")`): only the first line of each listed note
is rewritten, in the order given -/
def updateLines (f : Str → Str → Except Err Str) : List Upd → List Str → Except Err (List Str)
  | [], ls => .ok ls
  | u :: us, ls =>
    match ls[u.lineNo - 1]? with
    | none => .error (.indexError "new_note_lines[0]")
    | some l => do
      let l' ← f u.thing l
      updateLines f us (ls.set (u.lineNo - 1) l')

/-- body rewrite of `_add_zids`: `f"{zid} {old_body}"` with a leading long date dropped -/
def addZidToBody (zid body : Str) : Str :=
  let old := body.dropWhile (fun c => c == ' ' || c == '\t' || c == '\n' || c == '\r' || c == '\x0b' || c == '\x0c')
  let ws := splitOn ' ' old
  let old := match ws with
    | w :: r => if isLongDate w then joinSp r else old
    | [] => old
  zid ++ [' '] ++ old

/-- `Note.to_string()` -/
def noteToString (kindChar : Char) (priority : Option Str) (done : Bool) (body : Str) : Str :=
  let strip (s : Str) : Str :=
    let ws (c : Char) : Bool := c == ' ' || c == '\t' || c == '\n' || c == '\r' || c == '\x0b' || c == '\x0c'
    ((s.dropWhile ws).reverse.dropWhile ws).reverse
  [kindChar] ++ (match priority with | some p => if done then [] else ' ' :: p | none => []) ++ [' '] ++ strip body ++ ['\n']

/-! ### `_check_for_modified_notes` -/

structure NoteState where
  zid : Option Str
  body : Str
  kind : Query.NoteKind
  priority : Option Str
  cdate : Date
  mdate : Date
  deriving Repr, DecidableEq

/-- `Note.__eq__`: body and todo payload -/
def sameNote (a b : NoteState) : Bool := a.body == b.body && a.kind == b.kind && a.priority == b.priority

/-- is the freshly compiled note `n` stamped, given the old index state of its page? -/
def isStamped (today : Date) (old : List NoteState) (n : NoteState) : Bool :=
  match n.zid with
  | none => false
  | some z =>
    match old.find? (fun o => o.zid == some z) with
    | none => false
    | some o => !sameNote n o && n.mdate != today

/-- the indexed body after stamping -/
def stampedBody (todayShort : Str) (o n : NoteState) : Str :=
  let l := n.body.dropWhile (fun c => c == ' ' || c == '\t' || c == '\n' || c == '\r' || c == '\x0b' || c == '\x0c')
  let oldBody := if o.mdate == n.cdate then l else joinSp ((splitOn ' ' l).drop 1)
  todayShort ++ [' '] ++ oldBody

/-! ### `FileManager` -/

def startsWithItem (l : Str) : Bool :=
  ["- ", "o ", "~ ", "x ", "< ", "> "].any (fun p => p.toList.isPrefixOf l)

def isBlankLine (l : Str) : Bool := l.all (fun c => c == ' ' || c == '\t' || c == '\n' || c == '\r' || c == '\x0b' || c == '\x0c')

/-- `add_note`: index of the line that is replaced by the note text -/
def insertionIndex (lines : List Str) : Nat :=
  let rec go : Nat → Bool → Nat → List Str → Nat
    | _, _, start, [] => start
    | i, inNote, start, l :: rest =>
      let inNote := inNote || startsWithItem l
      if inNote && isBlankLine l then go (i + 1) false i rest else go (i + 1) inNote start rest
  go 0 false (lines.length - 1) lines

/-- `FileManager.add_note` on `text.split("\n")`; `noteLines` = `note.to_string().split("\n")` -/
def addNote (lines noteLines : List Str) : List Str :=
  let k := insertionIndex lines
  lines.take k ++ noteLines ++ lines.drop (k + 1)

def hasInfixStr (pat s : Str) : Bool := (List.range (s.length + 1)).any (fun i => pat.isPrefixOf (s.drop i))

/-- `FileManager.delete_note`: first line containing `" ZID "`, then `len(body.split("\n"))` lines -/
def deleteNote (lines : List Str) (zid : Str) (bodyLineCount : Nat) : Option (List Str) :=
  match lines.findIdx? (fun l => hasInfixStr ([' '] ++ zid ++ [' ']) l) with
  | none => none
  | some i => some (lines.take i ++ lines.drop (i + bodyLineCount))

end ZorgVerif.NoteText
