import ZorgVerif.Model.Date
import ZorgVerif.Model.Query
/-! Line-level text operations of `service/handlers.py`, `storage/sql/_repo.py::_add_zids`,
`storage/file/_manager.py` and `Note.to_string` — transcribed on `List Char`, Python's `str.split(" ")`
and `" ".join` included. -/
namespace ZorgVerif.NoteText
open ZorgVerif

inductive Err where
  | indexError (what : String)
  deriving Repr, DecidableEq

/-- `" ".join(words)` -/
def joinSp (ws : List Str) : Str := joinWith [' '] ws

/-- `_pop_line_before_zid(words)`: consumes indentation, the kind symbol and (for todos) the priority, then
extra spaces; returns the text to put back in front and the remaining words -/
def popLineBeforeZid (words : List Str) : Except Err (Str × List Str) :=
  let indent := words.takeWhile (· == [])
  match words.drop indent.length with
  | [] => .error (.indexError "words[0] while skipping indentation")
  | symbol :: rest =>
    match rest with
    | [] =>
      -- `symbol != "-" and len(words[0]) == 2 …` short-circuits for plain notes
      if symbol == ['-'] then .ok (List.replicate indent.length ' ' ++ symbol ++ [' '], [])
      else .error (.indexError "words[0] after the symbol")
    | w :: rest' =>
      let isPrio := symbol != ['-'] && (match w with | ['P', d] => isDigit d | _ => false)
      let (prio, rest2) : Str × List Str := if isPrio then (w ++ [' '], rest') else ([], w :: rest')
      let rest3 := rest2.dropWhile (· == [])
      .ok (List.replicate indent.length ' ' ++ symbol ++ [' '] ++ prio, rest3)

def isLongDate (s : Str) : Bool := Query.isLongDateSpec s

/-- `_add_zid_to_line(zid, line)` -/
def addZidToLine (zid line : Str) : Except Err Str := do
  let (pre, words) ← popLineBeforeZid (splitOn ' ' line)
  let words := match words with
    | w :: r => if isLongDate w then r else words
    | [] => []
  pure (pre ++ zid ++ [' '] ++ joinSp words)

def isSixDigits (s : Str) : Bool := s.length == 6 && s.all isDigit

/-- `_add_or_update_modify_date(short_modify_date, line)` -/
def addOrUpdateModifyDate (date line : Str) : Except Err Str := do
  let (pre, words) ← popLineBeforeZid (splitOn ' ' line)
  let words := match words with
    | w :: r => if isSixDigits w then r else words
    | [] => []
  pure (pre ++ date ++ [' '] ++ joinSp words)

/-- one note to rewrite: 1-based line number of its first line and the text to insert -/
structure Upd where
  lineNo : Nat
  thing : Str

/-- `_update_zo_file` on the list of lines (`text.split("\n")`): only the first line of each listed note
is rewritten, in the order given -/
def updateLines (f : Str → Str → Except Err Str) : List Upd → List Str → Except Err (List Str)
  | [], ls => .ok ls
  | u :: us, ls =>
    match ls[u.lineNo - 1]? with
    | none => .error (.indexError "new_note_lines[0]")
    | some l => do
      let l' ← f u.thing l
      updateLines f us (ls.set (u.lineNo - 1) l')

/-- body rewrite of `_add_zids`: `f"{zid} {old_body}"` with a leading long date dropped (the date is the first
whitespace-delimited word: it may be the only word of the first line) -/
def addZidToBody (zid body : Str) : Str :=
  let ws (c : Char) : Bool := c == ' ' || c == '\t' || c == '\n' || c == '\r' || c == '\x0b' || c == '\x0c'
  let old := body.dropWhile ws
  let first := old.takeWhile (fun c => !ws c)
  let old := if isLongDate first then
      let r := old.drop first.length
      match r with | ' ' :: r' => r' | _ => r
    else old
  zid ++ [' '] ++ old

/-- `Note.to_string()` -/
def noteToString (kindChar : Char) (priority : Option Str) (done : Bool) (body : Str) : Str :=
  let strip (s : Str) : Str :=
    let ws (c : Char) : Bool := c == ' ' || c == '\t' || c == '\n' || c == '\r' || c == '\x0b' || c == '\x0c'
    ((s.dropWhile ws).reverse.dropWhile ws).reverse
  [kindChar] ++ (match priority with | some p => if done then [] else ' ' :: p | none => []) ++ [' '] ++ strip body ++ ['\n']

/-! ### `_check_for_modified_notes` -/

structure NoteState where
  zid : Option Str
  body : Str
  kind : Query.NoteKind
  priority : Option Str
  cdate : Date
  mdate : Date
  deriving Repr, DecidableEq

/-- `Note.__eq__`: body and todo payload -/
def sameNote (a b : NoteState) : Bool := a.body == b.body && a.kind == b.kind && a.priority == b.priority

/-- is the freshly compiled note `n` stamped, given the old index state of its page? -/
def isStamped (today : Date) (old : List NoteState) (n : NoteState) : Bool :=
  match n.zid with
  | none => false
  | some z =>
    match old.find? (fun o => o.zid == some z) with
    | none => false
    | some o => !sameNote n o && n.mdate != today

/-- the indexed body after stamping -/
def stampedBody (todayShort : Str) (_o n : NoteState) : Str :=
  let l := n.body.dropWhile (fun c => c == ' ' || c == '\t' || c == '\n' || c == '\r' || c == '\x0b' || c == '\x0c')
  -- the stamp to replace is recognised in the note's current text (first word a short date), not in the old index row
  let oldBody := if !Query.isShortDateSpec ((splitOn ' ' l).headD []) then l else joinSp ((splitOn ' ' l).drop 1)
  todayShort ++ [' '] ++ oldBody

/-! ### `FileManager` -/

def startsWithItem (l : Str) : Bool :=
  ["- ", "o ", "~ ", "x ", "< ", "> "].any (fun p => p.toList.isPrefixOf l)

/-- `line.strip() == ""` (used for the line above the target on a header-only page) -/
def isWsLine (l : Str) : Bool := l.all (fun c => c == ' ' || c == '\t' || c == '\n' || c == '\r' || c == '\x0b' || c == '\x0c')

/-- `line == ""`: only an empty line ends a block (a line of spaces is a continuation line of the note) -/
def isBlankLine (l : Str) : Bool := l.isEmpty

/-- `add_note`: (index of the blank line that ends the last block, or the last line; was an item seen?;
is the scan still inside a note at the end of the page?) -/
def insertionIndex (lines : List Str) : Nat × Bool × Bool :=
  let rec go : Nat → Bool → Bool → Nat → List Str → Nat × Bool × Bool
    | _, inNote, found, start, [] => (start, found, inNote)
    | i, inNote, found, start, l :: rest =>
      let item := startsWithItem l
      let inNote := inNote || item
      let found := found || item
      if inNote && isBlankLine l then go (i + 1) false found i rest else go (i + 1) inNote found start rest
  go 0 false false (lines.length - 1) lines

/-- `FileManager.add_note` on `text.split("\n")`; `noteLines` = `note.to_string().split("\n")` (ends with `""`) -/
def addNote (lines noteLines : List Str) : List Str :=
  let (k, found, inNote) := insertionIndex lines
  let target := lines.getD k []
  if !isBlankLine target then
    -- no trailing newline: append (after an empty line unless the page ends with a note)
    lines.take (k + 1) ++ (if inNote then [] else [[]]) ++ noteLines
  else if !found && k > 0 && !isWsLine (lines.getD (k - 1) []) then lines.take (k + 1) ++ noteLines   -- header only
  else lines.take k ++ noteLines ++ lines.drop (k + 1)

def hasInfixStr (pat s : Str) : Bool := (List.range (s.length + 1)).any (fun i => pat.isPrefixOf (s.drop i))

/-- does `line` carry `zid` as its own identity: `^\s*[-ox~<>] (P[0-9] )?([0-9]{6} )?ZID( |$)` -/
def isFirstLineOf (zid line : Str) : Bool :=
  let l := line.dropWhile (fun c => c == ' ' || c == '\t' || c == '\x0b' || c == '\x0c' || c == '\r' || c == '\n')
  match l with
  | k :: ' ' :: rest =>
    if ['-', 'o', 'x', '~', '<', '>'].contains k then
      let rest := match rest with
        | 'P' :: d :: ' ' :: r => if isDigit d then r else rest
        | _ => rest
      let rest := if (rest.take 6).length == 6 && (rest.take 6).all isDigit && rest.getD 6 'x' == ' ' then rest.drop 7 else rest
      zid.isPrefixOf rest && (rest.length == zid.length || rest.getD zid.length 'x' == ' ')
    else false
  | _ => false

/-- `FileManager.delete_note`: the first line that carries the ZID in identity position, then
`len(body.split("\n"))` lines -/
def deleteNote (lines : List Str) (zid : Str) (bodyLineCount : Nat) : Option (List Str) :=
  match lines.findIdx? (isFirstLineOf zid) with
  | none => none
  | some i => some (lines.take i ++ lines.drop (i + bodyLineCount))

end ZorgVerif.NoteText
