import ZorgVerif.Model.Date
import ZorgVerif.Model.Lexer
/-! Model of the SWOG query front end: `build_zorg_query` = generated query lexer (Gen/QueryLexer) +
a recursive-descent reading of `ZorgQuery.g4` on token lists + the semantic actions of
`_query_compiler.py` (which work on `getText()` of the matched tokens). -/
namespace ZorgVerif.Query
open ZorgVerif ZorgVerif.Lex

inductive Err where
  | syntax (what : String)      -- the token list is not a sentence of the grammar (ANTLR would report/recover)
  | valueError (what : String)  -- Python raises ValueError (impossible date, …)
  | fuel
  deriving Repr, DecidableEq

inductive SelectField where
  | file | note | prop | propValues (key : Str) | links | area | context | person | project
  deriving Repr, DecidableEq

inductive Select where
  | field (f : SelectField)
  | count (f : SelectField)
  deriving Repr, DecidableEq

inductive NoteKind where
  | basic | openTodo | closedTodo | canceledTodo | blockedTodo | parentTodo
  deriving Repr, DecidableEq

inductive TagKind where
  | area | context | person | project
  deriving Repr, DecidableEq

inductive PropOp where
  | exists | eq | lt | le | gt | ge
  deriving Repr, DecidableEq

inductive VType where
  | date | integer | string
  deriving Repr, DecidableEq

inductive OrderBy where
  | alpha | createDate | modifyDate | none | noteType | priority
  deriving Repr, DecidableEq

inductive GroupBy where
  | area | context | file | noteType | person | priority | project | section
  deriving Repr, DecidableEq

structure DateRange where
  start : Date
  stop : Option Date
  deriving Repr, DecidableEq

/-- one `where_atom` other than a sub-filter, after the semantic action -/
inductive Atom where
  | kinds (ks : List NoteKind)
  | priorities (ps : List Nat)
  | tag (k : TagKind) (negated : Bool) (name : Str)
  | created (r : DateRange)
  | modified (r : DateRange)
  | prop (key value : Str) (op : PropOp) (vt : VType) (negated : Bool)
  | desc (value : Str) (caseSensitive : Bool) (negated : Bool)
  | file (glob : Str) (negated : Bool)
  | link (target : Str) (negated : Bool)
  deriving Repr, DecidableEq

/-- `WhereAndFilter`: atoms in source order (the code pools them into sets) and sub-filters -/
inductive AndF where
  | mk (atoms : List Atom) (subs : List (List AndF))
  deriving Repr

abbrev OrF := List AndF

structure Query where
  select : Select
  where_ : Option OrF
  orderBy : List OrderBy
  groupBy : List GroupBy
  deriving Repr

/-! ### token classes -/

def idNames : List String :=
  ["ID", "NUM_ID", "DATE_RANGE_TAIL", "PRIORITY", "DATE", "TIME", "ZID", "'file'", "'none'", "'type'",
   "'priority'", "'alpha'", "'create'", "'modify'", "'section'", "LOWER_O", "LOWER_X"]

def isId (t : Tok) : Bool := idNames.contains t.name

def kindOf (t : Tok) : Option NoteKind :=
  match t.name with
  | "DASH" => some .basic
  | "LOWER_O" => some .openTodo
  | "LOWER_X" => some .closedTodo
  | "TILDE" => some .canceledTodo
  | "LANGLE" => some .blockedTodo
  | "RANGLE" => some .parentTodo
  | _ => none

def tagOf (t : Tok) : Option TagKind :=
  match t.name with
  | "HASH" => some .area
  | "AT_SIGN" => some .context
  | "PERCENT" => some .person
  | "PLUS" => some .project
  | _ => none

def descSymNames : List String :=
  ["HAT", "DOLLAR", "SYMBOL", "AMP", "EQUAL", "LANGLE", "LPAREN", "QMARK", "RANGLE", "RPAREN", "STAR", "TILDE",
   "UNDERSCORE", "DASH", "DOT", "FSLASH", "COLON", "HASH", "AT_SIGN", "PERCENT", "PLUS"]

/-- may token `t` occur inside a quoted text delimited by `quote`? -/
def descTokOk (quote : String) (t : Tok) : Bool :=
  isId t || descSymNames.contains t.name ||
    (t.name == "SQUOTE" && quote == "DQUOTE") || (t.name == "DQUOTE" && quote == "SQUOTE")

def digit19 : List String := ["'1'", "'2'", "'3'", "'4'", "'5'", "'6'", "'7'", "'8'", "'9'"]

/-- property value position: `id | STAR` by the grammar; single digits 1-9 (literal tokens) and bare
short/relative dates (`ZDATE`) are not `id`s, the parser reports them and recovers with the token kept
inside the `prop_filter` context (the test-suite's `p:>5` and the documented `due:<=0d` rely on it) -/
def isValueTok (t : Tok) : Bool :=
  isId t || t.name == "STAR" || digit19.contains t.name || t.name == "ZDATE"

/-! ### dates (`shared/dates.py`) -/

def allDigits (s : Str) : Bool := s.all isDigit

/-- `is_short_date_spec`: six digits that form a real date -/
def isShortDateSpec (s : Str) : Bool := s.length == 6 && allDigits s && (Date.parseShort s).isSome

def isLongDateSpec (s : Str) : Bool :=
  match s with
  | [a, b, c, d, e, f, g, h, i, j] => e == '-' && h == '-' && allDigits [a, b, c, d, f, g, i, j]
  | _ => false

def lowerAscii (c : Char) : Char := if 'A' ≤ c ∧ c ≤ 'Z' then Char.ofNat (c.toNat + 32) else c

def isRelativeDateSpec (s : Str) : Bool :=
  let s := match s with | '-' :: r => r | _ => s
  match s.reverse with
  | u :: r => decide (s.length > 1) && !r.isEmpty && allDigits r &&
      (lowerAscii u == 'd' || lowerAscii u == 'm' || lowerAscii u == 'y')
  | [] => false

def isDateSpec (s : Str) : Bool := isShortDateSpec s || isLongDateSpec s || isRelativeDateSpec s

/-- `_from_relative_date_spec` (with `start_date = today`) -/
def fromRelative (today : Date) (spec : Str) : Except Err Date :=
  let spec := spec.map lowerAscii
  let (past, spec) := match spec with | '-' :: r => (true, r) | _ => (false, spec)
  match spec.reverse with
  | u :: rn =>
    let n := natOfDigits rn.reverse
    let res : Option Date :=
      if u == 'd' then some (if past then Date.subDays n today else Date.addDays n today)
      else if u == 'm' then (if past then Date.subMonths n today else some (Date.addMonths n today))
      else if past then Date.subYears n today else some (Date.addYears n today)
    match res with
    | some d => if d.valid then .ok d else .error (.valueError "date out of range")
    | none => .error (.valueError "date out of range")
  | [] => .error (.valueError "empty spec")

/-- `from_date_spec` -/
def fromDateSpec (today : Date) (spec : Str) : Except Err Date :=
  if isShortDateSpec spec then
    match Date.parseShort spec with | some d => .ok d | none => .error (.valueError "strptime")
  else if isLongDateSpec spec then
    match Date.parseLong spec with | some d => .ok d | none => .error (.valueError "strptime")
  else if isRelativeDateSpec spec then fromRelative today spec
  else .error (.valueError "Unrecognize date format")

/-! ### semantic actions -/

def valueType (v : Str) : VType :=
  if isDateSpec v then .date else if allDigits v then .integer else .string

/-- `_split_op_value` on the token texts after the colon (`opv` non-empty by grammar) -/
def splitOpValue (opv : Str) : PropOp × Str :=
  match opv with
  | '<' :: '=' :: r => (.le, r)
  | '<' :: r => (.lt, r)
  | '>' :: '=' :: r => (.ge, r)
  | '>' :: r => (.gt, r)
  | ['*'] => (.exists, [])
  | r => (.eq, r)

/-- `_add_priorities`: text `Pn` or `Pn-m` -/
def prioritiesOf (n : Nat) (m : Option Nat) : List Nat :=
  match m with
  | none => [n]
  | some m => (List.range (m + 1)).drop n

def textOf (ts : List Tok) : Str := (ts.map (·.text)).flatten

/-! ### recursive descent over tokens -/

abbrev P (α : Type) := List Tok → Except Err (α × List Tok)

def expect (name : String) : P Tok
  | t :: rest => if t.name == name then .ok (t, rest) else .error (.syntax s!"expected {name} got {t.name}")
  | [] => .error (.syntax s!"expected {name} got EOF")

def peekIs (name : String) : List Tok → Bool
  | t :: _ => t.name == name
  | [] => false

/-- `(id FSLASH)* id` — returns the matched tokens -/
def idPath : Nat → List Tok → Except Err (List Tok × List Tok)
  | 0, _ => .error .fuel
  | fuel + 1, t :: rest =>
    if isId t then
      match rest with
      | s :: rest' =>
        if s.name == "FSLASH" then
          match rest' with
          | u :: _ => if isId u then (idPath fuel rest').map (fun (a, r) => (t :: s :: a, r)) else .ok ([t], rest)
          | [] => .ok ([t], rest)
        else .ok ([t], rest)
      | [] => .ok ([t], [])
    else .error (.syntax "id expected")
  | _ + 1, [] => .error (.syntax "id expected, got EOF")

/-- the body of a quoted text up to the closing quote: groups of allowed tokens separated by single SPACEs -/
def quotedBody (quote : String) : Nat → Bool → List Tok → Except Err (List Tok × List Tok)
  | 0, _, _ => .error .fuel
  | _ + 1, _, [] => .error (.syntax "unterminated quote")
  | fuel + 1, inGroup, t :: rest =>
    if t.name == quote then
      if inGroup then .ok ([], rest) else .error (.syntax "empty group before closing quote")
    else if t.name == "SPACE" then
      if inGroup then (quotedBody quote fuel false rest).map (fun (a, r) => (t :: a, r))
      else .error (.syntax "space at group start")
    else if descTokOk quote t then (quotedBody quote fuel true rest).map (fun (a, r) => (t :: a, r))
    else .error (.syntax s!"token {t.name} not allowed in quoted text")

def parseDateRange (today : Date) (head : Tok) (rest : List Tok) : Except Err (DateRange × List Tok) := do
  let start ← fromDateSpec today (head.text.drop 1)
  match rest with
  | t :: rest' =>
    if t.name == "DATE_RANGE_TAIL" then do
      let stop ← fromDateSpec today (t.text.drop 1)
      pure (⟨start, some stop⟩, rest')
    else pure (⟨start, none⟩, rest)
  | [] => pure (⟨start, none⟩, [])

/-- atoms that may follow an optional `!` -/
def parseNegatable (fuel : Nat) (neg : Bool) (toks : List Tok) : Except Err (Atom × List Tok) :=
  match toks with
  | [] => .error (.syntax "atom expected, got EOF")
  | t :: rest =>
    match tagOf t with
    | some k =>
      match rest with
      | u :: rest' => if isId u then .ok (.tag k neg u.text, rest') else .error (.syntax "tag name expected")
      | [] => .error (.syntax "tag name expected")
    | none =>
      if t.name == "'c'" then
        match rest with
        | q :: rest' =>
          if q.name == "SQUOTE" || q.name == "DQUOTE" then
            (quotedBody q.name fuel false rest').map (fun (b, r) => (.desc (textOf b) true neg, r))
          else .error (.syntax "quote expected after c")
        | [] => .error (.syntax "quote expected after c")
      else if t.name == "SQUOTE" || t.name == "DQUOTE" then
        (quotedBody t.name fuel false rest).map (fun (b, r) => (.desc (textOf b) false neg, r))
      else if t.name == "'f='" then do
        -- (id FSLASH)* (STAR UNDERSCORE?)? id STAR?
        let (dirs, r1) : List Tok × List Tok :=
          let rec dirsGo : Nat → List Tok → List Tok × List Tok
            | 0, ts => ([], ts)
            | f + 1, a :: s :: ts => if isId a && s.name == "FSLASH" then
                let (d, r) := dirsGo f ts; (a :: s :: d, r) else ([], a :: s :: ts)
            | _ + 1, ts => ([], ts)
          dirsGo fuel rest
        let (star1, r2) : List Tok × List Tok := match r1 with
          | a :: b :: ts => if a.name == "STAR" then (if b.name == "UNDERSCORE" then ([a, b], ts) else ([a], b :: ts)) else ([], r1)
          | [a] => if a.name == "STAR" then ([a], []) else ([], r1)
          | [] => ([], [])
        match r2 with
        | a :: r3 =>
          if isId a then
            let (star2, r4) : List Tok × List Tok := match r3 with
              | b :: ts => if b.name == "STAR" then ([b], ts) else ([], r3)
              | [] => ([], [])
            let glob := textOf (dirs ++ star1 ++ [a] ++ star2)
            let glob := if glob.getLast? == some '*' then glob else glob ++ ".zo".toList
            .ok (.file glob neg, r4)
          else .error (.syntax "file name expected")
        | [] => .error (.syntax "file name expected")
      else if t.name == "'[['" then do
        let (path, r1) ← idPath fuel rest
        let (_, r2) ← expect "']]'" r1
        pure (.link (textOf path) neg, r2)
      else if isId t then
        -- prop_filter: id COLON prop_op? (id | STAR)
        match rest with
        | c :: r1 =>
          if c.name == "DATE_RANGE_TAIL" then
            -- `key:240101` / `key:0d`: the lexer glues ':' and the value into one token; the parser
            -- conjures the missing ':' and takes the tail token as the value `id`
            let (op, value) := splitOpValue (c.text.drop 1)
            .ok (.prop t.text value op (valueType value) neg, r1)
          else if c.name == "COLON" then
            let (opToks, r2) : List Tok × List Tok := match r1 with
              | o :: ts => if o.name == "LANGLE" || o.name == "'<='" || o.name == "'>='" || o.name == "RANGLE" then ([o], ts) else ([], r1)
              | [] => ([], [])
            match r2 with
            | v :: r3 =>
              if isValueTok v then
                let (op, value) := splitOpValue (textOf (opToks ++ [v]))
                .ok (.prop t.text value op (valueType value) neg, r3)
              else .error (.syntax "property value expected")
            | [] => .error (.syntax "property value expected")
          else .error (.syntax "':' expected after id")
        | [] => .error (.syntax "':' expected after id")
      else .error (.syntax s!"unexpected token {t.name}")

def kindsRun : List Tok → List NoteKind × List Tok
  | [] => ([], [])
  | t :: rest =>
    match kindOf t with
    | some k => let (ks, r) := kindsRun rest; (k :: ks, r)
    | none => ([], t :: rest)

mutual
/-- `where_atom`: either a plain atom or a sub-filter -/
def parseAtom (today : Date) : Nat → List Tok → Except Err ((Atom ⊕ OrF) × List Tok)
  | 0, _ => .error .fuel
  | _ + 1, [] => .error (.syntax "atom expected, got EOF")
  | fuel + 1, t :: rest =>
    if t.name == "LPAREN" then do
      let (o, r1) ← parseOr today fuel rest
      let (_, r2) ← expect "RPAREN" r1
      pure (.inr o, r2)
    else if t.name == "'!'" then
      (parseNegatable fuel true rest).map (fun (a, r) => (.inl a, r))
    else if t.name == "CREATE_RANGE_HEAD" then
      (parseDateRange today t rest).map (fun (d, r) => (.inl (.created d), r))
    else if t.name == "MODIFY_RANGE_HEAD" then
      (parseDateRange today t rest).map (fun (d, r) => (.inl (.modified d), r))
    else if isId t && (peekIs "COLON" rest ||
        (peekIs "DATE_RANGE_TAIL" rest && (kindOf t).isNone && t.name != "PRIORITY")) then
      (parseNegatable fuel false (t :: rest)).map (fun (a, r) => (.inl a, r))
    else if t.name == "PRIORITY" then
      let n := digitVal (t.text.getLastD '0')
      match rest with
      | d :: m :: rest' =>
        if d.name == "DASH" && digit19.contains m.name then
          .ok (.inl (.priorities (prioritiesOf n (some (digitVal (m.text.headD '0'))))), rest')
        else .ok (.inl (.priorities (prioritiesOf n none)), rest)
      | _ => .ok (.inl (.priorities (prioritiesOf n none)), rest)
    else if (kindOf t).isSome then
      let (ks, r) := kindsRun (t :: rest)
      .ok (.inl (.kinds ks), r)
    else (parseNegatable fuel false (t :: rest)).map (fun (a, r) => (.inl a, r))

/-- `and_filter : where_atom (SPACE where_atom)*` -/
def parseAnd (today : Date) : Nat → List Tok → Except Err (AndF × List Tok)
  | 0, _ => .error .fuel
  | fuel + 1, toks => do
    let (a, r1) ← parseAtom today fuel toks
    -- continue while `SPACE` is followed by something that starts an atom
    let more : Bool := match r1 with
      | s :: n :: _ => s.name == "SPACE" && !(n.name == "'|'" || n.name == "'O'" || n.name == "'G'")
      | _ => false
    if more then do
      let (AndF.mk atoms subs, r2) ← parseAnd today fuel (r1.drop 1)
      match a with
      | .inl x => pure (AndF.mk (x :: atoms) subs, r2)
      | .inr o => pure (AndF.mk atoms (o :: subs), r2)
    else
      match a with
      | .inl x => pure (AndF.mk [x] [], r1)
      | .inr o => pure (AndF.mk [] [o], r1)

/-- `or_filter : and_filter (SPACE '|' SPACE and_filter)*` -/
def parseOr (today : Date) : Nat → List Tok → Except Err (OrF × List Tok)
  | 0, _ => .error .fuel
  | fuel + 1, toks => do
    let (a, r1) ← parseAnd today fuel toks
    match r1 with
    | s :: b :: s2 :: r2 =>
      if s.name == "SPACE" && b.name == "'|'" && s2.name == "SPACE" then do
        let (o, r3) ← parseOr today fuel r2
        pure (a :: o, r3)
      else pure ([a], r1)
    | _ => pure ([a], r1)
end

def selectFieldOf : List Tok → Except Err (SelectField × List Tok)
  | [] => .error (.syntax "select field expected")
  | t :: rest =>
    match t.name with
    | "'file'" => .ok (.file, rest)
    | "'note'" => .ok (.note, rest)
    | "'links'" => .ok (.links, rest)
    | "AT_SIGN" => .ok (.context, rest)
    | "HASH" => .ok (.area, rest)
    | "PLUS" => .ok (.project, rest)
    | "PERCENT" => .ok (.person, rest)
    | "'prop'" =>
      match rest with
      | c :: k :: rest' => if c.name == "COLON" && isId k then .ok (.propValues k.text, rest') else .ok (.prop, rest)
      | _ => .ok (.prop, rest)
    | _ => .error (.syntax "select field expected")

/-- `select : 'S' SPACE select_body` (after the `'S' SPACE`) -/
def parseSelectBody (toks : List Tok) : Except Err (Select × List Tok) :=
  match toks with
  | t :: l :: rest =>
    if t.name == "'count'" && l.name == "LPAREN" then do
      let (f, r1) ← selectFieldOf rest
      let (_, r2) ← expect "RPAREN" r1
      pure (.count f, r2)
    else (selectFieldOf toks).map (fun (f, r) => (.field f, r))
  | _ => (selectFieldOf toks).map (fun (f, r) => (.field f, r))

def orderAtom (t : Tok) : Option OrderBy :=
  match t.name with
  | "'alpha'" => some .alpha | "'create'" => some .createDate | "'modify'" => some .modifyDate
  | "'priority'" => some .priority | "'type'" => some .noteType | "'none'" => some .none
  | _ => none

/-- `none` is accepted and contributes nothing -/
def groupAtom (t : Tok) : Option (Option GroupBy) :=
  match t.name with
  | "AT_SIGN" => some (some .context) | "HASH" => some (some .area) | "PERCENT" => some (some .person)
  | "PLUS" => some (some .project) | "'file'" => some (some .file) | "'type'" => some (some .noteType)
  | "'priority'" => some (some .priority) | "'section'" => some (some .section) | "'none'" => some none
  | _ => none

/-- `order_by_body : order_by_atom (SPACE order_by_atom)*` -/
def orderBody : Nat → List Tok → Except Err (List OrderBy × List Tok)
  | 0, _ => .error .fuel
  | _ + 1, [] => .error (.syntax "order atom expected")
  | fuel + 1, t :: rest =>
    match orderAtom t with
    | none => .error (.syntax "order atom expected")
    | some o =>
      match rest with
      | s :: n :: _ =>
        if s.name == "SPACE" && (orderAtom n).isSome then
          (orderBody fuel (rest.drop 1)).map (fun (os, r) => (o :: os, r))
        else .ok ([o], rest)
      | _ => .ok ([o], rest)

/-- `group_by_body`: 1 to 4 atoms -/
def groupBody : Nat → List Tok → Except Err (List GroupBy × List Tok)
  | 0, _ => .error (.syntax "more than four group-by atoms")
  | _ + 1, [] => .error (.syntax "group atom expected")
  | n + 1, t :: rest =>
    match groupAtom t with
    | none => .error (.syntax "group atom expected")
    | some g =>
      let here := match g with | some x => [x] | none => []
      match rest with
      | s :: m :: _ =>
        if s.name == "SPACE" && (groupAtom m).isSome && n > 0 then
          (groupBody n (rest.drop 1)).map (fun (gs, r) => (here ++ gs, r))
        else .ok (here, rest)
      | _ => .ok (here, rest)

/-- `order_and_group`, both clause orders; `none` = clause absent -/
def orderAndGroup (fuel : Nat) (toks : List Tok) : Except Err ((Option (List OrderBy) × Option (List GroupBy)) × List Tok) :=
  let clause (toks : List Tok) : Option (String × List Tok) :=
    match toks with
    | s :: k :: s2 :: rest => if s.name == "SPACE" && (k.name == "'O'" || k.name == "'G'") && s2.name == "SPACE" then some (k.name, rest) else none
    | _ => none
  match clause toks with
  | none => .ok ((none, none), toks)
  | some ("'O'", rest) => do
    let (os, r1) ← orderBody fuel rest
    match clause r1 with
    | some ("'G'", rest2) => do
      let (gs, r2) ← groupBody 4 rest2
      pure ((some os, some gs), r2)
    | _ => pure ((some os, none), r1)
  | some (_, rest) => do
    let (gs, r1) ← groupBody 4 rest
    match clause r1 with
    | some ("'O'", rest2) => do
      let (os, r2) ← orderBody fuel rest2
      pure ((some os, some gs), r2)
    | _ => pure ((none, some gs), r1)

structure Defaults where
  select : Select
  orderBy : List OrderBy
  groupBy : List GroupBy

/-- `prog : query NL?` on a token list -/
def parseToks (dflt : Defaults) (today : Date) (toks : List Tok) : Except Err Query := do
  let fuel := 3 * toks.length + 4
  -- optional select
  let (sel, r0) : Option Select × List Tok ← match toks with
    | s :: sp :: rest =>
      if s.name == "'S'" && sp.name == "SPACE" then do
        let (x, r) ← parseSelectBody rest
        pure (some x, r)
      else pure (none, toks)
    | _ => pure (none, toks)
  -- where (after a select it is introduced by SPACE)
  let (wh, r1) : Option OrF × List Tok ← match sel, r0 with
    | some _, sp :: w :: sp2 :: rest =>
      if sp.name == "SPACE" && w.name == "'W'" && sp2.name == "SPACE" then do
        let (o, r) ← parseOr today fuel rest
        pure (some o, r)
      else pure (none, r0)
    | some _, _ => pure (none, r0)
    | none, w :: sp2 :: rest =>
      if w.name == "'W'" && sp2.name == "SPACE" then do
        let (o, r) ← parseOr today fuel rest
        pure (some o, r)
      else .error (.syntax "query must start with S or W")
    | none, _ => .error (.syntax "query must start with S or W")
  let ((ob, gb), r2) ← orderAndGroup fuel r1
  let r3 := match r2 with | [t] => if t.name == "NL" then [] else r2 | _ => r2
  if !r3.isEmpty then .error (.syntax "trailing tokens")
  else pure ⟨sel.getD dflt.select, wh, ob.getD dflt.orderBy, gb.getD dflt.groupBy⟩

/-- `_process_query` of `app/config.py` (CLI normalisation of the query string) -/
def normalise (q : Str) : Str :=
  let q := if startsWith q "S ".toList || startsWith q "W ".toList then q else "W ".toList ++ q
  let hasInfix (pat s : Str) : Bool := (List.range (s.length + 1)).any (fun i => pat.isPrefixOf (s.drop i))
  let q := if !startsWith q "S ".toList && !hasInfix " G ".toList q then q ++ " G file".toList else q
  if startsWith q "S ".toList && !startsWith q "S note".toList && !hasInfix " O ".toList q then q ++ " O alpha".toList else q

end ZorgVerif.Query
