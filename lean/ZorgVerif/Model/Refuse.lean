/-! Decision logic of `create_database` / `reindex_database` about broken pages, and the flag the
compiler sets (`_add_note`: `has_errors := True` when a note is reached while the parser has errors). -/
namespace ZorgVerif.Refuse

/-- `Page.has_errors` as the code computes it -/
def flagged (parserErrors itemsReached : Nat) : Bool := decide (parserErrors > 0) && decide (itemsReached > 0)

inductive Decision where
  | index            -- page added to the index (all its notes)
  | indexWhitelisted -- broken page accepted because whitelisted / forced: recorded in the whitelist, no notes
  | refuse           -- RuntimeError, nothing committed
  deriving Repr, DecidableEq

/-- `create_database` per page -/
def createDecision (hasErrors whitelisted force : Bool) : Decision :=
  if hasErrors && (whitelisted || force) then .indexWhitelisted
  else if hasErrors then .refuse
  else .index

/-- `reindex_database` per changed page -/
def reindexDecision (hasErrors whitelisted : Bool) : Decision :=
  if hasErrors && !whitelisted then .refuse
  else if hasErrors then .indexWhitelisted
  else .index

end ZorgVerif.Refuse
