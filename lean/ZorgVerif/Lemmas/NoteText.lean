import ZorgVerif.Model.NoteText
/-! Lemmas about the line-level text operations of `ZorgVerif.Model.NoteText`. -/
namespace ZorgVerif.NoteText
open ZorgVerif

/-! ### (5) `updateLines` touches only the listed first lines -/

theorem updateLines_spec (f : Str → Str → Except Err Str) (us : List Upd) (ls ls' : List Str)
    (h : updateLines f us ls = .ok ls') :
    ls'.length = ls.length ∧
      ∀ i, (∀ u ∈ us, u.lineNo - 1 ≠ i) → ls'[i]? = ls[i]? := by
  induction us generalizing ls with
  | nil =>
    simp [updateLines] at h
    subst h
    simp
  | cons u us ih =>
    unfold updateLines at h
    cases hl : ls[u.lineNo - 1]? with
    | none => simp [hl] at h
    | some l =>
      simp only [hl] at h
      cases hf : f u.thing l with
      | error e => simp [hf, bind, Except.bind] at h
      | ok l' =>
        simp only [hf, bind, Except.bind] at h
        obtain ⟨h1, h2⟩ := ih _ h
        refine ⟨by simpa using h1, ?_⟩
        intro i hi
        rw [h2 i (fun u' hu' => hi u' (List.mem_cons_of_mem _ hu'))]
        have : u.lineNo - 1 ≠ i := hi u (List.mem_cons_self ..)
        exact List.getElem?_set_ne this

/-! ### (8) `isStamped` -/

theorem Date.beq_iff (a b : Date) : (a == b) = true ↔ a = b := by
  cases a; cases b
  simp [BEq.beq, instBEqDate.beq]

theorem Date.bne_iff (a b : Date) : (a != b) = true ↔ a ≠ b := by
  simp [bne, ← Date.beq_iff]

theorem isStamped_iff (today : Date) (old : List NoteState) (n : NoteState) :
    isStamped today old n = true ↔
      ∃ z o, n.zid = some z ∧ old.find? (fun o => o.zid == some z) = some o ∧
        sameNote n o = false ∧ n.mdate ≠ today := by
  unfold isStamped
  cases hz : n.zid with
  | none => simp
  | some z =>
    cases ho : old.find? (fun o => o.zid == some z) with
    | none => simp [ho]
    | some o => simp [ho, Date.bne_iff]


/-! ### (1) split / join -/

theorem splitOn_ne_nil (sep : Char) (s : Str) : splitOn sep s ≠ [] := by
  cases s with
  | nil => simp [splitOn]
  | cons c cs =>
    unfold splitOn
    split
    · simp
    · split <;> simp

theorem joinWith_cons_cons (sep x y : Str) (ys : List Str) :
    joinWith sep (x :: y :: ys) = x ++ sep ++ joinWith sep (y :: ys) := by
  simp [joinWith]

theorem joinWith_cons_of_ne_nil (sep x : Str) (xs : List Str) (h : xs ≠ []) :
    joinWith sep (x :: xs) = x ++ sep ++ joinWith sep xs := by
  cases xs with
  | nil => exact absurd rfl h
  | cons y ys => exact joinWith_cons_cons ..

theorem joinWith_consChar (sep : Str) (c : Char) (w : Str) (ws : List Str) :
    joinWith sep ((c :: w) :: ws) = c :: joinWith sep (w :: ws) := by
  cases ws with
  | nil => simp [joinWith]
  | cons y ys => simp [joinWith]

theorem joinWith_splitOn (sep : Char) (s : Str) : joinWith [sep] (splitOn sep s) = s := by
  induction s with
  | nil => simp [splitOn, joinWith]
  | cons c cs ih =>
    unfold splitOn
    split
    · next h =>
      rw [joinWith_cons_of_ne_nil _ _ _ (splitOn_ne_nil _ _), ih]; simp [h]
    · split
      · next h => exact absurd h (splitOn_ne_nil _ _)
      · next w ws h =>
        rw [joinWith_consChar, ← h, ih]

theorem joinSp_splitOn (s : Str) : joinSp (splitOn ' ' s) = s := joinWith_splitOn ' ' s

theorem splitOn_cons_of_ne (sep c : Char) (cs w : Str) (ws : List Str) (h : c ≠ sep)
    (hs : splitOn sep cs = w :: ws) : splitOn sep (c :: cs) = (c :: w) :: ws := by
  rw [splitOn, if_neg h, hs]

theorem splitOn_cons_sep (sep : Char) (cs : Str) : splitOn sep (sep :: cs) = [] :: splitOn sep cs := by
  rw [splitOn, if_pos rfl]

theorem splitOn_of_not_mem (sep : Char) (w : Str) (h : sep ∉ w) : splitOn sep w = [w] := by
  induction w with
  | nil => simp [splitOn]
  | cons c cs ih =>
    simp only [List.mem_cons, not_or] at h
    exact splitOn_cons_of_ne _ _ _ _ _ (fun e => h.1 e.symm) (ih h.2)

theorem splitOn_append_sep (sep : Char) (w t : Str) (h : sep ∉ w) :
    splitOn sep (w ++ sep :: t) = w :: splitOn sep t := by
  induction w with
  | nil => simp [splitOn_cons_sep]
  | cons c cs ih =>
    simp only [List.mem_cons, not_or] at h
    simp only [List.cons_append]
    exact splitOn_cons_of_ne _ _ _ _ _ (fun e => h.1 e.symm) (ih h.2)

theorem splitOn_joinWith (sep : Char) (ws : List Str) (h : ws ≠ []) (hw : ∀ w ∈ ws, sep ∉ w) :
    splitOn sep (joinWith [sep] ws) = ws := by
  induction ws with
  | nil => exact absurd rfl h
  | cons w ws ih =>
    cases ws with
    | nil => simpa [joinWith] using splitOn_of_not_mem sep w (hw w (List.mem_cons_self ..))
    | cons y ys =>
      rw [joinWith_cons_cons]
      simp only [List.append_assoc, List.singleton_append]
      rw [splitOn_append_sep _ _ _ (hw w (List.mem_cons_self ..)),
        ih (by simp) (fun w' hw' => hw w' (List.mem_cons_of_mem _ hw'))]

theorem splitOn_joinSp (ws : List Str) (h : ws ≠ []) (hw : ∀ w ∈ ws, ' ' ∉ w) :
    splitOn ' ' (joinSp ws) = ws := splitOn_joinWith ' ' ws h hw

/-! ### (2) shape -/

def isPrioWord (w : Str) : Bool := match w with | ['P', d] => isDigit d | _ => false

/-- the words of a first line -/
def shapeWords (k : Nat) (sym : Str) (prio : List Str) (j : Nat) (body : List Str) : List Str :=
  List.replicate k [] ++ [sym] ++ prio ++ List.replicate j [] ++ body

/-- the text put back in front of the ZID / date -/
def shapePre (k : Nat) (sym : Str) (prio : List Str) : Str :=
  List.replicate k ' ' ++ sym ++ [' '] ++ (match prio with | [p] => p ++ [' '] | _ => [])

theorem takeWhile_nil_replicate (k : Nat) (t : List Str) (h : t.head? ≠ some []) :
    (List.replicate k ([] : Str) ++ t).takeWhile (· == []) = List.replicate k [] := by
  induction k with
  | zero =>
    cases t with
    | nil => simp
    | cons x xs =>
      have : x ≠ [] := by simpa using h
      simp [this]
  | succ k ih =>
    show List.takeWhile _ ([] :: (List.replicate k [] ++ t)) = [] :: List.replicate k []
    rw [List.takeWhile_cons, ih]; rfl

theorem dropWhile_nil_replicate (k : Nat) (t : List Str) (h : t.head? ≠ some []) :
    (List.replicate k ([] : Str) ++ t).dropWhile (· == []) = t := by
  induction k with
  | zero =>
    cases t with
    | nil => simp
    | cons x xs =>
      have : x ≠ [] := by simpa using h
      simp [this]
  | succ k ih =>
    show List.dropWhile _ ([] :: (List.replicate k [] ++ t)) = t
    rw [List.dropWhile_cons]; exact ih

theorem popLineBeforeZid_cons_cons (k : Nat) (sym w : Str) (rest : List Str) (hsym : sym ≠ []) :
    popLineBeforeZid (List.replicate k [] ++ sym :: w :: rest) =
      .ok (List.replicate k ' ' ++ sym ++ [' '] ++
            (if (sym != ['-'] && isPrioWord w) = true then w ++ [' '] else []),
           (if (sym != ['-'] && isPrioWord w) = true then rest else w :: rest).dropWhile (· == [])) := by
  unfold popLineBeforeZid
  simp only [takeWhile_nil_replicate k (sym :: w :: rest) (by simpa using hsym)]
  simp only [List.length_replicate, List.drop_left']
  show Except.ok (_ ++ (if (sym != ['-'] && isPrioWord w) = true then (w ++ [' '], rest) else ([], w :: rest)).fst,
    List.dropWhile _ (if (sym != ['-'] && isPrioWord w) = true then (w ++ [' '], rest) else ([], w :: rest)).snd) = _
  cases (sym != ['-'] && isPrioWord w) <;> rfl

theorem popLineBeforeZid_singleton (k : Nat) (sym : Str) (hsym : sym ≠ []) :
    popLineBeforeZid (List.replicate k [] ++ [sym]) =
      if sym == ['-'] then .ok (List.replicate k ' ' ++ sym ++ [' '], [])
      else .error (.indexError "words[0] after the symbol") := by
  unfold popLineBeforeZid
  simp only [takeWhile_nil_replicate k [sym] (by simpa using hsym)]
  simp only [List.length_replicate, List.drop_left']

theorem popLineBeforeZid_noPrio_aux (k : Nat) (sym : Str) (t : List Str) (hsym : sym ≠ [])
    (hne : sym = ['-'] ∨ t ≠ [])
    (hnp : sym ≠ ['-'] → ∀ w, t.head? = some w → isPrioWord w = false) :
    popLineBeforeZid (List.replicate k [] ++ sym :: t) =
      .ok (List.replicate k ' ' ++ sym ++ [' '], t.dropWhile (· == [])) := by
  cases t with
  | nil =>
    have h : sym = ['-'] := by simpa using hne
    rw [popLineBeforeZid_singleton k sym hsym, h]; rfl
  | cons w rest =>
    rw [popLineBeforeZid_cons_cons k sym w rest hsym]
    have : (sym != ['-'] && isPrioWord w) = false := by
      by_cases h : sym = ['-']
      · simp [h]
      · simp [hnp h w rfl]
    simp [this]

/-- hypotheses of (2) on `ws = replicate k [] ++ [sym] ++ prio ++ replicate j [] ++ body` -/
structure Shape (sym : Str) (prio : List Str) (j : Nat) (body : List Str) : Prop where
  sym_ne : sym ≠ []
  prio_ok : prio = [] ∨ (sym ≠ ['-'] ∧ ∃ d, isDigit d = true ∧ prio = [['P', d]])
  body_ok : body.head? ≠ some []
  after : sym = ['-'] ∨ prio ++ List.replicate j [] ++ body ≠ []
  no_prio : prio = [] → sym ≠ ['-'] →
    ∀ w, (List.replicate j [] ++ body).head? = some w → isPrioWord w = false

theorem popLineBeforeZid_noPrio (k j : Nat) (sym : Str) (body : List Str) (hsym : sym ≠ [])
    (hbody : body.head? ≠ some [])
    (hne : sym = ['-'] ∨ List.replicate j ([] : Str) ++ body ≠ [])
    (hnp : sym ≠ ['-'] →
      ∀ w, (List.replicate j [] ++ body).head? = some w → isPrioWord w = false) :
    popLineBeforeZid (List.replicate k [] ++ [sym] ++ List.replicate j [] ++ body) =
      .ok (List.replicate k ' ' ++ sym ++ [' '], body) := by
  have := popLineBeforeZid_noPrio_aux k sym (List.replicate j [] ++ body) hsym hne hnp
  rw [dropWhile_nil_replicate j body hbody] at this
  simpa using this

theorem popLineBeforeZid_prio (k j : Nat) (sym : Str) (d : Char) (body : List Str) (hsym : sym ≠ [])
    (hdash : sym ≠ ['-']) (hd : isDigit d = true) (hbody : body.head? ≠ some []) :
    popLineBeforeZid (List.replicate k [] ++ [sym] ++ [['P', d]] ++ List.replicate j [] ++ body) =
      .ok (List.replicate k ' ' ++ sym ++ [' '] ++ ['P', d, ' '], body) := by
  have := popLineBeforeZid_cons_cons k sym ['P', d] (List.replicate j [] ++ body) hsym
  have hp : (sym != ['-'] && isPrioWord ['P', d]) = true := by simp [isPrioWord, hd, hdash]
  rw [hp] at this
  simp only [if_true, dropWhile_nil_replicate j body hbody] at this
  simpa using this

theorem popLineBeforeZid_shape (k j : Nat) (sym : Str) (prio body : List Str)
    (h : Shape sym prio j body) :
    popLineBeforeZid (shapeWords k sym prio j body) = .ok (shapePre k sym prio, body) := by
  unfold shapeWords shapePre
  rcases h.prio_ok with hp | ⟨hdash, d, hd, hp⟩
  · subst hp
    have := popLineBeforeZid_noPrio k j sym body h.sym_ne h.body_ok
      (by simpa using h.after) (h.no_prio rfl)
    simpa using this
  · subst hp
    exact popLineBeforeZid_prio k j sym d body h.sym_ne hdash hd h.body_ok

/-- (2) with the words and the prefix spelled out -/
theorem popLineBeforeZid_shape' (k j : Nat) (sym : Str) (prio body : List Str)
    (h : Shape sym prio j body) :
    popLineBeforeZid (List.replicate k [] ++ [sym] ++ prio ++ List.replicate j [] ++ body) =
      .ok (List.replicate k ' ' ++ sym ++ [' '] ++
            (match (generalizing := false) prio with | [p] => p ++ [' '] | _ => []),
        body) :=
  popLineBeforeZid_shape k j sym prio body h

/-! ### (3) consequences for `addZidToLine` / `addOrUpdateModifyDate` -/

/-- `body` without its first word when that word satisfies `p` -/
def dropLeading (p : Str → Bool) (body : List Str) : List Str :=
  match body with
  | w :: r => if p w then r else body
  | [] => []

theorem shapeWords_ne_nil (k : Nat) (sym : Str) (prio : List Str) (j : Nat) (body : List Str) :
    shapeWords k sym prio j body ≠ [] := by
  simp [shapeWords]

theorem popLineBeforeZid_split (k j : Nat) (sym : Str) (prio body : List Str)
    (h : Shape sym prio j body) (hsp : ∀ w ∈ shapeWords k sym prio j body, ' ' ∉ w) :
    popLineBeforeZid (splitOn ' ' (joinSp (shapeWords k sym prio j body))) =
      .ok (shapePre k sym prio, body) := by
  rw [splitOn_joinSp _ (shapeWords_ne_nil _ _ _ _ _) hsp]
  exact popLineBeforeZid_shape k j sym prio body h

theorem addZidToLine_shape (zid : Str) (k j : Nat) (sym : Str) (prio body : List Str)
    (h : Shape sym prio j body) (hsp : ∀ w ∈ shapeWords k sym prio j body, ' ' ∉ w) :
    addZidToLine zid (joinSp (shapeWords k sym prio j body)) =
      .ok (shapePre k sym prio ++ zid ++ [' '] ++ joinSp (dropLeading isLongDate body)) := by
  unfold addZidToLine
  rw [popLineBeforeZid_split k j sym prio body h hsp]
  rfl

theorem addOrUpdateModifyDate_shape (date : Str) (k j : Nat) (sym : Str) (prio body : List Str)
    (h : Shape sym prio j body) (hsp : ∀ w ∈ shapeWords k sym prio j body, ' ' ∉ w) :
    addOrUpdateModifyDate date (joinSp (shapeWords k sym prio j body)) =
      .ok (shapePre k sym prio ++ date ++ [' '] ++ joinSp (dropLeading isSixDigits body)) := by
  unfold addOrUpdateModifyDate
  rw [popLineBeforeZid_split k j sym prio body h hsp]
  rfl


/-! ### (4) re-stamping replaces the stamp -/

theorem joinSp_replicate_nil_append (k : Nat) (x : Str) (t : List Str) :
    joinSp (List.replicate k [] ++ x :: t) = List.replicate k ' ' ++ joinSp (x :: t) := by
  induction k with
  | zero => simp
  | succ k ih =>
    show joinWith [' '] ([] :: (List.replicate k [] ++ x :: t)) = _
    rw [joinWith_cons_of_ne_nil _ _ _ (by simp)]
    show [] ++ [' '] ++ joinSp _ = _
    rw [ih]; simp [List.replicate_succ]

theorem joinSp_cons_cons (x y : Str) (t : List Str) :
    joinSp (x :: y :: t) = x ++ [' '] ++ joinSp (y :: t) := joinWith_cons_cons ..

theorem joinSp_cons_of_ne_nil (x : Str) (t : List Str) (h : t ≠ []) :
    joinSp (x :: t) = x ++ [' '] ++ joinSp t := joinWith_cons_of_ne_nil _ _ _ h

theorem joinSp_shapeWords (k : Nat) (sym : Str) (prio : List Str) (w : Str) (t : List Str)
    (hp : prio = [] ∨ ∃ p, prio = [p]) :
    joinSp (shapeWords k sym prio 0 (w :: t)) = shapePre k sym prio ++ joinSp (w :: t) := by
  unfold shapeWords shapePre
  rcases hp with hp | ⟨p, hp⟩
  · subst hp
    have := joinSp_replicate_nil_append k sym (w :: t)
    rw [joinSp_cons_cons] at this
    simpa using this
  · subst hp
    have := joinSp_replicate_nil_append k sym (p :: w :: t)
    rw [joinSp_cons_cons, joinSp_cons_cons] at this
    simpa using this

theorem isPrioWord_length (w : Str) (h : isPrioWord w = true) : w.length = 2 := by
  unfold isPrioWord at h
  split at h
  · rfl
  · exact absurd h (by simp)

theorem isSixDigits_no_space (d : Str) (h : isSixDigits d = true) : ' ' ∉ d := by
  intro hm
  simp only [isSixDigits, Bool.and_eq_true, List.all_eq_true] at h
  have := h.2 _ hm
  exact absurd this (by decide)

/-- the words after a fresh stamp: `body` itself, or one empty word when `body` is empty -/
def padBody (body : List Str) : List Str := if body = [] then [[]] else body

theorem joinSp_padBody (body : List Str) : joinSp (padBody body) = joinSp body := by
  unfold padBody
  split
  · next h => subst h; rfl
  · rfl

theorem padBody_ne_nil (body : List Str) : padBody body ≠ [] := by
  unfold padBody; split <;> simp [*]

theorem mem_padBody (body : List Str) (w : Str) (h : w ∈ padBody body) : w = [] ∨ w ∈ body := by
  unfold padBody at h
  split at h
  · left; simpa using h
  · right; exact h

theorem mem_dropLeading (p : Str → Bool) (body : List Str) (w : Str)
    (h : w ∈ dropLeading p body) : w ∈ body := by
  unfold dropLeading at h
  split at h
  · split at h
    · exact List.mem_cons_of_mem _ h
    · exact h
  · exact h

theorem addOrUpdateModifyDate_restamp (d1 d2 : Str) (k j : Nat) (sym : Str) (prio body : List Str)
    (h : Shape sym prio j body) (hsp : ∀ w ∈ shapeWords k sym prio j body, ' ' ∉ w)
    (hd1 : isSixDigits d1 = true) (l1 : Str)
    (h1 : addOrUpdateModifyDate d1 (joinSp (shapeWords k sym prio j body)) = .ok l1) :
    addOrUpdateModifyDate d2 l1 =
      addOrUpdateModifyDate d2 (joinSp (shapeWords k sym prio j body)) := by
  rw [addOrUpdateModifyDate_shape d1 k j sym prio body h hsp] at h1
  rw [addOrUpdateModifyDate_shape d2 k j sym prio body h hsp]
  injection h1 with h1
  let b := dropLeading isSixDigits body
  have hp : prio = [] ∨ ∃ p, prio = [p] := by
    rcases h.prio_ok with hp | ⟨_, d, _, hp⟩
    · exact Or.inl hp
    · exact Or.inr ⟨_, hp⟩
  have hl1 : l1 = joinSp (shapeWords k sym prio 0 (d1 :: padBody b)) := by
    rw [joinSp_shapeWords k sym prio d1 (padBody b) hp,
      joinSp_cons_of_ne_nil _ _ (padBody_ne_nil b)]
    rw [joinSp_padBody, ← h1]
    simp [b]
  have hlen : d1.length = 6 := by
    simp only [isSixDigits, Bool.and_eq_true, beq_iff_eq] at hd1; exact hd1.1
  have hd1ne : d1 ≠ [] := by intro e; rw [e] at hlen; simp at hlen
  have hshape : Shape sym prio 0 (d1 :: padBody b) :=
    { sym_ne := h.sym_ne
      prio_ok := h.prio_ok
      body_ok := by simpa using hd1ne
      after := Or.inr (by simp)
      no_prio := by
        intro _ _ w hw
        have : w = d1 := by simpa using hw.symm
        subst this
        cases hq : isPrioWord w with
        | false => rfl
        | true => have := isPrioWord_length w hq; omega }
  have hsp' : ∀ w ∈ shapeWords k sym prio 0 (d1 :: padBody b), ' ' ∉ w := by
    intro w hw
    have hw' : w ∈ shapeWords k sym prio j body ∨ w = d1 ∨ w ∈ padBody b := by
      simp only [shapeWords, List.replicate_zero, List.append_nil, List.mem_append, List.mem_cons,
        List.not_mem_nil, or_false] at hw ⊢
      rcases hw with ((hw | hw) | hw) | hw | hw <;> simp [hw]
    rcases hw' with hw | hw | hw
    · exact hsp w hw
    · subst hw; exact isSixDigits_no_space _ hd1
    · rcases mem_padBody _ _ hw with e | hb
      · subst e; simp
      · exact hsp w (by simp [shapeWords, mem_dropLeading _ _ _ hb])
  rw [hl1, addOrUpdateModifyDate_shape d2 k 0 sym prio _ hshape hsp']
  have : dropLeading isSixDigits (d1 :: padBody b) = padBody b := by
    simp [dropLeading, hd1]
  rw [this, joinSp_padBody]


/-! ### (6') `addNote` -/

theorem insertionIndex_go_spec (i : Nat) (b f : Bool) (start : Nat) (ls : List Str) :
    (insertionIndex.go i b f start ls).1 = start ∨
      (i ≤ (insertionIndex.go i b f start ls).1 ∧
        (insertionIndex.go i b f start ls).1 < i + ls.length) := by
  induction ls generalizing i b f start with
  | nil => left; rfl
  | cons l rest ih =>
    unfold insertionIndex.go
    simp only []
    split
    · rcases ih (i + 1) false (f || startsWithItem l) i with h | h
      · right; rw [h]; simp
      · right; simp only [List.length_cons]; omega
    · rcases ih (i + 1) (b || startsWithItem l) (f || startsWithItem l) start with h | h
      · left; exact h
      · right; simp only [List.length_cons]; omega

theorem insertionIndex_lt (lines : List Str) (h : lines ≠ []) :
    (insertionIndex lines).1 < lines.length := by
  have hl : 0 < lines.length := List.length_pos_iff.mpr h
  unfold insertionIndex
  rcases insertionIndex_go_spec 0 false false (lines.length - 1) lines with h | h
  · rw [h]; omega
  · omega

theorem insertionIndex_le (lines : List Str) : (insertionIndex lines).1 ≤ lines.length := by
  cases lines with
  | nil => simp [insertionIndex, insertionIndex.go]
  | cons l ls => exact Nat.le_of_lt (insertionIndex_lt _ (by simp))

/-- case 1 of `add_note`: the target line is not blank (no trailing newline) -/
def targetNotBlank (lines : List Str) : Bool :=
  !isBlankLine (lines.getD (insertionIndex lines).1 [])

/-- case 2 of `add_note`: no item line was seen and the line before the (blank) target is not blank -/
def headerOnly (lines : List Str) : Bool :=
  !(insertionIndex lines).2.1 && decide ((insertionIndex lines).1 > 0) &&
    !isWsLine (lines.getD ((insertionIndex lines).1 - 1) [])

theorem addNote_eq (lines n : List Str) :
    addNote lines n =
      if targetNotBlank lines then
        lines.take ((insertionIndex lines).1 + 1) ++
          (if (insertionIndex lines).2.2 then [] else [[]]) ++ n
      else if headerOnly lines then lines.take ((insertionIndex lines).1 + 1) ++ n
      else lines.take (insertionIndex lines).1 ++ n ++ lines.drop ((insertionIndex lines).1 + 1) := by
  unfold addNote targetNotBlank headerOnly
  rcases insertionIndex lines with ⟨k, found, inNote⟩
  rfl


theorem getElem?_take_append {α : Type} (l r : List α) (m i : Nat) (hi : i < m)
    (hil : i < l.length) : (l.take m ++ r)[i]? = l[i]? := by
  rw [List.getElem?_append_left (by simp; omega), List.getElem?_take_of_lt hi]

theorem isBlankLine_nil : isBlankLine [] = true := rfl

theorem lt_of_targetNotBlank (lines : List Str) (h : targetNotBlank lines = true) :
    (insertionIndex lines).1 < lines.length := by
  cases Nat.lt_or_ge (insertionIndex lines).1 lines.length with
  | inl h' => exact h'
  | inr h' =>
    unfold targetNotBlank at h
    rw [List.getD_eq_getElem?_getD, List.getElem?_eq_none h'] at h
    simp [isBlankLine_nil] at h

theorem lt_of_headerOnly (lines : List Str) (h : headerOnly lines = true) :
    (insertionIndex lines).1 < lines.length := by
  simp only [headerOnly, Bool.and_eq_true, decide_eq_true_eq] at h
  apply insertionIndex_lt
  intro e
  subst e
  have := insertionIndex_le []
  simp only [List.length_nil] at this
  omega

/-- the facts shared by the two append cases -/
theorem addNote_append_facts (lines sep n : List Str)
    (hlt : (insertionIndex lines).1 < lines.length)
    (he : addNote lines n = lines.take ((insertionIndex lines).1 + 1) ++ sep ++ n) :
    lines.take ((insertionIndex lines).1 + 1) <+: addNote lines n ∧
      (∀ i, i ≤ (insertionIndex lines).1 → (addNote lines n)[i]? = lines[i]?) := by
  refine ⟨by rw [he, List.append_assoc]; exact List.prefix_append _ _, ?_⟩
  intro i hi
  rw [he, List.append_assoc, getElem?_take_append _ _ _ _ (by omega) (by omega)]

/-- case 1: the target line is not blank → the note is appended after it, separated by an empty line
unless the page ends inside a note -/
theorem addNote_targetNotBlank (lines n : List Str) (h : targetNotBlank lines = true) :
    (insertionIndex lines).1 < lines.length ∧
    addNote lines n = lines.take ((insertionIndex lines).1 + 1) ++
      (if (insertionIndex lines).2.2 then [] else [[]]) ++ n ∧
    lines.take ((insertionIndex lines).1 + 1) <+: addNote lines n ∧
    (∀ i, i ≤ (insertionIndex lines).1 → (addNote lines n)[i]? = lines[i]?) := by
  have he : addNote lines n = lines.take ((insertionIndex lines).1 + 1) ++
      (if (insertionIndex lines).2.2 then [] else [[]]) ++ n := by
    rw [addNote_eq, if_pos h]
  have hlt := lt_of_targetNotBlank lines h
  exact ⟨hlt, he, addNote_append_facts lines _ n hlt he⟩

/-- case 2: header-only page → the blank target line is kept and the note appended after it -/
theorem addNote_headerOnly (lines n : List Str) (h1 : targetNotBlank lines = false)
    (h2 : headerOnly lines = true) :
    (insertionIndex lines).1 < lines.length ∧
    addNote lines n = lines.take ((insertionIndex lines).1 + 1) ++ n ∧
    lines.take ((insertionIndex lines).1 + 1) <+: addNote lines n ∧
    (∀ i, i ≤ (insertionIndex lines).1 → (addNote lines n)[i]? = lines[i]?) := by
  have he : addNote lines n = lines.take ((insertionIndex lines).1 + 1) ++ n := by
    rw [addNote_eq, h1, if_neg (by simp), if_pos h2]
  have hlt := lt_of_headerOnly lines h2
  exact ⟨hlt, he, addNote_append_facts lines [] n hlt (by simpa using he)⟩

/-- case 3: the blank target line is replaced by the note; every other line is kept -/
theorem addNote_replace (lines n : List Str) (h1 : targetNotBlank lines = false)
    (h2 : headerOnly lines = false) :
    isBlankLine (lines.getD (insertionIndex lines).1 []) = true ∧
    addNote lines n = lines.take (insertionIndex lines).1 ++ n ++
      lines.drop ((insertionIndex lines).1 + 1) ∧
    lines.take (insertionIndex lines).1 <+: addNote lines n ∧
    (∀ i, i < (insertionIndex lines).1 → (addNote lines n)[i]? = lines[i]?) ∧
    (∀ i, (insertionIndex lines).1 < i → (addNote lines n)[i + n.length - 1]? = lines[i]?) := by
  have he : addNote lines n = lines.take (insertionIndex lines).1 ++ n ++
      lines.drop ((insertionIndex lines).1 + 1) := by
    rw [addNote_eq, h1, h2, if_neg (by simp), if_neg (by simp)]
  have hk := insertionIndex_le lines
  refine ⟨by simpa [targetNotBlank] using h1, he, ?_, ?_, ?_⟩
  · rw [he, List.append_assoc]; exact List.prefix_append _ _
  · intro i hi
    rw [he, List.append_assoc, getElem?_take_append _ _ _ _ hi (by omega)]
  · intro i hi
    rw [he, List.getElem?_append_right (by simp; omega)]
    simp only [List.length_append, List.length_take, List.getElem?_drop]
    congr 1
    omega

/-- (6') in one statement: nothing before the target line is ever lost or changed, and one of the
three cases applies -/
theorem addNote_spec (lines n : List Str) :
    (lines ≠ [] → (insertionIndex lines).1 < lines.length) ∧
    lines.take (insertionIndex lines).1 <+: addNote lines n ∧
    (∀ i, i < (insertionIndex lines).1 → (addNote lines n)[i]? = lines[i]?) ∧
    ((targetNotBlank lines = true ∧
        addNote lines n = lines.take ((insertionIndex lines).1 + 1) ++
          (if (insertionIndex lines).2.2 then [] else [[]]) ++ n ∧
        lines.take ((insertionIndex lines).1 + 1) <+: addNote lines n ∧
        (addNote lines n)[(insertionIndex lines).1]? = lines[(insertionIndex lines).1]?) ∨
     (targetNotBlank lines = false ∧ headerOnly lines = true ∧
        addNote lines n = lines.take ((insertionIndex lines).1 + 1) ++ n ∧
        lines.take ((insertionIndex lines).1 + 1) <+: addNote lines n ∧
        (addNote lines n)[(insertionIndex lines).1]? = lines[(insertionIndex lines).1]?) ∨
     (targetNotBlank lines = false ∧ headerOnly lines = false ∧
        isBlankLine (lines.getD (insertionIndex lines).1 []) = true ∧
        addNote lines n = lines.take (insertionIndex lines).1 ++ n ++
          lines.drop ((insertionIndex lines).1 + 1) ∧
        (∀ i, (insertionIndex lines).1 < i → (addNote lines n)[i + n.length - 1]? = lines[i]?))) := by
  refine ⟨insertionIndex_lt lines, ?_⟩
  cases h1 : targetNotBlank lines with
  | true =>
    obtain ⟨_, he, hp, hi⟩ := addNote_targetNotBlank lines n h1
    refine ⟨?_, fun i h => hi i (Nat.le_of_lt h), Or.inl ⟨rfl, he, hp, hi _ (Nat.le_refl _)⟩⟩
    exact List.IsPrefix.trans (List.take_prefix_take_left (Nat.le_succ _)) hp
  | false =>
    cases h2 : headerOnly lines with
    | true =>
      obtain ⟨_, he, hp, hi⟩ := addNote_headerOnly lines n h1 h2
      refine ⟨?_, fun i h => hi i (Nat.le_of_lt h),
        Or.inr (Or.inl ⟨rfl, rfl, he, hp, hi _ (Nat.le_refl _)⟩)⟩
      exact List.IsPrefix.trans (List.take_prefix_take_left (Nat.le_succ _)) hp
    | false =>
      obtain ⟨hb, he, hp, hi, ha⟩ := addNote_replace lines n h1 h2
      exact ⟨hp, hi, Or.inr (Or.inr ⟨rfl, rfl, hb, he, ha⟩)⟩

/-! #### in the two append cases the target line is the last line of the page -/

/-- the index returned by the scan is the initial `start`, or the index of a blank line -/
theorem insertionIndex_go_blank (i : Nat) (b f : Bool) (start : Nat) (ls : List Str) :
    (insertionIndex.go i b f start ls).1 = start ∨
      ∃ m, m < ls.length ∧ (insertionIndex.go i b f start ls).1 = i + m ∧
        isBlankLine (ls.getD m []) = true := by
  induction ls generalizing i b f start with
  | nil => left; rfl
  | cons l rest ih =>
    unfold insertionIndex.go
    simp only []
    split
    · next hc =>
      simp only [Bool.and_eq_true] at hc
      rcases ih (i + 1) false (f || startsWithItem l) i with h | ⟨m, hm, he, hb⟩
      · right; exact ⟨0, by simp, by rw [h]; rfl, by simpa using hc.2⟩
      · right; exact ⟨m + 1, by simpa using hm, by rw [he]; omega, by simpa using hb⟩
    · rcases ih (i + 1) (b || startsWithItem l) (f || startsWithItem l) start with h | ⟨m, hm, he, hb⟩
      · left; exact h
      · right; exact ⟨m + 1, by simpa using hm, by rw [he]; omega, by simpa using hb⟩

/-- `found` is monotone, and while no item line is seen the scan never moves `start` -/
theorem insertionIndex_go_notFound (i : Nat) (b f : Bool) (start : Nat) (ls : List Str)
    (h : (insertionIndex.go i b f start ls).2.1 = false) :
    f = false ∧ (b = false → (insertionIndex.go i b f start ls).1 = start) := by
  induction ls generalizing i b f start with
  | nil => exact ⟨h, fun _ => rfl⟩
  | cons l rest ih =>
    unfold insertionIndex.go at h ⊢
    simp only [] at h ⊢
    split
    · next hc =>
      rw [if_pos hc] at h
      have h1 := (ih _ _ _ _ h).1
      simp only [Bool.or_eq_false_iff] at h1
      refine ⟨h1.1, fun hb => ?_⟩
      rw [hb, h1.2] at hc
      simp at hc
    · next hc =>
      rw [if_neg hc] at h
      have h1 := ih _ _ _ _ h
      simp only [Bool.or_eq_false_iff] at h1
      exact ⟨h1.1.1, fun hb => h1.2 (by simp [hb, h1.1.2])⟩

theorem targetNotBlank_last (lines : List Str) (h : targetNotBlank lines = true) :
    (insertionIndex lines).1 + 1 ≥ lines.length := by
  unfold targetNotBlank at h
  unfold insertionIndex at h ⊢
  rcases insertionIndex_go_blank 0 false false (lines.length - 1) lines with e | ⟨m, _, he, hb⟩
  · rw [e]; omega
  · rw [he, Nat.zero_add, hb] at h
    simp at h

theorem headerOnly_last (lines : List Str) (h2 : headerOnly lines = true) :
    (insertionIndex lines).1 + 1 ≥ lines.length := by
  simp only [headerOnly, Bool.and_eq_true, Bool.not_eq_true', decide_eq_true_eq] at h2
  have := (insertionIndex_go_notFound 0 false false (lines.length - 1) lines h2.1.1).2 rfl
  unfold insertionIndex
  rw [this]; omega

/-- case 1, whole page kept: the note goes after the last line (and a separating empty line) -/
theorem addNote_append_targetNotBlank (lines n : List Str) (h : targetNotBlank lines = true) :
    addNote lines n = lines ++ (if (insertionIndex lines).2.2 then [] else [[]]) ++ n := by
  rw [(addNote_targetNotBlank lines n h).2.1, List.take_of_length_le (targetNotBlank_last lines h)]

/-- case 2, whole page kept -/
theorem addNote_append_headerOnly (lines n : List Str) (h1 : targetNotBlank lines = false)
    (h2 : headerOnly lines = true) : addNote lines n = lines ++ n := by
  rw [(addNote_headerOnly lines n h1 h2).2.1, List.take_of_length_le (headerOnly_last lines h2)]

theorem addNote_length_append (lines n : List Str) :
    (targetNotBlank lines = true →
      addNote lines n = lines ++ (if (insertionIndex lines).2.2 then [] else [[]]) ++ n ∧
      (addNote lines n).length =
        lines.length + (if (insertionIndex lines).2.2 then 0 else 1) + n.length) ∧
    (targetNotBlank lines = false → headerOnly lines = true →
      addNote lines n = lines ++ n ∧ (addNote lines n).length = lines.length + n.length) := by
  refine ⟨fun h => ?_, fun h1 h2 => ?_⟩
  · rw [addNote_append_targetNotBlank lines n h]
    refine ⟨rfl, ?_⟩
    cases (insertionIndex lines).2.2 <;> simp <;> omega
  · rw [addNote_append_headerOnly lines n h1 h2]
    exact ⟨rfl, by simp⟩

/-! ### (7') `deleteNote` -/

theorem deleteNote_spec (lines : List Str) (zid : Str) (n : Nat) (r : List Str)
    (h : deleteNote lines zid n = some r) :
    ∃ i, lines.findIdx? (isFirstLineOf zid) = some i ∧
      r = lines.take i ++ lines.drop (i + n) ∧
      isFirstLineOf zid (lines.getD i []) = true ∧
      (∀ j, j < i → isFirstLineOf zid (lines.getD j []) = false) ∧
      r.length + min n (lines.length - i) = lines.length := by
  unfold deleteNote at h
  split at h
  · exact absurd h (by simp)
  · next i hi =>
    injection h with h
    obtain ⟨hlt, hi1, hi2⟩ := List.findIdx?_eq_some_iff_getElem.mp hi
    refine ⟨i, hi, h.symm, ?_, ?_, ?_⟩
    · rw [List.getD_eq_getElem?_getD, List.getElem?_eq_getElem hlt]; exact hi1
    · intro j hj
      have hjl : j < lines.length := by omega
      rw [List.getD_eq_getElem?_getD, List.getElem?_eq_getElem hjl]
      simpa using hi2 j hj
    · subst h
      simp only [List.length_append, List.length_take, List.length_drop]
      omega


/-! ### sanity checks -/

/-- info: Except.ok ("  o P1 ", ["foo", "bar"]) -/
#guard_msgs in
#eval (popLineBeforeZid (splitOn ' ' "  o P1  foo bar".toList)).map
  (fun (p, b) => (String.ofList p, b.map String.ofList))

/-- info: Except.ok ("- ", ["P1", "x"]) -/
#guard_msgs in
#eval (popLineBeforeZid (splitOn ' ' "- P1 x".toList)).map
  (fun (p, b) => (String.ofList p, b.map String.ofList))

/-- info: Except.ok (" - ", []) -/
#guard_msgs in
#eval (popLineBeforeZid (splitOn ' ' " -".toList)).map
  (fun (p, b) => (String.ofList p, b.map String.ofList))

-- without "at least one word after `sym`" the call raises
/-- info: true -/
#guard_msgs in
#eval (popLineBeforeZid (splitOn ' ' "o".toList)) matches .error _

-- without the "not `Pn`" hypothesis the first body word is taken for the priority
/-- info: Except.ok ("o P1 ", ["x"]) -/
#guard_msgs in
#eval (popLineBeforeZid ([] ++ ["o".toList] ++ [] ++ [] ++ ["P1".toList, "x".toList])).map
  (fun (p, b) => (String.ofList p, b.map String.ofList))

/-- info: Except.ok "  o P1 ZID foo bar" -/
#guard_msgs in
#eval (addZidToLine "ZID".toList "  o P1  2026-09-27 foo bar".toList).map String.ofList

/-- info: Except.ok "- 260927 " -/
#guard_msgs in
#eval (addOrUpdateModifyDate "260927".toList "-".toList).map String.ofList

/-- info: Except.ok "- 260928 " -/
#guard_msgs in
#eval (addOrUpdateModifyDate "260928".toList "- 260927 ".toList).map String.ofList


-- the three cases of `addNote` (lines shown joined with "|")
/-- info: ((2, true, true), true, false, ["- a", "o b", "- n", ""]) -/
#guard_msgs in
#eval let ls := ["h", "- a", "o b"].map String.toList
  (insertionIndex ls, targetNotBlank ls, headerOnly ls,
    (addNote ls (["- n", ""].map String.toList)).drop 1 |>.map String.ofList)

-- case 1 on a page that does not end inside a note: an empty line separates (case 1 has precedence
-- over `headerOnly`, which also evaluates to true here)
/-- info: ((1, false, false), true, true, ["h", "text", "", "- n", ""]) -/
#guard_msgs in
#eval let ls := ["h", "text"].map String.toList
  (insertionIndex ls, targetNotBlank ls, headerOnly ls,
    (addNote ls (["- n", ""].map String.toList)).map String.ofList)

/-- info: ((1, false, false), false, true, ["h", "", "- n", ""]) -/
#guard_msgs in
#eval let ls := ["h", ""].map String.toList
  (insertionIndex ls, targetNotBlank ls, headerOnly ls,
    (addNote ls (["- n", ""].map String.toList)).map String.ofList)

/-- info: ((2, true, false), false, false, ["h", "- a", "- n", "", "tail"]) -/
#guard_msgs in
#eval let ls := ["h", "- a", "", "tail"].map String.toList
  (insertionIndex ls, targetNotBlank ls, headerOnly ls,
    (addNote ls (["- n", ""].map String.toList)).map String.ofList)


end ZorgVerif.NoteText
