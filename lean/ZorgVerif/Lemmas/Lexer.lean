import ZorgVerif.Model.Lexer
/-! Lemmas about the lexer model: soundness of the set-wise runs, the `longest` spec, and
`lex` on a string that is exactly one token. -/
namespace ZorgVerif.Lex
open ZorgVerif

/-! ### set-wise runs -/

/-- the fold used by `stepAll` -/
private def collect (os : List (Option Nat)) : Option (List Nat) :=
  os.foldr
    (fun o acc => match o, acc with
      | some q, some l => some (if l.contains q then l else q :: l)
      | _, _ => none) (some [])

private theorem collect_cons (o : Option Nat) (os : List (Option Nat)) :
    collect (o :: os) =
      (match o, collect os with
        | some q, some l => some (if l.contains q then l else q :: l)
        | _, _ => none) := rfl

private theorem collect_mem (os : List (Option Nat)) (l : List Nat) (h : collect os = some l) :
    ∀ o ∈ os, ∃ q, o = some q ∧ q ∈ l := by
  induction os generalizing l with
  | nil => intro o ho; cases ho
  | cons o os ih =>
    rw [collect_cons] at h
    cases o with
    | none => simp at h
    | some q =>
      cases hc : collect os with
      | none => rw [hc] at h; simp at h
      | some l' =>
        rw [hc] at h
        simp only [Option.some.injEq] at h
        have ih' := ih l' hc
        intro o' ho'
        rcases List.mem_cons.mp ho' with rfl | ho'
        · refine ⟨q, rfl, ?_⟩
          subst h
          by_cases hq : l'.contains q = true
          · simp only [hq, if_true]; exact List.contains_iff_mem.mp hq
          · simp only [hq]; exact List.mem_cons_self
        · obtain ⟨q'', rfl, hq''⟩ := ih' o' ho'
          refine ⟨q'', rfl, ?_⟩
          subst h
          by_cases hq : l'.contains q = true
          · simp only [hq, if_true]; exact hq''
          · simp only [hq]; exact List.mem_cons_of_mem _ hq''

theorem stepAll_mem (d : Dfa) (qs qs' : List Nat) (S : List Char)
    (h : stepAll d qs S = some qs') (q : Nat) (hq : q ∈ qs) (c : Char) (hc : c ∈ S) :
    ∃ q', d.step q c = some q' ∧ q' ∈ qs' := by
  have h' : collect (qs.flatMap (fun q => S.map (fun c => d.step q c))) = some qs' := h
  have := collect_mem _ _ h' (d.step q c)
    (List.mem_flatMap.mpr ⟨q, hq, List.mem_map.mpr ⟨c, hc, rfl⟩⟩)
  obtain ⟨q', h1, h2⟩ := this
  exact ⟨q', h1, h2⟩

theorem stepLive_mem (d : Dfa) (qs : List Nat) (S : List Char)
    (q : Nat) (hq : q ∈ qs) (c : Char) (hc : c ∈ S) (q' : Nat) (hs : d.step q c = some q') :
    q' ∈ stepLive d qs S := by
  unfold stepLive
  rw [List.mem_eraseDups]
  exact List.mem_flatMap.mpr ⟨q, hq, List.mem_filterMap.mpr ⟨c, hc, hs⟩⟩

theorem allAccepted_go_sound (d : Dfa) (sets : List (List Char)) :
    ∀ (qs : List Nat) (s : Str), allAccepted.go d qs sets = true → InProduct s sets →
      ∀ q ∈ qs, ∃ q', d.runFrom q s = some q' ∧ d.acc.contains q' = true := by
  induction sets with
  | nil =>
    intro qs s h hs q hq
    cases s with
    | nil =>
      refine ⟨q, rfl, ?_⟩
      simp only [allAccepted.go] at h
      exact List.all_eq_true.mp h q hq
    | cons c cs => simp [InProduct] at hs
  | cons S rest ih =>
    intro qs s h hs q hq
    cases s with
    | nil => simp [InProduct] at hs
    | cons c cs =>
      simp only [InProduct] at hs
      simp only [allAccepted.go] at h
      cases hst : stepAll d qs S with
      | none => rw [hst] at h; simp at h
      | some qs' =>
        rw [hst] at h
        simp only at h
        obtain ⟨q1, hq1, hq1m⟩ := stepAll_mem d qs qs' S hst q hq c hs.1
        obtain ⟨q', hr, ha⟩ := ih qs' cs h hs.2 q1 hq1m
        refine ⟨q', ?_, ha⟩
        simp only [Dfa.runFrom, hq1]
        exact hr

theorem allAccepted_sound (d : Dfa) (sets : List (List Char)) (s : Str)
    (h : allAccepted d sets = true) (hs : InProduct s sets) : d.accepts s = true := by
  have h' : allAccepted.go d [d.start] sets = true := h
  obtain ⟨q', hr, ha⟩ := allAccepted_go_sound d sets [d.start] s h' hs d.start List.mem_cons_self
  simp only [Dfa.accepts, hr]
  exact ha

theorem noneAccepted_go_sound (d : Dfa) (sets : List (List Char)) :
    ∀ (qs : List Nat) (s : Str), noneAccepted.go d qs sets = true → InProduct s sets →
      ∀ q ∈ qs, ∀ q', d.runFrom q s = some q' → d.acc.contains q' = false := by
  induction sets with
  | nil =>
    intro qs s h hs q hq q' hr
    cases s with
    | nil =>
      simp only [Dfa.runFrom, Option.some.injEq] at hr
      subst hr
      simp only [noneAccepted.go] at h
      have := List.all_eq_true.mp h q hq
      simpa using this
    | cons c cs => simp [InProduct] at hs
  | cons S rest ih =>
    intro qs s h hs q hq q' hr
    cases s with
    | nil => simp [InProduct] at hs
    | cons c cs =>
      simp only [InProduct] at hs
      simp only [noneAccepted.go] at h
      cases hst : d.step q c with
      | none => simp [Dfa.runFrom, hst] at hr
      | some q1 =>
        simp only [Dfa.runFrom, hst] at hr
        exact ih (stepLive d qs S) cs h hs.2 q1 (stepLive_mem d qs S q hq c hs.1 q1 hst) q' hr

theorem noneAccepted_sound (d : Dfa) (sets : List (List Char)) (s : Str)
    (h : noneAccepted d sets = true) (hs : InProduct s sets) : d.accepts s = false := by
  have h' : noneAccepted.go d [d.start] sets = true := h
  have key := noneAccepted_go_sound d sets [d.start] s h' hs d.start List.mem_cons_self
  cases hr : d.runFrom d.start s with
  | none => simp [Dfa.accepts, hr]
  | some q' =>
    simp only [Dfa.accepts, hr]
    exact key q' hr

/-! ### `scan` / `longest` -/

theorem scan_le (d : Dfa) (s : Str) :
    ∀ (q i best : Nat), best ≤ i + s.length → (d.scan q s i best).1 ≤ i + s.length := by
  induction s with
  | nil => intro q i best h; simpa [Dfa.scan] using h
  | cons c cs ih =>
    intro q i best h
    simp only [List.length_cons] at h ⊢
    cases hst : d.step q c with
    | none => simp only [Dfa.scan, hst]; exact h
    | some q' =>
      simp only [Dfa.scan, hst]
      have := ih q' (i + 1) (if d.acc.contains q' then i + 1 else best) (by split <;> omega)
      omega

theorem longest_le (d : Dfa) (s : Str) : (d.longest s).1 ≤ s.length := by
  have := scan_le d s d.start 0 0 (Nat.zero_le _)
  simpa [Dfa.longest] using this

theorem scan_eq_iff (d : Dfa) (s : Str) :
    ∀ (q i best : Nat), s ≠ [] → best ≤ i →
      ((d.scan q s i best).1 = i + s.length ↔
        ∃ q', d.runFrom q s = some q' ∧ d.acc.contains q' = true) := by
  induction s with
  | nil => intro q i best hne; exact absurd rfl hne
  | cons c cs ih =>
    intro q i best _ hb
    cases hst : d.step q c with
    | none =>
      simp only [Dfa.scan, Dfa.runFrom, hst, List.length_cons]
      constructor
      · intro h; omega
      · rintro ⟨q', h, _⟩; cases h
    | some q1 =>
      simp only [Dfa.scan, Dfa.runFrom, hst, List.length_cons]
      cases cs with
      | nil =>
        simp only [Dfa.scan, Dfa.runFrom, List.length_nil]
        constructor
        · intro h
          refine ⟨q1, rfl, ?_⟩
          by_cases ha : d.acc.contains q1 = true
          · exact ha
          · simp only [ha] at h; simp at h; omega
        · rintro ⟨q', h, ha⟩
          simp only [Option.some.injEq] at h
          subst h
          rw [if_pos ha]
      | cons c2 cs2 =>
        have := ih q1 (i + 1) (if d.acc.contains q1 then i + 1 else best)
          (List.cons_ne_nil _ _) (by split <;> omega)
        rw [← this]
        simp only [List.length_cons]
        omega

theorem longest_eq_length_iff (d : Dfa) (s : Str) (hne : s ≠ []) :
    (d.longest s).1 = s.length ↔ d.accepts s = true := by
  have := scan_eq_iff d s d.start 0 0 hne (Nat.le_refl _)
  simp only [Nat.zero_add] at this
  unfold Dfa.longest
  rw [this]
  unfold Dfa.accepts
  cases d.runFrom d.start s with
  | none => simp
  | some q => simp

/-! ### `pick` -/

theorem pick_stable (l : List (Nat × Nat)) :
    ∀ (k0 bi L : Nat), (∀ x ∈ l, x.1 ≤ L) → pick l k0 (bi, L) = (bi, L) := by
  induction l with
  | nil => intro k0 bi L _; rfl
  | cons x rest ih =>
    intro k0 bi L h
    obtain ⟨b, c⟩ := x
    have hb : b ≤ L := h (b, c) List.mem_cons_self
    simp only [pick, Nat.not_lt.mpr hb, if_false]
    exact ih _ _ _ (fun x hx => h x (List.mem_cons_of_mem _ hx))

theorem pick_first_max (l : List (Nat × Nat)) :
    ∀ (k0 bi bl L k : Nat) (hk : k < l.length), bl < L → (∀ x ∈ l, x.1 ≤ L) →
      (l[k]).1 = L → (∀ j (hj : j < k), (l[j]'(Nat.lt_trans hj hk)).1 < L) →
      pick l k0 (bi, bl) = (k0 + k, L) := by
  induction l with
  | nil => intro k0 bi bl L k hk; cases hk
  | cons x rest ih =>
    intro k0 bi bl L k hk hbl hall hkL hprev
    obtain ⟨b, c⟩ := x
    have hrest : ∀ x ∈ rest, x.1 ≤ L := fun x hx => hall x (List.mem_cons_of_mem _ hx)
    cases k with
    | zero =>
      simp only [List.getElem_cons_zero] at hkL
      subst hkL
      simp only [pick, hbl, if_true, Nat.add_zero]
      exact pick_stable rest _ _ _ hrest
    | succ k' =>
      simp only [List.getElem_cons_succ] at hkL
      have hk' : k' < rest.length := by simpa using hk
      have hb : b < L := by
        have := hprev 0 (Nat.succ_pos _)
        simpa using this
      have hprev' : ∀ j (hj : j < k'), (rest[j]'(Nat.lt_trans hj hk')).1 < L := by
        intro j hj
        have := hprev (j + 1) (Nat.succ_lt_succ hj)
        simpa using this
      simp only [pick]
      split
      · rw [ih (k0 + 1) k0 b L k' hk' hb hrest hkL hprev']
        congr 1; omega
      · rw [ih (k0 + 1) bi bl L k' hk' hbl hrest hkL hprev']
        congr 1; omega

/-! ### `lex` on a single token -/

theorem lexFuel_nil (rules : Rules) (fuel : Nat) : lexFuel rules fuel [] = [] := by
  cases fuel <;> rfl

/-- a whole non-empty string accepted by rule k and by no earlier rule lexes as exactly one token of rule k -/
theorem lex_single (rules : Rules) (k : Nat) (hk : k < rules.length) (s : Str) (hne : s ≠ [])
    (hacc : (rules[k]).2.accepts s = true)
    (hprev : ∀ j (hj : j < k), (rules[j]'(Nat.lt_trans hj hk)).2.accepts s = false) :
    lex rules s = [⟨(rules[k]).1, s⟩] := by
  have hlen : 0 < s.length := List.length_pos_iff.mpr hne
  have hpick : pick (rules.map (fun r => r.2.longest s)) 0 (0, 0) = (k, s.length) := by
    have := pick_first_max (rules.map (fun r => r.2.longest s)) 0 0 0 s.length k
      (by simpa using hk) hlen
      (by
        intro x hx
        obtain ⟨r, _, rfl⟩ := List.mem_map.mp hx
        exact longest_le _ _)
      (by
        simp only [List.getElem_map]
        exact (longest_eq_length_iff _ s hne).mpr hacc)
      (by
        intro j hj
        simp only [List.getElem_map]
        have hle := longest_le (rules[j]'(Nat.lt_trans hj hk)).2 s
        have hneq : ((rules[j]'(Nat.lt_trans hj hk)).2.longest s).1 ≠ s.length := by
          intro h
          have := (longest_eq_length_iff _ s hne).mp h
          rw [hprev j hj] at this
          cases this
        omega)
    simpa using this
  have hnext : next rules s = (⟨(rules[k]).1, s⟩, []) := by
    simp only [next, hpick]
    have : ¬ s.length = 0 := by omega
    simp only [this, if_false, List.take_length, List.drop_length]
    simp [hk]
  cases s with
  | nil => exact absurd rfl hne
  | cons c cs =>
    simp only [lex, List.length_cons, lexFuel, hnext, lexFuel_nil]

end ZorgVerif.Lex

#print axioms ZorgVerif.Lex.allAccepted_sound
#print axioms ZorgVerif.Lex.noneAccepted_sound
#print axioms ZorgVerif.Lex.longest_le
#print axioms ZorgVerif.Lex.longest_eq_length_iff
#print axioms ZorgVerif.Lex.lex_single
