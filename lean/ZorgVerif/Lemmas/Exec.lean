import ZorgVerif.Model.Exec
/-! Properties of the query executor model (`Model/Exec.lean`): the string order is a total order;
grouping/ordering keeps every note exactly once, labels every leaf with the notes' group keys, produces
strictly increasing sibling headers and leaves in ORDER BY order; selections list exactly the distinct
values. -/
namespace ZorgVerif.Exec
open ZorgVerif ZorgVerif.Query

/-! ### the order on strings -/
theorem char_eq_of_toNat {a b : Char} (h : a.toNat = b.toNat) : a = b := by
  apply Char.ext; apply UInt32.toNat_inj.mp; exact h

theorem strLt_irrefl (a : Str) : strLt a a = false := by
  induction a with
  | nil => rfl
  | cons x xs ih => simp [strLt, ih]

theorem strLt_trans : ∀ {a b c : Str}, strLt a b = true → strLt b c = true → strLt a c = true
  | [], [], _, h, _ => by simp [strLt] at h
  | [], _ :: _, [], _, h => by simp [strLt] at h
  | [], _ :: _, _ :: _, _, _ => by simp [strLt]
  | _ :: _, [], _, h, _ => by simp [strLt] at h
  | _ :: _, _ :: _, [], _, h => by simp [strLt] at h
  | x :: xs, y :: ys, z :: zs, h1, h2 => by
    simp only [strLt, Bool.or_eq_true, decide_eq_true_eq, Bool.and_eq_true, beq_iff_eq] at h1 h2 ⊢
    rcases h1 with h1 | ⟨rfl, h1⟩
    · rcases h2 with h2 | ⟨rfl, h2⟩
      · left; omega
      · left; exact h1
    · rcases h2 with h2 | ⟨rfl, h2⟩
      · left; exact h2
      · right; exact ⟨rfl, strLt_trans h1 h2⟩

theorem strLt_trichotomy : ∀ (a b : Str), strLt a b = true ∨ a = b ∨ strLt b a = true
  | [], [] => by simp
  | [], _ :: _ => by simp [strLt]
  | _ :: _, [] => by simp [strLt]
  | x :: xs, y :: ys => by
    simp only [strLt, Bool.or_eq_true, decide_eq_true_eq, Bool.and_eq_true, beq_iff_eq, List.cons.injEq]
    rcases Nat.lt_trichotomy x.toNat y.toNat with h | h | h
    · left; left; exact h
    · have := char_eq_of_toNat h
      subst this
      rcases strLt_trichotomy xs ys with h' | h' | h'
      · left; right; exact ⟨rfl, h'⟩
      · right; left; exact ⟨rfl, h'⟩
      · right; right; right; exact ⟨rfl, h'⟩
    · right; right; left; exact h

theorem strLt_asymm {a b : Str} (h : strLt a b = true) : strLt b a = false := by
  cases h' : strLt b a with
  | false => rfl
  | true => have := strLt_trans h h'; rw [strLt_irrefl] at this; cases this

theorem strLe_total (a b : Str) : strLe a b = true ∨ strLe b a = true := by
  unfold strLe
  cases h : strLt b a with
  | false => simp
  | true => right; rw [strLt_asymm h]; rfl

theorem strLe_trans {a b c : Str} : strLe a b = true → strLe b c = true → strLe a c = true := by
  unfold strLe
  intro h1 h2
  cases h : strLt c a with
  | false => rfl
  | true =>
    exfalso
    rcases strLt_trichotomy a b with h' | h' | h'
    · rw [strLt_trans h h'] at h2; cases h2
    · subst h'; rw [h] at h2; cases h2
    · rw [h'] at h1; cases h1

theorem strLe_antisymm {a b : Str} : strLe a b = true → strLe b a = true → a = b := by
  unfold strLe
  intro h1 h2
  rcases strLt_trichotomy a b with h' | h' | h'
  · rw [h'] at h2; cases h2
  · exact h'
  · rw [h'] at h1; cases h1

theorem strLe_refl (a : Str) : strLe a a = true := by simp [strLe, strLt_irrefl]

theorem strLt_iff (a b : Str) : strLt a b = true ↔ (strLe a b = true ∧ a ≠ b) := by
  unfold strLe
  constructor
  · intro h
    refine ⟨by rw [strLt_asymm h]; rfl, ?_⟩
    intro e; subst e; rw [strLt_irrefl] at h; cases h
  · rintro ⟨h1, h2⟩
    rcases strLt_trichotomy a b with h' | h' | h'
    · exact h'
    · exact absurd h' h2
    · rw [h'] at h1; cases h1

/-! ### selection: dedup, sortStrs, selectField -/
theorem mem_dedup (xs : List Str) (x : Str) : x ∈ dedup xs ↔ x ∈ xs := by
  induction xs with
  | nil => simp [dedup]
  | cons a xs ih =>
    simp only [dedup, List.mem_cons, List.mem_filter, ih, bne_iff_ne, ne_eq]
    by_cases h : x = a <;> simp [h]

theorem dedup_nodup (xs : List Str) : (dedup xs).Nodup := by
  induction xs with
  | nil => simp [dedup]
  | cons a xs ih =>
    simp only [dedup, List.nodup_cons, List.mem_filter, bne_self_eq_false, Bool.false_eq_true, and_false,
      not_false_eq_true, true_and]
    exact List.Pairwise.filter _ ih

theorem insertSorted_perm (x : Str) (ys : List Str) : (insertSorted x ys).Perm (x :: ys) := by
  induction ys with
  | nil => simp [insertSorted]
  | cons y ys ih =>
    simp only [insertSorted]
    split
    · exact List.Perm.refl _
    · exact (List.Perm.cons y ih).trans (List.Perm.swap x y ys)

theorem sortStrs_perm (xs : List Str) : (sortStrs xs).Perm xs := by
  induction xs with
  | nil => simp [sortStrs]
  | cons a xs ih =>
    have : sortStrs (a :: xs) = insertSorted a (sortStrs xs) := rfl
    rw [this]
    exact (insertSorted_perm a _).trans (List.Perm.cons a ih)

theorem insertSorted_sorted (x : Str) (ys : List Str)
    (h : ys.Pairwise (fun a b => strLe a b = true)) :
    (insertSorted x ys).Pairwise (fun a b => strLe a b = true) := by
  induction ys with
  | nil => simp [insertSorted]
  | cons y ys ih =>
    simp only [insertSorted]
    rw [List.pairwise_cons] at h
    split
    · rename_i hxy
      refine List.pairwise_cons.mpr ⟨?_, List.pairwise_cons.mpr h⟩
      intro z hz
      rcases List.mem_cons.mp hz with rfl | hz
      · exact hxy
      · exact strLe_trans hxy (h.1 z hz)
    · rename_i hxy
      have hyx : strLe y x = true := by
        rcases strLe_total x y with h' | h'
        · exact absurd h' hxy
        · exact h'
      refine List.pairwise_cons.mpr ⟨?_, ih h.2⟩
      intro z hz
      rcases List.mem_cons.mp ((insertSorted_perm x ys).mem_iff.mp hz) with rfl | hz
      · exact hyx
      · exact h.1 z hz

theorem sortStrs_sorted (xs : List Str) : (sortStrs xs).Pairwise (fun a b => strLe a b = true) := by
  induction xs with
  | nil => simp [sortStrs]
  | cons a xs ih => exact insertSorted_sorted a _ ih

theorem mem_sortStrs (xs : List Str) (x : Str) : x ∈ sortStrs xs ↔ x ∈ xs := (sortStrs_perm xs).mem_iff

theorem sortStrs_nodup {xs : List Str} (h : xs.Nodup) : (sortStrs xs).Nodup :=
  (sortStrs_perm xs).nodup_iff.mpr h

theorem selectField_values (f : SelectField) (alpha : Bool) (ns : List XNote) (hf : f ≠ .note) (x : Str) :
    x ∈ selectField f alpha ns ↔ x ∈ (match f with
      | .file => ns.map (·.path) | .area => ns.flatMap (·.areas) | .context => ns.flatMap (·.contexts)
      | .person => ns.flatMap (·.people) | .project => ns.flatMap (·.projects) | .links => ns.flatMap (·.links)
      | .prop => ns.flatMap (fun n => n.props.map (·.1)) | .propValues k => ns.filterMap (fun n => n.props.lookup k)
      | .note => [] : List Str) := by
  cases f <;> first | exact absurd rfl hf | skip
  all_goals (cases alpha <;> simp only [selectField, if_true, Bool.false_eq_true, if_false, mem_sortStrs, mem_dedup] <;> simp)

theorem selectField_nodup (f : SelectField) (alpha : Bool) (ns : List XNote) (hf : f ≠ .note) : (selectField f alpha ns).Nodup := by
  cases f <;> first | exact absurd rfl hf | skip
  all_goals (cases alpha <;> simp only [selectField, if_true, Bool.false_eq_true, if_false] <;>
    first | exact sortStrs_nodup (dedup_nodup _) | exact dedup_nodup _)

theorem selectField_alpha_sorted (f : SelectField) (ns : List XNote) (hf : f ≠ .note) :
    (selectField f true ns).Pairwise (fun a b => strLe a b = true) := by
  cases f <;> first | exact absurd rfl hf | skip
  all_goals (simp only [selectField, if_true]; exact sortStrs_sorted _)

/-! ### sorting and runs -/
theorem strLt_of_le_of_lt {a b c : Str} (h1 : strLe a b = true) (h2 : strLt b c = true) : strLt a c = true := by
  rcases strLt_trichotomy a c with h | h | h
  · exact h
  · subst h; simp [strLe, h2] at h1
  · have := strLt_trans h2 h; simp [strLe, this] at h1

/-! ### sortBy -/
theorem sortBy_perm (k : XNote → Str) (xs : List XNote) : (sortBy k xs).Perm xs :=
  List.mergeSort_perm _ _

theorem sortBy_sorted (k : XNote → Str) (xs : List XNote) :
    (sortBy k xs).Pairwise (fun a b => strLe (k a) (k b) = true) := by
  unfold sortBy
  apply List.pairwise_mergeSort (le := fun a b => strLe (k a) (k b))
  · intro a b c; exact strLe_trans
  · intro a b; rcases strLe_total (k a) (k b) with h | h <;> simp [h]

theorem mem_sortBy (k : XNote → Str) (xs : List XNote) (n : XNote) : n ∈ sortBy k xs ↔ n ∈ xs :=
  (sortBy_perm k xs).mem_iff

/-! ### runs -/
theorem runs_cons (k : XNote → Str) (x : XNote) (xs : List XNote) :
    runs k (x :: xs) = match runs k xs with
      | (key, grp) :: rest => if k x = key then (key, x :: grp) :: rest else (k x, [x]) :: (key, grp) :: rest
      | [] => [(k x, [x])] := rfl

theorem runs_flatten (k : XNote → Str) (xs : List XNote) : (runs k xs).flatMap (·.2) = xs := by
  induction xs with
  | nil => rfl
  | cons x xs ih =>
    rw [runs_cons]
    split
    · rename_i key grp rest heq
      rw [heq] at ih
      split
      · simp only [List.flatMap_cons, List.cons_append] at ih ⊢; rw [ih]
      · simp only [List.flatMap_cons, List.cons_append, List.nil_append] at ih ⊢; rw [ih]
    · rename_i heq
      rw [heq] at ih
      simp at ih ⊢; exact ih

theorem runs_key (k : XNote → Str) (xs : List XNote) :
    ∀ r ∈ runs k xs, ∀ n ∈ r.2, k n = r.1 := by
  induction xs with
  | nil => intro r hr; cases hr
  | cons x xs ih =>
    rw [runs_cons]
    split
    · rename_i key grp rest heq
      rw [heq] at ih
      split
      · rename_i hk
        intro r hr
        rcases List.mem_cons.mp hr with rfl | hr
        · intro n hn
          rcases List.mem_cons.mp hn with rfl | hn
          · exact hk
          · exact ih (key, grp) (List.mem_cons_self) n hn
        · exact ih r (List.mem_cons_of_mem _ hr)
      · intro r hr
        rcases List.mem_cons.mp hr with rfl | hr
        · intro n hn; simp at hn; subst hn; rfl
        · exact ih r hr
    · intro r hr
      simp at hr; subst hr
      intro n hn; simp at hn; subst hn; rfl

theorem runs_key_mem (k : XNote → Str) (xs : List XNote) :
    ∀ r ∈ runs k xs, ∃ n ∈ xs, k n = r.1 := by
  induction xs with
  | nil => intro r hr; cases hr
  | cons x xs ih =>
    rw [runs_cons]
    split
    · rename_i key grp rest heq
      rw [heq] at ih
      split
      · rename_i hk
        intro r hr
        rcases List.mem_cons.mp hr with rfl | hr
        · exact ⟨x, List.mem_cons_self, hk⟩
        · obtain ⟨n, hn, e⟩ := ih r (List.mem_cons_of_mem _ hr)
          exact ⟨n, List.mem_cons_of_mem _ hn, e⟩
      · intro r hr
        rcases List.mem_cons.mp hr with rfl | hr
        · exact ⟨x, List.mem_cons_self, rfl⟩
        · obtain ⟨n, hn, e⟩ := ih r hr
          exact ⟨n, List.mem_cons_of_mem _ hn, e⟩
    · intro r hr
      simp at hr; subst hr
      exact ⟨x, List.mem_cons_self, rfl⟩

theorem runs_keys_sorted (k : XNote → Str) (xs : List XNote)
    (h : xs.Pairwise (fun a b => strLe (k a) (k b) = true)) :
    ((runs k xs).map (·.1)).Pairwise (fun a b => strLt a b = true) := by
  induction xs with
  | nil => simp [runs]
  | cons x xs ih =>
    rw [List.pairwise_cons] at h
    have ih := ih h.2
    have hm := runs_key_mem k xs
    rw [runs_cons]
    split
    · rename_i key grp rest heq
      rw [heq] at ih hm
      split
      · exact ih
      · rename_i hk
        simp only [List.map_cons] at ih ⊢
        refine List.pairwise_cons.mpr ⟨?_, ih⟩
        have hle : ∀ r ∈ (key, grp) :: rest, strLe (k x) r.1 = true := by
          intro r hr
          obtain ⟨n, hn, e⟩ := hm r hr
          rw [← e]; exact h.1 n hn
        have h0 : strLt (k x) key = true :=
          (strLt_iff _ _).mpr ⟨hle (key, grp) List.mem_cons_self, hk⟩
        intro key' hkey'
        rcases List.mem_cons.mp hkey' with rfl | hkey'
        · exact h0
        · exact strLt_trans h0 ((List.pairwise_cons.mp ih).1 key' hkey')
    · simp

/-! ### definitions -/
mutual
/-- (labels from the root, leaf notes) for every leaf, left to right -/
def Tree.paths : Tree → List (List Str × List XNote)
  | .leaf ns => [([], ns)]
  | .node cs => childrenPaths cs
def childrenPaths : List (Str × Tree) → List (List Str × List XNote)
  | [] => []
  | (k, t) :: rest => (t.paths.map (fun (p, l) => (k :: p, l))) ++ childrenPaths rest
end

mutual
/-- at every node the child headers are strictly increasing (hence distinct) -/
def SiblingsSorted : Tree → Prop
  | .leaf _ => True
  | .node cs => (cs.map (·.1)).Pairwise (fun a b => strLt a b = true) ∧ ChildrenSorted cs
def ChildrenSorted : List (Str × Tree) → Prop
  | [] => True
  | (_, t) :: rest => SiblingsSorted t ∧ ChildrenSorted rest
end

theorem childrenSorted_iff (cs : List (Str × Tree)) : ChildrenSorted cs ↔ ∀ c ∈ cs, SiblingsSorted c.2 := by
  induction cs with
  | nil => simp [ChildrenSorted]
  | cons c cs ih => obtain ⟨k, t⟩ := c; simp [ChildrenSorted, ih]

theorem siblingsSorted_leaf (ns : List XNote) : SiblingsSorted (.leaf ns) ↔ True := by
  simp [SiblingsSorted]

/-- the characterisation asked for -/
theorem siblingsSorted_node (cs : List (Str × Tree)) :
    SiblingsSorted (.node cs) ↔
      (cs.map (·.1)).Pairwise (fun a b => strLt a b = true) ∧ ∀ c ∈ cs, SiblingsSorted c.2 := by
  simp [SiblingsSorted, childrenSorted_iff]

/-! ### notes -/
theorem mem_childrenPaths (cs : List (Str × Tree)) (pl : List Str × List XNote) :
    pl ∈ childrenPaths cs ↔ ∃ c ∈ cs, ∃ q ∈ c.2.paths, pl = (c.1 :: q.1, q.2) := by
  induction cs with
  | nil => simp [childrenPaths]
  | cons c cs ih =>
    obtain ⟨k, t⟩ := c
    simp only [childrenPaths, List.mem_append, List.mem_map, ih, List.mem_cons, exists_eq_or_imp]
    constructor
    · rintro (⟨q, hq, rfl⟩ | h)
      · exact Or.inl ⟨q, hq, rfl⟩
      · exact Or.inr h
    · rintro (⟨q, hq, rfl⟩ | h)
      · exact Or.inl ⟨q, hq, rfl⟩
      · exact Or.inr h

theorem childrenNotes_eq (cs : List (Str × Tree)) : childrenNotes cs = cs.flatMap (fun c => c.2.notes) := by
  induction cs with
  | nil => simp [childrenNotes]
  | cons c cs ih => obtain ⟨k, t⟩ := c; simp [childrenNotes, ih]

mutual
theorem notes_eq_paths : ∀ t : Tree, t.notes = t.paths.flatMap (·.2)
  | .leaf ns => by simp [Tree.notes, Tree.paths]
  | .node cs => by simp only [Tree.notes, Tree.paths]; exact childrenNotes_eq_paths cs
theorem childrenNotes_eq_paths : ∀ cs : List (Str × Tree), childrenNotes cs = (childrenPaths cs).flatMap (·.2)
  | [] => by simp [childrenNotes, childrenPaths]
  | (k, t) :: rest => by
    simp only [childrenNotes, childrenPaths, List.flatMap_append]
    rw [notes_eq_paths t, childrenNotes_eq_paths rest]
    simp [List.flatMap_map]
end

theorem mem_notes_of_mem_path {t : Tree} {pl : List Str × List XNote} (h : pl ∈ t.paths) {n : XNote}
    (hn : n ∈ pl.2) : n ∈ t.notes := by
  rw [notes_eq_paths]; exact List.mem_flatMap.mpr ⟨pl, h, hn⟩

/-! ### groupBy -/
theorem groupBy_cons (g : GroupBy) (gs : List GroupBy) (ns : List XNote) :
    groupBy (g :: gs) ns = .node ((runs (groupKey g) (sortBy (groupKey g) ns)).map
      (fun r => (r.1, groupBy gs r.2))) := rfl

theorem groupBy_notes_perm (gs : List GroupBy) (ns : List XNote) : (groupBy gs ns).notes.Perm ns := by
  induction gs generalizing ns with
  | nil => simp [groupBy, Tree.notes]
  | cons g gs ih =>
    rw [groupBy_cons]
    simp only [Tree.notes, childrenNotes_eq, List.flatMap_map]
    have h1 : ∀ rs : List (Str × List XNote),
        (rs.flatMap (fun r => (groupBy gs r.2).notes)).Perm (rs.flatMap (·.2)) := by
      intro rs
      induction rs with
      | nil => simp
      | cons r rs ihr => simp only [List.flatMap_cons]; exact (ih r.2).append ihr
    refine (h1 _).trans ?_
    rw [runs_flatten]
    exact sortBy_perm _ _

theorem groupBy_labels (gs : List GroupBy) (ns : List XNote) :
    ∀ pl ∈ (groupBy gs ns).paths, ∀ n ∈ pl.2, pl.1 = gs.map (fun g => groupKey g n) := by
  induction gs generalizing ns with
  | nil => intro pl hpl n _; simp [groupBy, Tree.paths] at hpl; subst hpl; rfl
  | cons g gs ih =>
    intro pl hpl n hn
    rw [groupBy_cons] at hpl
    simp only [Tree.paths] at hpl
    obtain ⟨c, hc, q, hq, rfl⟩ := (mem_childrenPaths _ _).mp hpl
    obtain ⟨r, hr, rfl⟩ := List.mem_map.mp hc
    simp only at hq hn ⊢
    have hn' : n ∈ r.2 := (groupBy_notes_perm gs r.2).mem_iff.mp (mem_notes_of_mem_path hq hn)
    rw [ih r.2 q hq n hn, ← runs_key _ _ r hr n hn']
    rfl

theorem groupBy_siblings (gs : List GroupBy) (ns : List XNote) : SiblingsSorted (groupBy gs ns) := by
  induction gs generalizing ns with
  | nil => simp [groupBy, SiblingsSorted]
  | cons g gs ih =>
    rw [groupBy_cons, siblingsSorted_node]
    constructor
    · rw [List.map_map]
      exact runs_keys_sorted _ _ (sortBy_sorted _ _)
    · intro c hc
      obtain ⟨r, _, rfl⟩ := List.mem_map.mp hc
      exact ih r.2

/-! ### orderTree -/
mutual
theorem orderTree_paths (os : List OrderBy) : ∀ t : Tree,
    (orderTree os t).paths = t.paths.map (fun pl => (pl.1, sortBy (orderKey os) pl.2))
  | .leaf ns => by simp [orderTree, Tree.paths]
  | .node cs => by simp only [orderTree, Tree.paths]; exact orderChildren_paths os cs
theorem orderChildren_paths (os : List OrderBy) : ∀ cs : List (Str × Tree),
    childrenPaths (orderChildren os cs) = (childrenPaths cs).map (fun pl => (pl.1, sortBy (orderKey os) pl.2))
  | [] => by simp [orderChildren, childrenPaths]
  | (k, t) :: rest => by
    simp only [orderChildren, childrenPaths, List.map_append]
    rw [orderTree_paths os t, orderChildren_paths os rest]
    simp [List.map_map, Function.comp_def]
end

mutual
theorem orderTree_notes_perm (os : List OrderBy) : ∀ t : Tree, (orderTree os t).notes.Perm t.notes
  | .leaf ns => by simp only [orderTree, Tree.notes]; exact sortBy_perm _ _
  | .node cs => by simp only [orderTree, Tree.notes]; exact orderChildren_notes_perm os cs
theorem orderChildren_notes_perm (os : List OrderBy) : ∀ cs : List (Str × Tree),
    (childrenNotes (orderChildren os cs)).Perm (childrenNotes cs)
  | [] => by simp [orderChildren]
  | (k, t) :: rest => by
    simp only [orderChildren, childrenNotes]
    exact (orderTree_notes_perm os t).append (orderChildren_notes_perm os rest)
end

theorem orderChildren_keys (os : List OrderBy) (cs : List (Str × Tree)) :
    (orderChildren os cs).map (·.1) = cs.map (·.1) := by
  induction cs with
  | nil => simp [orderChildren]
  | cons c cs ih => obtain ⟨k, t⟩ := c; simp [orderChildren, ih]

mutual
theorem orderTree_siblings (os : List OrderBy) : ∀ t : Tree, SiblingsSorted t → SiblingsSorted (orderTree os t)
  | .leaf ns, _ => by simp [orderTree, SiblingsSorted]
  | .node cs, h => by
    simp only [orderTree, SiblingsSorted] at h ⊢
    exact ⟨by rw [orderChildren_keys]; exact h.1, orderChildren_sorted os cs h.2⟩
theorem orderChildren_sorted (os : List OrderBy) : ∀ cs : List (Str × Tree),
    ChildrenSorted cs → ChildrenSorted (orderChildren os cs)
  | [], _ => by simp [orderChildren, ChildrenSorted]
  | (k, t) :: rest, h => by
    simp only [orderChildren, ChildrenSorted] at h ⊢
    exact ⟨orderTree_siblings os t h.1, orderChildren_sorted os rest h.2⟩
end

/-! ### execTree -/
theorem execTree_notes_perm (q : Query) (ns : List XNote) : (execTree q ns).notes.Perm ns :=
  (orderTree_notes_perm _ _).trans (groupBy_notes_perm _ _)

theorem execTree_labels (q : Query) (ns : List XNote) :
    ∀ pl ∈ (execTree q ns).paths, ∀ n ∈ pl.2, pl.1 = q.groupBy.map (fun g => groupKey g n) := by
  intro pl hpl n hn
  unfold execTree at hpl
  rw [orderTree_paths] at hpl
  obtain ⟨pl', hpl', rfl⟩ := List.mem_map.mp hpl
  exact groupBy_labels _ _ pl' hpl' n ((mem_sortBy _ _ _).mp hn)

theorem execTree_siblings (q : Query) (ns : List XNote) : SiblingsSorted (execTree q ns) :=
  orderTree_siblings _ _ (groupBy_siblings _ _)

theorem execTree_leaves_sorted (q : Query) (ns : List XNote) :
    ∀ pl ∈ (execTree q ns).paths,
      pl.2.Pairwise (fun a b => strLe (orderKey q.orderBy a) (orderKey q.orderBy b) = true) := by
  intro pl hpl
  unfold execTree at hpl
  rw [orderTree_paths] at hpl
  obtain ⟨pl', _, rfl⟩ := List.mem_map.mp hpl
  exact sortBy_sorted _ _

end ZorgVerif.Exec

#print axioms ZorgVerif.Exec.execTree_notes_perm
#print axioms ZorgVerif.Exec.execTree_labels
#print axioms ZorgVerif.Exec.execTree_siblings
#print axioms ZorgVerif.Exec.execTree_leaves_sorted
#print axioms ZorgVerif.Exec.selectField_values
