import ZorgVerif.Lemmas.Action
/-! The one-target line: `stripSet` is idempotent, what `wordTarget` offers, and the line `- solo <target>` offers
exactly that target. -/
namespace ZorgVerif.Action
open ZorgVerif ZorgVerif.NoteText

/-! ### `stripSet` -/

theorem dropWhile_eq_self_of_head {α : Type} (p : α → Bool) (l : List α)
    (h : ∀ a, l.head? = some a → p a = false) : l.dropWhile p = l := by
  cases l with
  | nil => rfl
  | cons a t => rw [List.dropWhile_cons, h a rfl]; simp

theorem head_dropWhile_false {α : Type} (p : α → Bool) (l : List α) :
    ∀ a, (l.dropWhile p).head? = some a → p a = false := by
  induction l with
  | nil => intro a h; simp at h
  | cons b t ih =>
    intro a h
    rw [List.dropWhile_cons] at h
    cases hb : p b with
    | true => rw [hb] at h; exact ih a (by simpa using h)
    | false =>
      rw [hb] at h
      have : b = a := by simpa using h
      rw [← this]; exact hb

theorem dropWhile_idem {α : Type} (p : α → Bool) (l : List α) :
    (l.dropWhile p).dropWhile p = l.dropWhile p :=
  dropWhile_eq_self_of_head p _ (head_dropWhile_false p l)

/-- a nonempty prefix has the same head -/
theorem head?_of_prefix {α : Type} (u t : List α) (a : α) (hp : u <+: t) (h : u.head? = some a) :
    t.head? = some a := by
  obtain ⟨v, rfl⟩ := hp
  cases u with
  | nil => simp at h
  | cons b u' => simpa using h

theorem stripSet_idem (set : List Char) (s : Str) : stripSet set (stripSet set s) = stripSet set s := by
  unfold stripSet
  generalize set.contains = p
  generalize ht : s.dropWhile p = t
  have hthead : ∀ a, t.head? = some a → p a = false := by
    rw [← ht]; exact head_dropWhile_false p s
  -- `u` is a prefix of `t`
  have hpre : (t.reverse.dropWhile p).reverse <+: t := by
    have hs : t.reverse.dropWhile p <:+ t.reverse := List.dropWhile_suffix p
    have := List.reverse_prefix.mpr hs
    simpa using this
  have h1 : (t.reverse.dropWhile p).reverse.dropWhile p = (t.reverse.dropWhile p).reverse :=
    dropWhile_eq_self_of_head p _ (fun a ha => hthead a (head?_of_prefix _ _ a hpre ha))
  rw [h1, List.reverse_reverse, dropWhile_idem]

/-! ### `wordTarget` -/

theorem wordTarget_text_word (vd : Str → Bool) (w : Str) (h : wordTarget vd w = some (.word w)) :
    isLinkWord w = true := by
  unfold wordTarget at h
  by_cases h1 : isLinkWord w = true
  · exact h1
  · rw [if_neg h1] at h
    split at h <;> simp at h

theorem wordTarget_zid (vd : Str → Bool) (w z : Str) (h : wordTarget vd w = some (.zid z)) :
    isLinkWord w = false ∧ z = stripSet ['[', ']'] w ∧ isZid vd z = true := by
  unfold wordTarget at h
  by_cases h1 : isLinkWord w = true
  · rw [if_pos h1] at h; simp at h
  · rw [if_neg h1] at h
    by_cases h2 : isZid vd (stripSet ['[', ']'] w) = true
    · rw [if_pos h2] at h
      have hz : stripSet ['[', ']'] w = z := by simpa using h
      refine ⟨by simpa using h1, hz.symm, ?_⟩
      rw [← hz]; exact h2
    · rw [if_neg h2] at h; simp at h

/-! ### the one-target line -/

theorem splitOn_solo (w : Str) (hsp : ' ' ∉ w) :
    splitOn ' ' ("- solo ".toList ++ w) = ["-".toList, "solo".toList, w] := by
  have e : "- solo ".toList ++ w = "-".toList ++ ' ' :: ("solo".toList ++ ' ' :: w) := by simp
  rw [e, splitOn_append_sep _ _ _ (by decide), splitOn_append_sep _ _ _ (by decide), splitOn_of_not_mem _ _ hsp]

theorem wordTarget_dash (vd : Str → Bool) : wordTarget vd "-".toList = none := by
  have h1 : isLinkWord "-".toList = false := by decide
  have h2 : isZid vd (stripSet ['[', ']'] "-".toList) = false := by
    have : stripSet ['[', ']'] "-".toList = "-".toList := by decide
    rw [this]; simp [isZid]
  unfold wordTarget
  rw [if_neg (by rw [h1]; simp), if_neg (by rw [h2]; simp)]

theorem wordTarget_solo (vd : Str → Bool) : wordTarget vd "solo".toList = none := by
  have h1 : isLinkWord "solo".toList = false := by decide
  have h2 : isZid vd (stripSet ['[', ']'] "solo".toList) = false := by
    have : stripSet ['[', ']'] "solo".toList = "solo".toList := by decide
    rw [this]; simp [isZid]
  unfold wordTarget
  rw [if_neg (by rw [h1]; simp), if_neg (by rw [h2]; simp)]

theorem isPrefixWord_dash (vd : Str → Bool) : isPrefixWord vd "-".toList = true := by
  have : isPrefixSymbol "-".toList = true := by decide
  unfold isPrefixWord
  rw [this]; rfl

theorem isPrefixWord_solo (vd : Str → Bool) : isPrefixWord vd "solo".toList = false := by
  have h1 : isPrefixSymbol "solo".toList = false := by decide
  have h2 : isPriority "solo".toList = false := by decide
  have h3 : isSixDigits "solo".toList = false := by decide
  unfold isPrefixWord
  rw [h1, h2, h3]; rfl

/-- the line `- solo x` offers what the word `x` offers -/
theorem solo_line (vd : Str → Bool) (isZoq : Bool) (x : Str) (hsp : ' ' ∉ x)
    (hst : stripSet "(),.?!;:".toList x = x) :
    targets vd isZoq ("- solo ".toList ++ x) = [x].filterMap (wordTarget vd) := by
  have hd : stripSet "(),.?!;:".toList "-".toList = "-".toList := by decide
  have hs : stripSet "(),.?!;:".toList "solo".toList = "solo".toList := by decide
  rw [targets_eq_spec, splitOn_solo x hsp]
  simp only [List.map_cons, List.map_nil, hd, hs, hst]
  rw [specTargets]
  simp only [wordTarget_dash, isPrefixWord_dash, if_true]
  rw [specTargets]
  simp only [wordTarget_solo, isPrefixWord_solo, Bool.false_eq_true, if_false]

theorem solo_line_word (vd : Str → Bool) (isZoq : Bool) (w : Str) (hl : isLinkWord w = true) (hsp : ' ' ∉ w)
    (hst : stripSet "(),.?!;:".toList w = w) :
    targets vd isZoq ("- solo ".toList ++ w) = [.word w] := by
  rw [solo_line vd isZoq w hsp hst]
  simp [wordTarget, hl]

theorem solo_line_zid (vd : Str → Bool) (isZoq : Bool) (z : Str) (hz : isZid vd z = true) (hl : isLinkWord z = false)
    (hsp : ' ' ∉ z) (hst : stripSet "(),.?!;:".toList z = z) (hbr : stripSet ['[', ']'] z = z) :
    targets vd isZoq ("- solo ".toList ++ z) = [.zid z] := by
  rw [solo_line vd isZoq z hsp hst]
  simp [wordTarget, hl, hbr, hz]

theorem solo_line_of_target (vd : Str → Bool) (isZoq : Bool) (t : Target)
    (hsp : ' ' ∉ t.text) (hst : stripSet "(),.?!;:".toList t.text = t.text)
    (ht : (∃ w, t = .word w ∧ isLinkWord w = true) ∨
      (∃ z, t = .zid z ∧ isZid vd z = true ∧ isLinkWord z = false ∧ stripSet ['[', ']'] z = z)) :
    targets vd isZoq ("- solo ".toList ++ t.text) = [t] := by
  rcases ht with ⟨w, rfl, hl⟩ | ⟨z, rfl, hz, hl, hbr⟩
  · exact solo_line_word vd isZoq w hl hsp hst
  · exact solo_line_zid vd isZoq z hz hl hsp hst hbr

end ZorgVerif.Action

