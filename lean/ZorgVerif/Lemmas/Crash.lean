import ZorgVerif.Lemmas.Index
import ZorgVerif.Model.Crash
/-! Crash convergence of `db reindex` / `db create` (C13): whatever prefix of the effect list a kill leaves
behind, a rerun reaches a store where index, hash map and files agree, and no user text is lost. -/
namespace ZorgVerif.Crash
open ZorgVerif ZorgVerif.Index

variable {Page : Type}

/-- crash-state invariant: a page whose recorded hash matches its current file is settled and correctly indexed -/
def InvM (sem : Sem Page) (s : Store Page) : Prop :=
  ∀ p t, get s.files p = some t → get s.hashes p = some t → Settled sem t ∧ get s.db p = some (pageOf sem t)

theorem InvM.of_Inv {sem : Sem Page} {s : Store Page} (h : Inv sem s) : InvM sem s :=
  fun p t _ hh => h p t hh

/-! ## more map lemmas -/

section Maps
variable {β : Type}

theorem mem_of_get {m : List (Path × β)} {p : Path} {v : β} (h : get m p = some v) : (p, v) ∈ m := by
  induction m with
  | nil => simp at h
  | cons kv m ih =>
    obtain ⟨k, w⟩ := kv
    rw [get_cons] at h
    by_cases e : k = p
    · simp only [e, if_true] at h
      cases h; subst e; exact List.mem_cons_self
    · simp only [e, if_false] at h
      exact List.mem_cons_of_mem _ (ih h)

theorem get_iff_mem {m : List (Path × β)} (hu : Uniq m) (p : Path) (v : β) :
    get m p = some v ↔ (p, v) ∈ m := ⟨mem_of_get, get_of_mem hu⟩

theorem key_mem_of_get {m : List (Path × β)} {p : Path} {v : β} (h : get m p = some v) :
    p ∈ m.map (·.1) := List.mem_map.2 ⟨(p, v), mem_of_get h, rfl⟩

theorem get_map_val {γ : Type} (g : Path → β → γ) (m : List (Path × β)) (q : Path) :
    get (m.map (fun kv => (kv.1, g kv.1 kv.2))) q = (get m q).map (g q) := by
  induction m with
  | nil => rfl
  | cons kv m ih =>
    obtain ⟨k, v⟩ := kv
    rw [List.map_cons, get_cons, get_cons, ih]
    by_cases e : k = q
    · subst e; simp
    · simp [e]

end Maps

/-! ## A. recovery from a crash state -/

theorem loopStep_specM {sem : Sem Page} (hs : Stable sem) {st : Store Page} {p : Path} {t : Text}
    (hloc : get st.hashes p = some t → Settled sem t ∧ get st.db p = some (pageOf sem t))
    (hf : get st.files p = some t) :
    ∃ t', get (loopStep sem st p t).files p = some t' ∧ get (loopStep sem st p t).hashes p = some t' ∧
      get (loopStep sem st p t).db p = some (pageOf sem t') ∧ Settled sem t' := by
  by_cases hh : get st.hashes p = some t
  · rw [loopStep_pos hh]
    exact ⟨t, hf, hh, (hloc hh).2, (hloc hh).1⟩
  · rw [loopStep_neg hh]
    refine ⟨(sem.process (get st.db p) t).1, ?_, ?_, ?_, hs.settled _ _⟩
    · rw [indexOne_files, get_put_self]
    · rw [indexOne_hashes, get_put_self]
    · rw [indexOne_db, get_put_self, hs.pageOf]

/-- `reindexLoop_full` under the weaker invariant `InvM` -/
theorem reindexLoop_fullM {sem : Sem Page} (hs : Stable sem) {st : Store Page} (hinv : InvM sem st)
    (hu : Uniq st.files)
    (hsub : ∀ p, get st.files p = none → get st.db p = none ∧ get st.hashes p = none) :
    (∀ p, get (reindexLoop sem st.files st).db p
            = (get (reindexLoop sem st.files st).files p).map (pageOf sem)) ∧
    (∀ p t, get (reindexLoop sem st.files st).files p = some t → Settled sem t) ∧
    (∀ p, get (reindexLoop sem st.files st).hashes p = get (reindexLoop sem st.files st).files p) ∧
    Uniq (reindexLoop sem st.files st).files ∧
    (∀ p, (get (reindexLoop sem st.files st).files p).isSome = (get st.files p).isSome) := by
  have key : ∀ p, (get st.files p = none ∧ get (reindexLoop sem st.files st).files p = none ∧
        get (reindexLoop sem st.files st).db p = none ∧
        get (reindexLoop sem st.files st).hashes p = none) ∨
      (∃ t t', get st.files p = some t ∧ get (reindexLoop sem st.files st).files p = some t' ∧
        get (reindexLoop sem st.files st).hashes p = some t' ∧
        get (reindexLoop sem st.files st).db p = some (pageOf sem t') ∧ Settled sem t') := by
    intro p
    have L := reindexLoop_at sem st.files hu st p
    cases hf : get st.files p with
    | none =>
      left
      have ag := L.1 hf
      refine ⟨rfl, ?_, ?_, ?_⟩
      · rw [ag.1, hf]
      · rw [ag.2.1, (hsub p hf).1]
      · rw [ag.2.2, (hsub p hf).2]
    | some t =>
      right
      have ag := L.2 t hf
      obtain ⟨t', h1, h2, h3, h4⟩ := loopStep_specM hs (hinv p t hf) hf
      exact ⟨t, t', rfl, by rw [ag.1, h1], by rw [ag.2.2, h2], by rw [ag.2.1, h3], h4⟩
  refine ⟨?_, ?_, ?_, hu.reindexLoop_files _, ?_⟩
  · intro p
    rcases key p with ⟨_, h1, h2, _⟩ | ⟨t, t', _, h1, _, h3, _⟩
    · rw [h1, h2]; rfl
    · rw [h1, h3]; rfl
  · intro p u hp
    rcases key p with ⟨_, h1, _, _⟩ | ⟨t, t', _, h1, _, _, h4⟩
    · rw [h1] at hp; cases hp
    · rw [h1] at hp; cases hp; exact h4
  · intro p
    rcases key p with ⟨_, h1, _, h3⟩ | ⟨t, t', _, h1, h2, _, _⟩
    · rw [h1, h3]
    · rw [h1, h2]
  · intro p
    rcases key p with ⟨h0, h1, _, _⟩ | ⟨t, t', h0, h1, _, _, _⟩
    · rw [h0, h1]
    · rw [h0, h1]; rfl

theorem pruned_hashes_get (s : Store Page) (p : Path) :
    get (pruned s).hashes p = if (get s.files p).isSome then get s.hashes p else none :=
  get_filter_key (fun k => (get s.files k).isSome) s.hashes p

theorem pruned_db_get (s : Store Page) (p : Path) :
    get (pruned s).db p = if (get s.files p).isSome then get s.db p else none :=
  get_filter_key (fun k => (get s.files k).isSome) s.db p

theorem InvM.pruned {sem : Sem Page} {s : Store Page} (h : InvM sem s) : InvM sem (pruned s) := by
  intro p t hf hh
  have hf' : get s.files p = some t := hf
  rw [pruned_hashes_get, hf'] at hh
  rw [pruned_db_get, hf']
  exact h p t hf' hh

theorem recover_of_InvM {sem : Sem Page} (hs : Stable sem) {c : Store Page} (h : InvM sem c) (hu : Uniq c.files) :
    Agree sem (reindexPlain sem c) ∧ (∀ p, (get (reindexPlain sem c).files p).isSome = (get c.files p).isSome) := by
  rw [reindexPlain_eq]
  obtain ⟨h1, h2, h3, _, h5⟩ := reindexLoop_fullM hs h.pruned hu (pruned_sub c)
  exact ⟨⟨h1, h3, h2⟩, h5⟩

/-! ## B. user text survives a rerun -/

theorem reindexLoop_userText {α : Type} {sem : Sem Page} (ut : Text → α)
    (hut : ∀ old t, ut (sem.process old t).1 = ut t) (st : Store Page) (hu : Uniq st.files) :
    ∀ p, (get (reindexLoop sem st.files st).files p).map ut = (get st.files p).map ut := by
  intro p
  have L := reindexLoop_at sem st.files hu st p
  cases hf : get st.files p with
  | none => rw [(L.1 hf).1, hf]
  | some t =>
    rw [(L.2 t hf).1]
    by_cases hh : get st.hashes p = some t
    · rw [loopStep_pos hh, hf]
    · rw [loopStep_neg hh, indexOne_files, get_put_self]
      simp [hut]

theorem recover_userText {α : Type} {sem : Sem Page} (ut : Text → α) (hut : ∀ old t, ut (sem.process old t).1 = ut t)
    (c : Store Page) (hu : Uniq c.files) :
    ∀ p, (get (reindexPlain sem c).files p).map ut = (get c.files p).map ut := by
  rw [reindexPlain_eq]
  exact reindexLoop_userText ut hut (pruned c) hu

theorem create_userText {α : Type} {sem : Sem Page} (ut : Text → α) (hut : ∀ old t, ut (sem.process old t).1 = ut t)
    (c : Store Page) (hu : Uniq c.files) :
    ∀ p, (get (create sem c).files p).map ut = (get c.files p).map ut :=
  reindexLoop_userText ut hut { files := c.files, db := [], hashes := [] } hu

/-! ## effect lists -/

theorem applyAll_nil (s : Store Page) : applyAll s [] = s := rfl
theorem applyAll_cons (s : Store Page) (e : Eff Page) (es : List (Eff Page)) :
    applyAll s (e :: es) = applyAll (Eff.apply s e) es := rfl
theorem applyAll_append (s : Store Page) (xs ys : List (Eff Page)) :
    applyAll s (xs ++ ys) = applyAll (applyAll s xs) ys := by
  unfold applyAll; rw [List.foldl_append]

theorem uniq_apply_files {s : Store Page} (h : Uniq s.files) (e : Eff Page) : Uniq (Eff.apply s e).files := by
  cases e <;> first | exact h | exact h.put _ _

theorem uniq_applyAll_files (es : List (Eff Page)) :
    ∀ {s : Store Page}, Uniq s.files → Uniq (applyAll s es).files := by
  induction es with
  | nil => intro s h; exact h
  | cons e es ih => intro s h; exact ih (uniq_apply_files h e)

/-- if every file effect replaces a page of `s` by a text with the same user text, user text is kept -/
theorem applyAll_userText {α : Type} (ut : Text → α) (s : Store Page) (es : List (Eff Page))
    (hes : ∀ p x, Eff.file p x ∈ es → ∃ t, get s.files p = some t ∧ ut x = ut t) :
    ∀ c : Store Page, (∀ p, (get c.files p).map ut = (get s.files p).map ut) →
      ∀ p, (get (applyAll c es).files p).map ut = (get s.files p).map ut := by
  induction es with
  | nil => intro c hc; exact hc
  | cons e es ih =>
    intro c hc
    rw [applyAll_cons]
    apply ih (fun p x hm => hes p x (List.mem_cons_of_mem _ hm))
    cases e with
    | file p x =>
      intro q
      show (get (put c.files p x) q).map ut = _
      rw [get_put]
      by_cases e : q = p
      · subst e
        obtain ⟨t, ht, hx⟩ := hes q x List.mem_cons_self
        simp [ht, hx]
      · simp only [e, if_false]; exact hc q
    | _ => exact hc

/-- an effect that only touches the index at a path satisfying `P` -/
def Eff.dbOnly (P : Path → Prop) : Eff Page → Prop
  | .dbDamage p _ => P p
  | .dbDrop p => P p
  | .dbPut p _ => P p
  | _ => False

theorem applyAll_dbOnly (P : Path → Prop) (es : List (Eff Page)) (h : ∀ e, e ∈ es → e.dbOnly P) :
    ∀ c : Store Page, (applyAll c es).files = c.files ∧ (applyAll c es).hashes = c.hashes ∧
      ∀ q, ¬ P q → get (applyAll c es).db q = get c.db q := by
  induction es with
  | nil => intro c; exact ⟨rfl, rfl, fun _ _ => rfl⟩
  | cons e es ih =>
    intro c
    rw [applyAll_cons]
    obtain ⟨h1, h2, h3⟩ := ih (fun e he => h e (List.mem_cons_of_mem _ he)) (Eff.apply c e)
    have he := h e List.mem_cons_self
    cases e with
    | dbDamage p j =>
      refine ⟨h1, h2, fun q hq => ?_⟩
      rw [h3 q hq]
      show get (put c.db p j) q = _
      rw [get_put_ne]; intro e; subst e; exact hq he
    | dbDrop p =>
      refine ⟨h1, h2, fun q hq => ?_⟩
      rw [h3 q hq]
      show get (del c.db p) q = _
      rw [get_del, if_neg]; intro e; subst e; exact hq he
    | dbPut p pg =>
      refine ⟨h1, h2, fun q hq => ?_⟩
      rw [h3 q hq]
      show get (put c.db p pg) q = _
      rw [get_put_ne]; intro e; subst e; exact hq he
    | dbReset => exact he.elim
    | dbPutAll ps => exact he.elim
    | hashAll hh => exact he.elim
    | hashPut p t => exact he.elim
    | file p t => exact he.elim

theorem removal_dbOnly (env : Env Page) (p : Path) : ∀ e, e ∈ removal env p → e.dbOnly (· = p) := by
  intro e he
  unfold removal at he
  obtain ⟨j, _, rfl⟩ := List.mem_map.1 he
  exact rfl

theorem removal_spec (env : Env Page) (p : Path) (c : Store Page) :
    (applyAll c (removal env p)).files = c.files ∧ (applyAll c (removal env p)).hashes = c.hashes ∧
      ∀ q, q ≠ p → get (applyAll c (removal env p)).db q = get c.db q :=
  applyAll_dbOnly (· = p) _ (removal_dbOnly env p) c

/-- phase 1: the stale pages are dropped -/
theorem phase1_spec (env : Env Page) (ps : List Path) : ∀ c : Store Page,
    (applyAll c (ps.flatMap (fun p => removal env p ++ [Eff.dbDrop p]))).files = c.files ∧
    (applyAll c (ps.flatMap (fun p => removal env p ++ [Eff.dbDrop p]))).hashes = c.hashes ∧
    ∀ q, get (applyAll c (ps.flatMap (fun p => removal env p ++ [Eff.dbDrop p]))).db q
      = if q ∈ ps then none else get c.db q := by
  induction ps with
  | nil => intro c; exact ⟨rfl, rfl, fun q => by simp [applyAll_nil]⟩
  | cons p ps ih =>
    intro c
    rw [List.flatMap_cons, applyAll_append, applyAll_append]
    obtain ⟨r1, r2, r3⟩ := removal_spec env p c
    obtain ⟨h1, h2, h3⟩ := ih (applyAll (applyAll c (removal env p)) [Eff.dbDrop p])
    refine ⟨h1.trans r1, h2.trans r2, fun q => ?_⟩
    rw [h3 q]
    show (if q ∈ ps then none else get (del (applyAll c (removal env p)).db p) q) = _
    rw [get_del]
    by_cases e : q = p
    · subst e; simp
    · rw [if_neg e, r3 q e]; simp [e]

/-- phase 2: the changed pages are committed -/
theorem phase2_spec (env : Env Page) (ws : List (Path × Text × Text × Page)) (hn : (ws.map (·.1)).Nodup) :
    ∀ c : Store Page,
    (applyAll c (ws.flatMap (fun w => removal env w.1 ++ [Eff.dbPut w.1 w.2.2.2]))).files = c.files ∧
    (applyAll c (ws.flatMap (fun w => removal env w.1 ++ [Eff.dbPut w.1 w.2.2.2]))).hashes = c.hashes ∧
    (∀ q, q ∉ ws.map (·.1) →
      get (applyAll c (ws.flatMap (fun w => removal env w.1 ++ [Eff.dbPut w.1 w.2.2.2]))).db q = get c.db q) ∧
    (∀ w, w ∈ ws →
      get (applyAll c (ws.flatMap (fun w => removal env w.1 ++ [Eff.dbPut w.1 w.2.2.2]))).db w.1 = some w.2.2.2) := by
  induction ws with
  | nil => intro c; exact ⟨rfl, rfl, fun _ _ => rfl, fun w hw => by cases hw⟩
  | cons w ws ih =>
    intro c
    rw [List.map_cons, List.nodup_cons] at hn
    rw [List.flatMap_cons, applyAll_append, applyAll_append]
    obtain ⟨r1, r2, r3⟩ := removal_spec env w.1 c
    obtain ⟨h1, h2, h3, h4⟩ := ih hn.2 (applyAll (applyAll c (removal env w.1)) [Eff.dbPut w.1 w.2.2.2])
    have hput : ∀ q, get (applyAll (applyAll c (removal env w.1)) [Eff.dbPut w.1 w.2.2.2]).db q
        = if q = w.1 then some w.2.2.2 else get c.db q := by
      intro q
      show get (put (applyAll c (removal env w.1)).db w.1 w.2.2.2) q = _
      rw [get_put]
      by_cases e : q = w.1
      · simp [e]
      · simp only [e, if_false]; exact r3 q e
    refine ⟨h1.trans r1, h2.trans r2, fun q hq => ?_, fun w' hw' => ?_⟩
    · rw [List.map_cons, List.mem_cons, not_or] at hq
      rw [h3 q hq.2, hput, if_neg hq.1]
    · rcases List.mem_cons.1 hw' with e | hm
      · subst e
        rw [h3 _ hn.1, hput, if_pos rfl]
      · exact h4 w' hm

/-! ## phase 4: write-back -/

/-- the write-back of one pending page: intermediate texts, final text, hash entry -/
def wb (mid : Path → Text → List Text) (w : Path × Text × Text × Page) : List (Eff Page) :=
  (mid w.1 w.2.1).map (Eff.file w.1) ++ [Eff.file w.1 w.2.2.1, Eff.hashPut w.1 w.2.2.1]

/-- the states inside the write-back of one page -/
theorem group_prefix (p : Path) (t' : Text) (ms : List Text) : ∀ (c : Store Page) (k : Nat) (c' : Store Page),
    c' = applyAll c ((ms.map (Eff.file p) ++ [Eff.file p t', Eff.hashPut p t']).take k) →
    c'.db = c.db ∧
    (∀ q, q ≠ p → get c'.files q = get c.files q ∧ get c'.hashes q = get c.hashes q) ∧
    (get c'.hashes p = get c.hashes p ∨ (get c'.files p = some t' ∧ get c'.hashes p = some t')) ∧
    (ms.length + 2 ≤ k → get c'.files p = some t' ∧ get c'.hashes p = some t') := by
  induction ms with
  | nil =>
    intro c k c' hc
    rcases k with _ | _ | k
    · subst hc
      exact ⟨rfl, fun _ _ => ⟨rfl, rfl⟩, Or.inl rfl, fun h => by simp at h⟩
    · subst hc
      refine ⟨rfl, fun q hq => ⟨?_, rfl⟩, Or.inl rfl, fun h => by simp at h⟩
      show get (put c.files p t') q = _
      exact get_put_ne _ _ _ hq
    · rw [List.take_of_length_le (by simp)] at hc
      subst hc
      have hf : get (put c.files p t') p = some t' := get_put_self _ _ _
      have hh : get (put c.hashes p t') p = some t' := get_put_self _ _ _
      refine ⟨rfl, fun q hq => ⟨?_, ?_⟩, Or.inr ⟨hf, hh⟩, fun _ => ⟨hf, hh⟩⟩
      · show get (put c.files p t') q = _
        exact get_put_ne _ _ _ hq
      · show get (put c.hashes p t') q = _
        exact get_put_ne _ _ _ hq
  | cons m ms ih =>
    intro c k c' hc
    rcases k with _ | k
    · subst hc
      exact ⟨rfl, fun _ _ => ⟨rfl, rfl⟩, Or.inl rfl, fun h => by simp at h⟩
    · rw [List.map_cons, List.cons_append, List.take_succ_cons, applyAll_cons] at hc
      obtain ⟨h1, h2, h3, h4⟩ := ih (Eff.apply c (Eff.file p m)) k c' hc
      refine ⟨h1, fun q hq => ⟨?_, (h2 q hq).2⟩, h3, fun h => h4 (by simp at h; omega)⟩
      rw [(h2 q hq).1]
      show get (put c.files p m) q = _
      exact get_put_ne _ _ _ hq

theorem wb_prefix (mid : Path → Text → List Text) (w : Path × Text × Text × Page) (c : Store Page) (k : Nat)
    (c' : Store Page) (hc : c' = applyAll c ((wb mid w).take k)) :
    c'.db = c.db ∧
    (∀ q, q ≠ w.1 → get c'.files q = get c.files q ∧ get c'.hashes q = get c.hashes q) ∧
    (get c'.hashes w.1 = get c.hashes w.1 ∨ (get c'.files w.1 = some w.2.2.1 ∧ get c'.hashes w.1 = some w.2.2.1)) ∧
    ((wb mid w).length ≤ k → get c'.files w.1 = some w.2.2.1 ∧ get c'.hashes w.1 = some w.2.2.1) := by
  obtain ⟨h1, h2, h3, h4⟩ := group_prefix w.1 w.2.2.1 (mid w.1 w.2.1) c k c' hc
  refine ⟨h1, h2, h3, fun h => h4 ?_⟩
  unfold wb at h
  simpa using h

/-- one (partial) write-back keeps the crash invariant -/
theorem wb_prefix_InvM {sem : Sem Page} (mid : Path → Text → List Text) (w : Path × Text × Text × Page)
    {c : Store Page} (hinv : InvM sem c) (hh : get c.hashes w.1 = none) (hset : Settled sem w.2.2.1)
    (hdb : get c.db w.1 = some (pageOf sem w.2.2.1)) (k : Nat) :
    InvM sem (applyAll c ((wb mid w).take k)) := by
  obtain ⟨h1, h2, h3, _⟩ := wb_prefix mid w c k _ rfl
  intro q t hf hq
  rw [h1]
  by_cases e : q = w.1
  · subst e
    rcases h3 with h3 | ⟨h3, _⟩
    · rw [h3, hh] at hq; cases hq
    · rw [h3] at hf; cases hf; exact ⟨hset, hdb⟩
  · rw [(h2 q e).1] at hf
    rw [(h2 q e).2] at hq
    exact hinv q t hf hq

/-- the states inside phase 4 satisfy the crash invariant -/
theorem phase4_InvM {sem : Sem Page} (mid : Path → Text → List Text) (ws : List (Path × Text × Text × Page)) :
    (ws.map (·.1)).Nodup → ∀ c : Store Page, InvM sem c →
    (∀ w, w ∈ ws → get c.hashes w.1 = none ∧ Settled sem w.2.2.1 ∧ get c.db w.1 = some (pageOf sem w.2.2.1)) →
    ∀ k, InvM sem (applyAll c ((ws.flatMap (wb mid)).take k)) := by
  induction ws with
  | nil => intro _ c h _ k; simpa [applyAll_nil] using h
  | cons w ws ih =>
    intro hn c hinv hws k
    rw [List.map_cons, List.nodup_cons] at hn
    rw [List.flatMap_cons, List.take_append, applyAll_append]
    obtain ⟨hw1, hw2, hw3⟩ := hws w List.mem_cons_self
    obtain ⟨h1, h2, _, _⟩ := wb_prefix mid w c k _ rfl
    apply ih hn.2 _ (wb_prefix_InvM mid w hinv hw1 hw2 hw3 k)
    intro w' hw'
    have hne : w'.1 ≠ w.1 := by
      intro e
      exact hn.1 (e ▸ List.mem_map.2 ⟨w', hw', rfl⟩)
    obtain ⟨a1, a2, a3⟩ := hws w' (List.mem_cons_of_mem _ hw')
    exact ⟨by rw [(h2 _ hne).2]; exact a1, a2, by rw [h1]; exact a3⟩

/-- the store after phase 4 -/
theorem phase4_spec (mid : Path → Text → List Text) (ws : List (Path × Text × Text × Page)) :
    (ws.map (·.1)).Nodup → ∀ c : Store Page,
    (applyAll c (ws.flatMap (wb mid))).db = c.db ∧
    (∀ q, q ∉ ws.map (·.1) → get (applyAll c (ws.flatMap (wb mid))).files q = get c.files q ∧
      get (applyAll c (ws.flatMap (wb mid))).hashes q = get c.hashes q) ∧
    (∀ w, w ∈ ws → get (applyAll c (ws.flatMap (wb mid))).files w.1 = some w.2.2.1 ∧
      get (applyAll c (ws.flatMap (wb mid))).hashes w.1 = some w.2.2.1) := by
  induction ws with
  | nil => intro _ c; exact ⟨rfl, fun _ _ => ⟨rfl, rfl⟩, fun w hw => by cases hw⟩
  | cons w ws ih =>
    intro hn c
    rw [List.map_cons, List.nodup_cons] at hn
    rw [List.flatMap_cons, applyAll_append]
    obtain ⟨h1, h2, _, h4⟩ := wb_prefix mid w c (wb mid w).length _
      (by rw [List.take_length])
    obtain ⟨i1, i2, i3⟩ := ih hn.2 (applyAll c (wb mid w))
    refine ⟨i1.trans h1, fun q hq => ?_, fun w' hw' => ?_⟩
    · rw [List.map_cons, List.mem_cons, not_or] at hq
      rw [(i2 q hq.2).1, (i2 q hq.2).2]
      exact h2 q hq.1
    · rcases List.mem_cons.1 hw' with e | hm
      · subst e
        rw [(i2 _ hn.1).1, (i2 _ hn.1).2]
        exact h4 (Nat.le_refl _)
      · exact i3 w' hm

/-! ## the structure of `reindexEffs` -/

/-- phases 1 and 2: the index is brought up to date -/
def E12 (sem : Sem Page) (env : Env Page) (s : Store Page) : List (Eff Page) :=
  (stale s).flatMap (fun p => removal env p ++ [Eff.dbDrop p]) ++
  (work sem s).flatMap (fun w => removal env w.1 ++ [Eff.dbPut w.1 w.2.2.2])

/-- the hash map saved in phase 3 -/
def hmap (sem : Sem Page) (s : Store Page) : List (Path × Text) :=
  s.files.filter (fun kv => !((pending sem s).any (fun w => w.1 == kv.1)))

def rmid (env : Env Page) : Path → Text → List Text := fun p t => (env.mid p t).toList

theorem reindexEffs_eq (sem : Sem Page) (env : Env Page) (s : Store Page) :
    reindexEffs sem env s
      = E12 sem env s ++ (Eff.hashAll (hmap sem s) :: (pending sem s).flatMap (wb (rmid env))) := by
  show _ ++ _ ++ [_] ++ _ = _
  rw [List.append_assoc (_ ++ _) [_] _]
  rfl

/-- paths that are not "recorded hash = current file" -/
def NotGood (s : Store Page) (q : Path) : Prop := ∀ t, get s.files q = some t → get s.hashes q ≠ some t

theorem mem_changed {s : Store Page} {p : Path} {t : Text} :
    (p, t) ∈ changed s ↔ (p, t) ∈ s.files ∧ get s.hashes p ≠ some t := by
  unfold changed
  simp [List.mem_filter]

theorem files_none_of_stale {s : Store Page} {p : Path} (h : p ∈ stale s) : get s.files p = none := by
  unfold stale at h
  obtain ⟨kv, hkv, rfl⟩ := List.mem_map.1 h
  have := (List.mem_filter.1 hkv).2
  simpa using this

theorem stale_of_db {s : Store Page} {p : Path} {v : Page} (hd : get s.db p = some v)
    (hf : get s.files p = none) : p ∈ stale s := by
  unfold stale
  refine List.mem_map.2 ⟨(p, v), List.mem_filter.2 ⟨mem_of_get hd, ?_⟩, rfl⟩
  simp [hf]

theorem mem_work {sem : Sem Page} {s : Store Page} {w : Path × Text × Text × Page} :
    w ∈ work sem s ↔ ∃ p t, (p, t) ∈ changed s ∧ w = (p, t, sem.process (get s.db p) t) := by
  unfold work
  constructor
  · intro h
    obtain ⟨kv, hkv, rfl⟩ := List.mem_map.1 h
    exact ⟨kv.1, kv.2, hkv, rfl⟩
  · rintro ⟨p, t, h, rfl⟩
    exact List.mem_map.2 ⟨(p, t), h, rfl⟩

theorem work_keys (sem : Sem Page) (s : Store Page) : (work sem s).map (·.1) = (changed s).map (·.1) := by
  unfold work
  rw [List.map_map]; rfl

theorem work_nodup (sem : Sem Page) {s : Store Page} (hu : Uniq s.files) : ((work sem s).map (·.1)).Nodup := by
  rw [work_keys]
  exact hu.filter _

theorem pending_nodup (sem : Sem Page) {s : Store Page} (hu : Uniq s.files) :
    ((pending sem s).map (·.1)).Nodup :=
  List.Pairwise.sublist (List.Sublist.map _ List.filter_sublist) (work_nodup sem hu)

theorem mem_pending {sem : Sem Page} {s : Store Page} {w : Path × Text × Text × Page} :
    w ∈ pending sem s ↔ w ∈ work sem s ∧ w.2.2.1 ≠ w.2.1 := by
  unfold pending
  simp [List.mem_filter]

/-- a work item: its path holds the text `w.2.1`, which differs from the recorded hash -/
theorem work_item {sem : Sem Page} {s : Store Page} (hu : Uniq s.files) {w : Path × Text × Text × Page}
    (h : w ∈ work sem s) :
    get s.files w.1 = some w.2.1 ∧ get s.hashes w.1 ≠ some w.2.1 ∧ w.2.2 = sem.process (get s.db w.1) w.2.1 := by
  obtain ⟨p, t, hc, rfl⟩ := mem_work.1 h
  obtain ⟨hm, hh⟩ := mem_changed.1 hc
  exact ⟨get_of_mem hu hm, hh, rfl⟩

theorem work_of_changed {sem : Sem Page} {s : Store Page} {q : Path} {t : Text}
    (hf : get s.files q = some t) (hh : get s.hashes q ≠ some t) :
    (q, t, sem.process (get s.db q) t) ∈ work sem s :=
  mem_work.2 ⟨q, t, mem_changed.2 ⟨mem_of_get hf, hh⟩, rfl⟩

theorem get_hmap (sem : Sem Page) (s : Store Page) (q : Path) :
    get (hmap sem s) q = if q ∈ (pending sem s).map (·.1) then none else get s.files q := by
  unfold hmap
  rw [get_filter_key (fun k => !((pending sem s).any (fun w => w.1 == k)))]
  by_cases h : q ∈ (pending sem s).map (·.1)
  · rw [if_pos h, if_neg]
    obtain ⟨w, hw, rfl⟩ := List.mem_map.1 h
    simp only [Bool.not_eq_true', Bool.not_eq_false, List.any_eq_true]
    exact ⟨w, hw, by simp⟩
  · rw [if_neg h, if_pos]
    simp only [Bool.not_eq_true', List.any_eq_false]
    intro w hw hb
    exact h (List.mem_map.2 ⟨w, hw, by simpa using hb⟩)

theorem dbOnly_mono {P Q : Path → Prop} (h : ∀ q, P q → Q q) {e : Eff Page} (he : e.dbOnly P) : e.dbOnly Q := by
  cases e with
  | dbDamage p j => exact h p he
  | dbDrop p => exact h p he
  | dbPut p pg => exact h p he
  | dbReset => exact he
  | dbPutAll ps => exact he
  | hashAll hh => exact he
  | hashPut p t => exact he
  | file p t => exact he

theorem E12_dbOnly (sem : Sem Page) (env : Env Page) {s : Store Page} (hu : Uniq s.files) :
    ∀ e, e ∈ E12 sem env s → e.dbOnly (NotGood s) := by
  intro e he
  unfold E12 at he
  rcases List.mem_append.1 he with h | h
  · obtain ⟨p, hp, hm⟩ := List.mem_flatMap.1 h
    have hng : NotGood s p := by
      intro t ht; rw [files_none_of_stale hp] at ht; cases ht
    rcases List.mem_append.1 hm with h' | h'
    · exact dbOnly_mono (fun q hq => by subst hq; exact hng) (removal_dbOnly env p e h')
    · rw [List.mem_singleton] at h'; subst h'; exact hng
  · obtain ⟨w, hw, hm⟩ := List.mem_flatMap.1 h
    obtain ⟨w1, w2, _⟩ := work_item hu hw
    have hng : NotGood s w.1 := by
      intro t ht; rw [w1] at ht; cases ht; exact w2
    rcases List.mem_append.1 hm with h' | h'
    · exact dbOnly_mono (fun q hq => by subst hq; exact hng) (removal_dbOnly env w.1 e h')
    · rw [List.mem_singleton] at h'; subst h'; exact hng

/-- the store after phases 1 and 2 -/
theorem E12_spec (sem : Sem Page) (env : Env Page) {s : Store Page} (hu : Uniq s.files) :
    (applyAll s (E12 sem env s)).files = s.files ∧ (applyAll s (E12 sem env s)).hashes = s.hashes ∧
    (∀ q, ¬ NotGood s q → get (applyAll s (E12 sem env s)).db q = get s.db q) ∧
    (∀ w, w ∈ work sem s → get (applyAll s (E12 sem env s)).db w.1 = some w.2.2.2) ∧
    (∀ q, get s.files q = none → get (applyAll s (E12 sem env s)).db q = none) := by
  obtain ⟨a1, a2, a3⟩ := applyAll_dbOnly (NotGood s) _ (E12_dbOnly sem env hu) s
  refine ⟨a1, a2, a3, ?_, ?_⟩
  · intro w hw
    unfold E12
    rw [applyAll_append]
    exact (phase2_spec env (work sem s) (work_nodup sem hu) _).2.2.2 w hw
  · intro q hq
    unfold E12
    rw [applyAll_append]
    obtain ⟨_, _, b3, _⟩ := phase2_spec env (work sem s) (work_nodup sem hu)
      (applyAll s ((stale s).flatMap (fun p => removal env p ++ [Eff.dbDrop p])))
    have hnw : q ∉ (work sem s).map (·.1) := by
      intro hm
      obtain ⟨w, hw, rfl⟩ := List.mem_map.1 hm
      rw [(work_item hu hw).1] at hq; cases hq
    rw [b3 q hnw, (phase1_spec env (stale s) s).2.2 q]
    by_cases hst : q ∈ stale s
    · rw [if_pos hst]
    · rw [if_neg hst]
      cases hd : get s.db q with
      | none => rfl
      | some v => exact (hst (stale_of_db hd hq)).elim

/-- the store after phase 3 -/
def s3 (sem : Sem Page) (env : Env Page) (s : Store Page) : Store Page :=
  Eff.apply (applyAll s (E12 sem env s)) (Eff.hashAll (hmap sem s))

theorem s3_files (sem : Sem Page) (env : Env Page) {s : Store Page} (hu : Uniq s.files) :
    (s3 sem env s).files = s.files := (E12_spec sem env hu).1
theorem s3_hashes (sem : Sem Page) (env : Env Page) (s : Store Page) :
    (s3 sem env s).hashes = hmap sem s := rfl
theorem s3_db (sem : Sem Page) (env : Env Page) (s : Store Page) :
    (s3 sem env s).db = (applyAll s (E12 sem env s)).db := rfl

theorem s3_InvM {sem : Sem Page} (hs : Stable sem) (env : Env Page) {s : Store Page} (h : Inv sem s)
    (hu : Uniq s.files) : InvM sem (s3 sem env s) := by
  obtain ⟨_, _, a3, a4, _⟩ := E12_spec sem env hu
  intro q t hf hh
  rw [s3_files sem env hu] at hf
  rw [s3_hashes, get_hmap] at hh
  rw [s3_db]
  by_cases hp : q ∈ (pending sem s).map (·.1)
  · rw [if_pos hp] at hh; cases hh
  · by_cases hg : get s.hashes q = some t
    · have : ¬ NotGood s q := fun hn => hn t hf hg
      rw [a3 q this]
      exact h q t hg
    · have hw := work_of_changed (sem := sem) hf hg
      have hnp : (sem.process (get s.db q) t).1 = t := by
        apply Classical.byContradiction
        intro hne
        exact hp (List.mem_map.2 ⟨_, mem_pending.2 ⟨hw, hne⟩, rfl⟩)
      have e := a4 _ hw
      simp only at e
      rw [e]
      have h1 := hs.settled (get s.db q) t
      have h2 := hs.pageOf (get s.db q) t
      rw [hnp] at h1 h2
      exact ⟨h1, by rw [h2]⟩

/-- what phase 4 needs to know about a pending page -/
theorem s3_pending {sem : Sem Page} (hs : Stable sem) (env : Env Page) {s : Store Page} (hu : Uniq s.files)
    {w : Path × Text × Text × Page} (hw : w ∈ pending sem s) :
    get (s3 sem env s).hashes w.1 = none ∧ Settled sem w.2.2.1 ∧
      get (s3 sem env s).db w.1 = some (pageOf sem w.2.2.1) := by
  obtain ⟨hw1, _⟩ := mem_pending.1 hw
  obtain ⟨_, _, w3⟩ := work_item hu hw1
  refine ⟨?_, ?_, ?_⟩
  · rw [s3_hashes, get_hmap, if_pos (List.mem_map.2 ⟨w, hw, rfl⟩)]
  · rw [w3]; exact hs.settled _ _
  · rw [s3_db, (E12_spec sem env hu).2.2.2.1 w hw1, w3, hs.pageOf]

/-! ## C. every crash state of `db reindex` satisfies the crash invariant -/

theorem crashReindex_InvM {sem : Sem Page} (hs : Stable sem) (env : Env Page) {s : Store Page} (h : Inv sem s)
    (hu : Uniq s.files) (k : Nat) :
    InvM sem (crashReindex sem env s k) ∧ Uniq (crashReindex sem env s k).files := by
  refine ⟨?_, uniq_applyAll_files _ hu⟩
  unfold crashReindex
  rw [reindexEffs_eq]
  by_cases hk : k ≤ (E12 sem env s).length
  · rw [List.take_append_of_le_length hk]
    obtain ⟨a1, a2, a3⟩ := applyAll_dbOnly (NotGood s) ((E12 sem env s).take k)
      (fun e he => E12_dbOnly sem env hu e (List.mem_of_mem_take he)) s
    intro q t hf hh
    rw [a1] at hf
    rw [a2] at hh
    rw [a3 q (fun hn => hn t hf hh)]
    exact h q t hh
  · obtain ⟨j, hj⟩ : ∃ j, k - (E12 sem env s).length = j + 1 := ⟨k - (E12 sem env s).length - 1, by omega⟩
    rw [List.take_append, List.take_of_length_le (by omega), hj, List.take_succ_cons, applyAll_append,
      applyAll_cons]
    exact phase4_InvM (rmid env) (pending sem s) (pending_nodup sem hu) (s3 sem env s)
      (s3_InvM hs env h hu) (fun w hw => s3_pending hs env hu hw) j

/-! ## D. no crash state of `db reindex` has lost user text -/

theorem reindexEffs_file {α : Type} {sem : Sem Page} (ut : Text → α)
    (hut : ∀ old t, ut (sem.process old t).1 = ut t) (env : Env Page)
    (hmid : ∀ p t m, env.mid p t = some m → ut m = ut t) {s : Store Page} (hu : Uniq s.files) :
    ∀ p x, Eff.file p x ∈ reindexEffs sem env s → ∃ t, get s.files p = some t ∧ ut x = ut t := by
  intro p x hm
  rw [reindexEffs_eq] at hm
  rcases List.mem_append.1 hm with h | h
  · exact (E12_dbOnly sem env hu _ h).elim
  · rcases List.mem_cons.1 h with h | h
    · cases h
    · obtain ⟨w, hw, hx⟩ := List.mem_flatMap.1 h
      obtain ⟨hw1, _⟩ := mem_pending.1 hw
      obtain ⟨w1, _, w3⟩ := work_item hu hw1
      unfold wb rmid at hx
      rcases List.mem_append.1 hx with h' | h'
      · obtain ⟨m, hm', e⟩ := List.mem_map.1 h'
        cases e
        exact ⟨w.2.1, w1, hmid _ _ _ (by simpa using hm')⟩
      · simp only [List.mem_cons, List.not_mem_nil, or_false] at h'
        rcases h' with e | e
        · cases e
          exact ⟨w.2.1, w1, by rw [w3]; exact hut _ _⟩
        · cases e

theorem crashReindex_userText {α : Type} {sem : Sem Page} (ut : Text → α)
    (hut : ∀ old t, ut (sem.process old t).1 = ut t) (env : Env Page)
    (hmid : ∀ p t m, env.mid p t = some m → ut m = ut t) (s : Store Page) (hu : Uniq s.files) (k : Nat) :
    ∀ p, (get (crashReindex sem env s k).files p).map ut = (get s.files p).map ut := by
  unfold crashReindex
  exact applyAll_userText ut s _
    (fun p x hm => reindexEffs_file ut hut env hmid hu p x (List.mem_of_mem_take hm)) s (fun _ => rfl)

theorem isSome_of_map_unit {a b : Option Text} (h : a.map (fun _ => ()) = b.map (fun _ => ())) :
    a.isSome = b.isSome := by
  cases a <;> cases b <;> simp at h ⊢

/-! ## E. a rerun of `db reindex` after a kill converges -/

theorem crash_reindex_converges {α : Type} {sem : Sem Page} (hs : Stable sem) (ut : Text → α)
    (hut : ∀ old t, ut (sem.process old t).1 = ut t) (env : Env Page)
    (hmid : ∀ p t m, env.mid p t = some m → ut m = ut t)
    {s : Store Page} (h : Inv sem s) (hu : Uniq s.files) (k : Nat) :
    let r := reindexPlain sem (crashReindex sem env s k)
    Agree sem r ∧ (∀ p, (get r.files p).map ut = (get s.files p).map ut) ∧
      (∀ p, (get r.files p).isSome = (get s.files p).isSome) := by
  intro r
  obtain ⟨hI, hU⟩ := crashReindex_InvM hs env h hu k
  obtain ⟨hA, hS⟩ := recover_of_InvM hs hI hU
  refine ⟨hA, fun p => ?_, fun p => ?_⟩
  · exact (recover_userText ut hut _ hU p).trans (crashReindex_userText ut hut env hmid s hu k p)
  · rw [hS p]
    exact isSome_of_map_unit
      (crashReindex_userText (sem := sem) (fun _ => ()) (fun _ _ => rfl) env (fun _ _ _ _ => rfl) s hu k p)

/-! ## F. a rerun of `db create` after a kill converges -/

theorem createEffs_file {α : Type} {sem : Sem Page} (ut : Text → α)
    (hut : ∀ old t, ut (sem.process old t).1 = ut t) {s : Store Page} (hu : Uniq s.files) :
    ∀ p x, Eff.file p x ∈ createEffs sem s → ∃ t, get s.files p = some t ∧ ut x = ut t := by
  intro p x hm
  unfold createEffs at hm
  simp only [List.cons_append, List.nil_append, List.mem_cons, reduceCtorEq, false_or] at hm
  obtain ⟨w, hw, hx⟩ := List.mem_flatMap.1 hm
  obtain ⟨hw1, _⟩ := List.mem_filter.1 hw
  obtain ⟨kv, hkv, rfl⟩ := List.mem_map.1 hw1
  simp only [List.mem_cons, List.not_mem_nil, or_false] at hx
  rcases hx with e | e
  · cases e
    exact ⟨kv.2, get_of_mem hu hkv, hut _ _⟩
  · cases e

theorem crashCreate_userText {α : Type} {sem : Sem Page} (ut : Text → α)
    (hut : ∀ old t, ut (sem.process old t).1 = ut t) (s : Store Page) (hu : Uniq s.files) (k : Nat) :
    ∀ p, (get (crashCreate sem s k).files p).map ut = (get s.files p).map ut := by
  unfold crashCreate
  exact applyAll_userText ut s _
    (fun p x hm => createEffs_file ut hut hu p x (List.mem_of_mem_take hm)) s (fun _ => rfl)

theorem crash_create_converges {α : Type} {sem : Sem Page} (hs : Stable sem) (ut : Text → α)
    (hut : ∀ old t, ut (sem.process old t).1 = ut t) (s : Store Page) (hu : Uniq s.files) (k : Nat) :
    let r := create sem (crashCreate sem s k)
    Agree sem r ∧ (∀ p, (get r.files p).map ut = (get s.files p).map ut) ∧
      (∀ p, (get r.files p).isSome = (get s.files p).isSome) := by
  intro r
  have hU : Uniq (crashCreate sem s k).files := uniq_applyAll_files _ hu
  obtain ⟨h1, h2, h3, _, h5⟩ := create_spec hs (crashCreate sem s k) hU
  refine ⟨⟨h1, h3, h2⟩, fun p => ?_, fun p => ?_⟩
  · exact (create_userText ut hut _ hU p).trans (crashCreate_userText ut hut s hu k p)
  · show (get (create sem (crashCreate sem s k)).files p).isSome = _
    rw [h5 p]
    exact isSome_of_map_unit
      (crashCreate_userText (sem := sem) (fun _ => ()) (fun _ _ => rfl) s hu k p)

/-! ## G. the complete effect list is the big-step run -/

theorem pending_key {sem : Sem Page} {s : Store Page} (hu : Uniq s.files) {q : Path}
    (h : q ∈ (pending sem s).map (·.1)) :
    ∃ t, get s.files q = some t ∧ get s.hashes q ≠ some t ∧ (sem.process (get s.db q) t).1 ≠ t := by
  obtain ⟨w, hw, rfl⟩ := List.mem_map.1 h
  obtain ⟨hw1, hne⟩ := mem_pending.1 hw
  obtain ⟨w1, w2, w3⟩ := work_item hu hw1
  exact ⟨w.2.1, w1, w2, by rw [← w3]; exact hne⟩

theorem reindexEffs_agreeAt (sem : Sem Page) (env : Env Page) {s : Store Page} (hu : Uniq s.files) (q : Path) :
    AgreeAt q (applyAll s (reindexEffs sem env s)) (reindexPlain sem s) := by
  have ha : applyAll s (reindexEffs sem env s)
      = applyAll (s3 sem env s) ((pending sem s).flatMap (wb (rmid env))) := by
    rw [reindexEffs_eq, applyAll_append, applyAll_cons]; rfl
  rw [ha, reindexPlain_eq]
  obtain ⟨p1, p2, p3⟩ := phase4_spec (rmid env) (pending sem s) (pending_nodup sem hu) (s3 sem env s)
  obtain ⟨_, _, a3, a4, a5⟩ := E12_spec sem env hu
  have L := reindexLoop_at sem (pruned s).files hu (pruned s) q
  -- the effect side at a path that is not pending
  have hnp : q ∉ (pending sem s).map (·.1) →
      get (applyAll (s3 sem env s) ((pending sem s).flatMap (wb (rmid env)))).files q = get s.files q ∧
      get (applyAll (s3 sem env s) ((pending sem s).flatMap (wb (rmid env)))).hashes q = get s.files q := by
    intro hq
    rw [(p2 q hq).1, (p2 q hq).2, s3_files sem env hu, s3_hashes, get_hmap, if_neg hq]
    exact ⟨rfl, rfl⟩
  cases hf : get s.files q with
  | none =>
    have hq : q ∉ (pending sem s).map (·.1) := by
      intro hm
      obtain ⟨t, h1, _⟩ := pending_key hu hm
      rw [hf] at h1; cases h1
    have ag := L.1 hf
    obtain ⟨s1, s2⟩ := pruned_sub s q hf
    refine ⟨?_, ?_, ?_⟩
    · rw [(hnp hq).1, ag.1]; rfl
    · rw [p1, s3_db, a5 q hf, ag.2.1, s1]
    · rw [(hnp hq).2, ag.2.2, s2, hf]
  | some t =>
    have ag := L.2 t hf
    have hph : get (pruned s).hashes q = get s.hashes q := by rw [pruned_hashes_get, hf]; rfl
    have hpd : get (pruned s).db q = get s.db q := by rw [pruned_db_get, hf]; rfl
    have hpf : get (pruned s).files q = some t := hf
    by_cases hg : get s.hashes q = some t
    · have hq : q ∉ (pending sem s).map (·.1) := by
        intro hm
        obtain ⟨t0, h1, h2, _⟩ := pending_key hu hm
        rw [hf] at h1; cases h1; exact h2 hg
      rw [loopStep_pos (by rw [hph]; exact hg)] at ag
      refine ⟨?_, ?_, ?_⟩
      · rw [(hnp hq).1, ag.1, hpf, hf]
      · rw [p1, s3_db, a3 q (fun hn => hn t hf hg), ag.2.1, hpd]
      · rw [(hnp hq).2, ag.2.2, hph, hf, hg]
    · rw [loopStep_neg (by rw [hph]; exact hg)] at ag
      have hw := work_of_changed (sem := sem) hf hg
      have hdb := a4 _ hw
      simp only at hdb
      have b1 : get (indexOne sem (pruned s) q t).files q = some (sem.process (get s.db q) t).1 := by
        rw [indexOne_files, get_put_self, hpd]
      have b2 : get (indexOne sem (pruned s) q t).db q = some (sem.process (get s.db q) t).2 := by
        rw [indexOne_db, get_put_self, hpd]
      have b3 : get (indexOne sem (pruned s) q t).hashes q = some (sem.process (get s.db q) t).1 := by
        rw [indexOne_hashes, get_put_self, hpd]
      by_cases hne : (sem.process (get s.db q) t).1 = t
      · have hq : q ∉ (pending sem s).map (·.1) := by
          intro hm
          obtain ⟨t0, h1, _, h3⟩ := pending_key hu hm
          rw [hf] at h1; cases h1; exact h3 hne
        refine ⟨?_, ?_, ?_⟩
        · rw [(hnp hq).1, ag.1, b1, hne, hf]
        · rw [p1, s3_db, hdb, ag.2.1, b2]
        · rw [(hnp hq).2, ag.2.2, b3, hne, hf]
      · have hp := p3 _ (mem_pending.2 ⟨hw, hne⟩)
        simp only at hp
        refine ⟨?_, ?_, ?_⟩
        · rw [hp.1, ag.1, b1]
        · rw [p1, s3_db, hdb, ag.2.1, b2]
        · rw [hp.2, ag.2.2, b3]

theorem reindexEffs_complete {sem : Sem Page} (hs : Stable sem) (env : Env Page) {s : Store Page} (h : Inv sem s)
    (hu : Uniq s.files) :
    let a := applyAll s (reindexEffs sem env s); let b := reindexPlain sem s
    (∀ p, get a.files p = get b.files p) ∧ (∀ p, get a.db p = get b.db p) ∧
      (∀ p, get a.hashes p = get b.hashes p) := by
  intro a b
  have _ := hs; have _ := h
  exact ⟨fun p => (reindexEffs_agreeAt sem env hu p).1, fun p => (reindexEffs_agreeAt sem env hu p).2.1,
    fun p => (reindexEffs_agreeAt sem env hu p).2.2⟩

def cwork (sem : Sem Page) (s : Store Page) : List (Path × Text × Text × Page) :=
  s.files.map (fun kv => (kv.1, kv.2, sem.process none kv.2))

def cpending (sem : Sem Page) (s : Store Page) : List (Path × Text × Text × Page) :=
  (cwork sem s).filter (fun x => x.2.2.1 != x.2.1)

/-- the store after the first three effects of `db create` -/
def c3 (sem : Sem Page) (s : Store Page) : Store Page :=
  { files := s.files, db := (cwork sem s).map (fun x => (x.1, x.2.2.2)), hashes := s.files }

theorem createEffs_apply (sem : Sem Page) (s : Store Page) :
    applyAll s (createEffs sem s) = applyAll (c3 sem s) ((cpending sem s).flatMap (wb (fun _ _ => []))) := rfl

theorem cpending_nodup (sem : Sem Page) {s : Store Page} (hu : Uniq s.files) :
    ((cpending sem s).map (·.1)).Nodup := by
  have : (cwork sem s).map (·.1) = s.files.map (·.1) := by
    unfold cwork; rw [List.map_map]; rfl
  exact List.Pairwise.sublist (List.Sublist.map _ List.filter_sublist) (this ▸ hu)

theorem mem_cpending {sem : Sem Page} {s : Store Page} {w : Path × Text × Text × Page} :
    w ∈ cpending sem s ↔ (∃ p t, (p, t) ∈ s.files ∧ w = (p, t, sem.process none t)) ∧ w.2.2.1 ≠ w.2.1 := by
  unfold cpending cwork
  simp only [List.mem_filter, List.mem_map, bne_iff_ne, ne_eq, Prod.exists]
  constructor
  · rintro ⟨⟨p, t, h, rfl⟩, h2⟩; exact ⟨⟨p, t, h, rfl⟩, h2⟩
  · rintro ⟨⟨p, t, h, rfl⟩, h2⟩; exact ⟨⟨p, t, h, rfl⟩, h2⟩

theorem cpending_key {sem : Sem Page} {s : Store Page} (hu : Uniq s.files) {q : Path}
    (h : q ∈ (cpending sem s).map (·.1)) :
    ∃ t, get s.files q = some t ∧ (sem.process none t).1 ≠ t := by
  obtain ⟨w, hw, rfl⟩ := List.mem_map.1 h
  obtain ⟨⟨p, t, hm, rfl⟩, hne⟩ := mem_cpending.1 hw
  exact ⟨t, get_of_mem hu hm, hne⟩

theorem c3_db_get (sem : Sem Page) (s : Store Page) (q : Path) :
    get (c3 sem s).db q = (get s.files q).map (fun t => (sem.process none t).2) := by
  show get ((cwork sem s).map (fun x => (x.1, x.2.2.2))) q = _
  unfold cwork
  rw [List.map_map]
  exact get_map_val (fun _ t => (sem.process none t).2) s.files q

theorem createEffs_agreeAt (sem : Sem Page) {s : Store Page} (hu : Uniq s.files) (q : Path) :
    AgreeAt q (applyAll s (createEffs sem s)) (create sem s) := by
  rw [createEffs_apply]
  show AgreeAt q _ (reindexLoop sem s.files { files := s.files, db := [], hashes := [] })
  obtain ⟨p1, p2, p3⟩ := phase4_spec (fun _ _ => []) (cpending sem s) (cpending_nodup sem hu) (c3 sem s)
  have L := reindexLoop_at sem s.files hu { files := s.files, db := [], hashes := [] } q
  have hnp : q ∉ (cpending sem s).map (·.1) →
      get (applyAll (c3 sem s) ((cpending sem s).flatMap (wb (fun _ _ => [])))).files q = get s.files q ∧
      get (applyAll (c3 sem s) ((cpending sem s).flatMap (wb (fun _ _ => [])))).hashes q = get s.files q :=
    fun hq => p2 q hq
  cases hf : get s.files q with
  | none =>
    have hq : q ∉ (cpending sem s).map (·.1) := by
      intro hm
      obtain ⟨t, h1, _⟩ := cpending_key hu hm
      rw [hf] at h1; cases h1
    have ag := L.1 hf
    refine ⟨?_, ?_, ?_⟩
    · rw [(hnp hq).1, ag.1, hf]
    · rw [p1, c3_db_get, hf, ag.2.1]; rfl
    · rw [(hnp hq).2, ag.2.2, hf]; rfl
  | some t =>
    have ag := L.2 t hf
    rw [loopStep_neg (by simp)] at ag
    have b1 : get (indexOne sem { files := s.files, db := [], hashes := [] } q t).files q
        = some (sem.process none t).1 := by
      rw [indexOne_files, get_put_self]; rfl
    have b2 : get (indexOne sem { files := s.files, db := [], hashes := [] } q t).db q
        = some (sem.process none t).2 := by
      rw [indexOne_db, get_put_self]; rfl
    have b3 : get (indexOne sem { files := s.files, db := [], hashes := [] } q t).hashes q
        = some (sem.process none t).1 := by
      rw [indexOne_hashes, get_put_self]; rfl
    by_cases hne : (sem.process none t).1 = t
    · have hq : q ∉ (cpending sem s).map (·.1) := by
        intro hm
        obtain ⟨t0, h1, h3⟩ := cpending_key hu hm
        rw [hf] at h1; cases h1; exact h3 hne
      refine ⟨?_, ?_, ?_⟩
      · rw [(hnp hq).1, ag.1, b1, hne, hf]
      · rw [p1, c3_db_get, hf, ag.2.1, b2]; rfl
      · rw [(hnp hq).2, ag.2.2, b3, hne, hf]
    · have hp := p3 (q, t, sem.process none t) (mem_cpending.2 ⟨⟨q, t, mem_of_get hf, rfl⟩, hne⟩)
      simp only at hp
      refine ⟨?_, ?_, ?_⟩
      · rw [hp.1, ag.1, b1]
      · rw [p1, c3_db_get, hf, ag.2.1, b2]; rfl
      · rw [hp.2, ag.2.2, b3]

theorem createEffs_complete {sem : Sem Page} (s : Store Page) (hu : Uniq s.files) :
    let a := applyAll s (createEffs sem s); let b := create sem s
    (∀ p, get a.files p = get b.files p) ∧ (∀ p, get a.db p = get b.db p) ∧
      (∀ p, get a.hashes p = get b.hashes p) := by
  intro a b
  exact ⟨fun p => (createEffs_agreeAt sem hu p).1, fun p => (createEffs_agreeAt sem hu p).2.1,
    fun p => (createEffs_agreeAt sem hu p).2.2⟩


end ZorgVerif.Crash
