import ZorgVerif.Model.Zid
import ZorgVerif.Gen.Consts
/-! Odometer lemmas for `_get_next_id`, generic in the alphabet; instantiated with the generated
exclusion list by `decide +kernel` over the 51-character alphabet (a finite table, not a sample). -/
namespace ZorgVerif.Zid
open ZorgVerif

/-- the ZID alphabet: `[0-9A-Za-z]` minus the exclusion list, in code-point order -/
def alphabet (excl : List Char) : List Char :=
  ((List.range 128).map Char.ofNat).filter (fun c => c.isAlphanum && !excl.contains c)

abbrev E := Gen.unsupportedZidChars
abbrev A := alphabet E

/-- An alphabet/exclusion pair on which the successor function walks the alphabet in order. -/
structure Odometer (excl al : List Char) : Prop where
  nodup : al.Nodup
  zero : al.head? = some '0'
  step : ∀ c ∈ al, succChar excl c = al[al.idxOf c + 1]?

theorem odometerE : Odometer E A := by
  refine ⟨?_, ?_, ?_⟩
  · decide +kernel
  · decide +kernel
  · decide +kernel

theorem A_length : A.length = 51 := by decide +kernel

def Valid (al : List Char) (s : List Char) : Prop := ∀ c ∈ s, c ∈ al

instance (al s : List Char) : Decidable (Valid al s) := by unfold Valid; infer_instance

/-- little-endian value of a (reversed) id in base `|al|` -/
def rankRev (al : List Char) : List Char → Nat
  | [] => 0
  | c :: rest => al.idxOf c + al.length * rankRev al rest

theorem rankRev_lt {al : List Char} {r : List Char} (h : Valid al r) : rankRev al r < al.length ^ r.length := by
  induction r with
  | nil => simp [rankRev]
  | cons c rest ih =>
    have hc : al.idxOf c < al.length := List.idxOf_lt_length_of_mem (h c (by simp))
    have := ih (fun d hd => h d (by simp [hd]))
    simp only [rankRev, List.length_cons, Nat.pow_succ]
    have h2 : al.length * (rankRev al rest + 1) ≤ al.length * al.length ^ rest.length := Nat.mul_le_mul_left _ this
    rw [Nat.mul_comm (al.length ^ rest.length)]
    rw [Nat.mul_add] at h2
    omega

theorem idxOf_inj {al : List Char} {a b : Char} (ha : a ∈ al) (hb : b ∈ al) (h : al.idxOf a = al.idxOf b) : a = b := by
  have h1 := List.getElem_idxOf (List.idxOf_lt_length_of_mem ha)
  have h2 := List.getElem_idxOf (List.idxOf_lt_length_of_mem hb)
  rw [← h1, ← h2]; simp [h]

theorem rankRev_inj {al : List Char} : ∀ {r s : List Char}, Valid al r → Valid al s → r.length = s.length →
    rankRev al r = rankRev al s → r = s := by
  intro r
  induction r with
  | nil => intro s _ _ hl _; cases s with | nil => rfl | cons _ _ => simp at hl
  | cons c rest ih =>
    intro s hr hs hl he
    cases s with
    | nil => simp at hl
    | cons d srest =>
      have hc := hr c (by simp); have hd := hs d (by simp)
      have hci : al.idxOf c < al.length := List.idxOf_lt_length_of_mem hc
      have hdi : al.idxOf d < al.length := List.idxOf_lt_length_of_mem hd
      simp only [rankRev] at he
      have hmod : al.idxOf c = al.idxOf d := by
        have := congrArg (· % al.length) he
        simpa [Nat.add_mul_mod_self_left, Nat.mod_eq_of_lt hci, Nat.mod_eq_of_lt hdi] using this
      have hpos : 0 < al.length := by omega
      have hdiv : rankRev al rest = rankRev al srest := by
        have h3 : al.length * rankRev al rest = al.length * rankRev al srest := by omega
        exact Nat.eq_of_mul_eq_mul_left hpos h3
      have := ih (fun x hx => hr x (by simp [hx])) (fun x hx => hs x (by simp [hx])) (by simpa using hl) hdiv
      rw [idxOf_inj hc hd hmod, this]

theorem zero_mem {excl al} (o : Odometer excl al) : '0' ∈ al := by
  have := o.zero
  cases al with
  | nil => simp at this
  | cons a t => simp at this; simp [this]

theorem idxOf_zero {excl al} (o : Odometer excl al) : al.idxOf '0' = 0 := by
  have := o.zero
  cases al with
  | nil => simp at this
  | cons a t => simp at this; simp [this]

/-- the odometer step: bumping a valid reversed id adds one to its value, keeps its length and its
validity; it fails exactly on the all-maximal id. -/
theorem bumpRev_spec {excl al : List Char} (o : Odometer excl al) :
    ∀ r : List Char, Valid al r →
      (∀ r', bumpRev excl r = some r' → r'.length = r.length ∧ Valid al r' ∧ rankRev al r' = rankRev al r + 1) ∧
      (bumpRev excl r = none → rankRev al r + 1 = al.length ^ r.length) := by
  intro r
  induction r with
  | nil => intro _; simp [bumpRev, rankRev]
  | cons c rest ih =>
    intro hv
    have hc := hv c (by simp)
    have hrest : Valid al rest := fun x hx => hv x (by simp [hx])
    have hstep := o.step c hc
    have hci : al.idxOf c < al.length := List.idxOf_lt_length_of_mem hc
    obtain ⟨ih1, ih2⟩ := ih hrest
    simp only [bumpRev]
    cases hs : succChar excl c with
    | some c' =>
      rw [hs] at hstep
      have hlt : al.idxOf c + 1 < al.length := by
        apply Nat.lt_of_not_le; intro hge
        rw [List.getElem?_eq_none hge] at hstep; cases hstep
      have hc'eq : c' = al[al.idxOf c + 1] := by
        rw [List.getElem?_eq_getElem hlt] at hstep; exact Option.some.inj hstep
      have hc'mem : c' ∈ al := by rw [hc'eq]; exact List.getElem_mem hlt
      have hidx : al.idxOf c' = al.idxOf c + 1 := by
        rw [hc'eq]; exact o.nodup.idxOf_getElem _ hlt
      refine ⟨?_, by simp⟩
      intro r' hr'
      simp only [Option.some.injEq] at hr'
      subst hr'
      refine ⟨by simp, ?_, ?_⟩
      · intro x hx
        rcases List.mem_cons.1 hx with h | h
        · rw [h]; exact hc'mem
        · exact hrest x h
      · simp only [rankRev, hidx]; omega
    | none =>
      rw [hs] at hstep
      have hlast : al.idxOf c + 1 = al.length := by
        have : al.length ≤ al.idxOf c + 1 := by
          apply Nat.le_of_not_lt; intro hlt
          rw [List.getElem?_eq_getElem hlt] at hstep; cases hstep
        omega
      refine ⟨?_, ?_⟩
      · intro r' hr'
        cases hb : bumpRev excl rest with
        | none => rw [hb] at hr'; simp at hr'
        | some q =>
          rw [hb] at hr'; simp only [Option.map_some, Option.some.injEq] at hr'
          subst hr'
          obtain ⟨hl, hq, hrk⟩ := ih1 q hb
          refine ⟨by simp [hl], ?_, ?_⟩
          · intro x hx
            rcases List.mem_cons.1 hx with h | h
            · rw [h]; exact zero_mem o
            · exact hq x h
          · simp only [rankRev, idxOf_zero o, hrk, Nat.mul_add]; omega
      · intro hb
        cases hb' : bumpRev excl rest with
        | some q => rw [hb'] at hb; simp at hb
        | none =>
          have := ih2 hb'
          simp only [rankRev, List.length_cons, Nat.pow_succ]
          rw [Nat.mul_comm (al.length ^ rest.length), ← this, Nat.mul_add]; omega

end ZorgVerif.Zid
