import ZorgVerif.Model.ActionSpec
import ZorgVerif.Lemmas.NoteText
/-! Lemmas about the model of `run_action_open`: the scan equals its declarative reading, and the
dispatch to protocol messages. -/
namespace ZorgVerif.Action
open ZorgVerif ZorgVerif.NoteText

/-! ### the scan -/

theorem scan_nil (vd : Str → Bool) (isZoq : Bool) (i : Nat) (found : Bool) :
    scan vd isZoq i found [] = [] := by
  simp [scan]

theorem scan_cons (vd : Str → Bool) (isZoq : Bool) (i : Nat) (found : Bool) (w : Str) (rest : List Str) :
    scan vd isZoq i found (w :: rest) =
      if isLinkWord w then .word w :: scan vd isZoq (i + 1) true rest
      else if isZid vd (stripSet ['[', ']'] w) && (found || isZoq || i == 0 || !isZid vd w) then
        .zid (stripSet ['[', ']'] w) :: scan vd isZoq (i + 1) true rest
      else if isZid vd w then scan vd isZoq (i + 1) true rest
      else if !found && !isPrefixWord vd w then scan vd isZoq (i + 1) true rest
      else scan vd isZoq (i + 1) found rest := by
  rw [scan]
  simp only [isLinkWord, isPrefixWord, Bool.not_or, Bool.and_assoc]

theorem scan_found (vd : Str → Bool) (isZoq : Bool) (i : Nat) (ws : List Str) :
    scan vd isZoq i true ws = ws.filterMap (wordTarget vd) := by
  induction ws generalizing i with
  | nil => simp [scan_nil]
  | cons w rest ih =>
    rw [scan_cons]
    simp only [ih, Bool.true_or, Bool.and_true, Bool.not_true, Bool.false_and]
    by_cases h1 : isLinkWord w = true
    · simp [wordTarget, h1]
    · by_cases h2 : isZid vd (stripSet ['[', ']'] w) = true
      · simp [wordTarget, h1, h2]
      · simp [wordTarget, h1, h2]

theorem isPrefixSymbol_length (w : Str) (h : isPrefixSymbol w = true) : w.length = 1 := by
  simp [isPrefixSymbol] at h
  rcases h with h | h | h | h | h | h <;> simp [← h]

theorem isPriority_length (w : Str) (h : isPriority w = true) : w.length = 2 := by
  unfold isPriority at h
  split at h
  · rfl
  · simp at h

theorem isSixDigits_length (w : Str) (h : isSixDigits w = true) : w.length = 6 := by
  simp [isSixDigits] at h
  exact h.1

theorem isZid_length (vd : Str → Bool) (w : Str) (h : isZid vd w = true) : w.length = 9 ∨ w.length = 10 := by
  simp [isZid] at h
  exact h.1.1.1

theorem isPrefixWord_of_isZid (vd : Str → Bool) (w : Str) (h : isZid vd w = true) : isPrefixWord vd w = false := by
  have hl := isZid_length vd w h
  cases hp : isPrefixWord vd w with
  | false => rfl
  | true =>
    simp only [isPrefixWord, Bool.or_eq_true, Bool.and_eq_true] at hp
    rcases hp with (hp | hp) | hp
    · have := isPrefixSymbol_length w hp; omega
    · have := isPriority_length w hp; omega
    · have := isSixDigits_length w hp.1; omega

theorem scan_eq_spec (vd : Str → Bool) (isZoq : Bool) (i : Nat) (ws : List Str) :
    scan vd isZoq i false ws = specTargets vd isZoq i ws := by
  induction ws generalizing i with
  | nil => simp [scan_nil, specTargets]
  | cons w rest ih =>
    rw [scan_cons, specTargets]
    simp only [scan_found, ih, Bool.false_or, Bool.not_false, Bool.true_and]
    by_cases h1 : isLinkWord w = true
    · simp [wordTarget, isPrimary, h1]
    · simp only [Bool.not_eq_true] at h1
      by_cases h2 : isZid vd (stripSet ['[', ']'] w) = true
      · simp only [wordTarget, h1, h2, isPrimary, Bool.false_eq_true, if_false, if_true, Bool.true_and,
          Bool.not_false, Bool.and_true]
        by_cases h3 : isZid vd w = true
        · cases isZoq <;> by_cases h4 : i = 0 <;> simp [h3, h4]
        · simp [h3]
      · simp only [Bool.not_eq_true] at h2
        simp only [wordTarget, h1, h2, Bool.false_eq_true, if_false, Bool.false_and]
        by_cases h3 : isZid vd w = true
        · simp [h3, isPrefixWord_of_isZid vd w h3]
        · by_cases h4 : isPrefixWord vd w = true
          · simp [h3, h4]
          · simp [h3, h4]

theorem targets_eq_spec (vd : Str → Bool) (isZoq : Bool) (line : Str) :
    targets vd isZoq line = specTargets vd isZoq 0 ((splitOn ' ' line).map (stripSet "(),.?!;:".toList)) := by
  rw [targets, scan_eq_spec]

/-! ### string helpers -/

theorem hasSub_cons (pat : Str) (c : Char) (s : Str) :
    hasSub pat (c :: s) = (pat.isPrefixOf (c :: s) || hasSub pat s) := by
  simp only [hasSub, List.length_cons]
  rw [List.range_succ_eq_map, List.any_cons, List.any_map]
  simp [Function.comp_def]

theorem hasSub_nil (pat : Str) : hasSub pat [] = pat.isPrefixOf [] := by
  simp [hasSub]

theorem hasSub_caret_body (v : Str) (hv : ∀ c ∈ v, c ≠ '^' ∧ c ≠ '[') :
    hasSub "[^".toList (v ++ "]".toList) = false := by
  induction v with
  | nil => decide
  | cons c v ih =>
    rw [List.cons_append, hasSub_cons, ih (fun c hc => hv c (List.mem_cons_of_mem _ hc))]
    have := (hv c (List.mem_cons_self ..)).2
    simp [List.isPrefixOf, Ne.symm this]

theorem isSuffixOf_append_self (a b : Str) : b.isSuffixOf (a ++ b) = true := by
  rw [List.isSuffixOf_iff_suffix]; exact List.suffix_append a b

theorem isPrefixOf_append_self (a b : Str) : a.isPrefixOf (a ++ b) = true := by
  rw [List.isPrefixOf_iff_prefix]; exact List.prefix_append a b

/-! ### `dedupSorted` -/

theorem dedupSorted_go_mem (x y : Str) (l : List Str) : y ∈ dedupSorted.go x l ↔ y = x ∨ y ∈ l := by
  induction l with
  | nil => simp [dedupSorted.go]
  | cons z zs ih =>
    rw [dedupSorted.go]
    split
    · next h =>
      have : x = z := by simpa using h
      subst this
      simp
    · split
      · simp
      · simp only [List.mem_cons, ih]
        constructor
        · rintro (h | h | h) <;> simp [h]
        · rintro (h | h | h) <;> simp [h]

theorem dedupSorted_mem (xs : List Str) (x : Str) : x ∈ dedupSorted xs ↔ x ∈ xs := by
  induction xs with
  | nil => simp [dedupSorted]
  | cons y ys ih =>
    have : dedupSorted (y :: ys) = dedupSorted.go y (dedupSorted ys) := by simp [dedupSorted]
    rw [this, dedupSorted_go_mem, ih]
    simp

/-! ### `openLink` -/

theorem openLink_protocol (zdir : Str) (lk : Lookup) (t : Target) :
    ∀ l ∈ (openLink zdir lk t).lines, isProtocol l = true := by
  unfold openLink
  simp only []
  repeat' split
  all_goals simp [isProtocol]

/-! ### `respond` -/

theorem respond_single (zdir : Str) (lk : Lookup) (t : Target) (n : Nat) (opt : Option Int) :
    respond zdir lk [t] n opt = openLink zdir lk t := rfl

theorem respond_protocol (zdir : Str) (lk : Lookup) (ts : List Target) (n : Nat) (opt : Option Int) :
    ∀ l ∈ (respond zdir lk ts n opt).lines, isProtocol l = true := by
  unfold respond
  repeat' split
  all_goals first
    | exact openLink_protocol _ _ _
    | simp [isProtocol]

theorem respond_prompt (zdir : Str) (lk : Lookup) (ts : List Target) (n : Nat) (h : 2 ≤ ts.length) :
    respond zdir lk ts n none = ⟨["PROMPT ".toList ++ joinWith [' '] (ts.map Target.text)], 0⟩ := by
  match ts, h with
  | a :: b :: rest, _ => simp [respond]

theorem respond_some_of_pos (zdir : Str) (lk : Lookup) (ts : List Target) (n : Nat) (k : Int)
    (h : 2 ≤ ts.length) (hk : 1 ≤ k) :
    respond zdir lk ts n (some k) = match ts[(k - 1).toNat]? with
      | some t => openLink zdir lk t
      | none => ⟨[], 1⟩ := by
  match ts, h with
  | a :: b :: rest, _ =>
    unfold respond
    split
    · next h' => simp at h'
    · next h' => simp at h'
    · split
      · next h' => simp at h'
      · next h' => simp only [Option.some.injEq] at h'; omega
      · next k' _ h' =>
        simp only [Option.some.injEq] at h'
        subst h'
        rw [if_pos hk]
        rfl

theorem respond_some_of_neg (zdir : Str) (lk : Lookup) (ts : List Target) (n : Nat) (k : Int)
    (h : 2 ≤ ts.length) (hk : k < 1) (hk' : k ≠ -1) :
    respond zdir lk ts n (some k) = ⟨[], 1⟩ := by
  match ts, h with
  | a :: b :: rest, _ =>
    unfold respond
    split
    · next h' => simp at h'
    · next h' => simp at h'
    · split
      · next h' => simp at h'
      · next h' => simp only [Option.some.injEq] at h'; omega
      · next k' _ h' =>
        simp only [Option.some.injEq] at h'
        subst h'
        rw [if_neg (by omega)]

theorem respond_option (zdir : Str) (lk : Lookup) (ts : List Target) (n n' : Nat) (k : Nat) (h : 2 ≤ ts.length)
    (hk1 : 1 ≤ k) (hk : k ≤ ts.length) (opt' : Option Int) :
    ∃ t, ts[k - 1]? = some t ∧ respond zdir lk ts n (some (k : Int)) = respond zdir lk [t] n' opt' := by
  have hlt : k - 1 < ts.length := by omega
  refine ⟨ts[k - 1], List.getElem?_eq_getElem hlt, ?_⟩
  rw [respond_some_of_pos zdir lk ts n k h (by omega), respond_single]
  have : ((k : Int) - 1).toNat = k - 1 := by omega
  rw [this, List.getElem?_eq_getElem hlt]

theorem respond_option_last (zdir : Str) (lk : Lookup) (ts : List Target) (n n' : Nat) (h : 2 ≤ ts.length)
    (opt' : Option Int) :
    ∃ t, ts.getLast? = some t ∧ respond zdir lk ts n (some (-1)) = respond zdir lk [t] n' opt' := by
  match ts, h with
  | a :: b :: rest, _ =>
    cases hl : (a :: b :: rest).getLast? with
    | none => simp at hl
    | some t =>
      refine ⟨t, rfl, ?_⟩
      rw [respond_single]
      simp only [respond]
      rw [hl]

theorem respond_option_out_of_range (zdir : Str) (lk : Lookup) (ts : List Target) (n : Nat) (k : Int)
    (h : 2 ≤ ts.length) (hk : k = 0 ∨ k < -1 ∨ (ts.length : Int) < k) :
    respond zdir lk ts n (some k) = ⟨[], 1⟩ := by
  by_cases h1 : 1 ≤ k
  · have h2 : (ts.length : Int) < k := by omega
    rw [respond_some_of_pos zdir lk ts n k h h1]
    have : ts[(k - 1).toNat]? = none := by
      rw [List.getElem?_eq_none_iff]; omega
    rw [this]
  · exact respond_some_of_neg zdir lk ts n k h (by omega) (by omega)

/-! ### `openLink` on the link forms -/

theorem drop_take_mid (a p b : Str) (n m : Nat) (ha : a.length = n) (hm : m = p.length) :
    ((a ++ p ++ b).drop n).take m = p := by
  subst ha hm
  rw [List.append_assoc, List.drop_left, List.take_left]

theorem open_page_link (zdir : Str) (lk : Lookup) (p : Str) (hp : '#' ∉ p) :
    openLink zdir lk (.word ("[[".toList ++ p ++ "]]".toList)) = ⟨["EDIT ".toList ++ fullPath zdir p], 0⟩ := by
  have h1 : "[[".toList.isPrefixOf ("[[".toList ++ p ++ "]]".toList) = true := by
    rw [List.append_assoc]; exact isPrefixOf_append_self _ _
  have h2 : "]]".toList.isSuffixOf ("[[".toList ++ p ++ "]]".toList) = true := isSuffixOf_append_self _ _
  have h3 : splitOn '#' ("[[".toList ++ p ++ "]]".toList) = ["[[".toList ++ p ++ "]]".toList] :=
    splitOn_of_not_mem _ _ (by simp [hp])
  have h4 : (("[[".toList ++ p ++ "]]".toList).drop 2).take (("[[".toList ++ p ++ "]]".toList).length - 4) = p :=
    drop_take_mid _ _ _ _ _ rfl (by simp)
  unfold openLink
  simp only [Target.text, h1, h2, h3, Bool.and_self, if_true, h4]

theorem open_page_anchor_link (zdir : Str) (lk : Lookup) (p a : Str) (hp : '#' ∉ p) (ha : '#' ∉ a) :
    openLink zdir lk (.word ("[[".toList ++ p ++ ['#'] ++ a ++ "]]".toList)) =
      ⟨["EDIT ".toList ++ fullPath zdir p, "SEARCH LID::".toList ++ a], 0⟩ := by
  have h1 : "[[".toList.isPrefixOf ("[[".toList ++ p ++ ['#'] ++ a ++ "]]".toList) = true := by
    simp only [List.append_assoc]; exact isPrefixOf_append_self _ _
  have h2 : "]]".toList.isSuffixOf ("[[".toList ++ p ++ ['#'] ++ a ++ "]]".toList) = true :=
    isSuffixOf_append_self _ _
  have h3 : splitOn '#' ("[[".toList ++ p ++ ['#'] ++ a ++ "]]".toList) = ["[[".toList ++ p, a ++ "]]".toList] := by
    have : "[[".toList ++ p ++ ['#'] ++ a ++ "]]".toList = ("[[".toList ++ p) ++ '#' :: (a ++ "]]".toList) := by simp
    rw [this, splitOn_append_sep _ _ _ (by simp [hp]), splitOn_of_not_mem _ _ (by simp [ha])]
  have h4 : ("[[".toList ++ p).drop 2 = p := by simp
  have h5 : (a ++ "]]".toList).take ((a ++ "]]".toList).length - 2) = a := by
    have : (a ++ "]]".toList).length - 2 = a.length := by simp
    rw [this, List.take_left]
  unfold openLink
  simp only [Target.text, h1, h2, h3, Bool.and_self, if_true, h4, h5]

theorem isZid_head_digit (vd : Str → Bool) (z : Str) (hz : isZid vd z = true) :
    ∃ c rest, z = c :: rest ∧ isDigit c = true := by
  cases z with
  | nil => simp [isZid] at hz
  | cons c rest =>
    refine ⟨c, rest, rfl, ?_⟩
    simp only [isZid, isSixDigits, Bool.and_eq_true] at hz
    have := hz.1.1.2.2
    rw [List.take_succ_cons, List.all_cons] at this
    simp only [Bool.and_eq_true] at this
    exact this.1

theorem open_zid (vd : Str → Bool) (zdir : Str) (lk : Lookup) (z : Str) (hz : isZid vd z = true)
    (hl : isLinkWord z = false) :
    openLink zdir lk (.zid z) = match lk.zidPage z with
      | some page => ⟨["EDIT ".toList ++ fullPath zdir page, "SEARCH \\s\\zs".toList ++ z], 0⟩
      | none => ⟨[], 1⟩ := by
  obtain ⟨c, rest, hzz, hc⟩ := isZid_head_digit vd z hz
  have hc' : c ≠ '[' := by rintro rfl; simp [isDigit] at hc
  have h1 : "[[".toList.isPrefixOf z = false := by rw [hzz]; simp [List.isPrefixOf, Ne.symm hc']
  have h2 : "[#".toList.isPrefixOf z = false := by rw [hzz]; simp [List.isPrefixOf, Ne.symm hc']
  have h3 : "[@".toList.isPrefixOf z = false := by rw [hzz]; simp [List.isPrefixOf, Ne.symm hc']
  have h4 : (hasSub "[^".toList z && hasSub "]".toList z) = false := by
    simp only [isLinkWord, Bool.or_eq_false_iff] at hl
    exact hl.1.1.1.1.2
  unfold openLink
  dsimp only [Target.text]
  rw [if_neg (by rw [h1]; simp), if_neg (by rw [h4]; simp), if_neg (by rw [h2]; simp), if_neg (by rw [h3]; simp)]
  cases lk.zidPage z <;> rfl

theorem hasSub_caret_idlink (x : Char) (v : Str) (hx : x ≠ '^' ∧ x ≠ '[') (hv : ∀ c ∈ v, c ≠ '^' ∧ c ≠ '[') :
    hasSub "[^".toList ('[' :: x :: (v ++ "]".toList)) = false := by
  rw [hasSub_cons, hasSub_cons, hasSub_caret_body v hv]
  simp [List.isPrefixOf, Ne.symm hx.1, Ne.symm hx.2]

theorem open_id_link (zdir : Str) (lk : Lookup) (v page : Str) (hv : ∀ c ∈ v, c ≠ '^' ∧ c ≠ '[')
    (h : dedupSorted (lk.idPages v) = [page]) :
    openLink zdir lk (.word ("[#".toList ++ v ++ "]".toList)) =
      ⟨["EDIT ".toList ++ fullPath zdir page, "SEARCH ID::".toList ++ v ++ searchEnd], 0⟩ := by
  have h1 : "[[".toList.isPrefixOf ("[#".toList ++ v ++ "]".toList) = false := by simp [List.isPrefixOf]
  have h2 : hasSub "[^".toList ("[#".toList ++ v ++ "]".toList) = false :=
    hasSub_caret_idlink '#' v (by decide) hv
  have h3 : "[#".toList.isPrefixOf ("[#".toList ++ v ++ "]".toList) = true := by
    rw [List.append_assoc]; exact isPrefixOf_append_self _ _
  have h4 : "]".toList.isSuffixOf ("[#".toList ++ v ++ "]".toList) = true := isSuffixOf_append_self _ _
  have h5 : (("[#".toList ++ v ++ "]".toList).drop 2).take (("[#".toList ++ v ++ "]".toList).length - 3) = v :=
    drop_take_mid _ _ _ _ _ rfl (by simp)
  unfold openLink
  simp only [Target.text, h1, h2, h3, h4, h5, h, Bool.false_and, Bool.false_eq_true, if_false, Bool.and_self,
    if_true]

theorem open_rid_link (zdir : Str) (lk : Lookup) (v page : Str) (hv : ∀ c ∈ v, c ≠ '^' ∧ c ≠ '[')
    (h : lk.ridPages v = [page]) :
    openLink zdir lk (.word ("[@".toList ++ v ++ "]".toList)) =
      ⟨["EDIT ".toList ++ fullPath zdir page, "SEARCH RID::".toList ++ v ++ searchEnd], 0⟩ := by
  have h1 : "[[".toList.isPrefixOf ("[@".toList ++ v ++ "]".toList) = false := by simp [List.isPrefixOf]
  have h2 : hasSub "[^".toList ("[@".toList ++ v ++ "]".toList) = false :=
    hasSub_caret_idlink '@' v (by decide) hv
  have h3 : "[#".toList.isPrefixOf ("[@".toList ++ v ++ "]".toList) = false := by simp [List.isPrefixOf]
  have h3' : "[@".toList.isPrefixOf ("[@".toList ++ v ++ "]".toList) = true := by
    rw [List.append_assoc]; exact isPrefixOf_append_self _ _
  have h4 : "]".toList.isSuffixOf ("[@".toList ++ v ++ "]".toList) = true := isSuffixOf_append_self _ _
  have h5 : (("[@".toList ++ v ++ "]".toList).drop 2).take (("[@".toList ++ v ++ "]".toList).length - 3) = v :=
    drop_take_mid _ _ _ _ _ rfl (by simp)
  unfold openLink
  simp only [Target.text, h1, h2, h3, h3', h4, h5, h, Bool.false_and, Bool.false_eq_true, if_false, Bool.and_self,
    if_true]

end ZorgVerif.Action

