import ZorgVerif.Model.Sql
/-! C03: the meaning of the emitted SQL (`Model/Sql.lean`) refines the filter specification
(`Model/Filter.lean`). -/
namespace ZorgVerif.Sql
open ZorgVerif ZorgVerif.Query ZorgVerif.Filter

def lowerOnly (s : Str) : Bool := !hasUpper s

/-! ## characters -/

def isUp (c : Char) : Bool := decide ('A' ≤ c ∧ c ≤ 'Z')

theorem lowerAscii_of_not_up {c : Char} (h : isUp c = false) : lowerAscii c = c := by
  unfold isUp at h
  unfold lowerAscii
  simp only [decide_eq_false_iff_not] at h
  simp [h]

theorem char_le_iff (a b : Char) : a ≤ b ↔ a.toNat ≤ b.toNat := by
  rw [Char.le_def, UInt32.le_iff_toNat_le, Char.toNat_val, Char.toNat_val]

theorem toNat_ofNat_small (n : Nat) (h : n < 1000) : (Char.ofNat n).toNat = n := by
  unfold Char.ofNat
  have : n.isValidChar := by unfold Nat.isValidChar; omega
  simp [this, Char.ofNatAux, Char.toNat]

theorem isUp_lowerAscii (c : Char) : isUp (lowerAscii c) = false := by
  unfold lowerAscii
  split
  · next h =>
    obtain ⟨h1, h2⟩ := h
    rw [char_le_iff] at h1 h2
    have e1 : 'A'.toNat = 65 := by decide
    have e2 : 'Z'.toNat = 90 := by decide
    rw [e1] at h1; rw [e2] at h2
    have e3 := toNat_ofNat_small (c.toNat + 32) (by omega)
    unfold isUp
    rw [decide_eq_false_iff_not, char_le_iff, char_le_iff, e3, e1, e2]
    omega
  · next h => unfold isUp; simp only [decide_eq_false_iff_not]; exact h

theorem hasUpper_cons (c : Char) (s : Str) : hasUpper (c :: s) = (isUp c || hasUpper s) := by
  simp [hasUpper, isUp]

theorem lowerOnly_nil : lowerOnly [] = true := by simp [lowerOnly, hasUpper]

theorem lowerOnly_cons {c : Char} {s : Str} :
    lowerOnly (c :: s) = true ↔ isUp c = false ∧ lowerOnly s = true := by
  simp [lowerOnly, hasUpper_cons]

theorem lowerOnly_append {s t : Str} :
    lowerOnly (s ++ t) = true ↔ lowerOnly s = true ∧ lowerOnly t = true := by
  simp [lowerOnly, hasUpper, List.any_append]

theorem lowerOnly_lowerStr (s : Str) : lowerOnly (lowerStr s) = true := by
  induction s with
  | nil => exact lowerOnly_nil
  | cons c cs ih => exact lowerOnly_cons.2 ⟨isUp_lowerAscii c, ih⟩

theorem lowerStr_of_lowerOnly {s : Str} (h : lowerOnly s = true) : lowerStr s = s := by
  induction s with
  | nil => rfl
  | cons c cs ih =>
    obtain ⟨h1, h2⟩ := lowerOnly_cons.1 h
    simp only [lowerStr, List.map_cons] at ih ⊢
    rw [lowerAscii_of_not_up h1, ih h2]

theorem lowerOnly_of_pyIsLower {s : Str} (h : pyIsLower s = true) : lowerOnly s = true := by
  unfold pyIsLower at h
  simp only [Bool.and_eq_true] at h
  exact h.2

/-! ## LIKE -/

/-- `v` is a prefix of `b` up to ASCII case folding -/
def ciPrefix : Str → Str → Bool
  | [], _ => true
  | _ :: _, [] => false
  | c :: cs, d :: ds => lowerAscii c == lowerAscii d && ciPrefix cs ds

/-- `v` occurs in `b` up to ASCII case folding -/
def ciInfix (v b : Str) : Bool := anySuffix (ciPrefix v) b

theorem escapeLike_nil : escapeLike [] = [] := rfl

theorem escapeLike_cons (c : Char) (s : Str) :
    escapeLike (c :: s) =
      (if c = '\\' ∨ c = '%' ∨ c = '_' then ['\\', c] else [c]) ++ escapeLike s := by
  simp [escapeLike, List.flatMap_cons]

theorem compile_esc (d : Char) (rest : Str) :
    compile (some '\\') ('\\' :: d :: rest) = PTok.lit d :: compile (some '\\') rest := by
  rw [compile]; simp

theorem compile_plain {c : Char} (h1 : c ≠ '\\') (h2 : c ≠ '%') (h3 : c ≠ '_') (rest : Str) :
    compile (some '\\') (c :: rest) = PTok.lit c :: compile (some '\\') rest := by
  rw [compile.eq_def]; simp [h1, h2, h3]

theorem compile_pct (rest : Str) :
    compile (some '\\') ('%' :: rest) = PTok.any :: compile (some '\\') rest := by
  rw [compile.eq_def]; simp

theorem compile_nil : compile (some '\\') [] = [] := by simp [compile]

theorem compile_escapeLike_append (v rest : Str) :
    compile (some '\\') (escapeLike v ++ rest) = v.map PTok.lit ++ compile (some '\\') rest := by
  induction v with
  | nil => simp [escapeLike_nil]
  | cons c cs ih =>
    rw [escapeLike_cons]
    by_cases h : c = '\\' ∨ c = '%' ∨ c = '_'
    · simp only [h, if_true, List.cons_append, List.nil_append]
      rw [compile_esc, ih]; simp
    · have h1 : c ≠ '\\' := fun e => h (Or.inl e)
      have h2 : c ≠ '%' := fun e => h (Or.inr (Or.inl e))
      have h3 : c ≠ '_' := fun e => h (Or.inr (Or.inr e))
      simp only [h, if_false, List.cons_append, List.nil_append]
      rw [compile_plain h1 h2 h3, ih]; simp

theorem anySuffix_of_nil {f : Str → Bool} (h : f [] = true) (s : Str) : anySuffix f s = true := by
  induction s with
  | nil => simp [anySuffix, h]
  | cons c cs ih => simp [anySuffix, ih]

theorem likeToks_any_nil (s : Str) : likeToks [PTok.any] s = true := by
  rw [likeToks]; exact anySuffix_of_nil (by simp [likeToks]) s

theorem likeToks_lits_any (v b : Str) :
    likeToks (v.map PTok.lit ++ [PTok.any]) b = ciPrefix v b := by
  induction v generalizing b with
  | nil => simp [likeToks_any_nil, ciPrefix]
  | cons c cs ih =>
    cases b with
    | nil => simp [likeToks, ciPrefix]
    | cons d ds => simp only [List.map_cons, List.cons_append, likeToks, ciPrefix, ih]

theorem anySuffix_congr {f g : Str → Bool} (h : ∀ s, f s = g s) (s : Str) :
    anySuffix f s = anySuffix g s := by
  induction s with
  | nil => simp [anySuffix, h]
  | cons c cs ih => simp [anySuffix, h, ih]

theorem like_descLikeArg (v b : Str) : like (descLikeArg v) (some '\\') b = ciInfix v b := by
  unfold like descLikeArg ciInfix
  rw [List.append_assoc, List.singleton_append, compile_pct, compile_escapeLike_append, compile_pct,
    compile_nil, likeToks]
  exact anySuffix_congr (likeToks_lits_any v) b

theorem lowerOnly_escapeLike {v : Str} (h : lowerOnly v = true) : lowerOnly (escapeLike v) = true := by
  induction v with
  | nil => exact lowerOnly_nil
  | cons c cs ih =>
    obtain ⟨h1, h2⟩ := lowerOnly_cons.1 h
    rw [escapeLike_cons, lowerOnly_append]
    refine ⟨?_, ih h2⟩
    split
    · exact lowerOnly_cons.2 ⟨by decide, lowerOnly_cons.2 ⟨h1, lowerOnly_nil⟩⟩
    · exact lowerOnly_cons.2 ⟨h1, lowerOnly_nil⟩

theorem lowerOnly_descLikeArg {v : Str} (h : lowerOnly v = true) : lowerOnly (descLikeArg v) = true := by
  unfold descLikeArg
  rw [lowerOnly_append, lowerOnly_append]
  exact ⟨⟨by decide, lowerOnly_escapeLike h⟩, by decide⟩

/-! ## infix -/

theorem anySuffix_eq_range (f : Str → Bool) (s : Str) :
    anySuffix f s = (List.range (s.length + 1)).any (fun i => f (s.drop i)) := by
  induction s with
  | nil => simp [anySuffix]
  | cons c cs ih =>
    rw [List.length_cons, List.range_succ_eq_map]
    simp [anySuffix, ih, List.any_map, Function.comp_def]

theorem isInfix_eq (v b : Str) : isInfix v b = anySuffix (fun s => v.isPrefixOf s) b := by
  rw [anySuffix_eq_range]; rfl

theorem anySuffix_mono {f g : Str → Bool} (h : ∀ s, f s = true → g s = true) (s : Str) :
    anySuffix f s = true → anySuffix g s = true := by
  induction s with
  | nil => simpa [anySuffix] using h []
  | cons c cs ih =>
    simp only [anySuffix, Bool.or_eq_true]
    rintro (h1 | h1)
    · exact Or.inl (h _ h1)
    · exact Or.inr (ih h1)

theorem ciPrefix_of_isPrefixOf (v s : Str) : v.isPrefixOf s = true → ciPrefix v s = true := by
  induction v generalizing s with
  | nil => simp [ciPrefix]
  | cons c cs ih =>
    cases s with
    | nil => simp
    | cons d ds =>
      simp only [List.isPrefixOf, ciPrefix, Bool.and_eq_true, beq_iff_eq]
      rintro ⟨rfl, h⟩
      exact ⟨rfl, ih ds h⟩

theorem ciInfix_of_isInfix (v b : Str) (h : isInfix v b = true) : ciInfix v b = true := by
  rw [isInfix_eq] at h
  exact anySuffix_mono (ciPrefix_of_isPrefixOf v) b h

theorem ciPrefix_eq_isPrefixOf {v : Str} (hv : lowerOnly v = true) :
    ∀ {s : Str}, lowerOnly s = true → ciPrefix v s = v.isPrefixOf s := by
  induction v with
  | nil => intro s _; simp [ciPrefix]
  | cons c cs ih =>
    intro s hs
    obtain ⟨h1, h2⟩ := lowerOnly_cons.1 hv
    cases s with
    | nil => simp [ciPrefix]
    | cons d ds =>
      obtain ⟨h3, h4⟩ := lowerOnly_cons.1 hs
      simp only [List.isPrefixOf, ciPrefix, lowerAscii_of_not_up h1, lowerAscii_of_not_up h3, ih h2 h4]

theorem anySuffix_congr_lowerOnly {f g : Str → Bool}
    (h : ∀ s, lowerOnly s = true → f s = g s) (s : Str) (hs : lowerOnly s = true) :
    anySuffix f s = anySuffix g s := by
  induction s with
  | nil => simp [anySuffix, h [] hs]
  | cons c cs ih =>
    simp only [anySuffix, h _ hs, ih (lowerOnly_cons.1 hs).2]

theorem ciInfix_eq_isInfix {v b : Str} (hv : lowerOnly v = true) (hb : lowerOnly b = true) :
    ciInfix v b = isInfix v b := by
  rw [isInfix_eq]
  exact anySuffix_congr_lowerOnly (fun s hs => ciPrefix_eq_isPrefixOf hv hs) b hb

/-! ## `desc` atoms -/

theorem desc_sensitive (v b : Str) :
    (like (descLikeArg v) (some '\\') b && isInfix v b) = isInfix v b := by
  rw [like_descLikeArg]
  cases h : isInfix v b with
  | false => simp
  | true => simp [ciInfix_of_isInfix v b h]

theorem desc_insensitive {v : Str} (hv : lowerOnly v = true) (b : Str) :
    like (lowerStr (descLikeArg v)) (some '\\') (lowerStr b) = isInfix v (lowerStr b) := by
  rw [lowerStr_of_lowerOnly (lowerOnly_descLikeArg hv), like_descLikeArg,
    ciInfix_eq_isInfix hv (lowerOnly_lowerStr b)]

/-! ## `file` atoms -/

def globToks (g : Str) : List PTok := g.map (fun c => if c = '*' then PTok.any else PTok.lit c)

theorem replaceChar_append (a : Char) (b s t : Str) :
    replaceChar a b (s ++ t) = replaceChar a b s ++ replaceChar a b t := by
  simp [replaceChar, List.flatMap_append]

theorem compile_glob (g : Str) :
    compile (some '\\') (replaceChar '*' ['%'] (escapeLike g)) = globToks g := by
  induction g with
  | nil => simp [escapeLike_nil, replaceChar, globToks, compile_nil]
  | cons c cs ih =>
    rw [escapeLike_cons, replaceChar_append]
    by_cases h : c = '\\' ∨ c = '%' ∨ c = '_'
    · have hs : c ≠ '*' := by rcases h with h | h | h <;> subst h <;> decide
      have e : replaceChar '*' ['%'] ['\\', c] = ['\\', c] := by
        simp [replaceChar, hs]
      simp only [h, if_true, e, List.cons_append, List.nil_append]
      rw [compile_esc, ih]
      simp [globToks, hs]
    · have h1 : c ≠ '\\' := fun e => h (Or.inl e)
      have h2 : c ≠ '%' := fun e => h (Or.inr (Or.inl e))
      have h3 : c ≠ '_' := fun e => h (Or.inr (Or.inr e))
      simp only [h, if_false]
      by_cases hs : c = '*'
      · subst hs
        have e : replaceChar '*' ['%'] ['*'] = ['%'] := by simp [replaceChar]
        rw [e, List.singleton_append, compile_pct, ih]
        simp [globToks]
      · have e : replaceChar '*' ['%'] [c] = [c] := by simp [replaceChar, hs]
        rw [e, List.singleton_append, compile_plain h1 h2 h3, ih]
        simp [globToks, hs]

theorem globMatch_star (p s : Str) :
    globMatch ('*' :: p) s = anySuffix (globMatch p) s := by
  rw [anySuffix_eq_range, globMatch]

theorem globMatch_lit {c : Char} (hc : c ≠ '*') (p : Str) (d : Char) (s : Str) :
    globMatch (c :: p) (d :: s) = (c == d && globMatch p s) := by
  rw [globMatch]
  · exact fun h => hc (by cases h; rfl)

theorem globMatch_lit_nil {c : Char} (hc : c ≠ '*') (p : Str) :
    globMatch (c :: p) [] = false := by
  rw [globMatch]
  · exact fun h => hc (by cases h; rfl)

theorem likeToks_globToks {g : Str} (hg : lowerOnly g = true) :
    ∀ {s : Str}, lowerOnly s = true → likeToks (globToks g) s = globMatch g s := by
  induction g with
  | nil => intro s _; simp [globToks, likeToks, globMatch]
  | cons c p ih =>
    intro s hs
    obtain ⟨h1, h2⟩ := lowerOnly_cons.1 hg
    by_cases hc : c = '*'
    · subst hc
      have e : globToks ('*' :: p) = PTok.any :: globToks p := by simp [globToks]
      rw [e, likeToks, globMatch_star]
      exact anySuffix_congr_lowerOnly (fun t ht => ih h2 ht) s hs
    · have e : globToks (c :: p) = PTok.lit c :: globToks p := by simp [globToks, hc]
      rw [e]
      cases s with
      | nil => rw [globMatch_lit_nil hc]; simp [likeToks]
      | cons d ds =>
        obtain ⟨h3, h4⟩ := lowerOnly_cons.1 hs
        rw [globMatch_lit hc, likeToks, lowerAscii_of_not_up h1, lowerAscii_of_not_up h3, ih h2 h4]

theorem file_like {g path : Str} (hg : lowerOnly g = true) (hp : lowerOnly path = true) :
    like (replaceChar '*' ['%'] (escapeLike g)) (some '\\') path = globMatch g path := by
  unfold like
  rw [compile_glob, likeToks_globToks hg hp]

/-! ## `link` atoms -/

theorem ciPrefix_append_singleton (t : Str) (c : Char) (l : Str) :
    likeToks (t.map PTok.lit ++ [PTok.lit c, PTok.any]) l = ciPrefix (t ++ [c]) l := by
  have := likeToks_lits_any (t ++ [c]) l
  simpa using this

theorem link_like {t l : Str} (ht : lowerOnly t = true) (hl : lowerOnly l = true) :
    like (escapeLike t ++ ['#', '%']) (some '\\') l = (t ++ ['#']).isPrefixOf l := by
  unfold like
  have e : compile (some '\\') ['#', '%'] = [PTok.lit '#', PTok.any] := by
    rw [compile_plain (by decide) (by decide) (by decide), compile_pct, compile_nil]
  rw [compile_escapeLike_append, e, ciPrefix_append_singleton]
  exact ciPrefix_eq_isPrefixOf (lowerOnly_append.2 ⟨ht, by decide⟩) hl

theorem any_or {α : Type} (l : List α) (f g : α → Bool) :
    l.any (fun x => f x || g x) = (l.any f || l.any g) := by
  induction l with
  | nil => rfl
  | cons a l ih =>
    simp only [List.any_cons, ih]
    cases f a <;> cases g a <;> cases l.any f <;> simp

theorem any_congr_mem {α : Type} {l : List α} {f g : α → Bool} (h : ∀ x ∈ l, f x = g x) :
    l.any f = l.any g := by
  induction l with
  | nil => rfl
  | cons a l ih =>
    simp only [List.any_cons]
    rw [h a (List.mem_cons_self ..), ih (fun x hx => h x (List.mem_cons_of_mem _ hx))]

theorem link_inner (P : List NoteRow) {t l : Str} (ht : lowerOnly t = true) (hl : lowerOnly l = true) :
    (l == t || like (escapeLike t ++ ['#', '%']) (some '\\') l ||
      (P.flatMap (fun m => (m.props.filter (fun kv => kv.1 == "ID".toList)).map
        (fun kv => "global:".toList ++ kv.2))).contains l ||
      (P.flatMap (fun m => (m.props.filter (fun kv => kv.1 == "RID".toList)).map
        (fun kv => "ref:".toList ++ kv.2))).contains l ||
      (P.map (fun m => "zid:".toList ++ m.zid)).contains l)
    = (l == t || (t ++ ['#']).isPrefixOf l ||
        P.any (fun m =>
          m.props.any (fun kv => (kv.1 == "ID".toList && l == "global:".toList ++ kv.2) ||
                                 (kv.1 == "RID".toList && l == "ref:".toList ++ kv.2)) ||
          l == "zid:".toList ++ m.zid)) := by
  rw [link_like ht hl]
  simp only [List.contains_eq_any_beq, List.any_flatMap, List.any_map, List.any_filter,
    Function.comp_def, any_or, Bool.or_assoc]

theorem link_atom (idx : Index) (today : Date) (n : NoteRow) (hn : ∀ l ∈ n.links, lowerOnly l = true)
    {t : Str} (ht : lowerOnly t = true) (neg : Bool) :
    sqlAtom idx today n (.link t neg) = satAtom idx today n (.link t neg) := by
  simp only [sqlAtom, satAtom, linksTo]
  congr 2
  exact any_congr_mem (fun l hl => link_inner _ ht (hn l hl))

/-! ## `prop` atoms -/

theorem filter_key_nil {props : List (Str × Str)} {key : Str} (h : key ∉ props.map (·.1)) :
    props.filter (fun kv => kv.1 == key) = [] := by
  rw [List.filter_eq_nil_iff]
  intro kv hkv hk
  apply h
  rw [List.mem_map]
  exact ⟨kv, hkv, by simpa using hk⟩

theorem filter_key_of_nodup (props : List (Str × Str)) (h : (props.map (·.1)).Nodup) (key : Str) :
    props.filter (fun kv => kv.1 == key) =
      match props.lookup key with
      | none => []
      | some v => [(key, v)] := by
  induction props with
  | nil => simp
  | cons kv rest ih =>
    obtain ⟨k, b⟩ := kv
    rw [List.map_cons, List.nodup_cons] at h
    rw [List.lookup_cons, List.filter_cons]
    by_cases e : key = k
    · subst e
      simp [filter_key_nil h.1]
    · have e' : (key == k) = false := by simpa using e
      have e'' : (k == key) = false := by simpa using fun x => e x.symm
      simp only [e', e'']
      exact ih h.2

theorem apply_eq (op : PropOp) (hop : op ≠ .exists) (neg lt eq : Bool) :
    (if (neg && op == .eq) = true then !eq else cmpOp (flipOp op neg) lt eq) = (cmpOp op lt eq != neg) := by
  cases op <;> cases neg <;> cases lt <;> cases eq <;> first | rfl | exact absurd rfl hop

theorem sqlCmp_eq (today : Date) (op : PropOp) (hop : op ≠ .exists) (neg : Bool) (vt : VType)
    (nv fv : Str) :
    sqlCmp today op neg vt nv fv = (propCmp today op vt nv fv).map (fun b => b != neg) := by
  unfold sqlCmp propCmp
  cases vt with
  | string => simp only [apply_eq op hop, Option.map_some]
  | integer =>
    simp only [apply_eq op hop]
    split <;> simp
  | date =>
    simp only [apply_eq op hop, sqliteDate]
    cases fromDateSpec today fv with
    | error e => simp
    | ok fd =>
      by_cases hl : isLongDateSpec nv = true
      · simp only [hl, if_true]
        cases Date.parseLong nv <;> simp
      · simp [hl]

theorem optAny_singleton (x : Option Bool) : optAny [x] = x := by
  cases x <;> simp [optAny]

theorem prop_atom (idx : Index) (today : Date) (n : NoteRow) (hn : (n.props.map (·.1)).Nodup)
    (key value : Str) (op : PropOp) (vt : VType) (neg : Bool) :
    sqlAtom idx today n (.prop key value op vt neg) = satAtom idx today n (.prop key value op vt neg) := by
  simp only [sqlAtom, satAtom]
  rw [filter_key_of_nodup n.props hn key]
  cases hl : n.props.lookup key with
  | none =>
    by_cases hop : op = .exists
    · subst hop; simp
    · have : (op == PropOp.exists) = false := by simpa using hop
      simp [this, optAny]
  | some nv =>
    by_cases hop : op = .exists
    · subst hop; simp
    · have : (op == PropOp.exists) = false := by simpa using hop
      simp only [this, List.map_cons, List.map_nil, optAny_singleton, sqlCmp_eq today op hop, sqliteDateIsNull]
      split <;> simp

/-! ## atoms -/

theorem any_beq_eq_contains {α : Type} [BEq α] [LawfulBEq α] (l : List α) (a : α) :
    l.any (fun x => x == a) = l.contains a := by
  rw [List.contains_eq_any_beq]
  exact any_congr_mem (fun x _ => by
    cases h : (x == a) <;> cases h' : (a == x) <;> simp_all)

theorem desc_atom (idx : Index) (today : Date) (n : NoteRow) (value : Str) (cs neg : Bool) :
    sqlAtom idx today n (.desc value cs neg) = satAtom idx today n (.desc value cs neg) := by
  simp only [sqlAtom, satAtom]
  by_cases hs : (cs || !pyIsLower value) = true
  · simp only [hs, if_true, desc_sensitive]
  · have hv : lowerOnly value = true := by
      apply lowerOnly_of_pyIsLower
      cases hp : pyIsLower value
      · simp [hp] at hs
      · rfl
    simp only [hs, desc_insensitive hv]
    simp

/-- what the index guarantees / the generator's domain: one value per property key; page paths and
link names without upper-case ASCII letters (SQLite's LIKE folds ASCII case, the spec does not) -/
def RowWF (n : NoteRow) : Prop :=
  (n.props.map (·.1)).Nodup ∧ lowerOnly n.path = true ∧ ∀ l ∈ n.links, lowerOnly l = true

def AtomWF : Atom → Prop
  | .file glob _ => lowerOnly glob = true
  | .link t _ => lowerOnly t = true
  | _ => True

theorem sqlAtom_eq_satAtom (idx : Index) (today : Date) (n : NoteRow) (hn : RowWF n) (a : Atom)
    (ha : AtomWF a) : sqlAtom idx today n a = satAtom idx today n a := by
  obtain ⟨hprops, hpath, hlinks⟩ := hn
  cases a with
  | kinds ks => rfl
  | priorities ps => rfl
  | tag k neg name => simp only [sqlAtom, satAtom, any_beq_eq_contains]
  | created r => simp only [sqlAtom, satAtom]; cases r.stop <;> rfl
  | modified r => simp only [sqlAtom, satAtom]; cases r.stop <;> rfl
  | prop key value op vt neg => exact prop_atom idx today n hprops key value op vt neg
  | desc value cs neg => exact desc_atom idx today n value cs neg
  | file glob neg =>
    simp only [sqlAtom, satAtom]
    rw [file_like ha hpath]
  | link t neg => exact link_atom idx today n hlinks ha neg

/-! ## the filter tree -/

mutual
def AndWF : AndF → Prop
  | .mk atoms subs => (∀ a ∈ atoms, AtomWF a) ∧ SubsWF subs
def SubsWF : List (List AndF) → Prop
  | [] => True
  | o :: rest => OrWF o ∧ SubsWF rest
def OrWF : List AndF → Prop
  | [] => True
  | a :: rest => AndWF a ∧ OrWF rest
end

theorem kOk_eq (ks : List NoteKind) (k : NoteKind) :
    ks.any (fun x => x == k) = ks.contains k := any_beq_eq_contains ks k

theorem pOk_eq (ps : List Nat) (pr : Option Nat) :
    ps.any (fun p => pr == some p) = (match pr with | some p => ps.contains p | none => false) := by
  cases pr with
  | none => simp
  | some q =>
    show (ps.any fun p => some q == some p) = ps.contains q
    rw [List.contains_eq_any_beq]
    exact any_congr_mem (fun x _ => by simp)

mutual
theorem sqlAnd_eq_satAnd (idx : Index) (today : Date) (n : NoteRow) (hn : RowWF n) :
    ∀ (a : AndF), AndWF a → sqlAnd idx today n a = satAnd idx today n a
  | .mk atoms subs, h => by
    rw [AndWF] at h
    rw [sqlAnd, satAnd]
    simp only [kOk_eq, pOk_eq]
    rw [sqlSubs_eq_satSubs idx today n hn subs h.2,
      List.map_congr_left (fun a ha => sqlAtom_eq_satAtom idx today n hn a (h.1 a ha))]
    rfl
theorem sqlSubs_eq_satSubs (idx : Index) (today : Date) (n : NoteRow) (hn : RowWF n) :
    ∀ (s : List (List AndF)), SubsWF s → sqlSubs idx today n s = satSubs idx today n s
  | [], _ => by rw [sqlSubs, satSubs]
  | o :: rest, h => by
    rw [SubsWF] at h
    rw [sqlSubs, satSubs, sqlOr_eq_satOr idx today n hn o h.1,
      sqlSubs_eq_satSubs idx today n hn rest h.2]
theorem sqlOr_eq_satOr (idx : Index) (today : Date) (n : NoteRow) (hn : RowWF n) :
    ∀ (f : List AndF), OrWF f → sqlOr idx today n f = satOr idx today n f
  | [], _ => by rw [sqlOr, satOr]
  | a :: rest, h => by
    rw [OrWF] at h
    rw [sqlOr, satOr, sqlAnd_eq_satAnd idx today n hn a h.1, sqlOr_eq_satOr idx today n hn rest h.2]
    rfl
end

/-- C03: on well-formed rows and filters the SQL meaning coincides with the specification
(in particular it is open exactly when the specification is) -/
theorem C03_refines (idx : Index) (today : Date) (n : NoteRow) (hn : RowWF n) (f : List AndF)
    (hf : OrWF f) : sqlOr idx today n f = satOr idx today n f :=
  sqlOr_eq_satOr idx today n hn f hf

end ZorgVerif.Sql

#print axioms ZorgVerif.Sql.sqlAtom_eq_satAtom
#print axioms ZorgVerif.Sql.C03_refines
