import ZorgVerif.Model.Rename
/-! Lemmas about the link rewriting model: two chained `str.replace` calls equal a one-pass spec. -/
namespace ZorgVerif.Rename
open ZorgVerif

/-! ### unfolding lemmas -/

theorem go_nil (old new : Str) (k : Nat) : go old new k [] = [] := by
  cases k <;> rfl

theorem go_succ_cons (old new : Str) (k : Nat) (c : Char) (cs : Str) :
    go old new (k + 1) (c :: cs) = go old new k cs := rfl

theorem go_zero_cons (old new : Str) (c : Char) (cs : Str) :
    go old new 0 (c :: cs) =
      if old.isPrefixOf (c :: cs) then new ++ go old new (old.length - 1) cs
      else c :: go old new 0 cs := rfl

theorem spec_nil (a b : Str) (k : Nat) : spec a b k [] = [] := by
  cases k <;> rfl

theorem spec_succ_cons (a b : Str) (k : Nat) (c : Char) (cs : Str) :
    spec a b (k + 1) (c :: cs) = spec a b k cs := rfl

theorem spec_zero_cons (a b : Str) (c : Char) (cs : Str) :
    spec a b 0 (c :: cs) =
      if isLinkAt a (c :: cs) then '[' :: '[' :: b ++ spec a b (a.length + 1) cs
      else c :: spec a b 0 cs := rfl

/-! ### skipping -/

theorem go_skip (old new : Str) (u v : Str) : go old new u.length (u ++ v) = go old new 0 v := by
  induction u with
  | nil => rfl
  | cons c u ih => simpa [go_succ_cons] using ih

theorem spec_skip (a b : Str) (u v : Str) : spec a b u.length (u ++ v) = spec a b 0 v := by
  induction u with
  | nil => rfl
  | cons c u ih => simpa [spec_succ_cons] using ih

theorem go_cons_of_not_prefix (old new : Str) (c : Char) (cs : Str) (h : ¬ old <+: c :: cs) :
    go old new 0 (c :: cs) = c :: go old new 0 cs := by
  rw [go_zero_cons]
  have : old.isPrefixOf (c :: cs) = false := by
    cases hp : old.isPrefixOf (c :: cs) with
    | false => rfl
    | true => exact absurd (List.isPrefixOf_iff_prefix.mp hp) h
  simp [this]

theorem go_of_prefix (old new : Str) (c : Char) (cs : Str) (h : old <+: c :: cs) :
    go old new 0 (c :: cs) = new ++ go old new (old.length - 1) cs := by
  rw [go_zero_cons]
  have : old.isPrefixOf (c :: cs) = true := List.isPrefixOf_iff_prefix.mpr h
  simp [this]

/-- a matched occurrence is replaced and the scan resumes after it -/
theorem go_match (o : Char) (os new v : Str) :
    go (o :: os) new 0 ((o :: os) ++ v) = new ++ go (o :: os) new 0 v := by
  have hp : (o :: os) <+: o :: (os ++ v) := ⟨v, rfl⟩
  have := go_of_prefix (o :: os) new o (os ++ v) hp
  rw [List.cons_append, this]
  simp only [List.length_cons, Nat.add_sub_cancel]
  rw [go_skip]

/-- characters different from the first pattern character are copied -/
theorem go_cons_ne (o : Char) (os new : Str) (c : Char) (cs : Str) (h : c ≠ o) :
    go (o :: os) new 0 (c :: cs) = c :: go (o :: os) new 0 cs := by
  apply go_cons_of_not_prefix
  intro hp
  obtain ⟨t, ht⟩ := hp
  simp only [List.cons_append, List.cons.injEq] at ht
  exact h ht.1.symm

theorem go_append_ne (o : Char) (os new : Str) (u w : Str) (hu : ∀ c ∈ u, c ≠ o) :
    go (o :: os) new 0 (u ++ w) = u ++ go (o :: os) new 0 w := by
  induction u with
  | nil => rfl
  | cons c u ih =>
    rw [List.cons_append, go_cons_ne _ _ _ _ _ (hu c (List.mem_cons_self ..)), ih]
    · rfl
    · intro d hd; exact hu d (List.mem_cons_of_mem _ hd)

/-! ### link-safe names -/

def Safe (a : Str) : Prop := ∀ c ∈ a, c ≠ '[' ∧ c ≠ ']' ∧ c ≠ '#'

theorem safe_of_linkSafe (a : Str) (h : linkSafe a = true) : Safe a := by
  intro c hc
  simp only [linkSafe, Bool.and_eq_true, Bool.not_eq_true', List.contains_eq_mem,
    decide_eq_false_iff_not] at h
  refine ⟨?_, ?_, ?_⟩
  · intro e; subst e; exact h.1.1 hc
  · intro e; subst e; exact h.1.2 hc
  · intro e; subst e; exact h.2 hc

theorem Safe.tail {c : Char} {a : Str} (h : Safe (c :: a)) : Safe a :=
  fun d hd => h d (List.mem_cons_of_mem _ hd)

theorem Safe.head {c : Char} {a : Str} (h : Safe (c :: a)) : c ≠ '[' ∧ c ≠ ']' ∧ c ≠ '#' :=
  h c (List.mem_cons_self ..)

theorem Safe.no_bracket {a : Str} (h : Safe a) : ∀ c ∈ a, c ≠ '[' := fun c hc => (h c hc).1

/-- `a#…` is never a prefix of `b]…` for safe `a`, `b` -/
theorem no_hash_prefix_close (a b : Str) (ha : Safe a) (hb : Safe b) (r X : Str) :
    ¬ (a ++ '#' :: r) <+: (b ++ ']' :: X) := by
  induction a generalizing b with
  | nil =>
    intro hp
    cases b with
    | nil =>
      obtain ⟨t, ht⟩ := hp
      simp at ht
    | cons e b =>
      obtain ⟨t, ht⟩ := hp
      simp only [List.nil_append, List.cons_append, List.cons.injEq] at ht
      exact hb.head.2.2 ht.1.symm
  | cons e a ih =>
    intro hp
    cases b with
    | nil =>
      obtain ⟨t, ht⟩ := hp
      simp only [List.nil_append, List.cons_append, List.cons.injEq] at ht
      exact ha.head.2.1 ht.1
    | cons f b =>
      obtain ⟨t, ht⟩ := hp
      simp only [List.cons_append, List.cons.injEq] at ht
      exact ih b ha.tail hb.tail ⟨t, ht.2⟩

/-- the head of `b ++ x :: X` is not `[` when `b` is safe and `x ≠ '['` -/
theorem not_bracket_prefix (b : Str) (hb : Safe b) (x : Char) (hx : x ≠ '[') (r X : Str) :
    ¬ ('[' :: r) <+: (b ++ x :: X) := by
  intro hp
  obtain ⟨t, ht⟩ := hp
  cases b with
  | nil =>
    simp only [List.nil_append, List.cons_append, List.cons.injEq] at ht
    exact hx ht.1.symm
  | cons e b =>
    simp only [List.cons_append, List.cons.injEq] at ht
    exact hb.head.1 ht.1.symm

/-! ### the two passes on the three kinds of positions -/

/-- the second pass copies an inserted `[[b]` -/
theorem go2_copies_new (a b : Str) (ha : Safe a) (hb : Safe b) (X : Str) :
    go (linkHash a) (linkHash b) 0 (linkClose b ++ X) =
      linkClose b ++ go (linkHash a) (linkHash b) 0 X := by
  have e1 : linkClose b ++ X = '[' :: '[' :: (b ++ ']' :: X) := by simp [linkClose]
  have e2 : ∀ Y, linkClose b ++ Y = '[' :: '[' :: (b ++ ']' :: Y) := by intro Y; simp [linkClose]
  rw [e1, e2]
  have hP : linkHash a = '[' :: ('[' :: a ++ ['#']) := rfl
  rw [hP]
  rw [go_cons_of_not_prefix, go_cons_of_not_prefix]
  · congr 2
    rw [go_append_ne _ _ _ _ _ hb.no_bracket, go_cons_ne _ _ _ _ _ (by decide)]
  · intro hp
    obtain ⟨t, ht⟩ := hp
    simp only [List.cons_append, List.cons.injEq, true_and] at ht
    exact not_bracket_prefix b hb ']' (by decide) _ X ⟨t, ht⟩
  · intro hp
    obtain ⟨t, ht⟩ := hp
    simp only [List.cons_append, List.cons.injEq, true_and, List.append_assoc] at ht
    exact no_hash_prefix_close a b ha hb t X ⟨[], by simpa using ht⟩

/-- the first pass copies an occurrence of `[[a#` -/
theorem go1_copies_hash (a b : Str) (ha : Safe a) (t : Str) :
    go (linkClose a) (linkClose b) 0 (linkHash a ++ t) =
      linkHash a ++ go (linkClose a) (linkClose b) 0 t := by
  have e2 : ∀ Y, linkHash a ++ Y = '[' :: '[' :: (a ++ '#' :: Y) := by intro Y; simp [linkHash]
  rw [e2, e2]
  have hP : linkClose a = '[' :: ('[' :: a ++ [']']) := rfl
  rw [hP]
  rw [go_cons_of_not_prefix, go_cons_of_not_prefix]
  · congr 2
    rw [go_append_ne _ _ _ _ _ ha.no_bracket, go_cons_ne _ _ _ _ _ (by decide)]
  · intro hp
    obtain ⟨u, hu⟩ := hp
    simp only [List.cons_append, List.cons.injEq, true_and] at hu
    exact not_bracket_prefix a ha '#' (by decide) _ t ⟨u, hu⟩
  · intro hp
    obtain ⟨u, hu⟩ := hp
    simp only [List.cons_append, List.cons.injEq, true_and, List.append_assoc,
      List.append_cancel_left_eq] at hu
    simp at hu

/-- a `[`-free word at the start of the first pass's output was already there -/
theorem prefix_of_prefix_go1 (a b : Str) (w : Str) (hw : ∀ c ∈ w, c ≠ '[') (x : Str)
    (h : w <+: go (linkClose a) (linkClose b) 0 x) : w <+: x := by
  induction w generalizing x with
  | nil => exact List.nil_prefix
  | cons e w ih =>
    cases x with
    | nil => rw [go_nil] at h; obtain ⟨t, ht⟩ := h; simp at ht
    | cons f fs =>
      by_cases hp : linkClose a <+: f :: fs
      · rw [go_of_prefix _ _ _ _ hp] at h
        obtain ⟨t, ht⟩ := h
        simp only [linkClose, List.cons_append, List.cons.injEq] at ht
        exact absurd ht.1 (hw e (List.mem_cons_self ..))
      · rw [go_cons_of_not_prefix _ _ _ _ hp] at h
        obtain ⟨t, ht⟩ := h
        simp only [List.cons_append, List.cons.injEq] at ht
        have := ih (fun c hc => hw c (List.mem_cons_of_mem _ hc)) fs ⟨t, ht.2⟩
        obtain ⟨t', ht'⟩ := this
        exact ⟨t', by rw [← ht', ht.1]; rfl⟩

/-- the fiddly lemma: the first pass does not create an occurrence of `[[a#` at a copied position -/
theorem hash_prefix_of_go1 (a b : Str) (ha : Safe a) (_hb : Safe b) (c : Char) (cs : Str)
    (h : linkHash a <+: c :: go (linkClose a) (linkClose b) 0 cs) : linkHash a <+: c :: cs := by
  obtain ⟨t, ht⟩ := h
  simp only [linkHash, List.cons_append, List.cons.injEq] at ht
  obtain ⟨hc, ht⟩ := ht
  cases cs with
  | nil => rw [go_nil] at ht; simp at ht
  | cons d ds =>
    by_cases hp : linkClose a <+: d :: ds
    · rw [go_of_prefix _ _ _ _ hp] at ht
      simp only [linkClose, List.cons_append, List.cons.injEq, true_and] at ht
      exact absurd ⟨[], by rw [List.append_nil, ← ht]; simp⟩
        (not_bracket_prefix a ha '#' (by decide) _ t)
    · rw [go_cons_of_not_prefix _ _ _ _ hp] at ht
      simp only [List.cons.injEq] at ht
      have hw : ∀ x ∈ a ++ ['#'], x ≠ '[' := by
        intro x hx
        rcases List.mem_append.mp hx with hx | hx
        · exact ha.no_bracket x hx
        · simp at hx; subst hx; decide
      have := prefix_of_prefix_go1 a b (a ++ ['#']) hw ds ⟨t, ht.2⟩
      obtain ⟨t', ht'⟩ := this
      refine ⟨t', ?_⟩
      simp only [linkHash, List.cons_append, List.cons.injEq]
      exact ⟨hc, ht.1, ht'⟩

/-! ### the specification on the three kinds of positions -/

theorem isLinkAt_cons_ne (a : Str) (c : Char) (cs : Str) (h : c ≠ '[') :
    isLinkAt a (c :: cs) = false := by
  have h' : ('[' == c) = false := by
    simp only [beq_eq_false_iff_ne, ne_eq]; exact fun e => h e.symm
  simp [isLinkAt, linkClose, linkHash, List.isPrefixOf, h']

theorem spec_cons_ne (a b : Str) (c : Char) (cs : Str) (h : c ≠ '[') :
    spec a b 0 (c :: cs) = c :: spec a b 0 cs := by
  rw [spec_zero_cons, isLinkAt_cons_ne a c cs h]; rfl

theorem spec_link (a b : Str) (r : Str) (h : isLinkAt a ('[' :: '[' :: a ++ r) = true) :
    spec a b 0 ('[' :: '[' :: a ++ r) = '[' :: '[' :: b ++ spec a b 0 r := by
  have e : ('[' :: '[' :: a ++ r) = '[' :: (('[' :: a) ++ r) := rfl
  rw [e, spec_zero_cons, ← e, h]
  simp only [if_true]
  have := spec_skip a b ('[' :: a) r
  simp only [List.length_cons] at this
  rw [this]

theorem isLinkAt_close (a v : Str) : isLinkAt a (linkClose a ++ v) = true := by
  have : (linkClose a).isPrefixOf (linkClose a ++ v) = true :=
    List.isPrefixOf_iff_prefix.mpr ⟨v, rfl⟩
  simp [isLinkAt, this]

theorem isLinkAt_hash (a v : Str) : isLinkAt a (linkHash a ++ v) = true := by
  have : (linkHash a).isPrefixOf (linkHash a ++ v) = true :=
    List.isPrefixOf_iff_prefix.mpr ⟨v, rfl⟩
  simp [isLinkAt, this]

theorem spec_append_plain (a b u v : Str) (hu : ∀ c ∈ u, c ≠ '[') :
    spec a b 0 (u ++ v) = u ++ spec a b 0 v := by
  induction u with
  | nil => rfl
  | cons c u ih =>
    rw [List.cons_append, spec_cons_ne _ _ _ _ (hu c (List.mem_cons_self ..)), ih]
    · rfl
    · intro d hd; exact hu d (List.mem_cons_of_mem _ hd)

theorem spec_link_close' (a b v : Str) :
    spec a b 0 (linkClose a ++ v) = linkClose b ++ spec a b 0 v := by
  have e : ∀ (x w : Str), linkClose x ++ w = '[' :: '[' :: x ++ (']' :: w) := by
    intro x w; simp [linkClose]
  have h := isLinkAt_close a v
  rw [e] at h
  rw [e, e, spec_link a b _ h, spec_cons_ne _ _ _ _ (by decide)]

theorem spec_link_hash' (a b v : Str) :
    spec a b 0 (linkHash a ++ v) = linkHash b ++ spec a b 0 v := by
  have e : ∀ (x w : Str), linkHash x ++ w = '[' :: '[' :: x ++ ('#' :: w) := by
    intro x w; simp [linkHash]
  have h := isLinkAt_hash a v
  rw [e] at h
  rw [e, e, spec_link a b _ h, spec_cons_ne _ _ _ _ (by decide)]

theorem spec_link_close (a b v : Str) (_ha : linkSafe a = true) :
    spec a b 0 (linkClose a ++ v) = linkClose b ++ spec a b 0 v := spec_link_close' a b v

theorem spec_link_hash (a b v : Str) (_ha : linkSafe a = true) :
    spec a b 0 (linkHash a ++ v) = linkHash b ++ spec a b 0 v := spec_link_hash' a b v

/-! ### main theorem -/

theorem go2_go1_eq_spec (a b : Str) (ha : Safe a) (hb : Safe b) :
    ∀ (n : Nat) (s : Str), s.length ≤ n →
      go (linkHash a) (linkHash b) 0 (go (linkClose a) (linkClose b) 0 s) = spec a b 0 s := by
  intro n
  induction n with
  | zero =>
    intro s hs
    have : s = [] := List.eq_nil_of_length_eq_zero (Nat.le_zero.mp hs)
    subst this; rfl
  | succ n ih =>
    intro s hs
    by_cases h1 : linkClose a <+: s
    · obtain ⟨t, rfl⟩ := h1
      have hlen : t.length ≤ n := by
        simp [linkClose] at hs; omega
      have hm : go (linkClose a) (linkClose b) 0 (linkClose a ++ t)
          = linkClose b ++ go (linkClose a) (linkClose b) 0 t := go_match _ _ _ _
      rw [hm, go2_copies_new a b ha hb, ih t hlen, spec_link_close']
    · by_cases h2 : linkHash a <+: s
      · obtain ⟨t, rfl⟩ := h2
        have hlen : t.length ≤ n := by
          simp [linkHash] at hs; omega
        have hm : ∀ X, go (linkHash a) (linkHash b) 0 (linkHash a ++ X)
            = linkHash b ++ go (linkHash a) (linkHash b) 0 X := fun X => go_match _ _ _ _
        rw [go1_copies_hash a b ha, hm, ih t hlen, spec_link_hash']
      · cases s with
        | nil => rfl
        | cons c cs =>
          have hlen : cs.length ≤ n := by simp at hs; omega
          rw [go_cons_of_not_prefix _ _ _ _ h1]
          have h3 : ¬ linkHash a <+: c :: go (linkClose a) (linkClose b) 0 cs :=
            fun h => h2 (hash_prefix_of_go1 a b ha hb c cs h)
          rw [go_cons_of_not_prefix _ _ _ _ h3, ih cs hlen, spec_zero_cons]
          have : isLinkAt a (c :: cs) = false := by
            have p1 : (linkClose a).isPrefixOf (c :: cs) = false := by
              cases hp : (linkClose a).isPrefixOf (c :: cs) with
              | false => rfl
              | true => exact absurd (List.isPrefixOf_iff_prefix.mp hp) h1
            have p2 : (linkHash a).isPrefixOf (c :: cs) = false := by
              cases hp : (linkHash a).isPrefixOf (c :: cs) with
              | false => rfl
              | true => exact absurd (List.isPrefixOf_iff_prefix.mp hp) h2
            simp [isLinkAt, p1, p2]
          simp [this]

theorem renameText_eq_spec (a b : Str) (ha : linkSafe a = true) (hb : linkSafe b = true)
    (txt : Str) : renameText a b txt = spec a b 0 txt :=
  go2_go1_eq_spec a b (safe_of_linkSafe a ha) (safe_of_linkSafe b hb) txt.length txt
    (Nat.le_refl _)

/-! ### no occurrence: nothing changes -/

theorem go_no_occurrence (old new s : Str) (h : occursIn old s = false) (_hne : old ≠ []) :
    go old new 0 s = s := by
  induction s with
  | nil => rfl
  | cons c cs ih =>
    simp only [occursIn, Bool.or_eq_false_iff] at h
    rw [go_zero_cons, h.1]
    simp only [Bool.false_eq_true, if_false]
    rw [ih h.2]

theorem renameText_no_link (a b txt : Str) (h : needsRewrite a txt = false) :
    renameText a b txt = txt := by
  simp only [needsRewrite, Bool.or_eq_false_iff] at h
  simp only [renameText, replaceAll]
  rw [go_no_occurrence _ _ _ h.1 (by simp [linkClose]),
    go_no_occurrence _ _ _ h.2 (by simp [linkHash])]

end ZorgVerif.Rename

#print axioms ZorgVerif.Rename.renameText_eq_spec
