import ZorgVerif.Lemmas.Zid
/-! Allocation state machine: invariant "everything handed out for a date ranks below that date's
stored successor". -/
namespace ZorgVerif.Zid

def Shape (al : List Char) (s : List Char) : Prop := Valid al s ∧ (s.length = 2 ∨ s.length = 3)

/-- position of a suffix in the chain `00, 01, …, zz, 000, …, zzz` -/
def rank (al : List Char) (s : List Char) : Nat :=
  (if s.length = 2 then 0 else al.length ^ 2) + rankRev al s.reverse

theorem valid_reverse {al s} (h : Valid al s) : Valid al s.reverse := fun c hc => h c (List.mem_reverse.1 hc)

theorem rank_lt {al s} (h : Shape al s) : rank al s < al.length ^ 2 + al.length ^ 3 := by
  obtain ⟨hv, hl⟩ := h
  have := rankRev_lt (valid_reverse hv)
  simp only [List.length_reverse] at this
  unfold rank
  rcases hl with hl | hl <;> simp only [hl] at this ⊢
  · simp only [if_true]
    have : 0 < al.length ^ 3 := by
      have : 0 < al.length := by
        apply Nat.pos_of_ne_zero; intro h0; simp [h0] at this
      exact Nat.pow_pos this
    omega
  · simp; omega

theorem rank_inj {al s t} (hs : Shape al s) (ht : Shape al t) (h : rank al s = rank al t) : s = t := by
  obtain ⟨hv, hl⟩ := hs
  obtain ⟨hv', hl'⟩ := ht
  have b1 := rankRev_lt (valid_reverse hv)
  have b2 := rankRev_lt (valid_reverse hv')
  simp only [List.length_reverse] at b1 b2
  unfold rank at h
  have key : s.length = t.length ∧ rankRev al s.reverse = rankRev al t.reverse := by
    rcases hl with hl | hl <;> rcases hl' with hl' | hl' <;>
      simp only [hl, hl', reduceIte, Nat.reduceEqDiff] at h b1 b2 ⊢ <;>
      first | omega | exact ⟨trivial, by omega⟩
  have := rankRev_inj (valid_reverse hv) (valid_reverse hv') (by simpa using key.1) key.2
  simpa using congrArg List.reverse this

theorem nextId_spec {excl al} (o : Odometer excl al) (s : List Char) (h : Shape al s) :
    (∀ s', nextId excl s = .ok s' → Shape al s' ∧ rank al s' = rank al s + 1) ∧
    (nextId excl s = .error .outOfIds ↔ rank al s + 1 = al.length ^ 2 + al.length ^ 3) := by
  obtain ⟨hv, hl⟩ := h
  obtain ⟨b1, b2⟩ := bumpRev_spec o s.reverse (valid_reverse hv)
  have hlt := rank_lt (al := al) ⟨hv, hl⟩
  unfold nextId
  cases hb : bumpRev excl s.reverse with
  | some r =>
    obtain ⟨rl, rv, rr⟩ := b1 r hb
    simp only [List.length_reverse] at rl
    have hshape : Shape al r.reverse := ⟨valid_reverse rv, by simpa [rl] using hl⟩
    have hrank : rank al r.reverse = rank al s + 1 := by
      unfold rank; simp only [List.length_reverse, List.reverse_reverse, rl, rr]; omega
    refine ⟨?_, ?_⟩
    · intro s' hs'; simp only [Except.ok.injEq] at hs'; subst hs'; exact ⟨hshape, hrank⟩
    · constructor
      · intro h; cases h
      · intro h; have := rank_lt hshape; omega
  | none =>
    have hr := b2 hb
    simp only [List.length_reverse] at hr
    have z0 : al.idxOf '0' = 0 := idxOf_zero o
    rcases hl with hl | hl
    · simp only [hl, if_true]
      refine ⟨?_, ?_⟩
      · intro s' hs'; simp only [Except.ok.injEq] at hs'; subst hs'
        refine ⟨⟨?_, Or.inr rfl⟩, ?_⟩
        · intro c hc; simp at hc; rw [hc]; exact zero_mem o
        · unfold rank; simp [hl, rankRev, z0]; rw [hl] at hr; omega
      · constructor
        · intro h; cases h
        · intro h; unfold rank at h; simp only [hl, if_true] at h; rw [hl] at hr
          have : 0 < al.length ^ 3 := by
            have : 0 < al.length := by
              apply Nat.pos_of_ne_zero; intro h0; simp [h0] at hr
            exact Nat.pow_pos this
          omega
    · have h2 : ¬ s.length = 2 := by omega
      simp only [h2, if_false]
      refine ⟨?_, ?_⟩
      · intro s' hs'; cases hs'
      · constructor
        · intro _; unfold rank; simp only [h2, if_false]; rw [hl] at hr; omega
        · intro _; trivial

theorem lookup_insert (m : Ids) (k v k' : List Char) :
    lookup (insert m k v) k' = if k = k' then some v else lookup m k' := by
  induction m with
  | nil => simp [insert, lookup]
  | cons p rest ih =>
    obtain ⟨a, b⟩ := p
    simp only [insert]
    by_cases h : a = k
    · subst h; by_cases h2 : a = k' <;> simp [lookup, h2]
    · simp only [h, if_false, lookup, ih]
      by_cases h2 : a = k'
      · subst h2; have : ¬ k = a := fun e => h e.symm; simp [this]
      · simp [h2]

/-- Everything in the persisted map has the right shape; every id handed out so far (`H`) has the
right shape and ranks strictly below the stored successor for its date. -/
def Inv (al : List Char) (m : Ids) (H : List (List Char × List Char)) : Prop :=
  (∀ k v, lookup m k = some v → Shape al v) ∧
  (∀ z ∈ H, Shape al z.2 ∧ ∃ v, lookup m z.1 = some v ∧ rank al z.2 < rank al v)

theorem shape_00 {excl al} (o : Odometer excl al) : Shape al ['0', '0'] := by
  refine ⟨?_, Or.inl rfl⟩
  intro c hc; simp at hc; rw [hc]; exact zero_mem o

theorem rank_00 {excl al} (o : Odometer excl al) : rank al ['0', '0'] = 0 := by
  simp [rank, rankRev, idxOf_zero o]

theorem alloc_step {excl al} (o : Odometer excl al) {m m' : Ids} {H} {k : List Char} {z}
    (hi : Inv al m H) (ha : alloc excl m k = .ok (m', z)) :
    Inv al m' (z :: H) ∧ z ∉ H ∧ z.1 = k ∧ Shape al z.2 := by
  obtain ⟨hm, hH⟩ := hi
  simp only [alloc] at ha
  generalize hid : (lookup m k).getD ['0', '0'] = idPart at ha
  have hshape : Shape al idPart := by
    cases hl : lookup m k with
    | none => rw [hl] at hid; simp at hid; rw [← hid]; exact shape_00 o
    | some v => rw [hl] at hid; simp at hid; rw [← hid]; exact hm k v hl
  cases hn : nextId excl idPart with
  | error e => rw [hn] at ha; cases ha
  | ok nxt =>
    rw [hn] at ha
    simp only [Except.ok.injEq, Prod.mk.injEq] at ha
    obtain ⟨rfl, rfl⟩ := ha
    obtain ⟨hns, hnr⟩ := (nextId_spec o idPart hshape).1 nxt hn
    have hfresh : ∀ z ∈ H, z.1 = k → rank al z.2 < rank al idPart := by
      intro z hz hk
      obtain ⟨_, v, hv, hr⟩ := hH z hz
      rw [hk] at hv; rw [hv] at hid; simp at hid; rw [← hid]; exact hr
    refine ⟨⟨?_, ?_⟩, ?_, rfl, hshape⟩
    · intro k' v hv
      rw [lookup_insert] at hv
      by_cases h : k = k'
      · simp only [h, if_true, Option.some.injEq] at hv; rw [← hv]; exact hns
      · simp only [h, if_false] at hv; exact hm k' v hv
    · intro z hz
      rcases List.mem_cons.1 hz with h | h
      · subst h
        exact ⟨hshape, nxt, by simp [lookup_insert], by simp only []; omega⟩
      · obtain ⟨hs, v, hv, hr⟩ := hH z h
        refine ⟨hs, ?_⟩
        by_cases hk : k = z.1
        · refine ⟨nxt, by simp [lookup_insert, hk], ?_⟩
          have := hfresh z h hk.symm; omega
        · exact ⟨v, by simp [lookup_insert, hk, hv], hr⟩
    · intro hmem
      have := hfresh _ hmem rfl
      simp at this

theorem allocs_fresh {excl al} (o : Odometer excl al) :
    ∀ (ds : List (List Char)) (m : Ids) (H), Inv al m H →
      (allocs excl m ds).Nodup ∧ (∀ z ∈ allocs excl m ds, z ∉ H ∧ z.1 ∈ ds ∧ Shape al z.2) := by
  intro ds
  induction ds with
  | nil => intro m H _; simp [allocs]
  | cons d ds ih =>
    intro m H hi
    simp only [allocs]
    cases ha : alloc excl m d with
    | error e =>
      obtain ⟨h1, h2⟩ := ih m H hi
      refine ⟨h1, ?_⟩
      intro z hz; obtain ⟨a, b, c⟩ := h2 z hz; exact ⟨a, by simp [b], c⟩
    | ok p =>
      obtain ⟨m', z⟩ := p
      obtain ⟨hi', hz, hk, hs⟩ := alloc_step o hi ha
      obtain ⟨h1, h2⟩ := ih m' (z :: H) hi'
      refine ⟨?_, ?_⟩
      · refine List.nodup_cons.2 ⟨?_, h1⟩
        intro hmem; exact (h2 z hmem).1 (by simp)
      · intro y hy
        rcases List.mem_cons.1 hy with h | h
        · subst h; exact ⟨hz, by simp [hk], hs⟩
        · obtain ⟨a, b, c⟩ := h2 y h
          exact ⟨fun hm => a (by simp [hm]), by simp [b], c⟩

theorem inv_nil (al : List Char) : Inv al [] [] := by
  refine ⟨?_, ?_⟩
  · intro k v h; simp [lookup] at h
  · intro z hz; simp at hz

theorem zidString_inj {z w : List Char × List Char} (hz : '#' ∉ z.1) (hw : '#' ∉ w.1)
    (h : zidString z = zidString w) : z = w := by
  obtain ⟨a, b⟩ := z
  obtain ⟨c, d⟩ := w
  simp only [zidString] at h hz hw
  induction a generalizing c with
  | nil =>
    cases c with
    | nil => simp at h; simp [h]
    | cons x xs => simp at h; simp [← h.1] at hw
  | cons x xs ih =>
    cases c with
    | nil => simp at h; simp [h.1] at hz
    | cons y ys =>
      simp at h hz hw
      have := ih hz.2 ys hw.2 h.2
      simp at this
      simp [h.1, this]

end ZorgVerif.Zid
