import ZorgVerif.Model.QuerySyn
/-! `parseToks (toks s) = denote s`: the token-level recursive-descent model computes the denotation of
every well-formed syntax tree (given enough fuel). -/
namespace ZorgVerif.Query
open ZorgVerif ZorgVerif.Lex

/-! ### identifier tokens -/

@[simp] theorem tk_name (n s : String) : (tk n s).name = n := rfl
@[simp] theorem tk_text (n s : String) : (tk n s).text = s.toList := rfl
@[simp] theorem isId_tk (n s : String) : isId (tk n s) = idNames.contains n := rfl
@[simp] theorem sp_name : sp.name = "SPACE" := rfl

theorem isId_name_ne {t : Tok} (h : isId t = true) {s : String} (hs : idNames.contains s = false) :
    (t.name == s) = false := by
  cases hts : t.name == s with
  | false => rfl
  | true =>
    have e : t.name = s := by simpa using hts
    rw [isId, e] at h
    rw [h] at hs
    cases hs

theorem isId_tagOf {t : Tok} (h : isId t = true) : tagOf t = none := by
  have h1 := isId_name_ne h (s := "HASH") (by decide)
  have h2 := isId_name_ne h (s := "AT_SIGN") (by decide)
  have h3 := isId_name_ne h (s := "PERCENT") (by decide)
  have h4 := isId_name_ne h (s := "PLUS") (by decide)
  simp at h1 h2 h3 h4
  unfold tagOf
  split <;> simp_all

/-- the tests `parseAtom`/`parseNegatable` make on the name of an `id` token -/
structure IdFacts (t : Tok) : Prop where
  tag : tagOf t = none
  lparen : (t.name == "LPAREN") = false
  bang : (t.name == "'!'") = false
  crh : (t.name == "CREATE_RANGE_HEAD") = false
  mrh : (t.name == "MODIFY_RANGE_HEAD") = false
  c : (t.name == "'c'") = false
  sq : (t.name == "SQUOTE") = false
  dq : (t.name == "DQUOTE") = false
  f : (t.name == "'f='") = false
  ll : (t.name == "'[['") = false
  langle : (t.name == "LANGLE") = false
  rangle : (t.name == "RANGLE") = false
  le : (t.name == "'<='") = false
  ge : (t.name == "'>='") = false
  bar : (t.name == "'|'") = false
  o : (t.name == "'O'") = false
  g : (t.name == "'G'") = false
  colon : (t.name == "COLON") = false
  fslash : (t.name == "FSLASH") = false

theorem idFacts {t : Tok} (h : isId t = true) : IdFacts t :=
  ⟨isId_tagOf h, isId_name_ne h (by decide), isId_name_ne h (by decide), isId_name_ne h (by decide),
   isId_name_ne h (by decide), isId_name_ne h (by decide), isId_name_ne h (by decide), isId_name_ne h (by decide),
   isId_name_ne h (by decide), isId_name_ne h (by decide), isId_name_ne h (by decide), isId_name_ne h (by decide),
   isId_name_ne h (by decide), isId_name_ne h (by decide), isId_name_ne h (by decide), isId_name_ne h (by decide),
   isId_name_ne h (by decide), isId_name_ne h (by decide), isId_name_ne h (by decide)⟩

/-! ### digits -/

theorem digitVal_digitChar (n : Nat) (h : n ≤ 9) : digitVal (digitChar n) = n := by
  have : n = 0 ∨ n = 1 ∨ n = 2 ∨ n = 3 ∨ n = 4 ∨ n = 5 ∨ n = 6 ∨ n = 7 ∨ n = 8 ∨ n = 9 := by omega
  rcases this with h|h|h|h|h|h|h|h|h|h <;> subst h <;> decide

theorem digit19_getD (m : Nat) (h1 : 1 ≤ m) (h9 : m ≤ 9) : digit19.contains (digit19.getD (m - 1) "?") = true := by
  have : m = 1 ∨ m = 2 ∨ m = 3 ∨ m = 4 ∨ m = 5 ∨ m = 6 ∨ m = 7 ∨ m = 8 ∨ m = 9 := by omega
  rcases this with h|h|h|h|h|h|h|h|h <;> subst h <;> decide

/-! ### the atoms that may follow `!` -/

theorem parseNegatable_tag (fuel : Nat) (neg : Bool) (k : TagKind) (name : IdTok) (rest : List Tok) :
    parseNegatable fuel neg (TagKind.tok k :: name.tok :: rest) = .ok (.tag k neg name.tok.text, rest) := by
  cases k <;> simp [parseNegatable, TagKind.tok, tk, tagOf, name.ok]

theorem parseNegatable_propExists (fuel : Nat) (neg : Bool) (key : IdTok) (rest : List Tok) :
    parseNegatable fuel neg (key.tok :: tk "COLON" ":" :: tk "STAR" "*" :: rest) =
      .ok (.prop key.tok.text [] .exists (valueType []) neg, rest) := by
  have F := idFacts key.ok
  simp [parseNegatable, F.tag, F.c, F.sq, F.dq, F.f, F.ll, key.ok, isValueTok, idNames, textOf, splitOpValue]

theorem splitOpValue_eq (v : Str) (h : valueOk v = true) : splitOpValue v = (.eq, v) := by
  unfold splitOpValue
  split <;> (try subst_vars) <;> simp_all [valueOk]

theorem splitOpValue_lt (v : Str) (h : valueOk v = true) : splitOpValue ('<' :: v) = (.lt, v) := by
  unfold splitOpValue
  split <;> (try subst_vars) <;> simp_all [valueOk]
theorem splitOpValue_le (v : Str) : splitOpValue ('<' :: '=' :: v) = (.le, v) := by
  simp [splitOpValue]
theorem splitOpValue_gt (v : Str) (h : valueOk v = true) : splitOpValue ('>' :: v) = (.gt, v) := by
  unfold splitOpValue
  split <;> (try subst_vars) <;> simp_all [valueOk]
theorem splitOpValue_ge (v : Str) : splitOpValue ('>' :: '=' :: v) = (.ge, v) := by
  simp [splitOpValue]

theorem parseNegatable_prop (fuel : Nat) (neg : Bool) (key : IdTok) (op : OpSyn) (v : IdTok) (rest : List Tok)
    (hv : valueOk v.tok.text = true) :
    parseNegatable fuel neg (key.tok :: tk "COLON" ":" :: (op.toks ++ v.tok :: rest)) =
      .ok (.prop key.tok.text v.tok.text op.op (valueType v.tok.text) neg, rest) := by
  have F := idFacts key.ok
  have G := idFacts v.ok
  cases op <;>
  simp [parseNegatable, F.tag, F.c, F.sq, F.dq, F.f, F.ll, key.ok, v.ok, isValueTok, textOf, OpSyn.toks, OpSyn.op,
    G.langle, G.rangle, G.le, G.ge, splitOpValue_eq, splitOpValue_lt, splitOpValue_le, splitOpValue_gt, splitOpValue_ge, hv]


def dirToks (dirs : List IdTok) : List Tok := dirs.flatMap (fun d => [d.tok, tk "FSLASH" "/"])

theorem dirToks_cons (d : IdTok) (ds : List IdTok) : dirToks (d :: ds) = d.tok :: tk "FSLASH" "/" :: dirToks ds := by
  simp [dirToks]

theorem PathSyn.toks_eq (p : PathSyn) : p.toks = dirToks p.dirs ++ [p.last.tok] := rfl

theorem idPath_path (dirs : List IdTok) (last : IdTok) (rest : List Tok) :
    ∀ fuel, dirs.length + 1 ≤ fuel →
    idPath fuel (dirToks dirs ++ last.tok :: tk "']]'" "]]" :: rest) =
      .ok (dirToks dirs ++ [last.tok], tk "']]'" "]]" :: rest) := by
  induction dirs with
  | nil =>
    intro fuel hf
    obtain ⟨f, rfl⟩ : ∃ f, fuel = f + 1 := ⟨fuel - 1, by omega⟩
    simp [dirToks, idPath, last.ok]
  | cons d ds ih =>
    intro fuel hf
    obtain ⟨f, rfl⟩ : ∃ f, fuel = f + 1 := ⟨fuel - 1, by omega⟩
    have ih' := ih f (by simp at hf; omega)
    have hd : ∃ u r, dirToks ds ++ last.tok :: tk "']]'" "]]" :: rest = u :: r ∧ isId u = true := by
      cases ds with
      | nil => exact ⟨_, _, rfl, last.ok⟩
      | cons d' ds' => exact ⟨d'.tok, _, by rw [dirToks_cons]; rfl, d'.ok⟩
    obtain ⟨u, r, hur, hu⟩ := hd
    have e : dirToks (d :: ds) ++ last.tok :: tk "']]'" "]]" :: rest =
        d.tok :: tk "FSLASH" "/" :: (dirToks ds ++ last.tok :: tk "']]'" "]]" :: rest) := by rw [dirToks_cons]; rfl
    rw [e]
    rw [hur] at ih' ⊢
    simp [idPath, d.ok, hu, ih', Except.map, dirToks_cons]

theorem parseNegatable_link (fuel : Nat) (neg : Bool) (p : PathSyn) (rest : List Tok) (hf : p.dirs.length + 1 ≤ fuel) :
    parseNegatable fuel neg (tk "'[['" "[[" :: (p.toks ++ tk "']]'" "]]" :: rest)) =
      .ok (.link (textOf p.toks) neg, rest) := by
  have e : p.toks ++ tk "']]'" "]]" :: rest = dirToks p.dirs ++ p.last.tok :: tk "']]'" "]]" :: rest := by
    simp [PathSyn.toks_eq]
  rw [e]
  simp [parseNegatable, tagOf, idPath_path p.dirs p.last rest fuel hf, bind, Except.bind, expect, pure, Except.pure,
    PathSyn.toks_eq]

/-! ### atoms -/

/-- a continuation that cannot extend an atom: end of input, `SPACE` or `RPAREN` -/
def atomStop : List Tok → Bool
  | [] => true
  | t :: _ => t.name == "SPACE" || t.name == "RPAREN"

theorem atomStop_cases {rest : List Tok} (h : atomStop rest = true) :
    rest = [] ∨ (∃ tx r, rest = ⟨"SPACE", tx⟩ :: r) ∨ (∃ tx r, rest = ⟨"RPAREN", tx⟩ :: r) := by
  cases rest with
  | nil => exact .inl rfl
  | cons t r =>
    obtain ⟨nm, tx⟩ := t
    simp [atomStop] at h
    rcases h with h | h
    · subst h; exact .inr (.inl ⟨_, _, rfl⟩)
    · subst h; exact .inr (.inr ⟨_, _, rfl⟩)

theorem kindOf_tok (k : KindChar) : kindOf k.tok = some k.kind := by
  cases k <;> rfl

theorem kindsRun_kinds (ks : List KindChar) (rest : List Tok) (hr : atomStop rest = true) :
    kindsRun (ks.map KindChar.tok ++ rest) = (ks.map KindChar.kind, rest) := by
  induction ks with
  | nil =>
    rcases atomStop_cases hr with rfl | ⟨tx, r, rfl⟩ | ⟨tx, r, rfl⟩ <;> simp [kindsRun, kindOf]
  | cons k ks ih =>
    simp [kindsRun, kindOf_tok, ih]


abbrev inlRes (r : Except Err (Atom × List Tok)) : Except Err ((Atom ⊕ OrF) × List Tok) :=
  r.map (fun (a, r) => (.inl a, r))

theorem parseAtom_bang (today : Date) (f : Nat) (body : List Tok) :
    parseAtom today (f + 1) (tk "'!'" "!" :: body) = inlRes (parseNegatable f true body) := by
  simp [parseAtom]

theorem parseAtom_tagTok (today : Date) (f : Nat) (k : TagKind) (body : List Tok) :
    parseAtom today (f + 1) (TagKind.tok k :: body) = inlRes (parseNegatable f false (TagKind.tok k :: body)) := by
  cases k <;> simp [parseAtom, TagKind.tok, kindOf, idNames]

theorem parseAtom_idColon (today : Date) (f : Nat) (key : IdTok) (body : List Tok) :
    parseAtom today (f + 1) (key.tok :: tk "COLON" ":" :: body) =
      inlRes (parseNegatable f false (key.tok :: tk "COLON" ":" :: body)) := by
  have F := idFacts key.ok
  simp [parseAtom, F.lparen, F.bang, F.crh, F.mrh, key.ok, peekIs]

theorem parseAtom_link (today : Date) (f : Nat) (body : List Tok) :
    parseAtom today (f + 1) (tk "'[['" "[[" :: body) = inlRes (parseNegatable f false (tk "'[['" "[[" :: body)) := by
  simp [parseAtom, kindOf, idNames]

def tailToks : Option Str → List Tok
  | some e => [⟨"DATE_RANGE_TAIL", ':' :: e⟩]
  | none => []

theorem toks_created (s : Str) (e : Option Str) :
    (AtomSyn.created s e).toks = ⟨"CREATE_RANGE_HEAD", '^' :: s⟩ :: tailToks e := by cases e <;> rfl
theorem toks_modified (s : Str) (e : Option Str) :
    (AtomSyn.modified s e).toks = ⟨"MODIFY_RANGE_HEAD", '$' :: s⟩ :: tailToks e := by cases e <;> rfl

theorem parseDateRange_spec (today : Date) (nm : String) (c : Char) (s : Str) (e : Option Str) (rest : List Tok)
    (hr : atomStop rest = true) :
    parseDateRange today ⟨nm, c :: s⟩
        (tailToks e ++ rest) =
      (rangeOf today s e).map (fun d => (d, rest)) := by
  cases e with
  | some e =>
    simp [tailToks, parseDateRange, rangeOf, bind, Except.bind, pure, Except.pure, Except.map]
    cases fromDateSpec today s <;> simp
    cases fromDateSpec today e <;> simp
  | none =>
    rcases atomStop_cases hr with rfl | ⟨tx, r, rfl⟩ | ⟨tx, r, rfl⟩ <;>
      simp [tailToks, parseDateRange, rangeOf, bind, Except.bind, pure, Except.pure, Except.map] <;>
      cases fromDateSpec today s <;> simp


theorem peekIs_kinds (nm : String) (hnm : nm ≠ "SPACE" ∧ nm ≠ "RPAREN" ∧ kindOf ⟨nm, []⟩ = none)
    (more : List KindChar) (rest : List Tok) (hr : atomStop rest = true) :
    peekIs nm (List.map KindChar.tok more ++ rest) = false := by
  obtain ⟨h1, h2, h3⟩ := hnm
  cases more with
  | nil =>
    rcases atomStop_cases hr with rfl | ⟨tx, r, rfl⟩ | ⟨tx, r, rfl⟩ <;> simp [peekIs] <;> exact fun h => by simp_all
  | cons k ks =>
    cases k <;> simp [peekIs, KindChar.tok] <;> intro h <;> subst h <;> simp [kindOf] at h3

theorem parseAtom_atom (today : Date) (a : AtomSyn) (fuel : Nat) (rest : List Tok)
    (hwf : (ItemSyn.atom a).wf = true) (hf : a.toks.length ≤ fuel) (hr : atomStop rest = true) :
    parseAtom today fuel (a.toks ++ rest) = (a.denote today).map (fun x => (.inl x, rest)) := by
  obtain ⟨f, rfl⟩ : ∃ f, fuel = f + 1 := ⟨fuel - 1, by cases a <;> simp [AtomSyn.toks] at hf <;> omega⟩
  cases a with
  | kinds k more =>
    have h := kindsRun_kinds (k :: more) rest hr
    simp only [List.map_cons, List.cons_append] at h
    cases k <;>
      simp [AtomSyn.toks, AtomSyn.denote, parseAtom, KindChar.tok, kindOf, idNames, Except.map,
        peekIs_kinds "COLON" (by simp [kindOf]) more rest hr] <;>
      simp [KindChar.tok] at h <;> simp [h, KindChar.kind]
  | prio n =>
    have hn : n ≤ 9 := by simpa [ItemSyn.wf] using hwf
    rcases atomStop_cases hr with rfl | ⟨tx, r, rfl⟩ | ⟨tx, r, rfl⟩ <;> (try cases r) <;>
      simp [AtomSyn.toks, AtomSyn.denote, parseAtom, isId, idNames, peekIs, Except.map, digitVal_digitChar n hn, prioritiesOf]
  | prioRange n m =>
    have hn : n ≤ 9 ∧ 1 ≤ m ∧ m ≤ 9 := by simpa [ItemSyn.wf, and_assoc] using hwf
    have h19 : digit19[m - 1]?.getD "?" ∈ digit19 := by simpa using digit19_getD m hn.2.1 hn.2.2
    simp [AtomSyn.toks, AtomSyn.denote, parseAtom, isId, idNames, peekIs, Except.map, digitVal_digitChar n hn.1,
      digitVal_digitChar m hn.2.2, h19, prioritiesOf]
  | tag neg k name =>
    cases neg <;>
      simp [AtomSyn.toks, negToks, AtomSyn.denote, parseAtom_bang, parseAtom_tagTok, parseNegatable_tag, Except.map]
  | created s e =>
    have h := parseDateRange_spec today "CREATE_RANGE_HEAD" '^' s e rest hr
    simp [toks_created, AtomSyn.denote, parseAtom, h]
    cases rangeOf today s e <;> simp [Except.map]
  | modified s e =>
    have h := parseDateRange_spec today "MODIFY_RANGE_HEAD" '$' s e rest hr
    simp [toks_modified, AtomSyn.denote, parseAtom, h]
    cases rangeOf today s e <;> simp [Except.map]
  | propExists neg key =>
    cases neg <;>
      simp [AtomSyn.toks, negToks, AtomSyn.denote, parseAtom_bang, parseAtom_idColon, parseNegatable_propExists, Except.map]
  | prop neg key op v =>
    have hv : valueOk v.tok.text = true := by simpa [ItemSyn.wf] using hwf
    cases neg <;>
      simp [AtomSyn.toks, negToks, AtomSyn.denote, parseAtom_bang, parseAtom_idColon, parseNegatable_prop, hv, Except.map]
  | link neg p =>
    have hf' : p.dirs.length + 1 ≤ f := by
      have : 2 * p.dirs.length ≤ (dirToks p.dirs).length := by
        induction p.dirs with
        | nil => simp
        | cons d ds ih => simp [dirToks_cons]; omega
      simp [AtomSyn.toks, PathSyn.toks_eq] at hf
      omega
    cases neg <;>
      simp [AtomSyn.toks, negToks, AtomSyn.denote, parseAtom_bang, parseAtom_link, parseNegatable_link, hf', Except.map]

/-! ### fuel needed by the mutual recursion; one-step unfoldings -/

mutual
def ItemSyn.need : ItemSyn → Nat
  | .atom a => a.toks.length
  | .sub f alts => orNeed (f :: alts) + 1
def andNeed : List ItemSyn → Nat
  | [] => 0
  | i :: rest => max i.need (andNeed rest) + 1
def orNeed : List (List ItemSyn) → Nat
  | [] => 0
  | a :: rest => max (andNeed a) (orNeed rest) + 1
end


def consItem : (Atom ⊕ OrF) → AndF → AndF
  | .inl x, .mk as ss => .mk (x :: as) ss
  | .inr o, .mk as ss => .mk as (o :: ss)

def andMore : List Tok → Bool
  | s :: n :: _ => s.name == "SPACE" && !(n.name == "'|'" || n.name == "'O'" || n.name == "'G'")
  | _ => false

def orCont : List Tok → Option (List Tok)
  | s :: b :: s2 :: r2 => if s.name == "SPACE" && b.name == "'|'" && s2.name == "SPACE" then some r2 else none
  | _ => none

theorem parseAnd_succ (today : Date) (fuel : Nat) (toks : List Tok) :
    parseAnd today (fuel + 1) toks =
      (parseAtom today fuel toks).bind (fun (a, r1) =>
        if andMore r1 then (parseAnd today fuel (r1.drop 1)).map (fun (f, r2) => (consItem a f, r2))
        else .ok (consItem a (.mk [] []), r1)) := by
  rw [parseAnd]
  cases parseAtom today fuel toks with
  | error e => rfl
  | ok v =>
    obtain ⟨a, r1⟩ := v
    simp only [bind, Except.bind, pure, Except.pure]
    change (if andMore r1 = true then _ else _) = _
    cases andMore r1 with
    | false => cases a <;> rfl
    | true =>
      simp only [if_true]
      cases parseAnd today fuel (List.drop 1 r1) with
      | error e => rfl
      | ok v => obtain ⟨⟨as, ss⟩, r2⟩ := v; cases a <;> rfl

theorem parseOr_succ (today : Date) (fuel : Nat) (toks : List Tok) :
    parseOr today (fuel + 1) toks =
      (parseAnd today fuel toks).bind (fun (a, r1) =>
        match orCont r1 with
        | some r2 => (parseOr today fuel r2).map (fun (o, r3) => (a :: o, r3))
        | none => .ok ([a], r1)) := by
  rw [parseOr]
  cases parseAnd today fuel toks with
  | error e => rfl
  | ok v =>
    obtain ⟨a, r1⟩ := v
    simp only [bind, Except.bind, pure, Except.pure]
    match r1 with
    | [] => rfl
    | [_] => rfl
    | [_, _] => rfl
    | s :: b :: s2 :: r2 =>
      simp only [orCont]
      split
      · simp only [Except.map]
      · simp

theorem parseAtom_lparen (today : Date) (f : Nat) (body : List Tok) :
    parseAtom today (f + 1) (tk "LPAREN" "(" :: body) =
      (parseOr today f body).bind (fun (o, r1) => (expect "RPAREN" r1).bind (fun (_, r2) => .ok (.inr o, r2))) := by
  simp [parseAtom]
  rfl


/-! ### denotation, in bind/map form -/

def itemDenote (today : Date) : ItemSyn → Except Err (Atom ⊕ OrF)
  | .atom a => (a.denote today).map .inl
  | .sub f alts => (orDenote today (f :: alts)).map .inr

theorem andDenote_cons (today : Date) (i : ItemSyn) (rest : List ItemSyn) :
    andDenote today (i :: rest) = (itemDenote today i).bind (fun x => (andDenote today rest).map (consItem x)) := by
  cases i with
  | atom a =>
    simp only [andDenote, itemDenote, bind, pure, Except.pure]
    cases a.denote today with
    | error e => rfl
    | ok x =>
      simp only [Except.bind, Except.map]
      cases andDenote today rest with
      | error e => rfl
      | ok v => cases v; rfl
  | sub f alts =>
    simp only [andDenote, itemDenote, bind, pure, Except.pure]
    cases orDenote today (f :: alts) with
    | error e => rfl
    | ok x =>
      simp only [Except.bind, Except.map]
      cases andDenote today rest with
      | error e => rfl
      | ok v => cases v; rfl

theorem orDenote_cons (today : Date) (a : List ItemSyn) (rest : List (List ItemSyn)) :
    orDenote today (a :: rest) = (andDenote today a).bind (fun x => (orDenote today rest).map (x :: ·)) := by
  simp only [orDenote, bind, pure, Except.pure]
  cases andDenote today a with
  | error e => rfl
  | ok x =>
    simp only [Except.bind, Except.map]

/-! ### continuations -/

/-- what may follow an or-filter: end of input, `)`, or ` O`/` G` -/
def orStop : List Tok → Bool
  | [] => true
  | t :: r => t.name == "RPAREN" ||
      (t.name == "SPACE" && match r with | n :: _ => n.name == "'O'" || n.name == "'G'" | [] => true)

/-- what may follow an and-filter: the above, or ` | ` -/
def andStop (rest : List Tok) : Bool :=
  orStop rest || match rest with | s :: b :: _ => s.name == "SPACE" && b.name == "'|'" | _ => false

theorem orStop_andStop {rest : List Tok} (h : orStop rest = true) : andStop rest = true := by simp [andStop, h]

theorem andStop_atomStop {rest : List Tok} (h : andStop rest = true) : atomStop rest = true := by
  match rest with
  | [] => rfl
  | [t] => simp [andStop, orStop, atomStop] at *; rcases h with h | h <;> simp [h]
  | t :: n :: r => simp [andStop, orStop, atomStop] at *; rcases h with (h | h) | h <;> simp [h]

theorem andStop_andMore {rest : List Tok} (h : andStop rest = true) : andMore rest = false := by
  match rest with
  | [] => rfl
  | [t] => rfl
  | t :: n :: r =>
    simp [andStop, orStop, andMore] at *
    intro hs
    rcases h with (h | h) | h
    · simp [h] at hs
    · rcases h.2 with h | h <;> simp [h]
    · simp [h.2]

theorem orStop_orCont {rest : List Tok} (h : orStop rest = true) : orCont rest = none := by
  match rest with
  | [] => rfl
  | [t] => rfl
  | [t, n] => rfl
  | t :: n :: m :: r =>
    simp [orStop, orCont] at *
    intro hs hn
    rcases h with h | h
    · simp [h] at hs
    · rcases h.2 with h | h <;> simp [h] at hn

/-- a token that can start an atom is none of `|`, `O`, `G` -/
def startOk (t : Tok) : Bool := !(t.name == "'|'" || t.name == "'O'" || t.name == "'G'")

theorem startOk_id {t : Tok} (h : isId t = true) : startOk t = true := by
  have F := idFacts h
  simp [startOk, F.bar, F.o, F.g]

theorem atom_toks_head (a : AtomSyn) : ∃ t ts, a.toks = t :: ts ∧ startOk t = true := by
  cases a with
  | kinds k more => cases k <;> exact ⟨_, _, rfl, by decide⟩
  | prio n => exact ⟨_, _, rfl, by simp [startOk]⟩
  | prioRange n m => exact ⟨_, _, rfl, by simp [startOk]⟩
  | tag neg k name => cases neg <;> cases k <;> exact ⟨_, _, rfl, by decide⟩
  | created s e => exact ⟨_, _, toks_created s e, by simp [startOk]⟩
  | modified s e => exact ⟨_, _, toks_modified s e, by simp [startOk]⟩
  | propExists neg key =>
    cases neg
    · exact ⟨_, _, rfl, startOk_id key.ok⟩
    · exact ⟨_, _, rfl, by decide⟩
  | prop neg key op v =>
    cases neg
    · exact ⟨key.tok, tk "COLON" ":" :: (op.toks ++ [v.tok]), by simp [AtomSyn.toks, negToks], startOk_id key.ok⟩
    · exact ⟨_, _, by simp [AtomSyn.toks, negToks]; exact ⟨rfl, rfl⟩, by decide⟩
  | link neg p => cases neg <;> exact ⟨_, _, by simp [AtomSyn.toks, negToks]; exact ⟨rfl, rfl⟩, by decide⟩

theorem item_toks_head (i : ItemSyn) : ∃ t ts, i.toks = t :: ts ∧ startOk t = true := by
  cases i with
  | atom a => simpa [ItemSyn.toks] using atom_toks_head a
  | sub f alts => exact ⟨_, _, by simp [ItemSyn.toks]; exact ⟨rfl, rfl⟩, by decide⟩

theorem andToks_cons_cons (i i' : ItemSyn) (l : List ItemSyn) :
    andToks (i :: i' :: l) = i.toks ++ sp :: andToks (i' :: l) := by simp [andToks]

theorem orToks_cons_cons (a a' : List ItemSyn) (o : List (List ItemSyn)) :
    orToks (a :: a' :: o) = andToks a ++ sp :: tk "'|'" "|" :: sp :: orToks (a' :: o) := by simp [orToks]

theorem andToks_head (i : ItemSyn) (l : List ItemSyn) : ∃ t ts, andToks (i :: l) = t :: ts ∧ startOk t = true := by
  obtain ⟨t, ts, h, ht⟩ := item_toks_head i
  cases l with
  | nil => exact ⟨t, ts, by simp [andToks, h], ht⟩
  | cons i' l => exact ⟨t, _, by rw [andToks_cons_cons, h]; rfl, ht⟩

/-! ### the filter grammar: parse = denote, by induction on the fuel -/

theorem andWf_ne_nil {l : List ItemSyn} (h : andWf l = true) : l ≠ [] := by
  intro e; subst e; simp [andWf] at h

/-- the three statements proved together by induction on the fuel -/
theorem parse_filter (today : Date) : ∀ fuel : Nat,
    (∀ (i : ItemSyn) (rest : List Tok), i.wf = true → i.need ≤ fuel → atomStop rest = true →
      parseAtom today fuel (i.toks ++ rest) = (itemDenote today i).map (fun x => (x, rest))) ∧
    (∀ (l : List ItemSyn) (rest : List Tok), andWf l = true → andNeed l ≤ fuel → andStop rest = true →
      parseAnd today fuel (andToks l ++ rest) = (andDenote today l).map (fun x => (x, rest))) ∧
    (∀ (o : List (List ItemSyn)) (rest : List Tok), o ≠ [] → orWf o = true → orNeed o ≤ fuel → orStop rest = true →
      parseOr today fuel (orToks o ++ rest) = (orDenote today o).map (fun x => (x, rest))) := by
  intro fuel
  induction fuel with
  | zero =>
    refine ⟨?_, ?_, ?_⟩
    · intro i rest hwf hn hr
      cases i with
      | atom a =>
        obtain ⟨t, ts, h, _⟩ := atom_toks_head a
        simp [ItemSyn.need, h] at hn
      | sub f alts => simp [ItemSyn.need] at hn
    · intro l rest hwf hn hr
      cases l with
      | nil => simp [andWf] at hwf
      | cons i l => simp [andNeed] at hn
    · intro o rest hne hwf hn hr
      cases o with
      | nil => exact absurd rfl hne
      | cons a o => simp [orNeed] at hn
  | succ f ih =>
    obtain ⟨ihI, ihA, ihO⟩ := ih
    refine ⟨?_, ?_, ?_⟩
    · intro i rest hwf hn hr
      cases i with
      | atom a =>
        have := parseAtom_atom today a (f + 1) rest hwf (by simpa [ItemSyn.need] using hn) hr
        simp only [ItemSyn.toks, itemDenote, this]
        cases a.denote today <;> rfl
      | sub fi alts =>
        have hwf' : orWf (fi :: alts) = true := by simpa [ItemSyn.wf, orWf] using hwf
        have hn' : orNeed (fi :: alts) ≤ f := by simp [ItemSyn.need] at hn; exact hn
        have h := ihO (fi :: alts) (tk "RPAREN" ")" :: rest) (by simp) hwf' hn' (by simp [orStop])
        have e : (ItemSyn.sub fi alts).toks ++ rest =
            tk "LPAREN" "(" :: (orToks (fi :: alts) ++ tk "RPAREN" ")" :: rest) := by simp [ItemSyn.toks]
        rw [e, parseAtom_lparen, h, itemDenote]
        cases orDenote today (fi :: alts) <;> simp [Except.map, Except.bind, expect]
    · intro l rest hwf hn hr
      match l, hwf, hn with
      | [], hwf, _ => simp [andWf] at hwf
      | [i], hwf, hn =>
        have hwi : i.wf = true := by simpa [andWf] using hwf
        have hni : i.need ≤ f := by simp [andNeed] at hn; omega
        have h := ihI i rest hwi hni (andStop_atomStop hr)
        have e : andToks [i] ++ rest = i.toks ++ rest := by simp [andToks]
        rw [e, parseAnd_succ, h, andDenote_cons]
        cases itemDenote today i with
        | error e => rfl
        | ok x => simp [Except.map, Except.bind, andStop_andMore hr, andDenote]
      | i :: i' :: l', hwf, hn =>
        have hw : i.wf = true ∧ andWf (i' :: l') = true := by simpa [andWf] using hwf
        have hnn : i.need ≤ f ∧ andNeed (i' :: l') ≤ f := by rw [andNeed] at hn; omega
        obtain ⟨t, ts, ht, hst⟩ := andToks_head i' l'
        have h := ihI i (sp :: (andToks (i' :: l') ++ rest)) hw.1 hnn.1 (by simp [atomStop])
        have h2 := ihA (i' :: l') rest hw.2 hnn.2 hr
        have e : andToks (i :: i' :: l') ++ rest = i.toks ++ sp :: (andToks (i' :: l') ++ rest) := by
          rw [andToks_cons_cons]; simp
        have hm : andMore (sp :: (andToks (i' :: l') ++ rest)) = true := by
          rw [ht]; simpa [andMore, startOk] using hst
        rw [e, parseAnd_succ, h, andDenote_cons]
        cases itemDenote today i with
        | error e => rfl
        | ok x =>
          simp only [Except.map, Except.bind, hm, if_true, List.drop_one, List.tail_cons]
          rw [h2]
          cases andDenote today (i' :: l') <;> rfl
    · intro o rest hne hwf hn hr
      match o, hne, hwf, hn with
      | [], hne, _, _ => exact absurd rfl hne
      | [a], _, hwf, hn =>
        have hwa : andWf a = true := by simpa [orWf] using hwf
        have hna : andNeed a ≤ f := by simp [orNeed] at hn; omega
        have h := ihA a rest hwa hna (orStop_andStop hr)
        have e : orToks [a] ++ rest = andToks a ++ rest := by simp [orToks]
        rw [e, parseOr_succ, h, orDenote_cons]
        cases andDenote today a with
        | error e => rfl
        | ok x => simp [Except.map, Except.bind, orStop_orCont hr, orDenote]
      | a :: a' :: o', _, hwf, hn =>
        have hw : andWf a = true ∧ orWf (a' :: o') = true := by simpa [orWf] using hwf
        have hnn : andNeed a ≤ f ∧ orNeed (a' :: o') ≤ f := by rw [orNeed] at hn; omega
        have h := ihA a (sp :: tk "'|'" "|" :: sp :: (orToks (a' :: o') ++ rest)) hw.1 hnn.1 (by simp [andStop, orStop])
        have h2 := ihO (a' :: o') rest (by simp) hw.2 hnn.2 hr
        have e : orToks (a :: a' :: o') ++ rest =
            andToks a ++ sp :: tk "'|'" "|" :: sp :: (orToks (a' :: o') ++ rest) := by
          rw [orToks_cons_cons]; simp
        rw [e, parseOr_succ, h, orDenote_cons]
        cases andDenote today a with
        | error e => rfl
        | ok x =>
          simp only [Except.map, Except.bind, orCont, sp_name, tk_name, beq_self_eq_true, Bool.and_self, if_true]
          rw [h2]
          cases orDenote today (a' :: o') <;> rfl


theorem parseOr_orToks (today : Date) (o : List (List ItemSyn)) (fuel : Nat) (rest : List Tok)
    (hne : o ≠ []) (hwf : orWf o = true) (hf : orNeed o ≤ fuel) (hr : orStop rest = true) :
    parseOr today fuel (orToks o ++ rest) = (orDenote today o).map (fun x => (x, rest)) :=
  (parse_filter today fuel).2.2 o rest hne hwf hf hr

/-! ### bounds on the fuel needed: by parenthesis nesting depth, and by token count -/

mutual
def ItemSyn.depth : ItemSyn → Nat
  | .atom _ => 0
  | .sub f alts => orDepth (f :: alts) + 1
def andDepth : List ItemSyn → Nat
  | [] => 0
  | i :: rest => max i.depth (andDepth rest)
def orDepth : List (List ItemSyn) → Nat
  | [] => 0
  | a :: rest => max (andDepth a) (orDepth rest)
end

theorem item_toks_length_pos (i : ItemSyn) : 1 ≤ i.toks.length := by
  obtain ⟨t, ts, h, _⟩ := item_toks_head i
  simp [h]

theorem need_le_depth : ∀ n : Nat,
    (∀ i : ItemSyn, i.need ≤ n → i.need ≤ i.toks.length + i.depth) ∧
    (∀ l : List ItemSyn, andNeed l ≤ n → andNeed l ≤ (andToks l).length + andDepth l + 1) ∧
    (∀ o : List (List ItemSyn), orNeed o ≤ n → orNeed o ≤ (orToks o).length + orDepth o + 2) := by
  intro n
  induction n with
  | zero =>
    refine ⟨?_, ?_, ?_⟩ <;> intro x hx <;> omega
  | succ n ih =>
    obtain ⟨ihI, ihA, ihO⟩ := ih
    refine ⟨?_, ?_, ?_⟩
    · intro i hn
      cases i with
      | atom a => simp [ItemSyn.need, ItemSyn.toks]
      | sub f alts =>
        have h := ihO (f :: alts) (by simp [ItemSyn.need] at hn; exact hn)
        simp [ItemSyn.need, ItemSyn.toks, ItemSyn.depth] at *
        omega
    · intro l hn
      match l, hn with
      | [], _ => simp [andNeed]
      | [i], hn =>
        have h := ihI i (by simp [andNeed] at hn; omega)
        simp [andNeed, andToks, andDepth] at *
        omega
      | i :: i' :: l', hn =>
        rw [andNeed] at hn
        have h := ihI i (by omega)
        have h2 := ihA (i' :: l') (by omega)
        have hp := item_toks_length_pos i
        rw [andToks_cons_cons, andNeed, andDepth]
        simp only [List.length_append, List.length_cons]
        omega
    · intro o hn
      match o, hn with
      | [], _ => simp [orNeed]
      | [a], hn =>
        have h := ihA a (by simp [orNeed] at hn; omega)
        simp [orNeed, orToks, orDepth] at *
        omega
      | a :: a' :: o', hn =>
        rw [orNeed] at hn
        have h := ihA a (by omega)
        have h2 := ihO (a' :: o') (by omega)
        rw [orToks_cons_cons, orNeed, orDepth]
        simp only [List.length_append, List.length_cons]
        omega

theorem orNeed_le_depth (o : List (List ItemSyn)) : orNeed o ≤ (orToks o).length + orDepth o + 2 :=
  (need_le_depth (orNeed o)).2.2 o (Nat.le_refl _)

/-- the fuel needed is at most linear in the number of tokens (each parenthesis level costs three units
of fuel and contributes two tokens) -/
theorem need_le_len : ∀ n : Nat,
    (∀ i : ItemSyn, i.need ≤ n → i.need + 1 ≤ 2 * i.toks.length) ∧
    (∀ l : List ItemSyn, andNeed l ≤ n → andNeed l ≤ 2 * (andToks l).length) ∧
    (∀ o : List (List ItemSyn), orNeed o ≤ n → orNeed o ≤ 2 * (orToks o).length + 1) := by
  intro n
  induction n with
  | zero =>
    refine ⟨?_, ?_, ?_⟩
    · intro i hi
      have := item_toks_length_pos i
      omega
    · intro l hl; omega
    · intro o ho; omega
  | succ n ih =>
    obtain ⟨ihI, ihA, ihO⟩ := ih
    refine ⟨?_, ?_, ?_⟩
    · intro i hn
      cases i with
      | atom a =>
        have := item_toks_length_pos (.atom a)
        simp [ItemSyn.need, ItemSyn.toks] at *
        omega
      | sub f alts =>
        have h := ihO (f :: alts) (by simp [ItemSyn.need] at hn; exact hn)
        simp [ItemSyn.need, ItemSyn.toks] at *
        omega
    · intro l hn
      match l, hn with
      | [], _ => simp [andNeed]
      | [i], hn =>
        have h := ihI i (by simp [andNeed] at hn; omega)
        simp [andNeed, andToks] at *
        omega
      | i :: i' :: l', hn =>
        rw [andNeed] at hn
        have h := ihI i (by omega)
        have h2 := ihA (i' :: l') (by omega)
        rw [andToks_cons_cons, andNeed]
        simp only [List.length_append, List.length_cons]
        omega
    · intro o hn
      match o, hn with
      | [], _ => simp [orNeed]
      | [a], hn =>
        have h := ihA a (by simp [orNeed] at hn; omega)
        simp [orNeed, orToks] at *
        omega
      | a :: a' :: o', hn =>
        rw [orNeed] at hn
        have h := ihA a (by omega)
        have h2 := ihO (a' :: o') (by omega)
        rw [orToks_cons_cons, orNeed]
        simp only [List.length_append, List.length_cons]
        omega

theorem orNeed_le_len (o : List (List ItemSyn)) : orNeed o ≤ 2 * (orToks o).length + 1 :=
  (need_le_len (orNeed o)).2.2 o (Nat.le_refl _)

/-! ### SELECT -/

/-- what follows a select body: nothing or a SPACE -/
def selStop : List Tok → Bool
  | [] => true
  | t :: _ => t.name == "SPACE"

theorem selStop_cases {rest : List Tok} (h : selStop rest = true) : rest = [] ∨ ∃ tx r, rest = ⟨"SPACE", tx⟩ :: r := by
  cases rest with
  | nil => exact .inl rfl
  | cons t r =>
    obtain ⟨nm, tx⟩ := t
    simp [selStop] at h
    subst h
    exact .inr ⟨_, _, rfl⟩

theorem selectFieldOf_field (f : SelFieldSyn) (rest : List Tok) (hr : peekIs "COLON" rest = false) :
    selectFieldOf (f.toks ++ rest) = .ok (f.denote, rest) := by
  cases f with
  | prop =>
    match rest, hr with
    | [], _ => simp [SelFieldSyn.toks, selectFieldOf, SelFieldSyn.denote]
    | [c], hr => simp [SelFieldSyn.toks, selectFieldOf, SelFieldSyn.denote]
    | c :: k :: r, hr =>
      simp [peekIs] at hr
      simp [SelFieldSyn.toks, selectFieldOf, SelFieldSyn.denote, hr]
  | propValues k => simp [SelFieldSyn.toks, selectFieldOf, SelFieldSyn.denote, k.ok]
  | _ => simp [SelFieldSyn.toks, selectFieldOf, SelFieldSyn.denote]

theorem parseSelectBody_noCount (toks : List Tok) (h : peekIs "'count'" toks = false) :
    parseSelectBody toks = (selectFieldOf toks).map (fun (f, r) => (.field f, r)) := by
  match toks, h with
  | [], _ => rfl
  | [t], _ => rfl
  | t :: l :: r, h =>
    simp [peekIs] at h
    simp [parseSelectBody, h]

theorem parseSelectBody_sel (s : SelSyn) (rest : List Tok) (hr : selStop rest = true) :
    parseSelectBody ((if s.count then [tk "'count'" "count", tk "LPAREN" "("] ++ s.field.toks ++ [tk "RPAREN" ")"]
        else s.field.toks) ++ rest) = .ok (s.denote, rest) := by
  obtain ⟨c, f⟩ := s
  cases c with
  | true =>
    have h := selectFieldOf_field f (tk "RPAREN" ")" :: rest) (by simp [peekIs])
    simp [parseSelectBody, SelSyn.denote, h, bind, Except.bind, expect, pure, Except.pure]
  | false =>
    have hc : peekIs "COLON" rest = false := by
      rcases selStop_cases hr with rfl | ⟨tx, r, rfl⟩ <;> simp [peekIs]
    have h := selectFieldOf_field f rest hc
    have hn : peekIs "'count'" (f.toks ++ rest) = false := by
      cases f <;> simp [SelFieldSyn.toks, peekIs]
    simp [SelSyn.denote, parseSelectBody_noCount _ hn, h, Except.map]


/-! ### ORDER BY / GROUP BY -/

def orderToks (o : OrderBy) (more : List OrderBy) : List Tok :=
  interleave [sp] ((o :: more).map (fun x => [x.tok]))

def groupToks (g : Option GroupBy) (more : List (Option GroupBy)) : List Tok :=
  interleave [sp] ((g :: more).map (fun x => [groupTok x]))

theorem orderToks_nil (o : OrderBy) : orderToks o [] = [o.tok] := by simp [orderToks, interleave]
theorem orderToks_cons (o o' : OrderBy) (more : List OrderBy) :
    orderToks o (o' :: more) = o.tok :: sp :: orderToks o' more := by simp [orderToks, interleave]
theorem groupToks_nil (g : Option GroupBy) : groupToks g [] = [groupTok g] := by simp [groupToks, interleave]
theorem groupToks_cons (g g' : Option GroupBy) (more : List (Option GroupBy)) :
    groupToks g (g' :: more) = groupTok g :: sp :: groupToks g' more := by simp [groupToks, interleave]

/-- after a clause body: nothing, or a separator followed by the other clause keyword -/
def clauseStop : List Tok → Bool
  | [] => true
  | [_] => true
  | _ :: k :: _ => k.name == "'O'" || k.name == "'G'"

theorem orderAtom_tok (o : OrderBy) : orderAtom o.tok = some o := by cases o <;> rfl
theorem groupAtom_tok (g : Option GroupBy) : groupAtom (groupTok g) = some g := by
  cases g with
  | none => rfl
  | some x => cases x <;> rfl

theorem orderAtom_kw {k : Tok} (h : (k.name == "'O'" || k.name == "'G'") = true) : orderAtom k = none := by
  obtain ⟨nm, tx⟩ := k
  simp at h
  rcases h with h | h <;> subst h <;> rfl
theorem groupAtom_kw {k : Tok} (h : (k.name == "'O'" || k.name == "'G'") = true) : groupAtom k = none := by
  obtain ⟨nm, tx⟩ := k
  simp at h
  rcases h with h | h <;> subst h <;> rfl

theorem orderBody_spec (rest : List Tok) (hr : clauseStop rest = true) (more : List OrderBy) :
    ∀ (o : OrderBy) (fuel : Nat), more.length + 1 ≤ fuel →
      orderBody fuel (orderToks o more ++ rest) = .ok (o :: more, rest) := by
  induction more with
  | nil =>
    intro o fuel hf
    obtain ⟨f, rfl⟩ : ∃ f, fuel = f + 1 := ⟨fuel - 1, by omega⟩
    match rest, hr with
    | [], _ => simp [orderToks_nil, orderBody, orderAtom_tok]
    | [s], _ => simp [orderToks_nil, orderBody, orderAtom_tok]
    | s :: k :: r, hr =>
      have := orderAtom_kw (k := k) (by simpa [clauseStop] using hr)
      simp [orderToks_nil, orderBody, orderAtom_tok, this]
  | cons o' more ih =>
    intro o fuel hf
    obtain ⟨f, rfl⟩ : ∃ f, fuel = f + 1 := ⟨fuel - 1, by omega⟩
    have h := ih o' f (by simp at hf; omega)
    have hh : ∃ ts, orderToks o' more ++ rest = o'.tok :: ts := by
      cases more with
      | nil => exact ⟨_, by rw [orderToks_nil]; rfl⟩
      | cons o'' more => exact ⟨_, by rw [orderToks_cons]; rfl⟩
    obtain ⟨ts, hts⟩ := hh
    rw [orderToks_cons]
    simp only [List.cons_append]
    rw [hts] at h ⊢
    simp [orderBody, orderAtom_tok, h, Except.map]

theorem groupBody_spec (rest : List Tok) (hr : clauseStop rest = true) (more : List (Option GroupBy)) :
    ∀ (g : Option GroupBy) (n : Nat), more.length + 1 ≤ n →
      groupBody n (groupToks g more ++ rest) = .ok ((g :: more).filterMap id, rest) := by
  induction more with
  | nil =>
    intro g n hf
    obtain ⟨f, rfl⟩ : ∃ f, n = f + 1 := ⟨n - 1, by omega⟩
    match rest, hr with
    | [], _ => cases g <;> simp [groupToks_nil, groupBody, groupAtom_tok]
    | [s], _ => cases g <;> simp [groupToks_nil, groupBody, groupAtom_tok]
    | s :: k :: r, hr =>
      have := groupAtom_kw (k := k) (by simpa [clauseStop] using hr)
      cases g <;> simp [groupToks_nil, groupBody, groupAtom_tok, this]
  | cons g' more ih =>
    intro g n hf
    obtain ⟨f, rfl⟩ : ∃ f, n = f + 1 := ⟨n - 1, by omega⟩
    have hf' : more.length + 1 ≤ f := by simp at hf; omega
    have h := ih g' f hf'
    have hh : ∃ ts, groupToks g' more ++ rest = groupTok g' :: ts := by
      cases more with
      | nil => exact ⟨_, by rw [groupToks_nil]; rfl⟩
      | cons g'' more => exact ⟨_, by rw [groupToks_cons]; rfl⟩
    obtain ⟨ts, hts⟩ := hh
    rw [groupToks_cons]
    simp only [List.cons_append]
    rw [hts] at h ⊢
    have hpos : 0 < f := by omega
    cases g <;> simp [groupBody, groupAtom_tok, h, Except.map, hpos]


def oClause : Option (OrderBy × List OrderBy) → List Tok
  | some (o, more) => sp :: tk "'O'" "O" :: sp :: orderToks o more
  | none => []

def gClause : Option (Option GroupBy × List (Option GroupBy)) → List Tok
  | some (g, more) => sp :: tk "'G'" "G" :: sp :: groupToks g more
  | none => []

def ogToks (order : Option (OrderBy × List OrderBy)) (group : Option (Option GroupBy × List (Option GroupBy)))
    (groupFirst : Bool) : List Tok :=
  if groupFirst then gClause group ++ oClause order else oClause order ++ gClause group

def orderLen : Option (OrderBy × List OrderBy) → Nat
  | some (_, more) => more.length + 1
  | none => 0

def groupOk : Option (Option GroupBy × List (Option GroupBy)) → Bool
  | some (_, more) => decide (more.length ≤ 3)
  | none => true

theorem clauseStop_oClause (order) : clauseStop (oClause order) = true := by
  cases order with
  | none => rfl
  | some p => rfl
theorem clauseStop_gClause (group) : clauseStop (gClause group) = true := by
  cases group with
  | none => rfl
  | some p => rfl

theorem orderAndGroup_spec (fuel : Nat) (order : Option (OrderBy × List OrderBy))
    (group : Option (Option GroupBy × List (Option GroupBy))) (gf : Bool)
    (hf : orderLen order ≤ fuel) (hg : groupOk group = true) :
    orderAndGroup fuel (ogToks order group gf) =
      .ok ((order.map (fun p => p.1 :: p.2), group.map (fun p => (p.1 :: p.2).filterMap id)), []) := by
  cases order with
  | none =>
    cases group with
    | none => cases gf <;> simp [ogToks, oClause, gClause, orderAndGroup]
    | some p =>
      obtain ⟨g, gm⟩ := p
      have hb := groupBody_spec [] rfl gm g 4 (by simp [groupOk] at hg; omega)
      simp only [List.append_nil] at hb
      cases gf <;> simp [ogToks, oClause, gClause, orderAndGroup, hb, bind, Except.bind, pure, Except.pure]
  | some q =>
    obtain ⟨o, om⟩ := q
    cases group with
    | none =>
      have hb := orderBody_spec [] rfl om o fuel (by simpa [orderLen] using hf)
      simp only [List.append_nil] at hb
      cases gf <;> simp [ogToks, oClause, gClause, orderAndGroup, hb, bind, Except.bind, pure, Except.pure]
    | some p =>
      obtain ⟨g, gm⟩ := p
      have hg0 := groupBody_spec [] rfl gm g 4 (by simp [groupOk] at hg; omega)
      have ho0 := orderBody_spec [] rfl om o fuel (by simpa [orderLen] using hf)
      have hg1 := groupBody_spec (oClause (some (o, om))) rfl gm g 4 (by simp [groupOk] at hg; omega)
      have ho1 := orderBody_spec (gClause (some (g, gm))) rfl om o fuel (by simpa [orderLen] using hf)
      simp only [List.append_nil] at hg0 ho0
      simp only [oClause] at hg1
      simp only [gClause] at ho1
      cases gf
      · simp [ogToks, oClause, gClause, orderAndGroup, ho1, hg0, bind, Except.bind, pure, Except.pure]
      · simp [ogToks, oClause, gClause, orderAndGroup, ho0, hg1, bind, Except.bind, pure, Except.pure]

/-! ### whole queries -/

def selPart (toks : List Tok) : Except Err (Option Select × List Tok) :=
  match toks with
    | s :: sp :: rest =>
      if s.name == "'S'" && sp.name == "SPACE" then do
        let (x, r) ← parseSelectBody rest
        pure (some x, r)
      else pure (none, toks)
    | _ => pure (none, toks)

def wherePart (today : Date) (fuel : Nat) (sel : Option Select) (r0 : List Tok) : Except Err (Option OrF × List Tok) :=
  match sel, r0 with
    | some _, sp :: w :: sp2 :: rest =>
      if sp.name == "SPACE" && w.name == "'W'" && sp2.name == "SPACE" then do
        let (o, r) ← parseOr today fuel rest
        pure (some o, r)
      else pure (none, r0)
    | some _, _ => pure (none, r0)
    | none, w :: sp2 :: rest =>
      if w.name == "'W'" && sp2.name == "SPACE" then do
        let (o, r) ← parseOr today fuel rest
        pure (some o, r)
      else .error (.syntax "query must start with S or W")
    | none, _ => .error (.syntax "query must start with S or W")

def finishPart (dflt : Defaults) (sel : Option Select) (wh : Option OrF)
    (x : (Option (List OrderBy) × Option (List GroupBy)) × List Tok) : Except Err Query :=
  let r2 := x.2
  let r3 := match r2 with | [t] => if t.name == "NL" then [] else r2 | _ => r2
  if !r3.isEmpty then .error (.syntax "trailing tokens")
  else pure ⟨sel.getD dflt.select, wh, x.1.1.getD dflt.orderBy, x.1.2.getD dflt.groupBy⟩

theorem parseToks_W (dflt : Defaults) (today : Date) (rest : List Tok) (F : Nat)
    (hF : F = 3 * (tk "'W'" "W" :: sp :: rest).length + 4) :
    parseToks dflt today (tk "'W'" "W" :: sp :: rest) =
      (parseOr today F rest).bind (fun (o, r1) =>
        (orderAndGroup F r1).bind (finishPart dflt none (some o))) := by
  subst hF
  simp [parseToks, bind, Except.bind, pure, Except.pure]
  cases parseOr today (3 * (rest.length + 1 + 1) + 4) rest with
  | error e => rfl
  | ok v =>
    simp only []
    cases orderAndGroup (3 * (rest.length + 1 + 1) + 4) v.snd with
    | error e => rfl
    | ok w => simp [finishPart, pure, Except.pure] <;> rfl

theorem parseToks_S (dflt : Defaults) (today : Date) (rest : List Tok) (F : Nat)
    (hF : F = 3 * (tk "'S'" "S" :: sp :: rest).length + 4) :
    parseToks dflt today (tk "'S'" "S" :: sp :: rest) =
      (parseSelectBody rest).bind (fun (x, r0) =>
        (wherePart today F (some x) r0).bind (fun (wh, r1) =>
          (orderAndGroup F r1).bind (finishPart dflt (some x) wh))) := by
  subst hF
  simp [parseToks, bind, Except.bind, pure, Except.pure]
  cases parseSelectBody rest with
  | error e => rfl
  | ok v =>
    obtain ⟨x, r0⟩ := v
    rcases r0 with _ | ⟨a, _ | ⟨b, _ | ⟨c, r⟩⟩⟩
    · simp [wherePart, finishPart, pure, Except.pure] <;> rfl
    · simp [wherePart, finishPart, pure, Except.pure] <;> rfl
    · simp [wherePart, finishPart, pure, Except.pure] <;> rfl
    · by_cases h : (a.name = "SPACE" ∧ b.name = "'W'") ∧ c.name = "SPACE"
      · simp [wherePart, finishPart, bind, Except.bind, pure, Except.pure, h]
        cases parseOr today (3 * (rest.length + 1 + 1) + 4) r with
        | error e => rfl
        | ok v => rfl
      · simp [wherePart, finishPart, pure, Except.pure, h] <;> rfl


theorem wherePart_stop (today : Date) (F : Nat) (x : Select) (r0 : List Tok) (h : orStop r0 = true) :
    wherePart today F (some x) r0 = .ok (none, r0) := by
  rcases r0 with _ | ⟨a, _ | ⟨b, _ | ⟨c, r⟩⟩⟩
  · rfl
  · rfl
  · rfl
  · have hc : (a.name == "SPACE" && b.name == "'W'" && c.name == "SPACE") = false := by
      simp [orStop] at h
      rcases h with h | ⟨_, h | h⟩ <;> simp [h]
    simp [wherePart, hc, pure, Except.pure]

theorem wherePart_W (today : Date) (F : Nat) (x : Select) (rest : List Tok) :
    wherePart today F (some x) (sp :: tk "'W'" "W" :: sp :: rest) =
      (parseOr today F rest).bind (fun (o, r) => .ok (some o, r)) := by
  simp [wherePart, bind, pure, Except.pure]

def selToks : Option SelSyn → List Tok
  | some s => s.toks
  | none => []

def whToks (hasSel : Bool) : Option (List ItemSyn × List (List ItemSyn)) → List Tok
  | some (f, alts) => (if hasSel then [sp] else []) ++ [tk "'W'" "W", sp] ++ orToks (f :: alts)
  | none => []

theorem QSyn.toks_eq (q : QSyn) :
    q.toks = selToks q.sel ++ whToks q.sel.isSome q.where_ ++ ogToks q.order q.group q.groupFirst := by
  obtain ⟨sel, wh, order, group, gf⟩ := q
  cases sel <;> cases wh <;> cases order <;> cases group <;> rfl

theorem orderToks_length (more : List OrderBy) : ∀ o, (orderToks o more).length = 2 * more.length + 1 := by
  induction more with
  | nil => intro o; simp [orderToks_nil]
  | cons o' more ih => intro o; simp [orderToks_cons, ih]; omega

theorem orderLen_le (order : Option (OrderBy × List OrderBy)) (group) (gf : Bool) :
    orderLen order ≤ (ogToks order group gf).length := by
  cases order with
  | none => simp [orderLen]
  | some p =>
    obtain ⟨o, more⟩ := p
    cases gf <;> simp [orderLen, ogToks, oClause, orderToks_length] <;> omega

theorem orStop_ogToks (order : Option (OrderBy × List OrderBy)) (group) (gf : Bool) :
    orStop (ogToks order group gf) = true := by
  cases order <;> cases group <;> cases gf <;> rfl


def selBody (s : SelSyn) : List Tok :=
  if s.count then [tk "'count'" "count", tk "LPAREN" "("] ++ s.field.toks ++ [tk "RPAREN" ")"] else s.field.toks

theorem SelSyn.toks_eq (s : SelSyn) : s.toks = tk "'S'" "S" :: sp :: selBody s := rfl

theorem selStop_wh (wh) (order : Option (OrderBy × List OrderBy)) (group) (gf : Bool) :
    selStop (whToks true wh ++ ogToks order group gf) = true := by
  cases wh with
  | some p => rfl
  | none => cases order <;> cases group <;> cases gf <;> rfl

theorem bind_ok {α β : Type} (a : α) (f : α → Except Err β) : (Except.ok a : Except Err α).bind f = f a := rfl

/-- the fuel `parseToks` provides (`3 * token count + 4`) covers the recursion of the WHERE filter
(always true, see `QSyn.fuelOk_true`) -/
def QSyn.fuelOk (q : QSyn) : Bool :=
  match q.where_ with
  | some (f, alts) => decide (orNeed (f :: alts) ≤ 3 * q.toks.length + 4)
  | none => true

def orderRes (dflt : Defaults) : Option (OrderBy × List OrderBy) → List OrderBy
  | some (o, more) => o :: more
  | none => dflt.orderBy

def groupRes (dflt : Defaults) : Option (Option GroupBy × List (Option GroupBy)) → List GroupBy
  | some (g, more) => (g :: more).filterMap id
  | none => dflt.groupBy

theorem finish_ok (dflt : Defaults) (F : Nat) (sel : Option Select) (wh : Option OrF)
    (order : Option (OrderBy × List OrderBy)) (group : Option (Option GroupBy × List (Option GroupBy))) (gf : Bool)
    (hf : orderLen order ≤ F) (hg : groupOk group = true) :
    (orderAndGroup F (ogToks order group gf)).bind (finishPart dflt sel wh) =
      .ok ⟨sel.getD dflt.select, wh, orderRes dflt order, groupRes dflt group⟩ := by
  rw [orderAndGroup_spec F order group gf hf hg]
  cases order <;> cases group <;> simp [Except.bind, finishPart, pure, Except.pure, orderRes, groupRes]

theorem parse_denotes_of_fuel (dflt : Defaults) (today : Date) (q : QSyn) (h : q.wf = true) (hfuel : q.fuelOk = true) :
    parseToks dflt today q.toks = q.denote dflt today := by
  have hte := q.toks_eq
  have hfl := hfuel
  unfold QSyn.fuelOk at hfl
  rw [hte] at hfl ⊢
  obtain ⟨sel, wh, order, group, gf⟩ := q
  have hg : groupOk group = true := by
    cases group with
    | none => rfl
    | some p => simp [QSyn.wf] at h; simpa [groupOk] using h.2
  have hol := orderLen_le order group gf
  have hst := orStop_ogToks order group gf
  simp only at hfl ⊢
  cases sel with
  | none =>
    cases wh with
    | none => simp [QSyn.wf] at h
    | some p =>
      obtain ⟨f, alts⟩ := p
      have hw : orWf (f :: alts) = true := by simp [QSyn.wf] at h; simpa [orWf] using h.1
      simp only [selToks, whToks, Option.isSome_none, Bool.false_eq_true, if_false, List.nil_append,
        List.cons_append, decide_eq_true_eq] at hfl ⊢
      rw [parseToks_W dflt today _ _ rfl, parseOr_orToks today (f :: alts) _ _ (by simp) hw hfl hst]
      simp only [QSyn.denote]
      cases orDenote today (f :: alts) with
      | error e => rfl
      | ok x =>
        change (orderAndGroup _ (ogToks order group gf)).bind (finishPart dflt none (some x)) = _
        rw [finish_ok dflt _ none (some x) order group gf (by simp only [List.length_append, List.length_cons]; omega) hg]
        cases order <;> cases group <;> rfl
  | some s =>
    have hsb := parseSelectBody_sel s (whToks true wh ++ ogToks order group gf) (selStop_wh wh order group gf)
    simp only [selToks, SelSyn.toks_eq, Option.isSome_some, List.cons_append, List.append_assoc] at hfl ⊢
    rw [parseToks_S dflt today _ _ rfl]
    change parseSelectBody (selBody s ++ _) = _ at hsb
    rw [hsb, bind_ok]
    dsimp only
    cases wh with
    | none =>
      simp only [whToks, List.nil_append]
      rw [wherePart_stop today _ _ _ hst, bind_ok]
      dsimp only
      rw [finish_ok dflt _ _ none order group gf (by simp only [List.length_append, List.length_cons]; omega) hg]
      cases order <;> cases group <;> rfl
    | some p =>
      obtain ⟨f, alts⟩ := p
      have hw : orWf (f :: alts) = true := by simp [QSyn.wf] at h; simpa [orWf] using h.1
      simp only [whToks, if_true, List.cons_append, List.nil_append, decide_eq_true_eq] at hfl ⊢
      rw [wherePart_W, parseOr_orToks today (f :: alts) _ _ (by simp) hw hfl hst]
      simp only [QSyn.denote]
      cases orDenote today (f :: alts) with
      | error e => rfl
      | ok x =>
        change (orderAndGroup _ (ogToks order group gf)).bind (finishPart dflt (some s.denote) (some x)) = _
        rw [finish_ok dflt _ _ (some x) order group gf (by simp only [List.length_append, List.length_cons]; omega) hg]
        cases order <;> cases group <;> rfl


theorem QSyn.fuelOk_true (q : QSyn) : q.fuelOk = true := by
  have hte := q.toks_eq
  unfold QSyn.fuelOk
  obtain ⟨sel, wh, order, group, gf⟩ := q
  cases wh with
  | none => rfl
  | some p =>
    obtain ⟨f, alts⟩ := p
    have hb := orNeed_le_len (f :: alts)
    simp only at hte ⊢
    rw [hte]
    cases sel <;> simp [whToks, List.length_append] <;> omega

/-- whole queries -/
theorem parse_denotes (dflt : Defaults) (today : Date) (q : QSyn) (h : q.wf = true) :
    parseToks dflt today q.toks = q.denote dflt today :=
  parse_denotes_of_fuel dflt today q h q.fuelOk_true

/-- the WHERE clause alone -/
theorem parse_where_denotes (dflt : Defaults) (today : Date) (first : List ItemSyn) (alts : List (List ItemSyn))
    (h : (andWf first && orWf alts) = true) :
    parseToks dflt today ([tk "'W'" "W", sp] ++ orToks (first :: alts)) =
      (orDenote today (first :: alts)).map (fun o => ⟨dflt.select, some o, dflt.orderBy, dflt.groupBy⟩) := by
  have hq := parse_denotes dflt today ⟨none, some (first, alts), none, none, false⟩ (by simpa [QSyn.wf] using h)
  have ht : (QSyn.mk none (some (first, alts)) none none false).toks =
      [tk "'W'" "W", sp] ++ orToks (first :: alts) := by simp [QSyn.toks]
  rw [ht] at hq
  rw [hq]
  simp only [QSyn.denote, bind, pure, Except.pure]
  cases orDenote today (first :: alts) <;> rfl

/-! Remark (history).  With the earlier fuel `toks.length + 2` in `parseToks` the two theorems above were
false: each parenthesis level costs three units of fuel (parseAtom → parseOr → parseAnd) but contributes
only two tokens, so `W (((o)))` (9 tokens, fuel 11, need 12) evaluated to `.error .fuel` although its
denotation is `.ok …`; nesting depth ≤ 2 was always fine (`orNeed_le_depth`).  The model now provides
`3 * toks.length + 4`, which `orNeed_le_len` shows is always enough. -/

end ZorgVerif.Query

#print axioms ZorgVerif.Query.parse_filter
#print axioms ZorgVerif.Query.parse_denotes_of_fuel
#print axioms ZorgVerif.Query.parse_where_denotes
#print axioms ZorgVerif.Query.parse_denotes
