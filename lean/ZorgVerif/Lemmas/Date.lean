import ZorgVerif.Model.Date
/-! Lemmas about the proleptic Gregorian date model (`ZorgVerif.Model.Date`). -/
namespace ZorgVerif
namespace Date

/-! ### month lengths -/

theorem daysIn_pos (y m : Nat) : 28 ≤ daysIn y m ∧ daysIn y m ≤ 31 := by
  unfold daysIn
  split
  · split <;> omega
  · split <;> omega

theorem daysIn_ge (y m : Nat) : 28 ≤ daysIn y m := (daysIn_pos y m).1
theorem daysIn_le (y m : Nat) : daysIn y m ≤ 31 := (daysIn_pos y m).2

theorem daysIn_12 (y : Nat) : daysIn y 12 = 31 := by
  simp [daysIn]

theorem valid_iff (t : Date) :
    t.valid = true ↔ 1 ≤ t.y ∧ t.y ≤ 9999 ∧ 1 ≤ t.m ∧ t.m ≤ 12 ∧ 1 ≤ t.d ∧ t.d ≤ daysIn t.y t.m := by
  simp only [valid, Bool.and_eq_true, decide_eq_true_eq]
  constructor
  · intro h; omega
  · intro h; omega

/-! ### day stepping -/

theorem nextDay_valid (t : Date) (h : t.valid = true) (hy : t.y < 9999) : (nextDay t).valid = true := by
  rw [valid_iff] at h
  obtain ⟨h1, h2, h3, h4, h5, h6⟩ := h
  unfold nextDay
  split
  · rw [valid_iff]; simp only; omega
  · split
    · rw [valid_iff]; simp only
      have := daysIn_ge t.y (t.m + 1); omega
    · rw [valid_iff]; simp only
      have := daysIn_ge (t.y + 1) 1; omega

theorem prevDay_valid (t : Date) (h : t.valid = true) (hy : 1 < t.y) : (prevDay t).valid = true := by
  rw [valid_iff] at h
  obtain ⟨h1, h2, h3, h4, h5, h6⟩ := h
  unfold prevDay
  split
  · rw [valid_iff]; simp only; omega
  · split
    · rw [valid_iff]; simp only
      have := daysIn_ge t.y (t.m - 1); omega
    · rw [valid_iff]; simp only
      have := daysIn_12 (t.y - 1); omega

theorem prevDay_nextDay (t : Date) (h : t.valid = true) : prevDay (nextDay t) = t := by
  rw [valid_iff] at h
  obtain ⟨y, m, d⟩ := t
  simp only at h
  obtain ⟨h1, h2, h3, h4, h5, h6⟩ := h
  unfold nextDay
  simp only
  split
  · unfold prevDay
    simp only
    rw [if_pos (by omega)]
    simp
  · split
    · unfold prevDay
      simp only
      rw [if_neg (by omega), if_pos (by omega)]
      simp only [Nat.add_sub_cancel, Date.mk.injEq, true_and]
      omega
    · have hm : m = 12 := by omega
      subst hm
      have := daysIn_12 y
      unfold prevDay
      simp only
      rw [if_neg (by omega), if_neg (by omega)]
      simp only [Nat.add_sub_cancel, Date.mk.injEq, true_and]
      omega

theorem nextDay_prevDay (t : Date) (h : t.valid = true) (_hy : 1 < t.y ∨ 1 < t.m ∨ 1 < t.d) :
    nextDay (prevDay t) = t := by
  rw [valid_iff] at h
  obtain ⟨y, m, d⟩ := t
  simp only at h
  obtain ⟨h1, h2, h3, h4, h5, h6⟩ := h
  unfold prevDay
  simp only
  split
  · unfold nextDay
    simp only
    rw [if_pos (by omega)]
    simp only [Date.mk.injEq, true_and]
    omega
  · split
    · unfold nextDay
      simp only
      rw [if_neg (by omega), if_pos (by omega)]
      simp only [Date.mk.injEq, true_and]
      omega
    · unfold nextDay
      simp only
      have := daysIn_12 (y - 1)
      rw [if_neg (by omega), if_neg (by omega)]
      simp only [Date.mk.injEq]
      omega

/-- the hypothesis `hy` of `nextDay_prevDay` is redundant: validity already gives `1 ≤ t.y` -/
theorem nextDay_prevDay' (t : Date) (h : t.valid = true) : nextDay (prevDay t) = t := by
  have h' := (valid_iff t).1 h
  by_cases h1 : 1 < t.y
  · exact nextDay_prevDay t h (Or.inl h1)
  · obtain ⟨y, m, d⟩ := t
    simp only at h' h1
    have hy : y = 1 := by omega
    subst hy
    by_cases hm : 1 < m
    · exact nextDay_prevDay _ h (Or.inr (Or.inl hm))
    · by_cases hd : 1 < d
      · exact nextDay_prevDay _ h (Or.inr (Or.inr hd))
      · have : m = 1 := by omega
        have : d = 1 := by omega
        subst_vars
        decide

theorem nextDay_y_le (t : Date) : (nextDay t).y ≤ t.y + 1 := by
  unfold nextDay
  split
  · simp
  · split <;> simp

theorem nextDay_y_ge (t : Date) : t.y ≤ (nextDay t).y := by
  unfold nextDay
  split
  · simp
  · split <;> simp

/-! ### adding / subtracting days -/

theorem addDays_zero (t : Date) : addDays 0 t = t := rfl
theorem addDays_succ (n : Nat) (t : Date) : addDays (n + 1) t = addDays n (nextDay t) := rfl
theorem subDays_zero (t : Date) : subDays 0 t = t := rfl
theorem subDays_succ (n : Nat) (t : Date) : subDays (n + 1) t = subDays n (prevDay t) := rfl

theorem addDays_y_le (n : Nat) (t : Date) : (addDays n t).y ≤ t.y + n := by
  induction n generalizing t with
  | zero => simp [addDays_zero]
  | succ n ih =>
    rw [addDays_succ]
    have := ih (nextDay t)
    have := nextDay_y_le t
    omega

theorem addDays_valid (n : Nat) (t : Date) (h : t.valid = true) (hy : t.y + n < 9999) :
    (addDays n t).valid = true := by
  induction n generalizing t with
  | zero => exact h
  | succ n ih =>
    rw [addDays_succ]
    apply ih
    · exact nextDay_valid t h (by omega)
    · have := nextDay_y_le t; omega

theorem addDays_add (a b : Nat) (t : Date) : addDays (a + b) t = addDays b (addDays a t) := by
  induction a generalizing t with
  | zero => simp [addDays_zero]
  | succ a ih =>
    rw [Nat.add_right_comm, addDays_succ, addDays_succ, ih]

theorem subDays_add (a b : Nat) (t : Date) : subDays (a + b) t = subDays b (subDays a t) := by
  induction a generalizing t with
  | zero => simp [subDays_zero]
  | succ a ih =>
    rw [Nat.add_right_comm, subDays_succ, subDays_succ, ih]

theorem subDays_addDays (n : Nat) (t : Date) (h : t.valid = true) (hy : t.y + n < 9999) :
    subDays n (addDays n t) = t := by
  induction n generalizing t with
  | zero => rfl
  | succ n ih =>
    have hv : (nextDay t).valid = true := nextDay_valid t h (by omega)
    have hle := nextDay_y_le t
    rw [addDays_succ, Nat.add_comm n 1, Nat.add_comm 1 n, subDays_add, ih (nextDay t) hv (by omega)]
    show prevDay (nextDay t) = t
    exact prevDay_nextDay t h

/-! ### months and years -/

/-- calendar months with end-of-month clamping -/
theorem addMonths_spec (n : Nat) (t : Date) (h : t.valid = true) :
    let r := addMonths n t
    r.y * 12 + (r.m - 1) = t.y * 12 + (t.m - 1) + n ∧ 1 ≤ r.m ∧ r.m ≤ 12 ∧ r.d = min t.d (daysIn r.y r.m) := by
  rw [valid_iff] at h
  simp only [addMonths, clamp]
  refine ⟨?_, ?_, ?_, trivial⟩ <;> omega

theorem addMonths_valid (n : Nat) (t : Date) (h : t.valid = true) (hy : (addMonths n t).y ≤ 9999) :
    (addMonths n t).valid = true := by
  have hs := addMonths_spec n t h
  simp only at hs
  obtain ⟨h1, h2, h3, h4⟩ := hs
  rw [valid_iff] at h ⊢
  have := daysIn_ge (addMonths n t).y (addMonths n t).m
  have hy1 : t.y ≤ (addMonths n t).y := by simp [addMonths, clamp]
  refine ⟨by omega, hy, h2, h3, ?_, ?_⟩
  · rw [h4]; omega
  · rw [h4]; exact Nat.min_le_right _ _

theorem subMonths_spec (n : Nat) (t : Date) (h : t.valid = true) (r : Date) (hr : subMonths n t = some r) :
    r.y * 12 + (r.m - 1) + n = t.y * 12 + (t.m - 1) ∧ 1 ≤ r.m ∧ r.m ≤ 12 ∧ 1 ≤ r.y ∧
      r.d = min t.d (daysIn r.y r.m) := by
  have _hv := (valid_iff t).1 h
  simp only [subMonths] at hr
  split at hr
  · cases hr
  · rename_i hlt
    simp only [Option.some.injEq] at hr
    subst hr
    simp only [clamp]
    refine ⟨?_, ?_, ?_, ?_, trivial⟩ <;> omega

theorem subMonths_valid (n : Nat) (t : Date) (h : t.valid = true) (r : Date) (hr : subMonths n t = some r) :
    r.valid = true := by
  obtain ⟨h1, h2, h3, h4, h5⟩ := subMonths_spec n t h r hr
  rw [valid_iff] at h ⊢
  have := daysIn_ge r.y r.m
  refine ⟨h4, by omega, h2, h3, ?_, ?_⟩
  · rw [h5]; omega
  · rw [h5]; exact Nat.min_le_right _ _

theorem addYears_spec (n : Nat) (t : Date) : addYears n t = ⟨t.y + n, t.m, min t.d (daysIn (t.y + n) t.m)⟩ := rfl

theorem addYears_eq_addMonths (n : Nat) (t : Date) (h : t.valid = true) : addYears n t = addMonths (12 * n) t := by
  rw [valid_iff] at h
  have e1 : (t.m - 1 + 12 * n) / 12 = n := by omega
  have e2 : (t.m - 1 + 12 * n) % 12 + 1 = t.m := by omega
  simp only [addYears, addMonths, e1, e2]

/-! ### digits and formatting -/

theorem digitVal_digitChar_lt : ∀ k, k < 10 → digitVal (Char.ofNat ('0'.toNat + k)) = k := by
  decide

theorem digitVal_digitChar (n : Nat) : digitVal (digitChar n) = n % 10 :=
  digitVal_digitChar_lt (n % 10) (Nat.mod_lt _ (by decide))

theorem padNat_length (w n : Nat) : (padNat w n).length = w := by
  induction w generalizing n with
  | zero => rfl
  | succ w ih => simp [padNat, ih]

theorem padNat_two (n : Nat) : padNat 2 n = [digitChar (n / 10), digitChar n] := by
  simp [padNat]

theorem padNat_four (n : Nat) :
    padNat 4 n = [digitChar (n / 10 / 10 / 10), digitChar (n / 10 / 10), digitChar (n / 10), digitChar n] := by
  simp [padNat]

theorem natOfDigits_two (a b : Char) : natOfDigits [a, b] = digitVal a * 10 + digitVal b := by
  simp [natOfDigits]

theorem natOfDigits_four (a b c d : Char) :
    natOfDigits [a, b, c, d] = ((digitVal a * 10 + digitVal b) * 10 + digitVal c) * 10 + digitVal d := by
  simp [natOfDigits]

theorem natOfDigits_pad2 (n : Nat) : natOfDigits [digitChar (n / 10), digitChar n] = n % 100 := by
  rw [natOfDigits_two, digitVal_digitChar, digitVal_digitChar]; omega

theorem natOfDigits_pad4 (n : Nat) :
    natOfDigits [digitChar (n / 10 / 10 / 10), digitChar (n / 10 / 10), digitChar (n / 10), digitChar n]
      = n % 10000 := by
  rw [natOfDigits_four]; simp only [digitVal_digitChar]; omega

theorem fmtShort_eq (t : Date) :
    fmtShort t = [digitChar (t.y / 10), digitChar t.y, digitChar (t.m / 10), digitChar t.m,
      digitChar (t.d / 10), digitChar t.d] := by
  simp [fmtShort, fmtYmd, padNat]

theorem fmtLong_eq (t : Date) :
    fmtLong t = [digitChar (t.y / 10 / 10 / 10), digitChar (t.y / 10 / 10), digitChar (t.y / 10), digitChar t.y,
      '-', digitChar (t.m / 10), digitChar t.m, '-', digitChar (t.d / 10), digitChar t.d] := by
  simp [fmtLong, padNat]

theorem fmtShort_length (t : Date) : (fmtShort t).length = 6 := by
  rw [fmtShort_eq]; rfl

theorem fmtLong_length (t : Date) : (fmtLong t).length = 10 := by
  rw [fmtLong_eq]; rfl

/-- short dates round-trip inside the century they are read into -/
theorem parseShort_fmtShort (t : Date) (h : t.valid = true) (h1 : 2000 ≤ t.y) (h2 : t.y ≤ 2099) :
    parseShort (fmtShort t) = some t := by
  have hv := (valid_iff t).1 h
  have := daysIn_le t.y t.m
  obtain ⟨y, m, d⟩ := t
  simp only at hv h1 h2 this
  rw [fmtShort_eq]
  simp only [parseShort, natOfDigits_pad2]
  have ey : 2000 + y % 100 = y := by omega
  have em : m % 100 = m := by omega
  have ed : d % 100 = d := by omega
  rw [ey, em, ed, if_pos h]

theorem parseLong_fmtLong (t : Date) (h : t.valid = true) : parseLong (fmtLong t) = some t := by
  have hv := (valid_iff t).1 h
  have := daysIn_le t.y t.m
  obtain ⟨y, m, d⟩ := t
  simp only at hv this
  rw [fmtLong_eq]
  simp only [parseLong, natOfDigits_pad2, natOfDigits_pad4]
  have ey : y % 10000 = y := by omega
  have em : m % 100 = m := by omega
  have ed : d % 100 = d := by omega
  rw [ey, em, ed, if_pos h]

/-- outside the 2000–2099 window the short form does *not* round-trip: it is read back into 20xx -/
example : parseShort (fmtShort ⟨1999, 12, 31⟩) = some ⟨2099, 12, 31⟩ := by decide

end Date
end ZorgVerif

#print axioms ZorgVerif.Date.parseShort_fmtShort
#print axioms ZorgVerif.Date.addMonths_spec
#print axioms ZorgVerif.Date.subDays_addDays
