import ZorgVerif.Model.Move
import ZorgVerif.Lemmas.Rename
/-! Lemmas about `_add_hidden_metadata` (`note move`): nothing is lost, every missing tag / property
becomes explicit in the moved body. -/
namespace ZorgVerif.Move
open ZorgVerif

/-- every occurrence of the ZID in the body is the end of a word -/
def ZidEndsWords (zid body : Str) : Prop :=
  ∀ pre post, body = pre ++ zid ++ post → post = [] ∨ isWs (post.headD ' ') = true

def NoWs (w : Str) : Prop := ∀ c ∈ w, isWs c = false

/-! ### `splitWs` unfolding -/

/-- the word emitted when the accumulator is flushed -/
def flush (acc : Str) : List Str := if acc.isEmpty then [] else [acc.reverse]

theorem go_nil (acc : Str) : splitWs.go acc [] = flush acc := by
  simp [splitWs.go, flush]

theorem go_cons_ws (acc : Str) (c : Char) (r : Str) (h : isWs c = true) :
    splitWs.go acc (c :: r) = flush acc ++ splitWs.go [] r := by
  cases acc <;> simp [splitWs.go, flush, h]

theorem go_cons_nws (acc : Str) (c : Char) (r : Str) (h : isWs c = false) :
    splitWs.go acc (c :: r) = splitWs.go (c :: acc) r := by
  simp [splitWs.go, h]

theorem splitWs_eq (s : Str) : splitWs s = splitWs.go [] s := rfl

theorem flush_nil : flush [] = [] := rfl

theorem splitWs_nil : splitWs [] = [] := by
  rw [splitWs_eq, go_nil, flush_nil]

theorem splitWs_cons_ws (c : Char) (r : Str) (h : isWs c = true) : splitWs (c :: r) = splitWs r := by
  rw [splitWs_eq, go_cons_ws _ _ _ h, flush_nil, List.nil_append, ← splitWs_eq]

/-- a string that is empty or starts with whitespace: a word boundary is at its left end -/
def Bdry (v : Str) : Prop := v = [] ∨ isWs (v.headD ' ') = true

theorem go_append_ws (c : Char) (h : isWs c = true) (u v : Str) :
    ∀ acc, splitWs.go acc (u ++ c :: v) = splitWs.go acc u ++ splitWs.go [] v := by
  induction u with
  | nil => intro acc; rw [List.nil_append, go_cons_ws _ _ _ h, go_nil]
  | cons d u ih =>
    intro acc
    rw [List.cons_append]
    cases hd : isWs d with
    | true => rw [go_cons_ws _ _ _ hd, go_cons_ws _ _ _ hd, ih, List.append_assoc]
    | false => rw [go_cons_nws _ _ _ hd, go_cons_nws _ _ _ hd, ih]

theorem go_append_bdry (acc u v : Str) (hv : Bdry v) :
    splitWs.go acc (u ++ v) = splitWs.go acc u ++ splitWs v := by
  rcases hv with rfl | hv
  · rw [List.append_nil, splitWs_nil, List.append_nil]
  · cases v with
    | nil => rw [List.append_nil, splitWs_nil, List.append_nil]
    | cons c v =>
      simp only [List.headD_cons] at hv
      rw [go_append_ws c hv, splitWs_cons_ws _ _ hv, ← splitWs_eq]

theorem splitWs_append_bdry (u v : Str) (hv : Bdry v) : splitWs (u ++ v) = splitWs u ++ splitWs v :=
  go_append_bdry [] u v hv

theorem go_noWs (w : Str) (hw : NoWs w) : ∀ acc, splitWs.go acc w = flush (w.reverse ++ acc) := by
  induction w with
  | nil => intro acc; rw [go_nil]; rfl
  | cons c w ih =>
    intro acc
    rw [go_cons_nws _ _ _ (hw c (List.mem_cons_self ..)),
      ih (fun d hd => hw d (List.mem_cons_of_mem _ hd))]
    simp

theorem splitWs_noWs (w : Str) (hw : NoWs w) (hne : w ≠ []) : splitWs w = [w] := by
  rw [splitWs_eq, go_noWs w hw]
  cases w with
  | nil => exact absurd rfl hne
  | cons c w => simp [flush]

/-! ### words are infixes; whitespace-free infixes lie inside words -/

theorem infix_of_mem_go (w : Str) : ∀ (s acc : Str), w ∈ splitWs.go acc s → w <:+: acc.reverse ++ s := by
  intro s
  induction s with
  | nil =>
    intro acc h
    rw [go_nil] at h
    cases acc with
    | nil => simp [flush] at h
    | cons a acc =>
      simp only [flush, List.isEmpty_cons, Bool.false_eq_true, if_false, List.mem_singleton] at h
      rw [h, List.append_nil]; exact List.infix_refl _
  | cons c r ih =>
    intro acc h
    cases hc : isWs c with
    | true =>
      rw [go_cons_ws _ _ _ hc, List.mem_append] at h
      rcases h with h | h
      · cases acc with
        | nil => simp [flush] at h
        | cons a acc =>
          simp only [flush, List.isEmpty_cons, Bool.false_eq_true, if_false, List.mem_singleton] at h
          rw [h]; exact (List.prefix_append _ _).isInfix
      · have := ih [] h
        simp only [List.reverse_nil, List.nil_append] at this
        exact this.trans ⟨acc.reverse ++ [c], [], by simp⟩
    | false =>
      rw [go_cons_nws _ _ _ hc] at h
      have := ih (c :: acc) h
      simpa using this

theorem infix_of_mem_splitWs (w s : Str) (h : w ∈ splitWs s) : w <:+: s := by
  simpa using infix_of_mem_go w s [] h

/-- a whitespace-free string that occurs in `u ++ c :: v` (`c` whitespace) occurs in `u` or in `v` -/
theorem infix_split_ws (p : Str) (hp : NoWs p) (c : Char) (hc : isWs c = true) (u v : Str)
    (h : p <:+: u ++ c :: v) : p <:+: u ∨ p <:+: v := by
  have hcp : c ∉ p := fun hm => by rw [hp c hm] at hc; exact absurd hc (by decide)
  obtain ⟨x, y, h⟩ := h
  rcases List.append_eq_append_iff.mp h with ⟨a', h1, _⟩ | ⟨c', h1, h2⟩
  · left; exact ⟨x, a', h1.symm⟩
  · cases c' with
    | nil => left; exact ⟨x, [], by simpa using h1⟩
    | cons e c'' =>
      simp only [List.cons_append, List.cons.injEq] at h2
      obtain ⟨rfl, h2⟩ := h2
      rcases List.append_eq_append_iff.mp h1 with ⟨a', _, h4⟩ | ⟨d', h3, h4⟩
      · exact absurd (by rw [h4]; simp) hcp
      · cases d' with
        | nil =>
          simp only [List.nil_append] at h4
          exact absurd (by rw [← h4]; simp) hcp
        | cons f d'' =>
          simp only [List.cons_append, List.cons.injEq] at h4
          right
          exact ⟨d'', y, by rw [h2, h4.2]⟩

theorem mem_go_of_infix (p : Str) (hp : NoWs p) (hne : p ≠ []) :
    ∀ (s acc : Str), p <:+: acc.reverse ++ s → ∃ w ∈ splitWs.go acc s, p <:+: w := by
  intro s
  induction s with
  | nil =>
    intro acc h
    rw [List.append_nil] at h
    cases acc with
    | nil =>
      simp only [List.reverse_nil, List.infix_nil] at h
      exact absurd h hne
    | cons a acc => exact ⟨_, by simp [go_nil, flush], h⟩
  | cons c r ih =>
    intro acc h
    cases hc : isWs c with
    | true =>
      rw [go_cons_ws _ _ _ hc]
      rcases infix_split_ws p hp c hc _ _ h with h | h
      · cases acc with
        | nil =>
          simp only [List.reverse_nil, List.infix_nil] at h
          exact absurd h hne
        | cons a acc => exact ⟨_, by simp [flush], h⟩
      · obtain ⟨w, hw, hpw⟩ := ih [] (by simpa using h)
        exact ⟨w, List.mem_append_right _ hw, hpw⟩
    | false =>
      rw [go_cons_nws _ _ _ hc]
      exact ih (c :: acc) (by simpa using h)

theorem mem_splitWs_of_infix (p : Str) (hp : NoWs p) (hne : p ≠ []) (s : Str) (h : p <:+: s) :
    ∃ w ∈ splitWs s, p <:+: w :=
  mem_go_of_infix p hp hne s [] (by simpa using h)

/-! ### `occurs` is the infix relation -/

theorem occurs_iff_infix (pat s : Str) : occurs pat s = true ↔ pat <:+: s := by
  simp only [occurs, List.any_eq_true, List.mem_range, List.isPrefixOf_iff_prefix]
  constructor
  · rintro ⟨i, _, t, ht⟩
    exact ⟨s.take i, t, by rw [List.append_assoc, ht, List.take_append_drop]⟩
  · rintro ⟨x, y, h⟩
    refine ⟨x.length, ?_, y, ?_⟩
    · rw [← h]; simp only [List.length_append]; omega
    · rw [← h, List.append_assoc, List.drop_left]

/-! ### the inserted text -/

theorem extras_bdry (body : Str) (m : Meta) : Bdry (extras body m) := by
  unfold extras
  cases missingWords body m with
  | nil => left; rfl
  | cons w ws => right; simp [isWs]

theorem splitWs_extras_aux (ws : List Str) (h : ∀ w ∈ ws, NoWs w ∧ w ≠ []) :
    splitWs ((ws.map (fun w => ' ' :: w)).flatten) = ws := by
  induction ws with
  | nil => simp [splitWs_nil]
  | cons w ws ih =>
    have hb : Bdry ((ws.map (fun w => ' ' :: w)).flatten) := by
      cases ws with
      | nil => left; rfl
      | cons w' ws' => right; simp [isWs]
    simp only [List.map_cons, List.flatten_cons, List.cons_append]
    rw [splitWs_cons_ws _ _ (by decide), splitWs_append_bdry _ _ hb,
      splitWs_noWs w (h w (List.mem_cons_self ..)).1 (h w (List.mem_cons_self ..)).2,
      ih (fun x hx => h x (List.mem_cons_of_mem _ hx))]
    rfl

theorem splitWs_extras (body : Str) (m : Meta) (hm : ∀ w ∈ missingWords body m, NoWs w ∧ w ≠ []) :
    splitWs (extras body m) = missingWords body m :=
  splitWs_extras_aux _ hm

/-! ### the replacement, seen through `splitWs` -/

theorem ZidEndsWords.suffix {zid u t : Str} (h : ZidEndsWords zid (u ++ t)) : ZidEndsWords zid t := by
  intro pre post e
  exact h (u ++ pre) post (by rw [e]; simp)

theorem ZidEndsWords.tail {zid : Str} {c : Char} {t : Str} (h : ZidEndsWords zid (c :: t)) :
    ZidEndsWords zid t :=
  ZidEndsWords.suffix (u := [c]) h

theorem go_bdry (zid new : Str) (hz : zid ≠ []) (hzw : NoWs zid) (post : Str) (hb : Bdry post) :
    Bdry (Rename.go zid new 0 post) := by
  cases post with
  | nil => left; exact Rename.go_nil _ _ _
  | cons c p =>
    rcases hb with hb | hb
    · exact absurd hb (by simp)
    · simp only [List.headD_cons] at hb
      cases zid with
      | nil => exact absurd rfl hz
      | cons o os =>
        have hne : c ≠ o := by
          intro e; subst e
          rw [hzw c (List.mem_cons_self ..)] at hb
          exact absurd hb (by decide)
        right
        rw [Rename.go_cons_ne _ _ _ _ _ hne]
        simpa using hb

theorem go_zid_append (zid new post : Str) (hz : zid ≠ []) :
    Rename.go zid new 0 (zid ++ post) = new ++ Rename.go zid new 0 post := by
  cases zid with
  | nil => exact absurd rfl hz
  | cons o os => exact Rename.go_match o os new post

/-- the words around a replaced occurrence -/
theorem go_replaced (zid E post acc : Str) (hz : zid ≠ []) (hzw : NoWs zid) (hE : Bdry E)
    (hb : Bdry post) :
    splitWs.go acc (Rename.go zid (zid ++ E) 0 (zid ++ post)) =
      splitWs.go acc zid ++ splitWs E ++ splitWs (Rename.go zid (zid ++ E) 0 post) := by
  rw [go_zid_append _ _ _ hz, go_append_bdry _ _ _ (go_bdry zid _ hz hzw post hb),
    go_append_bdry _ _ _ hE]

theorem kept_aux (zid E : Str) (hz : zid ≠ []) (hzw : NoWs zid) (hE : Bdry E) :
    ∀ (n : Nat) (s : Str), s.length ≤ n → ZidEndsWords zid s →
      ∀ acc w, w ∈ splitWs.go acc s → w ∈ splitWs.go acc (Rename.go zid (zid ++ E) 0 s) := by
  intro n
  induction n with
  | zero =>
    intro s hs _ acc w hw
    have : s = [] := List.eq_nil_of_length_eq_zero (Nat.le_zero.mp hs)
    subst this
    rw [Rename.go_nil]; exact hw
  | succ n ih =>
    intro s hs he acc w hw
    cases s with
    | nil => rw [Rename.go_nil]; exact hw
    | cons c cs =>
      by_cases hp : zid <+: c :: cs
      · obtain ⟨post, hpost⟩ := hp
        rw [← hpost] at hw he hs ⊢
        have hb : Bdry post := he [] post rfl
        have hlen : post.length ≤ n := by
          have : 0 < zid.length := List.length_pos_iff.mpr hz
          simp only [List.length_append] at hs; omega
        rw [go_replaced zid E post acc hz hzw hE hb]
        rw [go_append_bdry _ _ _ hb] at hw
        rcases List.mem_append.mp hw with hw | hw
        · exact List.mem_append_left _ (List.mem_append_left _ hw)
        · exact List.mem_append_right _ (ih post hlen he.suffix [] w hw)
      · rw [Rename.go_cons_of_not_prefix _ _ _ _ hp]
        have hlen : cs.length ≤ n := by simp only [List.length_cons] at hs; omega
        cases hc : isWs c with
        | true =>
          rw [go_cons_ws _ _ _ hc] at hw ⊢
          rcases List.mem_append.mp hw with hw | hw
          · exact List.mem_append_left _ hw
          · exact List.mem_append_right _ (ih cs hlen he.tail [] w hw)
        | false =>
          rw [go_cons_nws _ _ _ hc] at hw ⊢
          exact ih cs hlen he.tail _ w hw

theorem added_aux (zid E : Str) (hz : zid ≠ []) (hzw : NoWs zid) (hE : Bdry E) :
    ∀ (s : Str), ZidEndsWords zid s → zid <:+: s →
      ∀ acc w, w ∈ splitWs E → w ∈ splitWs.go acc (Rename.go zid (zid ++ E) 0 s) := by
  intro s
  induction s with
  | nil =>
    intro _ ho
    exact absurd (List.infix_nil.mp ho) hz
  | cons c cs ih =>
    intro he ho acc w hw
    by_cases hp : zid <+: c :: cs
    · obtain ⟨post, hpost⟩ := hp
      rw [← hpost] at he ⊢
      have hb : Bdry post := he [] post rfl
      rw [go_replaced zid E post acc hz hzw hE hb]
      exact List.mem_append_left _ (List.mem_append_right _ hw)
    · rw [Rename.go_cons_of_not_prefix _ _ _ _ hp]
      have ho' : zid <:+: cs := by
        rcases List.infix_cons_iff.mp ho with h | h
        · exact absurd h hp
        · exact h
      cases hc : isWs c with
      | true =>
        rw [go_cons_ws _ _ _ hc]
        exact List.mem_append_right _ (ih he.tail ho' [] w hw)
      | false =>
        rw [go_cons_nws _ _ _ hc]
        exact ih he.tail ho' _ w hw

/-! ### 1. completeness of `missingWords` -/

theorem missingWords_complete_tag (body : Str) (m : Meta) :
    (∀ t ∈ m.projects, bodyHasTag body ('+' :: t) = true ∨ ('+' :: t) ∈ missingWords body m) ∧
    (∀ t ∈ m.areas,    bodyHasTag body ('#' :: t) = true ∨ ('#' :: t) ∈ missingWords body m) ∧
    (∀ t ∈ m.contexts, bodyHasTag body ('@' :: t) = true ∨ ('@' :: t) ∈ missingWords body m) ∧
    (∀ t ∈ m.people,   bodyHasTag body ('%' :: t) = true ∨ ('%' :: t) ∈ missingWords body m) := by
  refine ⟨?_, ?_, ?_, ?_⟩ <;> intro t ht
  · cases h : bodyHasTag body ('+' :: t) with
    | true => left; rfl
    | false =>
      right
      simp only [missingWords, List.mem_append, List.mem_map, List.mem_filter]
      exact Or.inl (Or.inl (Or.inl (Or.inl ⟨t, ⟨ht, by simp [h]⟩, rfl⟩)))
  · cases h : bodyHasTag body ('#' :: t) with
    | true => left; rfl
    | false =>
      right
      simp only [missingWords, List.mem_append, List.mem_map, List.mem_filter]
      exact Or.inl (Or.inl (Or.inl (Or.inr ⟨t, ⟨ht, by simp [h]⟩, rfl⟩)))
  · cases h : bodyHasTag body ('@' :: t) with
    | true => left; rfl
    | false =>
      right
      simp only [missingWords, List.mem_append, List.mem_map, List.mem_filter]
      exact Or.inl (Or.inl (Or.inr ⟨t, ⟨ht, by simp [h]⟩, rfl⟩))
  · cases h : bodyHasTag body ('%' :: t) with
    | true => left; rfl
    | false =>
      right
      simp only [missingWords, List.mem_append, List.mem_map, List.mem_filter]
      exact Or.inl (Or.inr ⟨t, ⟨ht, by simp [h]⟩, rfl⟩)

theorem missingWords_complete_prop (body : Str) (m : Meta) :
    ∀ kv ∈ m.props, occurs (kv.1 ++ "::".toList) body = true ∨
      (kv.1 ++ "::".toList ++ kv.2) ∈ missingWords body m := by
  intro kv hkv
  cases h : occurs (kv.1 ++ "::".toList) body with
  | true => left; rfl
  | false =>
    right
    simp only [missingWords, List.mem_append, List.mem_map, List.mem_filter]
    exact Or.inr ⟨kv, ⟨hkv, by rw [h]; rfl⟩, rfl⟩

/-! ### 2. no word is broken -/

theorem words_kept (body zid : Str) (m : Meta) (hz : zid ≠ []) (hzw : NoWs zid)
    (he : ZidEndsWords zid body) :
    ∀ w ∈ splitWs body, w ∈ splitWs (addHiddenMetadata body zid m) := by
  intro w hw
  unfold addHiddenMetadata
  split
  · exact hw
  · exact kept_aux zid (extras body m) hz hzw (extras_bdry body m) body.length body (Nat.le_refl _) he
      [] w hw

/-! ### 3. the missing words are words of the new body -/

theorem missingWords_eq_nil_of_extras (body : Str) (m : Meta) (h : (extras body m).isEmpty = true) :
    missingWords body m = [] := by
  unfold extras at h
  cases hm : missingWords body m with
  | nil => rfl
  | cons w ws => rw [hm] at h; simp at h

theorem missing_words_added (body zid : Str) (m : Meta) (hz : zid ≠ []) (hzw : NoWs zid)
    (he : ZidEndsWords zid body) (ho : occurs zid body = true)
    (hm : ∀ w ∈ missingWords body m, NoWs w ∧ w ≠ []) :
    ∀ w ∈ missingWords body m, w ∈ splitWs (addHiddenMetadata body zid m) := by
  intro w hw
  unfold addHiddenMetadata
  split
  · rename_i h
    rw [missingWords_eq_nil_of_extras body m h] at hw
    exact absurd hw (by simp)
  · rw [← splitWs_extras body m hm] at hw
    exact added_aux zid (extras body m) hz hzw (extras_bdry body m) body he
      ((occurs_iff_infix _ _).mp ho) [] w hw

/-! ### 4. tags are explicit after the move -/

theorem bodyHasTag_of_mem (body tag w : Str) (hw : w ∈ splitWs body) (hs : stripTagWord w = tag) :
    bodyHasTag body tag = true := by
  simp only [bodyHasTag, List.any_eq_true]
  exact ⟨w, hw, by simp [hs]⟩

theorem tag_explicit_aux (body zid : Str) (m : Meta) (hz : zid ≠ []) (hzw : NoWs zid)
    (he : ZidEndsWords zid body) (ho : occurs zid body = true)
    (hm : ∀ w ∈ missingWords body m, NoWs w ∧ w ≠ [])
    (hs : ∀ w ∈ missingWords body m, stripTagWord w = w) (tag : Str)
    (h : bodyHasTag body tag = true ∨ tag ∈ missingWords body m) :
    bodyHasTag (addHiddenMetadata body zid m) tag = true := by
  rcases h with h | h
  · simp only [bodyHasTag, List.any_eq_true] at h
    obtain ⟨w, hw, hwt⟩ := h
    exact bodyHasTag_of_mem _ _ w (words_kept body zid m hz hzw he w hw) (by simpa using hwt)
  · exact bodyHasTag_of_mem _ _ tag (missing_words_added body zid m hz hzw he ho hm tag h) (hs tag h)

theorem tags_explicit (body zid : Str) (m : Meta) (hz : zid ≠ []) (hzw : NoWs zid)
    (he : ZidEndsWords zid body) (ho : occurs zid body = true)
    (hm : ∀ w ∈ missingWords body m, NoWs w ∧ w ≠ [])
    (hs : ∀ w ∈ missingWords body m, stripTagWord w = w) :
    (∀ t ∈ m.projects, bodyHasTag (addHiddenMetadata body zid m) ('+' :: t) = true) ∧
    (∀ t ∈ m.areas,    bodyHasTag (addHiddenMetadata body zid m) ('#' :: t) = true) ∧
    (∀ t ∈ m.contexts, bodyHasTag (addHiddenMetadata body zid m) ('@' :: t) = true) ∧
    (∀ t ∈ m.people,   bodyHasTag (addHiddenMetadata body zid m) ('%' :: t) = true) := by
  obtain ⟨h1, h2, h3, h4⟩ := missingWords_complete_tag body m
  exact ⟨fun t ht => tag_explicit_aux body zid m hz hzw he ho hm hs _ (h1 t ht),
    fun t ht => tag_explicit_aux body zid m hz hzw he ho hm hs _ (h2 t ht),
    fun t ht => tag_explicit_aux body zid m hz hzw he ho hm hs _ (h3 t ht),
    fun t ht => tag_explicit_aux body zid m hz hzw he ho hm hs _ (h4 t ht)⟩

/-! ### 5. properties are explicit after the move

`props_explicit` as first stated (no condition on the keys) is FALSE: a key containing whitespace can
straddle an insertion point.  Counterexample: body `z x::`, ZID `z`, project `p` missing, property key
`z x` (present in the old body as `z x::`).  The new body is `z +p x::`, in which `z x::` no longer occurs. -/

/-- decidable form of `ZidEndsWords` -/
def zidEndsWordsB (zid body : Str) : Bool :=
  (List.range (body.length + 1)).all fun i =>
    !zid.isPrefixOf (body.drop i) ||
      ((body.drop (i + zid.length)).isEmpty || isWs ((body.drop (i + zid.length)).headD ' '))

theorem zidEndsWords_of_check (zid body : Str) (h : zidEndsWordsB zid body = true) :
    ZidEndsWords zid body := by
  intro pre post e
  have hi : pre.length ∈ List.range (body.length + 1) := by
    rw [List.mem_range, e]; simp only [List.length_append]; omega
  have := List.all_eq_true.mp h _ hi
  have d1 : body.drop pre.length = zid ++ post := by
    rw [e, List.append_assoc, List.drop_left]
  have d2 : body.drop (pre.length + zid.length) = post := by
    rw [← List.drop_drop, d1, List.drop_left]
  rw [d1, d2] at this
  have hp : zid.isPrefixOf (zid ++ post) = true := List.isPrefixOf_iff_prefix.mpr ⟨post, rfl⟩
  rw [hp] at this
  simp only [Bool.not_true, Bool.false_or, Bool.or_eq_true, List.isEmpty_iff] at this
  exact this

namespace Counterexample
def body : Str := "z x::".toList
def zid : Str := "z".toList
def m : Meta := { projects := ["p".toList], areas := [], contexts := [], people := [],
                  props := [("z x".toList, "v".toList)] }

/-- all hypotheses of the original statement hold … -/
def hypothesesHold : Bool :=
  -- zid ≠ [], NoWs zid
  (!zid.isEmpty) && zid.all (fun c => !isWs c) &&
  -- ZidEndsWords: every split body = pre ++ zid ++ post has post = [] or post starting with whitespace
  (List.range (body.length + 1)).all (fun i =>
    !(zid.isPrefixOf (body.drop i)) ||
      (let post := body.drop (i + zid.length); post.isEmpty || isWs (post.headD ' '))) &&
  -- occurs zid body
  occurs zid body &&
  -- every missing word is whitespace-free and non-empty
  (missingWords body m).all (fun w => w.all (fun c => !isWs c) && !w.isEmpty)

/-- … and the conclusion fails for the only property -/
def conclusionHolds : Bool :=
  m.props.all (fun kv => occurs (kv.1 ++ "::".toList) (addHiddenMetadata body zid m))

#eval hypothesesHold                                   -- true
#eval conclusionHolds                                  -- false
#eval String.ofList (addHiddenMetadata body zid m)     -- "z +p x::"
#eval (missingWords body m).map String.ofList          -- ["+p"]

/-- the statement of `props_explicit` without a condition on the keys is refuted (kernel-checked `decide`) -/
theorem props_explicit_false :
    ¬ ∀ (body zid : Str) (m : Meta), zid ≠ [] → NoWs zid → ZidEndsWords zid body →
        occurs zid body = true → (∀ w ∈ missingWords body m, NoWs w ∧ w ≠ []) →
        ∀ kv ∈ m.props, occurs (kv.1 ++ "::".toList) (addHiddenMetadata body zid m) = true := by
  intro H
  have h := H body zid m (by decide) (by unfold NoWs; decide)
    (zidEndsWords_of_check _ _ (by decide)) (by decide) (by unfold NoWs; decide)
    ("z x".toList, "v".toList) (by decide)
  revert h
  decide
end Counterexample

/-- **5, general form** (the hint's hypothesis): if every key that already occurs in the old body
occurs inside one of its words, all keys occur in the new body. -/
theorem props_explicit_partial (body zid : Str) (m : Meta) (hz : zid ≠ []) (hzw : NoWs zid)
    (he : ZidEndsWords zid body) (ho : occurs zid body = true)
    (hm : ∀ w ∈ missingWords body m, NoWs w ∧ w ≠ [])
    (hk : ∀ kv ∈ m.props, occurs (kv.1 ++ "::".toList) body = true →
      ∃ w ∈ splitWs body, occurs (kv.1 ++ "::".toList) w = true) :
    ∀ kv ∈ m.props, occurs (kv.1 ++ "::".toList) (addHiddenMetadata body zid m) = true := by
  intro kv hkv
  rw [occurs_iff_infix]
  rcases missingWords_complete_prop body m kv hkv with h | h
  · obtain ⟨w, hw, hkw⟩ := hk kv hkv h
    exact ((occurs_iff_infix _ _).mp hkw).trans
      (infix_of_mem_splitWs _ _ (words_kept body zid m hz hzw he w hw))
  · have := infix_of_mem_splitWs _ _ (missing_words_added body zid m hz hzw he ho hm _ h)
    exact (List.prefix_append _ _).isInfix.trans this

/-- **5, with whitespace-free keys**: the original statement plus `∀ kv ∈ m.props, NoWs kv.1`. -/
theorem props_explicit_noWs_partial (body zid : Str) (m : Meta) (hz : zid ≠ []) (hzw : NoWs zid)
    (he : ZidEndsWords zid body) (ho : occurs zid body = true)
    (hm : ∀ w ∈ missingWords body m, NoWs w ∧ w ≠ [])
    (hk : ∀ kv ∈ m.props, NoWs kv.1) :
    ∀ kv ∈ m.props, occurs (kv.1 ++ "::".toList) (addHiddenMetadata body zid m) = true := by
  apply props_explicit_partial body zid m hz hzw he ho hm
  intro kv hkv h
  have hnw : NoWs (kv.1 ++ "::".toList) := by
    intro c hc
    rcases List.mem_append.mp hc with hc | hc
    · exact hk kv hkv c hc
    · have : c = ':' := by simpa using hc
      subst this; decide
  have hne : kv.1 ++ "::".toList ≠ [] := by simp
  obtain ⟨w, hw, hpw⟩ := mem_splitWs_of_infix _ hnw hne body ((occurs_iff_infix _ _).mp h)
  exact ⟨w, hw, (occurs_iff_infix _ _).mpr hpw⟩

/-! ### 6. the insertion is a `str.replace` of the ZID by ZID + extras -/

theorem hidden_only_inserts (body zid : Str) (m : Meta) (_hz : zid ≠ []) :
    addHiddenMetadata body zid m = body ∨
    (extras body m ≠ [] ∧
      addHiddenMetadata body zid m = Rename.replaceAll zid (zid ++ extras body m) body) := by
  unfold addHiddenMetadata
  cases h : (extras body m).isEmpty with
  | true => left; simp
  | false =>
    right
    refine ⟨?_, by simp⟩
    intro e; rw [e] at h; simp at h

end ZorgVerif.Move

