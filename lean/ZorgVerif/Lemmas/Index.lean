import ZorgVerif.Model.Index
/-! Lemmas about the abstract index store (`ZorgVerif.Model.Index`): finite-map lemmas, the invariant
`Inv`, what `reindexPlain` / `create` achieve, equivalence of incremental reindexing and rebuilding,
quiescence. -/
namespace ZorgVerif.Index
open ZorgVerif

variable {Page : Type}

/-! ## Definitions -/

/-- re-processing a written-back text (against no previous state) reproduces it: what is indexed depends
only on the text that ends up in the file -/
def Stable (sem : Sem Page) : Prop := ∀ old t, sem.process none (sem.process old t).1 = sem.process old t

/-- the page a text is indexed as when indexed from scratch -/
def pageOf (sem : Sem Page) (t : Text) : Page := (sem.process none t).2

/-- a text that write-back leaves alone -/
def Settled (sem : Sem Page) (t : Text) : Prop := (sem.process none t).1 = t

/-- invariant: every path whose recorded hash is t is indexed as pageOf t, and t is settled -/
def Inv (sem : Sem Page) (s : Store Page) : Prop :=
  ∀ p t, get s.hashes p = some t → Settled sem t ∧ get s.db p = some (pageOf sem t)

/-- keys of an association list are pairwise distinct -/
def Uniq {β : Type} (m : List (Path × β)) : Prop := (m.map (·.1)).Nodup

/-! ## (1) map lemmas -/

section Maps
variable {β : Type}

@[simp] theorem get_nil (p : Path) : get ([] : List (Path × β)) p = none := rfl

theorem get_cons (k : Path) (v : β) (m : List (Path × β)) (p : Path) :
    get ((k, v) :: m) p = if k = p then some v else get m p := by
  unfold get
  by_cases h : k = p
  · simp [h]
  · simp [h]

/-- `get` through a filter on keys -/
theorem get_filter_key (f : Path → Bool) (m : List (Path × β)) (q : Path) :
    get (m.filter (fun kv => f kv.1)) q = if f q then get m q else none := by
  induction m with
  | nil => simp
  | cons kv m ih =>
    obtain ⟨k, v⟩ := kv
    by_cases hk : f k = true
    · rw [List.filter_cons_of_pos (by simpa using hk), get_cons, get_cons, ih]
      by_cases hkq : k = q
      · subst hkq; simp [hk]
      · simp [hkq]
    · rw [List.filter_cons_of_neg (by simpa using hk), get_cons, ih]
      by_cases hkq : k = q
      · subst hkq; simp [hk]
      · simp [hkq]

theorem get_del (m : List (Path × β)) (p q : Path) :
    get (del m p) q = if q = p then none else get m q := by
  unfold del
  rw [get_filter_key (fun k => k != p) m q]
  by_cases h : q = p
  · simp [h]
  · simp [h]

theorem get_put (m : List (Path × β)) (p : Path) (v : β) (q : Path) :
    get (put m p v) q = if q = p then some v else get m q := by
  unfold put
  rw [get_cons, get_filter_key (fun k => k != p) m q]
  by_cases h : q = p
  · subst h; simp
  · have h' : ¬ p = q := fun e => h e.symm
    simp [h, h']

theorem get_put_self (m : List (Path × β)) (p : Path) (v : β) : get (put m p v) p = some v := by
  simp [get_put]

theorem get_put_ne (m : List (Path × β)) (p : Path) (v : β) {q : Path} (h : q ≠ p) :
    get (put m p v) q = get m q := by
  simp [get_put, h]

theorem get_eq_none_iff (m : List (Path × β)) (p : Path) :
    get m p = none ↔ p ∉ m.map (·.1) := by
  induction m with
  | nil => simp
  | cons kv m ih =>
    obtain ⟨k, v⟩ := kv
    rw [get_cons]
    by_cases h : k = p
    · subst h; simp
    · have h' : ¬ p = k := fun e => h e.symm
      simp only [h, if_false, ih, List.map_cons, List.mem_cons, h', false_or]

theorem Uniq.nil : Uniq ([] : List (Path × β)) := by simp [Uniq]

theorem Uniq.filter {m : List (Path × β)} (h : Uniq m) (g : Path × β → Bool) : Uniq (m.filter g) := by
  unfold Uniq at *
  exact List.Pairwise.sublist (List.Sublist.map _ List.filter_sublist) h

theorem Uniq.filter_key {m : List (Path × β)} (h : Uniq m) (f : Path → Bool) :
    Uniq (m.filter (fun kv => f kv.1)) := h.filter _

theorem Uniq.del {m : List (Path × β)} (h : Uniq m) (p : Path) : Uniq (del m p) := h.filter _

theorem Uniq.put {m : List (Path × β)} (h : Uniq m) (p : Path) (v : β) : Uniq (put m p v) := by
  have h2 : Uniq (m.filter (fun kv => kv.1 != p)) := h.filter _
  unfold Uniq at *
  unfold Index.put
  rw [List.map_cons, List.nodup_cons]
  refine ⟨?_, h2⟩
  intro hm
  rw [List.mem_map] at hm
  obtain ⟨kv, hkv, hk⟩ := hm
  rw [List.mem_filter] at hkv
  have := hkv.2
  simp [hk] at this

theorem Uniq.tail {kv : Path × β} {m : List (Path × β)} (h : Uniq (kv :: m)) : Uniq m := by
  unfold Uniq at *
  rw [List.map_cons, List.nodup_cons] at h
  exact h.2

theorem Uniq.head_get {k : Path} {v : β} {m : List (Path × β)} (h : Uniq ((k, v) :: m)) :
    get m k = none := by
  unfold Uniq at h
  rw [List.map_cons, List.nodup_cons] at h
  exact (get_eq_none_iff m k).2 h.1

/-- with distinct keys, membership determines `get` -/
theorem get_of_mem {m : List (Path × β)} (h : Uniq m) {p : Path} {v : β} (hm : (p, v) ∈ m) :
    get m p = some v := by
  induction m with
  | nil => simp at hm
  | cons kv m ih =>
    obtain ⟨k, w⟩ := kv
    rw [get_cons]
    rcases List.mem_cons.1 hm with e | hm'
    · cases e; simp
    · have hk : get m k = none := h.head_get
      have hp : get m p = some v := ih h.tail hm'
      have : ¬ k = p := by
        intro e; subst e; rw [hk] at hp; cases hp
      simp [this, hp]

end Maps

/-! ## (2) `Inv` is preserved by every operation -/

theorem indexOne_files (sem : Sem Page) (s : Store Page) (p : Path) (t : Text) :
    (indexOne sem s p t).files = put s.files p (sem.process (get s.db p) t).1 := rfl
theorem indexOne_db (sem : Sem Page) (s : Store Page) (p : Path) (t : Text) :
    (indexOne sem s p t).db = put s.db p (sem.process (get s.db p) t).2 := rfl
theorem indexOne_hashes (sem : Sem Page) (s : Store Page) (p : Path) (t : Text) :
    (indexOne sem s p t).hashes = put s.hashes p (sem.process (get s.db p) t).1 := rfl

theorem Stable.settled {sem : Sem Page} (hs : Stable sem) (old : Option Page) (t : Text) :
    Settled sem (sem.process old t).1 := by
  unfold Settled; rw [hs old t]

theorem Stable.pageOf {sem : Sem Page} (hs : Stable sem) (old : Option Page) (t : Text) :
    pageOf sem (sem.process old t).1 = (sem.process old t).2 := by
  unfold Index.pageOf; rw [hs old t]

theorem Settled.process {sem : Sem Page} {t : Text} (h : Settled sem t) :
    sem.process none t = (t, pageOf sem t) := by
  unfold Settled at h; unfold pageOf
  exact Prod.ext h rfl

theorem Inv.indexOne {sem : Sem Page} (hs : Stable sem) {s : Store Page} (h : Inv sem s)
    (p : Path) (t : Text) : Inv sem (indexOne sem s p t) := by
  intro q u hq
  rw [indexOne_hashes, get_put] at hq
  rw [indexOne_db, get_put]
  by_cases e : q = p
  · simp only [e, if_true] at hq ⊢
    cases hq
    exact ⟨hs.settled _ _, by rw [hs.pageOf]⟩
  · simp only [e, if_false] at hq ⊢
    exact h q u hq

theorem Inv.reindexLoop {sem : Sem Page} (hs : Stable sem) (todo : List (Path × Text)) :
    ∀ {s : Store Page}, Inv sem s → Inv sem (reindexLoop sem todo s) := by
  induction todo with
  | nil => intro s h; exact h
  | cons kv rest ih =>
    obtain ⟨p, t⟩ := kv
    intro s h
    unfold Index.reindexLoop
    split
    · exact ih h
    · exact ih (h.indexOne hs p t)

/-- filtering `hashes` by a key predicate (and `db` by one that keeps at least those keys) keeps `Inv` -/
theorem Inv.filter {sem : Sem Page} {s : Store Page} (h : Inv sem s) (f g : Path → Bool)
    (hfg : ∀ p, f p = true → g p = true) (fs : List (Path × Text)) :
    Inv sem { files := fs, db := s.db.filter (fun kv => g kv.1),
              hashes := s.hashes.filter (fun kv => f kv.1) } := by
  intro q u hq
  simp only [get_filter_key f] at hq
  simp only [get_filter_key g]
  by_cases hf : f q = true
  · simp only [hf, if_true] at hq
    simp only [hfg q hf, if_true]
    exact h q u hq
  · simp [hf] at hq

theorem Inv.filter_hashes {sem : Sem Page} {s : Store Page} (h : Inv sem s) (f : Path → Bool) :
    Inv sem { s with hashes := s.hashes.filter (fun kv => f kv.1) } := by
  intro q u hq
  simp only [get_filter_key f] at hq
  by_cases hf : f q = true
  · simp only [hf, if_true] at hq
    exact h q u hq
  · simp [hf] at hq

theorem Inv.reindexPlain {sem : Sem Page} (hs : Stable sem) {s : Store Page} (h : Inv sem s) :
    Inv sem (reindexPlain sem s) := by
  unfold Index.reindexPlain
  exact Inv.reindexLoop hs _
    (h.filter (fun k => (get s.files k).isSome) (fun k => (get s.files k).isSome) (fun _ h => h) s.files)

theorem Inv.reindexPaths {sem : Sem Page} (hs : Stable sem) {s : Store Page} (h : Inv sem s)
    (ps : List Path) : Inv sem (reindexPaths sem ps s) := by
  unfold Index.reindexPaths
  exact Inv.reindexLoop hs _ (h.filter_hashes (fun k => ps.contains k))

/-- (2) every operation preserves the invariant -/
theorem Inv.step {sem : Sem Page} (hs : Stable sem) {s : Store Page} (h : Inv sem s) (op : Op) :
    Inv sem (step sem s op) := by
  cases op with
  | write p t => exact h
  | remove p => exact h
  | reindex => exact h.reindexPlain hs
  | reindexOnly ps => exact h.reindexPaths hs ps

theorem Inv.run {sem : Sem Page} (hs : Stable sem) (ops : List Op) :
    ∀ {s : Store Page}, Inv sem s → Inv sem (run sem s ops) := by
  induction ops with
  | nil => intro s h; exact h
  | cons op ops ih => intro s h; exact ih (h.step hs op)

/-! ## (3) what a plain reindex achieves -/

/-- two stores agree at path `p` -/
def AgreeAt (p : Path) (a b : Store Page) : Prop :=
  get a.files p = get b.files p ∧ get a.db p = get b.db p ∧ get a.hashes p = get b.hashes p

theorem AgreeAt.refl (p : Path) (a : Store Page) : AgreeAt p a a := ⟨rfl, rfl, rfl⟩
theorem AgreeAt.trans {p : Path} {a b c : Store Page} (h1 : AgreeAt p a b) (h2 : AgreeAt p b c) :
    AgreeAt p a c := ⟨h1.1.trans h2.1, h1.2.1.trans h2.2.1, h1.2.2.trans h2.2.2⟩

/-- one iteration of `reindexLoop` -/
def loopStep (sem : Sem Page) (s : Store Page) (p : Path) (t : Text) : Store Page :=
  if get s.hashes p == some t then s else indexOne sem s p t

theorem reindexLoop_cons (sem : Sem Page) (p : Path) (t : Text) (rest : List (Path × Text))
    (s : Store Page) :
    reindexLoop sem ((p, t) :: rest) s = reindexLoop sem rest (loopStep sem s p t) := by
  rw [Index.reindexLoop]
  unfold loopStep
  split <;> rfl

theorem loopStep_pos {sem : Sem Page} {s : Store Page} {p : Path} {t : Text}
    (h : get s.hashes p = some t) : loopStep sem s p t = s := by
  unfold loopStep; simp [h]

theorem loopStep_neg {sem : Sem Page} {s : Store Page} {p : Path} {t : Text}
    (h : get s.hashes p ≠ some t) : loopStep sem s p t = indexOne sem s p t := by
  unfold loopStep; simp [h]

/-- `indexOne` on `p` only changes bindings of `p` -/
theorem indexOne_agree_ne (sem : Sem Page) (s : Store Page) (p : Path) (t : Text) {q : Path}
    (h : q ≠ p) : AgreeAt q (indexOne sem s p t) s := by
  refine ⟨?_, ?_, ?_⟩
  · rw [indexOne_files, get_put_ne _ _ _ h]
  · rw [indexOne_db, get_put_ne _ _ _ h]
  · rw [indexOne_hashes, get_put_ne _ _ _ h]

theorem indexOne_congr (sem : Sem Page) {a b : Store Page} {p : Path} (t : Text)
    (h : get a.db p = get b.db p) : AgreeAt p (indexOne sem a p t) (indexOne sem b p t) := by
  refine ⟨?_, ?_, ?_⟩
  · rw [indexOne_files, indexOne_files, get_put_self, get_put_self, h]
  · rw [indexOne_db, indexOne_db, get_put_self, get_put_self, h]
  · rw [indexOne_hashes, indexOne_hashes, get_put_self, get_put_self, h]

theorem loopStep_agree_ne (sem : Sem Page) (s : Store Page) (p : Path) (t : Text) {q : Path}
    (h : q ≠ p) : AgreeAt q (loopStep sem s p t) s := by
  by_cases hh : get s.hashes p = some t
  · rw [loopStep_pos hh]; exact AgreeAt.refl _ _
  · rw [loopStep_neg hh]; exact indexOne_agree_ne sem s p t h

theorem loopStep_congr (sem : Sem Page) {a b : Store Page} {p : Path} (t : Text)
    (h : AgreeAt p a b) : AgreeAt p (loopStep sem a p t) (loopStep sem b p t) := by
  by_cases hh : get a.hashes p = some t
  · have hb : get b.hashes p = some t := by rw [← h.2.2]; exact hh
    rw [loopStep_pos hh, loopStep_pos hb]; exact h
  · have hb : get b.hashes p ≠ some t := by rw [← h.2.2]; exact hh
    rw [loopStep_neg hh, loopStep_neg hb]; exact indexOne_congr sem t h.2.1

/-- **locality of the loop**: if the keys of `todo` are distinct, then after the loop the store agrees,
at a path not in `todo`, with the initial store, and, at a path `p` listed with text `t`, with the
store after the single iteration for `(p, t)` run on the initial store. -/
theorem reindexLoop_at (sem : Sem Page) (todo : List (Path × Text)) :
    Uniq todo → ∀ (st : Store Page) (q : Path),
      (get todo q = none → AgreeAt q (reindexLoop sem todo st) st) ∧
      (∀ t, get todo q = some t → AgreeAt q (reindexLoop sem todo st) (loopStep sem st q t)) := by
  induction todo with
  | nil =>
    intro _ st q
    refine ⟨fun _ => AgreeAt.refl _ _, ?_⟩
    intro t h; simp at h
  | cons kv rest ih =>
    obtain ⟨p0, t0⟩ := kv
    intro hu st q
    have hrest : get rest p0 = none := hu.head_get
    have IH := ih hu.tail (loopStep sem st p0 t0) q
    rw [reindexLoop_cons, get_cons]
    by_cases e : p0 = q
    · subst e
      simp only [if_true]
      refine ⟨fun h => (by cases h), ?_⟩
      intro t ht
      cases ht
      exact IH.1 hrest
    · have e' : q ≠ p0 := fun h => e h.symm
      simp only [e, if_false]
      have hag : AgreeAt q (loopStep sem st p0 t0) st := loopStep_agree_ne sem st p0 t0 e'
      refine ⟨fun h => (IH.1 h).trans hag, ?_⟩
      intro t ht
      exact (IH.2 t ht).trans (loopStep_congr sem t hag)

theorem Uniq.indexOne_files {sem : Sem Page} {s : Store Page} (h : Uniq s.files) (p : Path) (t : Text) :
    Uniq (indexOne sem s p t).files := h.put _ _

theorem Uniq.reindexLoop_files {sem : Sem Page} (todo : List (Path × Text)) :
    ∀ {s : Store Page}, Uniq s.files → Uniq (reindexLoop sem todo s).files := by
  induction todo with
  | nil => intro s h; exact h
  | cons kv rest ih =>
    obtain ⟨p, t⟩ := kv
    intro s h
    rw [reindexLoop_cons]
    apply ih
    by_cases hh : get s.hashes p = some t
    · rw [loopStep_pos hh]; exact h
    · rw [loopStep_neg hh]; exact h.indexOne_files p t

/-- what one iteration for `(p, t)` establishes at `p`, when `p ↦ t` is the file -/
theorem loopStep_spec {sem : Sem Page} (hs : Stable sem) {st : Store Page} (hinv : Inv sem st)
    {p : Path} {t : Text} (hf : get st.files p = some t) :
    ∃ t', get (loopStep sem st p t).files p = some t' ∧ get (loopStep sem st p t).hashes p = some t' ∧
      get (loopStep sem st p t).db p = some (pageOf sem t') ∧ Settled sem t' := by
  by_cases hh : get st.hashes p = some t
  · rw [loopStep_pos hh]
    exact ⟨t, hf, hh, (hinv p t hh).2, (hinv p t hh).1⟩
  · rw [loopStep_neg hh]
    refine ⟨(sem.process (get st.db p) t).1, ?_, ?_, ?_, hs.settled _ _⟩
    · rw [indexOne_files, get_put_self]
    · rw [indexOne_hashes, get_put_self]
    · rw [indexOne_db, get_put_self, hs.pageOf]

/-- **common lemma** for `reindexPlain` and `create`: running the loop over all the files of a store
that satisfies the invariant and whose `db` / `hashes` mention only existing files. -/
theorem reindexLoop_full {sem : Sem Page} (hs : Stable sem) {st : Store Page} (hinv : Inv sem st)
    (hu : Uniq st.files)
    (hsub : ∀ p, get st.files p = none → get st.db p = none ∧ get st.hashes p = none) :
    (∀ p, get (reindexLoop sem st.files st).db p
            = (get (reindexLoop sem st.files st).files p).map (pageOf sem)) ∧
    (∀ p t, get (reindexLoop sem st.files st).files p = some t → Settled sem t) ∧
    (∀ p, get (reindexLoop sem st.files st).hashes p = get (reindexLoop sem st.files st).files p) ∧
    Uniq (reindexLoop sem st.files st).files ∧
    (∀ p, (get (reindexLoop sem st.files st).files p).isSome = (get st.files p).isSome) := by
  have key : ∀ p, (get st.files p = none ∧ get (reindexLoop sem st.files st).files p = none ∧
        get (reindexLoop sem st.files st).db p = none ∧
        get (reindexLoop sem st.files st).hashes p = none) ∨
      (∃ t t', get st.files p = some t ∧ get (reindexLoop sem st.files st).files p = some t' ∧
        get (reindexLoop sem st.files st).hashes p = some t' ∧
        get (reindexLoop sem st.files st).db p = some (pageOf sem t') ∧ Settled sem t') := by
    intro p
    have L := reindexLoop_at sem st.files hu st p
    cases hf : get st.files p with
    | none =>
      left
      have ag := L.1 hf
      refine ⟨rfl, ?_, ?_, ?_⟩
      · rw [ag.1, hf]
      · rw [ag.2.1, (hsub p hf).1]
      · rw [ag.2.2, (hsub p hf).2]
    | some t =>
      right
      have ag := L.2 t hf
      obtain ⟨t', h1, h2, h3, h4⟩ := loopStep_spec hs hinv hf
      exact ⟨t, t', rfl, by rw [ag.1, h1], by rw [ag.2.2, h2], by rw [ag.2.1, h3], h4⟩
  refine ⟨?_, ?_, ?_, hu.reindexLoop_files _, ?_⟩
  · intro p
    rcases key p with ⟨_, h1, h2, _⟩ | ⟨t, t', _, h1, _, h3, _⟩
    · rw [h1, h2]; rfl
    · rw [h1, h3]; rfl
  · intro p u hp
    rcases key p with ⟨_, h1, _, _⟩ | ⟨t, t', _, h1, _, _, h4⟩
    · rw [h1] at hp; cases hp
    · rw [h1] at hp; cases hp; exact h4
  · intro p
    rcases key p with ⟨_, h1, _, h3⟩ | ⟨t, t', _, h1, h2, _, _⟩
    · rw [h1, h3]
    · rw [h1, h2]
  · intro p
    rcases key p with ⟨h0, h1, _, _⟩ | ⟨t, t', h0, h1, _, _, _⟩
    · rw [h0, h1]
    · rw [h0, h1]; rfl

/-- the store `reindexPlain` starts its loop from -/
def pruned (s : Store Page) : Store Page :=
  { s with db := s.db.filter (fun kv => (get s.files kv.1).isSome),
           hashes := s.hashes.filter (fun kv => (get s.files kv.1).isSome) }

theorem reindexPlain_eq (sem : Sem Page) (s : Store Page) :
    reindexPlain sem s = reindexLoop sem (pruned s).files (pruned s) := rfl

theorem Inv.pruned {sem : Sem Page} {s : Store Page} (h : Inv sem s) : Inv sem (pruned s) :=
  h.filter (fun k => (get s.files k).isSome) (fun k => (get s.files k).isSome) (fun _ h => h) s.files

theorem pruned_sub (s : Store Page) (p : Path) (h : get (pruned s).files p = none) :
    get (pruned s).db p = none ∧ get (pruned s).hashes p = none := by
  have h' : get s.files p = none := h
  constructor
  · show get (s.db.filter (fun kv => (get s.files kv.1).isSome)) p = none
    rw [get_filter_key (fun k => (get s.files k).isSome), h']; rfl
  · show get (s.hashes.filter (fun kv => (get s.files kv.1).isSome)) p = none
    rw [get_filter_key (fun k => (get s.files k).isSome), h']; rfl

/-- (3) what a plain reindex achieves -/
theorem reindexPlain_spec {sem : Sem Page} (hs : Stable sem) {s : Store Page} (hinv : Inv sem s)
    (hu : Uniq s.files) :
    (∀ p, get (reindexPlain sem s).db p = (get (reindexPlain sem s).files p).map (pageOf sem)) ∧
    (∀ p t, get (reindexPlain sem s).files p = some t → Settled sem t) ∧
    (∀ p, get (reindexPlain sem s).hashes p = get (reindexPlain sem s).files p) ∧
    Uniq (reindexPlain sem s).files ∧
    (∀ p, (get (reindexPlain sem s).files p).isSome = (get s.files p).isSome) := by
  rw [reindexPlain_eq]
  exact reindexLoop_full hs hinv.pruned hu (pruned_sub s)

/-! ## (4) `create` -/

theorem Inv.empty (sem : Sem Page) (fs : List (Path × Text)) :
    Inv sem ({ files := fs, db := [], hashes := [] } : Store Page) := by
  intro p t h; simp at h

/-- (4) `create` (which only looks at the files of its argument) -/
theorem create_spec {sem : Sem Page} (hs : Stable sem) (s : Store Page) (hu : Uniq s.files) :
    (∀ p, get (create sem s).db p = (get (create sem s).files p).map (pageOf sem)) ∧
    (∀ p t, get (create sem s).files p = some t → Settled sem t) ∧
    (∀ p, get (create sem s).hashes p = get (create sem s).files p) ∧
    Uniq (create sem s).files ∧
    (∀ p, (get (create sem s).files p).isSome = (get s.files p).isSome) :=
  reindexLoop_full (st := { files := s.files, db := [], hashes := [] }) hs (Inv.empty sem s.files) hu
    (fun _ _ => ⟨rfl, rfl⟩)

/-- (4) in the form for a store with empty index -/
theorem create_spec' {sem : Sem Page} (hs : Stable sem) (fs : List (Path × Text)) (hu : Uniq fs) :
    let s' := create sem ({ files := fs, db := [], hashes := [] } : Store Page)
    (∀ p, get s'.db p = (get s'.files p).map (pageOf sem)) ∧
    (∀ p t, get s'.files p = some t → Settled sem t) ∧
    (∀ p, get s'.hashes p = get s'.files p) ∧
    Uniq s'.files ∧
    (∀ p, (get s'.files p).isSome = (get fs p).isSome) :=
  create_spec hs _ hu

/-- `create` on settled files changes no file (as a map) -/
theorem create_files_of_settled {sem : Sem Page} (s : Store Page) (hu : Uniq s.files)
    (hset : ∀ p t, get s.files p = some t → Settled sem t) (p : Path) :
    get (create sem s).files p = get s.files p := by
  have L := reindexLoop_at sem s.files hu { files := s.files, db := [], hashes := [] } p
  show get (reindexLoop sem s.files { files := s.files, db := [], hashes := [] }).files p = _
  cases hf : get s.files p with
  | none => rw [(L.1 hf).1]; exact hf
  | some t =>
    rw [(L.2 t hf).1, loopStep_neg (by simp), indexOne_files, get_put_self]
    show some (sem.process (get [] p) t).1 = some t
    rw [get_nil, (hset p t hf).process]

/-! ## (5) incremental reindexing = rebuilding -/

theorem reindexPlain_files_uniq {sem : Sem Page} {s : Store Page} (h : Uniq s.files) :
    Uniq (reindexPlain sem s).files := by
  rw [reindexPlain_eq]; exact Uniq.reindexLoop_files _ h

theorem reindexPaths_files_uniq {sem : Sem Page} {s : Store Page} (h : Uniq s.files) (ps : List Path) :
    Uniq (reindexPaths sem ps s).files := by
  unfold reindexPaths; exact Uniq.reindexLoop_files _ h

theorem Uniq.step_files {sem : Sem Page} {s : Store Page} (h : Uniq s.files) (op : Op) :
    Uniq (step sem s op).files := by
  cases op with
  | write p t => exact h.put p t
  | remove p => exact h.del p
  | reindex => exact reindexPlain_files_uniq h
  | reindexOnly ps => exact reindexPaths_files_uniq h ps

theorem Uniq.run_files {sem : Sem Page} (ops : List Op) :
    ∀ {s : Store Page}, Uniq s.files → Uniq (run sem s ops).files := by
  induction ops with
  | nil => intro s h; exact h
  | cons op ops ih => intro s h; exact ih (h.step_files op)

theorem run_append_reindex (sem : Sem Page) (s : Store Page) (ops : List Op) :
    run sem s (ops ++ [Op.reindex]) = reindexPlain sem (run sem s ops) := by
  unfold run; rw [List.foldl_append]; rfl

/-- rebuilding from the files left by a plain reindex changes no file and yields the same index (and the
same hash map) -/
theorem rebuild_after_reindexPlain {sem : Sem Page} (hs : Stable sem) {s : Store Page}
    (hinv : Inv sem s) (hu : Uniq s.files) :
    (∀ p, get (reindexPlain sem s).db p
        = get (create sem ({ files := (reindexPlain sem s).files, db := [], hashes := [] } : Store Page)).db p) ∧
    (∀ p, get (create sem ({ files := (reindexPlain sem s).files, db := [], hashes := [] } : Store Page)).files p
        = get (reindexPlain sem s).files p) ∧
    (∀ p, get (create sem ({ files := (reindexPlain sem s).files, db := [], hashes := [] } : Store Page)).hashes p
        = get (reindexPlain sem s).hashes p) := by
  obtain ⟨ha, hb, hc, hd, _⟩ := reindexPlain_spec hs hinv hu
  obtain ⟨ca, _, cc, _, _⟩ := create_spec hs
    ({ files := (reindexPlain sem s).files, db := [], hashes := [] } : Store Page) hd
  have hfiles := create_files_of_settled (sem := sem)
    ({ files := (reindexPlain sem s).files, db := [], hashes := [] } : Store Page) hd hb
  refine ⟨?_, hfiles, ?_⟩
  · intro p; rw [ha p, ca p, hfiles p]
  · intro p; rw [cc p, hfiles p, hc p]

/-- (5) **equivalence of incremental reindexing and rebuilding** -/
theorem reindex_eq_rebuild {sem : Sem Page} (hs : Stable sem) {s0 : Store Page} (hinv : Inv sem s0)
    (hu : Uniq s0.files) (ops : List Op) :
    let s := run sem s0 (ops ++ [Op.reindex])
    let fresh := create sem ({ files := s.files, db := [], hashes := [] } : Store Page)
    (∀ p, get s.db p = get fresh.db p) ∧ (∀ p, get fresh.files p = get s.files p) := by
  intro s fresh
  have e : s = reindexPlain sem (run sem s0 ops) := run_append_reindex sem s0 ops
  have h := rebuild_after_reindexPlain hs (hinv.run hs ops) (Uniq.run_files (sem := sem) ops hu)
  show (∀ p, get s.db p = get (create sem ({ files := s.files, db := [], hashes := [] } : Store Page)).db p) ∧
    (∀ p, get (create sem ({ files := s.files, db := [], hashes := [] } : Store Page)).files p = get s.files p)
  rw [e]
  exact ⟨h.1, h.2.1⟩

/-- (5, addendum) the hash maps agree as well -/
theorem reindex_eq_rebuild_hashes {sem : Sem Page} (hs : Stable sem) {s0 : Store Page}
    (hinv : Inv sem s0) (hu : Uniq s0.files) (ops : List Op) :
    let s := run sem s0 (ops ++ [Op.reindex])
    let fresh := create sem ({ files := s.files, db := [], hashes := [] } : Store Page)
    ∀ p, get fresh.hashes p = get s.hashes p := by
  intro s fresh
  have e : s = reindexPlain sem (run sem s0 ops) := run_append_reindex sem s0 ops
  have h := rebuild_after_reindexPlain hs (hinv.run hs ops) (Uniq.run_files (sem := sem) ops hu)
  show ∀ p, get (create sem ({ files := s.files, db := [], hashes := [] } : Store Page)).hashes p
    = get s.hashes p
  rw [e]
  exact h.2.2

/-! ## (6) quiescence -/

/-- if every listed file has its text as recorded hash, the loop does nothing -/
theorem reindexLoop_noop (sem : Sem Page) (todo : List (Path × Text)) (st : Store Page)
    (h : ∀ p t, (p, t) ∈ todo → get st.hashes p = some t) : reindexLoop sem todo st = st := by
  induction todo with
  | nil => rfl
  | cons kv rest ih =>
    obtain ⟨p, t⟩ := kv
    rw [reindexLoop_cons, loopStep_pos (h p t (List.mem_cons_self))]
    exact ih (fun q u hq => h q u (List.mem_cons_of_mem _ hq))

/-- a store on which plain reindex has nothing to do is only pruned -/
theorem reindexPlain_of_synced (sem : Sem Page) {s : Store Page} (hu : Uniq s.files)
    (hc : ∀ p, get s.hashes p = get s.files p) : reindexPlain sem s = pruned s := by
  rw [reindexPlain_eq]
  apply reindexLoop_noop
  intro p t hm
  have hf : get s.files p = some t := get_of_mem hu hm
  show get (s.hashes.filter (fun kv => (get s.files kv.1).isSome)) p = some t
  rw [get_filter_key (fun k => (get s.files k).isSome), hf, hc p, hf]; rfl

/-- (6) quiescence: a second plain reindex changes nothing -/
theorem reindexPlain_idem {sem : Sem Page} (hs : Stable sem) {s : Store Page} (hinv : Inv sem s)
    (hu : Uniq s.files) :
    (reindexPlain sem (reindexPlain sem s)).files = (reindexPlain sem s).files ∧
    (∀ p, get (reindexPlain sem (reindexPlain sem s)).db p = get (reindexPlain sem s).db p) ∧
    (∀ p, get (reindexPlain sem (reindexPlain sem s)).hashes p = get (reindexPlain sem s).hashes p) := by
  obtain ⟨ha, _, hc, hd, _⟩ := reindexPlain_spec hs hinv hu
  rw [reindexPlain_of_synced sem hd hc]
  refine ⟨rfl, ?_, ?_⟩
  · intro p
    show get ((reindexPlain sem s).db.filter (fun kv => (get (reindexPlain sem s).files kv.1).isSome)) p = _
    rw [get_filter_key (fun k => (get (reindexPlain sem s).files k).isSome)]
    cases hf : get (reindexPlain sem s).files p with
    | none => rw [ha p, hf]; rfl
    | some t => rfl
  · intro p
    show get ((reindexPlain sem s).hashes.filter (fun kv => (get (reindexPlain sem s).files kv.1).isSome)) p = _
    rw [get_filter_key (fun k => (get (reindexPlain sem s).files k).isSome)]
    cases hf : get (reindexPlain sem s).files p with
    | none => rw [hc p, hf]; rfl
    | some t => rfl

#print axioms Inv.step
#print axioms Inv.run
#print axioms reindexPlain_spec
#print axioms create_spec
#print axioms reindex_eq_rebuild
#print axioms reindex_eq_rebuild_hashes
#print axioms reindexPlain_idem

end ZorgVerif.Index
