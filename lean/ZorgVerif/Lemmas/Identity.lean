import ZorgVerif.Model.Zo
/-! The identity words that write-back puts on a first line are read back as the note's identity. -/
namespace ZorgVerif.Zo
open ZorgVerif

/-- from the second word on, with no modify date read and the note date known, nothing changes the identity -/
theorem identity_go_settled_noMod (evs : List Ev) :
    ∀ (n w : Nat) (_hn : 1 ≤ n) (z : Option Str) (d : Date),
      identity.go n w none z (some d) evs = .ok (none, z, some d) := by
  induction evs with
  | nil => intro n w _ z d; rfl
  | cons ev rest ih =>
    intro n w hn z d
    cases ev with
    | id txt =>
      simp only [identity.go]
      repeat' split
      all_goals first
        | exact ih _ _ (by omega) _ _
        | (exfalso; simp_all; omega)
        | (exfalso; simp_all)
    | date txt =>
      simp only [identity.go]
      repeat' split
      all_goals first
        | exact ih _ _ hn _ _
        | (exfalso; simp_all)
    | word => simp only [identity.go]; exact ih _ _ hn _ _
    | tag k name => simp only [identity.go]; exact ih _ _ hn _ _
    | link name => simp only [identity.go]; exact ih _ _ hn _ _
    | prop a b q => simp only [identity.go]; exact ih _ _ hn _ _

/-- from the third word on nothing changes the identity, whatever was read -/
theorem identity_go_settled_two (evs : List Ev) :
    ∀ (n w : Nat) (_hn : 2 ≤ n) (m : Option Date) (z : Option Str) (d : Date),
      identity.go n w m z (some d) evs = .ok (m, z, some d) := by
  induction evs with
  | nil => intro n w _ m z d; rfl
  | cons ev rest ih =>
    intro n w hn m z d
    cases ev with
    | id txt =>
      simp only [identity.go]
      repeat' split
      all_goals first
        | exact ih _ _ (by omega) _ _ _
        | (exfalso; simp_all; omega)
        | (exfalso; simp_all)
    | date txt =>
      simp only [identity.go]
      repeat' split
      all_goals first
        | exact ih _ _ hn _ _ _
        | (exfalso; simp_all; omega)
        | (exfalso; simp_all)
    | word => simp only [identity.go]; exact ih _ _ hn _ _ _
    | tag k name => simp only [identity.go]; exact ih _ _ hn _ _ _
    | link name => simp only [identity.go]; exact ih _ _ hn _ _ _
    | prop a b q => simp only [identity.go]; exact ih _ _ hn _ _ _

/-- **a ZID written as the first word is read as the note's ZID** (and its date as the note's date), whatever follows -/
theorem identity_zid_first (z : Str) (dt : Date) (hz : isZid z = true) (hd : Date.parseShort (z.take 6) = some dt)
    (rest : List Ev) : identity (.word :: .id z :: rest) = .ok (none, some z, some dt) := by
  have hns : isShortDate z = false := by
    unfold isZid at hz; unfold isShortDate
    cases h9 : (z.length == 6) <;> simp_all
  simp only [identity, identity.go]
  simp [hns, hz, hd, identity_go_settled_noMod rest 1 1 (Nat.le_refl 1)]

/-- **a stamp followed by the ZID is read as modify date and ZID**, whatever follows -/
theorem identity_stamp_then_zid (s z : Str) (md cd : Date) (hs : isShortDate s = true) (hsd : Date.parseShort s = some md)
    (hz : isZid z = true) (hd : Date.parseShort (z.take 6) = some cd) (rest : List Ev) :
    identity (.word :: .id s :: .word :: .id z :: rest) = .ok (some md, some z, some cd) := by
  have hns : isShortDate z = false := by
    unfold isZid at hz; unfold isShortDate
    cases h9 : (z.length == 6) <;> simp_all
  simp only [identity, identity.go]
  simp [hs, hsd, hns, hz, hd, identity_go_settled_two rest 2 2 (Nat.le_refl 2)]

end ZorgVerif.Zo
