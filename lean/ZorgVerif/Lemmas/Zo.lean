import ZorgVerif.Model.Zo
/-! Lemmas about the `.zo` compiler model: identity words, property merging, tag dropping, header
discipline and the page automaton. -/
namespace ZorgVerif.Zo
open ZorgVerif ZorgVerif.Lex
open ZorgVerif.Query (NoteKind TagKind)

/-! ### (A) identity ignores later words -/

def wordCount (evs : List Ev) : Nat := (evs.filter (· == .word)).length

@[simp] theorem wordCount_nil : wordCount [] = 0 := rfl
@[simp] theorem wordCount_word (evs : List Ev) : wordCount (.word :: evs) = wordCount evs + 1 := by
  simp [wordCount]
@[simp] theorem wordCount_id (t : Str) (evs : List Ev) : wordCount (.id t :: evs) = wordCount evs := by
  simp [wordCount]
@[simp] theorem wordCount_date (t : Str) (evs : List Ev) : wordCount (.date t :: evs) = wordCount evs := by
  simp [wordCount]
@[simp] theorem wordCount_tag (k : TagKind) (t : Str) (evs : List Ev) :
    wordCount (.tag k t :: evs) = wordCount evs := by
  simp [wordCount]
@[simp] theorem wordCount_link (t : Str) (evs : List Ev) : wordCount (.link t :: evs) = wordCount evs := by
  simp [wordCount]
@[simp] theorem wordCount_prop (a b : Str) (q : Bool) (evs : List Ev) :
    wordCount (.prop a b q :: evs) = wordCount evs := by
  simp [wordCount]

/-- once three words have been seen, nothing changes the identity any more (and nothing can crash) -/
theorem identity_go_of_three_le (evs : List Ev) :
    ∀ (n w : Nat) (m : Option Date) (z : Option Str) (d : Option Date), 3 ≤ w →
      identity.go n w m z d evs = .ok (m, z, d) := by
  induction evs with
  | nil => intro n w m z d _; rfl
  | cons ev rest ih =>
    intro n w m z d hw
    cases ev with
    | word => simp only [identity.go]; exact ih _ _ _ _ _ (by omega)
    | id txt =>
      simp only [identity.go]
      by_cases h : n + 1 = w
      · subst h
        have h1 : n ≠ 0 := by omega
        have h2 : n ≠ 1 := by omega
        simp [h1, h2, ih _ _ _ _ _ hw]
      · simp [h, ih _ _ _ _ _ hw]
    | date txt =>
      simp only [identity.go]
      have h1 : (w == 1) = false := by apply beq_false_of_ne; omega
      simp [h1, ih _ _ _ _ _ hw]
    | tag k name => simp only [identity.go]; exact ih _ _ _ _ _ hw
    | link name => simp only [identity.go]; exact ih _ _ _ _ _ hw
    | prop a b q => simp only [identity.go]; exact ih _ _ _ _ _ hw

theorem identity_go_append (post : List Ev) (pre : List Ev) :
    ∀ (n w : Nat) (m : Option Date) (z : Option Str) (d : Option Date), 3 ≤ w + wordCount pre →
      identity.go n w m z d (pre ++ post) = identity.go n w m z d pre := by
  induction pre with
  | nil =>
    intro n w m z d hw
    simp at hw
    simp [identity_go_of_three_le _ _ _ _ _ _ hw]
  | cons ev rest ih =>
    intro n w m z d hw
    cases ev with
    | word =>
      simp only [List.cons_append, identity.go]
      exact ih _ _ _ _ _ (by simp at hw; omega)
    | id txt =>
      simp only [wordCount_id] at hw
      simp only [List.cons_append, identity.go, ih _ _ _ _ _ hw]
    | date txt =>
      simp only [wordCount_date] at hw
      simp only [List.cons_append, identity.go, ih _ _ _ _ _ hw]
    | tag k name =>
      simp only [wordCount_tag] at hw
      simp only [List.cons_append, identity.go, ih _ _ _ _ _ hw]
    | link name =>
      simp only [wordCount_link] at hw
      simp only [List.cons_append, identity.go, ih _ _ _ _ _ hw]
    | prop a b q =>
      simp only [wordCount_prop] at hw
      simp only [List.cons_append, identity.go, ih _ _ _ _ _ hw]

/-- (A) -/
theorem identity_append_of_three_words (pre post : List Ev) (h : 3 ≤ wordCount pre) :
    identity (pre ++ post) = identity pre := by
  unfold identity
  exact identity_go_append post pre 0 0 none none none (by omega)

/-- three words are needed: after two words a ZID as the second word's id still counts -/
theorem identity_three_words_tight :
    ∃ pre post : List Ev, wordCount pre = 2 ∧ identity (pre ++ post) ≠ identity pre := by
  let zidSet : Except Err (Option Date × Option Str × Option Date) → Bool := fun r =>
    match r with | .ok (_, z, _) => z.isSome | _ => false
  refine ⟨[.word, .id "240101".toList, .word], [.id "240101#ab".toList], by decide, fun h => ?_⟩
  have h2 := congrArg zidSet h
  revert h2
  decide

/-! ### (B) `mergeProps` is a right-biased dictionary merge -/

theorem lookup_filter_key (p : Str → Bool) (k : Str) (a : List (Str × Str)) :
    (a.filter (fun kv => p kv.1)).lookup k = if p k then a.lookup k else none := by
  induction a with
  | nil => simp
  | cons x xs ih =>
    obtain ⟨x1, x2⟩ := x
    by_cases hk : k = x1
    · subst hk
      by_cases hp : p k <;> simp [hp, ih]
    · have hk' : (k == x1) = false := beq_false_of_ne hk
      by_cases hp : p x1 <;> simp [hp, List.lookup_cons, ih, hk']

theorem lookup_isSome_eq_contains (k : Str) (b : List (Str × Str)) :
    (b.lookup k).isSome = (b.map (·.1)).contains k := by
  induction b with
  | nil => simp
  | cons x xs ih =>
    obtain ⟨x1, x2⟩ := x
    by_cases hk : k = x1
    · subst hk; simp
    · have hk' : (k == x1) = false := beq_false_of_ne hk
      simp only [List.lookup_cons, hk', List.map_cons, List.contains_cons, Bool.false_or]
      exact ih

/-- (B1) lookup in the merge: `b` wins, `a` is the fallback -/
theorem mergeProps_lookup (a b : List (Str × Str)) (k : Str) :
    (mergeProps a b).lookup k = (b.lookup k).orElse (fun _ => a.lookup k) := by
  unfold mergeProps
  rw [List.lookup_append, lookup_filter_key (fun x => !(b.map (·.1)).contains x) k a]
  have h := lookup_isSome_eq_contains k b
  cases hb : b.lookup k with
  | none => rw [hb] at h; simp at h; simp [h]
  | some v => rw [hb] at h; simp at h; simp [h]

/-- (B2) keys of the merge = keys a ∪ keys b -/
theorem mergeProps_keys (a b : List (Str × Str)) (k : Str) :
    k ∈ (mergeProps a b).map (·.1) ↔ k ∈ a.map (·.1) ∨ k ∈ b.map (·.1) := by
  unfold mergeProps
  simp only [List.map_append, List.mem_append, List.mem_map, List.mem_filter]
  constructor
  · rintro (⟨x, ⟨hx, _⟩, rfl⟩ | h)
    · exact Or.inl ⟨x, hx, rfl⟩
    · exact Or.inr h
  · rintro (⟨x, hx, rfl⟩ | h)
    · by_cases hc : (b.map (·.1)).contains x.1
      · right
        have := List.contains_iff_mem.mp hc
        simpa using this
      · left; exact ⟨x, ⟨hx, by simpa using hc⟩, rfl⟩
    · exact Or.inr h

/-- (B3) the entries of `b` survive verbatim, at the end -/
theorem mergeProps_suffix (a b : List (Str × Str)) : b <:+ mergeProps a b :=
  List.suffix_append _ _

/-! ### (C) all-digit tag / link names are dropped; the `take*` flags are respected -/

theorem addEv_tags {q : Bool} {sc sc' : Scope} {tt tp td : Bool} {ev : Ev}
    (h : addEv q sc tt tp td ev = .ok sc') :
    ∀ p ∈ sc'.tags, p ∈ sc.tags ∨ p.2.all isDigit = false := by
  intro p hp
  cases ev with
  | tag k name =>
    simp only [addEv, pure, Except.pure, Except.ok.injEq] at h
    subst h
    split at hp
    · rename_i hc
      simp only [Bool.and_eq_true, Bool.not_eq_true', dropAllDigits] at hc
      simp only [List.mem_append, List.mem_singleton] at hp
      rcases hp with hp | rfl
      · exact Or.inl hp
      · exact Or.inr hc.2
    · exact Or.inl hp
  | link name =>
    simp only [addEv, pure, Except.pure, Except.ok.injEq] at h
    subst h
    split at hp <;> exact Or.inl hp
  | prop a b qd =>
    simp only [addEv, pure, Except.pure, Except.ok.injEq] at h
    subst h
    split at hp <;> exact Or.inl hp
  | date txt =>
    simp only [addEv] at h
    split at h
    · split at h
      · simp only [pure, Except.pure, Except.ok.injEq] at h; subst h; exact Or.inl hp
      · simp only [pure, Except.pure, Except.ok.injEq] at h; subst h; exact Or.inl hp
    · simp only [pure, Except.pure, Except.ok.injEq] at h; subst h; exact Or.inl hp
  | id t => simp only [addEv, pure, Except.pure, Except.ok.injEq] at h; subst h; exact Or.inl hp
  | word => simp only [addEv, pure, Except.pure, Except.ok.injEq] at h; subst h; exact Or.inl hp

theorem addEv_links {q : Bool} {sc sc' : Scope} {tt tp td : Bool} {ev : Ev}
    (h : addEv q sc tt tp td ev = .ok sc') :
    ∀ l ∈ sc'.links, l ∈ sc.links ∨ l.all isDigit = false := by
  intro p hp
  cases ev with
  | link name =>
    simp only [addEv, pure, Except.pure, Except.ok.injEq] at h
    subst h
    split at hp
    · rename_i hc
      simp only [Bool.and_eq_true, Bool.not_eq_true', dropAllDigits] at hc
      simp only [List.mem_append, List.mem_singleton] at hp
      rcases hp with hp | rfl
      · exact Or.inl hp
      · exact Or.inr hc.2
    · exact Or.inl hp
  | tag k name =>
    simp only [addEv, pure, Except.pure, Except.ok.injEq] at h
    subst h
    split at hp <;> exact Or.inl hp
  | prop a b qd =>
    simp only [addEv, pure, Except.pure, Except.ok.injEq] at h
    subst h
    split at hp <;> exact Or.inl hp
  | date txt =>
    simp only [addEv] at h
    split at h
    · split at h
      · simp only [pure, Except.pure, Except.ok.injEq] at h; subst h; exact Or.inl hp
      · simp only [pure, Except.pure, Except.ok.injEq] at h; subst h; exact Or.inl hp
    · simp only [pure, Except.pure, Except.ok.injEq] at h; subst h; exact Or.inl hp
  | id t => simp only [addEv, pure, Except.pure, Except.ok.injEq] at h; subst h; exact Or.inl hp
  | word => simp only [addEv, pure, Except.pure, Except.ok.injEq] at h; subst h; exact Or.inl hp

/-- with `takeTags = false` neither tags nor links change -/
theorem addEv_noTags {q : Bool} {sc sc' : Scope} {tp td : Bool} {ev : Ev}
    (h : addEv q sc false tp td ev = .ok sc') : sc'.tags = sc.tags ∧ sc'.links = sc.links := by
  cases ev with
  | date txt =>
    simp only [addEv] at h
    split at h
    · split at h
      · simp only [pure, Except.pure, Except.ok.injEq] at h; subst h; exact ⟨rfl, rfl⟩
      · simp only [pure, Except.pure, Except.ok.injEq] at h; subst h; exact ⟨rfl, rfl⟩
    · simp only [pure, Except.pure, Except.ok.injEq] at h; subst h; exact ⟨rfl, rfl⟩
  | prop a b qd =>
    simp only [addEv, pure, Except.pure, Except.ok.injEq] at h
    subst h; split <;> exact ⟨rfl, rfl⟩
  | _ => simp [addEv, pure, Except.pure] at h; subst h; exact ⟨rfl, rfl⟩

/-- with `takeProps = false` the properties do not change -/
theorem addEv_noProps {q : Bool} {sc sc' : Scope} {tt td : Bool} {ev : Ev}
    (h : addEv q sc tt false td ev = .ok sc') : sc'.props = sc.props := by
  cases ev with
  | date txt =>
    simp only [addEv] at h
    split at h
    · split at h
      · simp only [pure, Except.pure, Except.ok.injEq] at h; subst h; rfl
      · simp only [pure, Except.pure, Except.ok.injEq] at h; subst h; rfl
    · simp only [pure, Except.pure, Except.ok.injEq] at h; subst h; rfl
  | tag k name =>
    simp only [addEv, pure, Except.pure, Except.ok.injEq] at h
    subst h; split <;> rfl
  | link name =>
    simp only [addEv, pure, Except.pure, Except.ok.injEq] at h
    subst h; split <;> rfl
  | _ => simp [addEv, pure, Except.pure] at h; subst h; rfl

/-- with `takeDate = false` the date does not change (and `addEv` cannot fail) -/
theorem addEv_noDate {q : Bool} {sc sc' : Scope} {tt tp : Bool} {ev : Ev}
    (h : addEv q sc tt tp false ev = .ok sc') : sc'.date = sc.date := by
  cases ev with
  | tag k name =>
    simp only [addEv, pure, Except.pure, Except.ok.injEq] at h
    subst h; split <;> rfl
  | link name =>
    simp only [addEv, pure, Except.pure, Except.ok.injEq] at h
    subst h; split <;> rfl
  | prop a b qd =>
    simp only [addEv, pure, Except.pure, Except.ok.injEq] at h
    subst h; split <;> rfl
  | _ => simp [addEv, pure, Except.pure] at h; subst h; rfl

theorem addEv_noDate_ok (q : Bool) (sc : Scope) (tt tp : Bool) (ev : Ev) :
    ∃ sc', addEv q sc tt tp false ev = .ok sc' := by
  cases ev <;> exact ⟨_, rfl⟩

/-- folding `addEv` over an event list (what the compiler does for a header, the file head, a note) -/
theorem foldlM_addEv_tags {q tt tp td : Bool} (evs : List Ev) :
    ∀ {sc sc' : Scope}, evs.foldlM (fun sc ev => addEv q sc tt tp td ev) sc = .ok sc' →
      ∀ p ∈ sc'.tags, p ∈ sc.tags ∨ p.2.all isDigit = false := by
  induction evs with
  | nil => intro sc sc' h p hp; simp [pure, Except.pure] at h; subst h; exact Or.inl hp
  | cons ev rest ih =>
    intro sc sc' h p hp
    simp only [List.foldlM_cons, bind, Except.bind] at h
    cases h1 : addEv q sc tt tp td ev with
    | error e => rw [h1] at h; cases h
    | ok sc1 =>
      rw [h1] at h
      rcases ih h p hp with h2 | h2
      · exact addEv_tags h1 p h2
      · exact Or.inr h2

theorem foldlM_addEv_links {q tt tp td : Bool} (evs : List Ev) :
    ∀ {sc sc' : Scope}, evs.foldlM (fun sc ev => addEv q sc tt tp td ev) sc = .ok sc' →
      ∀ l ∈ sc'.links, l ∈ sc.links ∨ l.all isDigit = false := by
  induction evs with
  | nil => intro sc sc' h p hp; simp [pure, Except.pure] at h; subst h; exact Or.inl hp
  | cons ev rest ih =>
    intro sc sc' h p hp
    simp only [List.foldlM_cons, bind, Except.bind] at h
    cases h1 : addEv q sc tt tp td ev with
    | error e => rw [h1] at h; cases h
    | ok sc1 =>
      rw [h1] at h
      rcases ih h p hp with h2 | h2
      · exact addEv_links h1 p h2
      · exact Or.inr h2

/-! ### (D) header discipline -/

def Sorted (scopes : List (Nat × Str × Scope)) : Prop := (scopes.map (·.1)).Pairwise (· < ·)

theorem sorted_nil : Sorted [] := List.Pairwise.nil

/-- (D2) `closeTo k` keeps exactly the scopes of level `< k` … -/
theorem mem_closeTo (k : Nat) (s : List (Nat × Str × Scope)) (x : Nat × Str × Scope) :
    x ∈ closeTo k s ↔ x ∈ s ∧ x.1 < k := by
  simp [closeTo, List.mem_filter]

/-- … in their original order … -/
theorem closeTo_sublist (k : Nat) (s : List (Nat × Str × Scope)) : (closeTo k s).Sublist s :=
  List.filter_sublist

/-- … so no scope of level `≥ k` survives the opening of a level-`k` header -/
theorem closeTo_all_lt (k : Nat) (s : List (Nat × Str × Scope)) : ∀ x ∈ closeTo k s, x.1 < k :=
  fun x hx => ((mem_closeTo k s x).mp hx).2

theorem sorted_closeTo {s : List (Nat × Str × Scope)} (k : Nat) (h : Sorted s) : Sorted (closeTo k s) :=
  List.Pairwise.sublist ((closeTo_sublist k s).map _) h

/-- for a sorted stack `closeTo k` is a prefix: it pops from the inside -/
theorem closeTo_prefix {s : List (Nat × Str × Scope)} (k : Nat) (h : Sorted s) : closeTo k s <+: s := by
  induction s with
  | nil => exact List.prefix_refl _
  | cons x xs ih =>
    have hx : Sorted xs := (List.pairwise_cons.mp h).2
    have hlt := (List.pairwise_cons.mp h).1
    by_cases hk : x.1 < k
    · simp only [closeTo, List.filter_cons, hk, decide_true, ite_true]
      exact (List.prefix_cons_inj x).mpr (ih hx)
    · have : closeTo k (x :: xs) = [] := by
        simp only [closeTo, List.filter_eq_nil_iff, List.mem_cons, decide_eq_true_eq]
        rintro y (rfl | hy)
        · exact hk
        · have hxy : x.1 < y.1 := hlt y.1 (List.mem_map_of_mem hy)
          omega
      rw [this]; exact List.nil_prefix

/-- (D1) opening a level-`k` header keeps the stack sorted -/
theorem sorted_open {s : List (Nat × Str × Scope)} (k : Nat) (title : Str) (sc : Scope) (h : Sorted s) :
    Sorted (closeTo k s ++ [(k, title, sc)]) := by
  unfold Sorted
  rw [List.map_append, List.pairwise_append]
  refine ⟨sorted_closeTo k h, by simp, ?_⟩
  intro a ha b hb
  simp only [List.map_cons, List.map_nil, List.mem_singleton] at hb
  rw [hb]
  obtain ⟨x, hx, rfl⟩ := List.mem_map.mp ha
  exact closeTo_all_lt k s x hx

/-! ### `finishItem` facts -/

/-- `todo_payload.priority` of a note made from an item line of the given kind / explicit priority -/
def prioOf (dp : Str) (kind : NoteKind) (prio : Option Str) : Option Str :=
  if kind == .basic then none else some (prio.getD dp)

theorem finishItem_cases {today : Date} {dp : Str} {fuel : Nat} {st st' : St} {it : Item}
    (h : finishItem today dp fuel st it = .ok st') :
    st' = st ∨ ∃ note : Note, st' = { st with notes := st.notes ++ [note], items := st.items + 1 } ∧
      note.line = it.lineNo ∧ note.kind = it.kind ∧ note.priority = prioOf dp it.kind it.priority ∧
      note.sectionPath = st.scopes.map (·.2.1) ∧ note.block = st.blockNo ∧
      note.body = strip (itemBodyText it) ∧ note.body ≠ [] := by
  unfold finishItem at h
  simp only [bind, Except.bind, pure, Except.pure] at h
  repeat' split at h
  all_goals first
    | (cases h; done)
    | (left; cases h; rfl)
    | (right; cases h
       refine ⟨_, rfl, rfl, rfl, ?_, rfl, rfl, rfl, ?_⟩
       · simp [prioOf, *]
       · intro hb
         have hb' : strip (itemBodyText it) = [] := hb
         simp_all)

/-! ### (E) the page automaton as a big-step relation -/

/-- a numbered line: (line number, tokens, NL text) -/
abbrev Line := Nat × List Tok × Str

/-- finish the pending item, if any -/
def flush (today : Date) (dp : Str) (fuel : Nat) (st : St) (cur : Option Item) : Except Err St :=
  match cur with
  | some it => finishItem today dp fuel st it
  | none => pure st

/-- a comment or item line opens a block unless one is open -/
def openBlock (st : St) : St :=
  if st.blockOpen then st else { st with blockOpen := true, blockNo := st.blockNo + 1 }

/-- the nesting check made when a level-`level` header is read in state `st` -/
def parentOk (level : Nat) (st : St) : Bool :=
  if level == 1 then true
  else if level == 2 then ((closeTo level st.scopes).any (·.1 == 1)) || !st.seenH1
  else (closeTo level st.scopes).any (·.1 == level - 1)

/-- the state after a level-`level` header with scope `sc` -/
def openHeader (st : St) (level : Nat) (title : Str) (sc : Scope) : St :=
  { st with scopes := closeTo level st.scopes ++ [(level, title, sc)], blockOpen := false,
            seenH1 := st.seenH1 || level == 1 }

/-- successful runs of `bodyLines`, one constructor per kind of line -/
inductive Run (today : Date) (dp : Str) (fuel : Nat) : St → Option Item → List Line → St → Prop
  | done {st cur st'} : flush today dp fuel st cur = .ok st' → Run today dp fuel st cur [] st'
  | cont {st it no ts nl atoms rest st'} : classify ts = .cont atoms → nl ≠ [] →
      Run today dp fuel st (some { it with conts := it.conts ++ [(atoms, nl)] }) rest st' →
      Run today dp fuel st (some it) ((no, ts, nl) :: rest) st'
  | blank {st cur no ts nl rest st1 st'} : classify ts = .blank →
      flush today dp fuel st cur = .ok st1 →
      Run today dp fuel { st1 with blockOpen := false } none rest st' →
      Run today dp fuel st cur ((no, ts, nl) :: rest) st'
  | comment {st cur no ts nl atoms rest st1 evs st'} : classify ts = .comment atoms → nl ≠ [] →
      flush today dp fuel st cur = .ok st1 →
      spaceAtoms fuel atoms = .ok evs →
      Run today dp fuel (openBlock st1) none rest st' →
      Run today dp fuel st cur ((no, ts, nl) :: rest) st'
  | item {st cur no ts nl kind prio atoms rest st1 st'} : classify ts = .item kind prio atoms → nl ≠ [] →
      flush today dp fuel st cur = .ok st1 →
      Run today dp fuel (openBlock st1) (some ⟨no, kind, prio, atoms, nl, []⟩) rest st' →
      Run today dp fuel st cur ((no, ts, nl) :: rest) st'
  | header {st cur no ts nl level atoms rest st1 evs sc st'} : classify ts = .header level atoms →
      flush today dp fuel st cur = .ok st1 →
      parentOk level st1 = true →
      spaceAtoms fuel atoms = .ok evs →
      evs.foldlM (fun sc ev => addEv true sc true true true ev) ({} : Scope) = .ok sc →
      Run today dp fuel (openHeader st1 level (strip (textOf atoms)) sc) none rest st' →
      Run today dp fuel st cur ((no, ts, nl) :: rest) st'

/-- what `bodyLines` does with a non-continuation line once the pending item is flushed (a copy of the
corresponding part of the model; `bodyLines_cons_eq` shows that it is the same thing) -/
def lineStep (today : Date) (dp : Str) (fuel f : Nat) (no : Nat) (nl : Str) (rest : List Line)
    (k : LineKind) (st : St) : Except Err St :=
  match k with
  | .blank => bodyLines today dp fuel f { st with blockOpen := false } none rest
  | .comment atoms =>
    if nl.isEmpty then .error (.syntax "missing newline at end of file") else
    (spaceAtoms fuel atoms).bind fun _ => bodyLines today dp fuel f (openBlock st) none rest
  | .item kind prio atoms =>
    if nl.isEmpty then .error (.syntax "missing newline at end of file") else
    bodyLines today dp fuel f (openBlock st) (some ⟨no, kind, prio, atoms, nl, []⟩) rest
  | .header level atoms =>
    if !parentOk level st then .error (.syntax s!"H{level} header outside an H{level - 1} section")
    else
      (spaceAtoms fuel atoms).bind fun evs =>
      (evs.foldlM (fun sc ev => addEv true sc true true true ev) ({} : Scope)).bind fun sc =>
      bodyLines today dp fuel f (openHeader st level (strip (textOf atoms)) sc) none rest
  | .bad w => .error (.syntax w)
  | .cont _ => .error (.syntax "unreachable")

/-- one step of `bodyLines` on a non-continuation line -/
theorem bodyLines_cons_eq (today : Date) (dp : Str) (fuel f : Nat) (st : St) (cur : Option Item)
    (no : Nat) (ts : List Tok) (nl : Str) (rest : List Line)
    (hnc : ∀ atoms, classify ts ≠ .cont atoms) :
    bodyLines today dp fuel (f + 1) st cur ((no, ts, nl) :: rest) =
      (flush today dp fuel st cur).bind (lineStep today dp fuel f no nl rest (classify ts)) := by
  rw [bodyLines]
  split
  · rename_i atoms heq; exact absurd heq (hnc atoms)
  · cases cur with
    | none => rfl
    | some it => rfl

theorem bodyLines_run {today : Date} {dp : Str} {fuel : Nat} (f : Nat) :
    ∀ {st : St} {cur : Option Item} {lines : List Line} {st' : St},
      bodyLines today dp fuel f st cur lines = .ok st' → Run today dp fuel st cur lines st' := by
  induction f with
  | zero => intro st cur lines st' h; simp [bodyLines] at h
  | succ f ih =>
    intro st cur lines st' h
    cases lines with
    | nil =>
      apply Run.done
      unfold bodyLines at h
      unfold flush
      exact h
    | cons l rest =>
      obtain ⟨no, ts, nl⟩ := l
      by_cases hc : ∃ atoms, classify ts = .cont atoms
      · obtain ⟨atoms, hc⟩ := hc
        unfold bodyLines at h
        simp only [hc] at h
        split at h
        · cases h
        · rename_i hnl
          cases cur with
          | none => cases h
          | some it =>
            exact Run.cont hc (by intro h0; apply hnl; simp [h0]) (ih h)
      · have hnc : ∀ atoms, classify ts ≠ .cont atoms := fun atoms heq => hc ⟨atoms, heq⟩
        rw [bodyLines_cons_eq _ _ _ _ _ _ _ _ _ _ hnc] at h
        cases hfl : flush today dp fuel st cur with
        | error e => rw [hfl] at h; cases h
        | ok st1 =>
          rw [hfl] at h
          simp only [Except.bind] at h
          cases hk : classify ts with
          | blank =>
            rw [hk] at h
            exact Run.blank hk hfl (ih h)
          | comment atoms =>
            rw [hk] at h
            simp only [lineStep] at h
            split at h
            · cases h
            · rename_i hnl
              cases hs : spaceAtoms fuel atoms with
              | error e => rw [hs] at h; cases h
              | ok evs =>
                rw [hs] at h
                exact Run.comment hk (by intro h0; apply hnl; simp [h0]) hfl hs (ih h)
          | item kind prio atoms =>
            rw [hk] at h
            simp only [lineStep] at h
            split at h
            · cases h
            · rename_i hnl
              exact Run.item hk (by intro h0; apply hnl; simp [h0]) hfl (ih h)
          | header level atoms =>
            rw [hk] at h
            simp only [lineStep] at h
            split at h
            · cases h
            · rename_i hp
              cases hs : spaceAtoms fuel atoms with
              | error e => rw [hs] at h; cases h
              | ok evs =>
                rw [hs] at h
                simp only [Except.bind] at h
                cases hsc : evs.foldlM (fun sc ev => addEv true sc true true true ev) ({} : Scope) with
                | error e => rw [hsc] at h; cases h
                | ok sc =>
                  rw [hsc] at h
                  exact Run.header hk hfl (by simpa using hp) hs hsc (ih h)
          | bad w => rw [hk] at h; cases h
          | cont atoms => exact absurd hk (hnc atoms)

/-! ### state bookkeeping -/

@[simp] theorem openBlock_scopes (st : St) : (openBlock st).scopes = st.scopes := by
  unfold openBlock; split <;> rfl
@[simp] theorem openBlock_file (st : St) : (openBlock st).file = st.file := by
  unfold openBlock; split <;> rfl
@[simp] theorem openBlock_notes (st : St) : (openBlock st).notes = st.notes := by
  unfold openBlock; split <;> rfl
@[simp] theorem openBlock_seenH1 (st : St) : (openBlock st).seenH1 = st.seenH1 := by
  unfold openBlock; split <;> rfl
@[simp] theorem openBlock_items (st : St) : (openBlock st).items = st.items := by
  unfold openBlock; split <;> rfl
@[simp] theorem openBlock_blockOpen (st : St) : (openBlock st).blockOpen = true := by
  unfold openBlock; split <;> simp_all

/-- `openBlock` touches only `blockOpen` / `blockNo` -/
theorem openBlock_eq (st : St) :
    openBlock st = { st with blockOpen := true,
                             blockNo := if st.blockOpen then st.blockNo else st.blockNo + 1 } := by
  unfold openBlock
  cases st with
  | mk scopes file notes blockOpen blockNo seenH1 items =>
    cases blockOpen <;> simp

@[simp] theorem openHeader_scopes (st : St) (level : Nat) (title : Str) (sc : Scope) :
    (openHeader st level title sc).scopes = closeTo level st.scopes ++ [(level, title, sc)] := rfl
@[simp] theorem openHeader_file (st : St) (level : Nat) (title : Str) (sc : Scope) :
    (openHeader st level title sc).file = st.file := rfl
@[simp] theorem openHeader_notes (st : St) (level : Nat) (title : Str) (sc : Scope) :
    (openHeader st level title sc).notes = st.notes := rfl

/-- `flush` either does nothing or appends exactly one note made from the pending item -/
theorem flush_cases {today : Date} {dp : Str} {fuel : Nat} {st st1 : St} {cur : Option Item}
    (h : flush today dp fuel st cur = .ok st1) :
    st1 = st ∨ ∃ (it : Item) (note : Note), cur = some it ∧
      finishItem today dp fuel st it = .ok { st with notes := st.notes ++ [note], items := st.items + 1 } ∧
      st1 = { st with notes := st.notes ++ [note], items := st.items + 1 } ∧
      note.line = it.lineNo ∧ note.kind = it.kind ∧ note.priority = prioOf dp it.kind it.priority ∧
      note.sectionPath = st.scopes.map (·.2.1) ∧ note.block = st.blockNo := by
  cases cur with
  | none => left; simp [flush, pure, Except.pure] at h; exact h.symm
  | some it =>
    simp only [flush] at h
    rcases finishItem_cases h with h1 | ⟨note, h1, h2, h3, h4, h5, h6, _, _⟩
    · exact Or.inl h1
    · exact Or.inr ⟨it, note, rfl, h1 ▸ h, h1, h2, h3, h4, h5, h6⟩

/-! ### (E) a generic invariant principle, and (E1) -/

/-- any state predicate preserved by the five kinds of state update is preserved by `bodyLines` -/
theorem run_invariant {today : Date} {dp : Str} {fuel : Nat} {I : St → Prop}
    (hfin : ∀ st it st1, I st → finishItem today dp fuel st it = .ok st1 → I st1)
    (hblank : ∀ st, I st → I { st with blockOpen := false })
    (hopen : ∀ st, I st → I (openBlock st))
    (hhead : ∀ st level title sc, I st → parentOk level st = true → I (openHeader st level title sc))
    {st : St} {cur : Option Item} {lines : List Line} {st' : St}
    (hrun : Run today dp fuel st cur lines st') : I st → I st' := by
  have hflush : ∀ st cur st1, I st → flush today dp fuel st cur = .ok st1 → I st1 := by
    intro st cur st1 hI h
    cases cur with
    | none => simp [flush, pure, Except.pure] at h; exact h ▸ hI
    | some it => exact hfin _ _ _ hI h
  induction hrun with
  | done hfl => exact fun hI => hflush _ _ _ hI hfl
  | cont _ _ _ ih => exact ih
  | blank _ hfl _ ih => exact fun hI => ih (hblank _ (hflush _ _ _ hI hfl))
  | comment _ _ hfl _ _ ih => exact fun hI => ih (hopen _ (hflush _ _ _ hI hfl))
  | item _ _ hfl _ ih => exact fun hI => ih (hopen _ (hflush _ _ _ hI hfl))
  | header _ hfl hp _ _ _ ih => exact fun hI => ih (hhead _ _ _ _ (hflush _ _ _ hI hfl) hp)

/-- `note` was produced by a call of `finishItem` in a state whose scope stack is sorted (and whose
file scope is `file`) -/
def BuiltSorted (today : Date) (dp : Str) (fuel : Nat) (file : Scope) (note : Note) : Prop :=
  ∃ (st0 : St) (it : Item), Sorted st0.scopes ∧ st0.file = file ∧
    finishItem today dp fuel st0 it = .ok { st0 with notes := st0.notes ++ [note], items := st0.items + 1 }

theorem run_sorted {today : Date} {dp : Str} {fuel : Nat}
    {st : St} {cur : Option Item} {lines : List Line} {st' : St}
    (hrun : Run today dp fuel st cur lines st') (hs : Sorted st.scopes) :
    Sorted st'.scopes ∧ st'.file = st.file ∧
      ∀ note ∈ st'.notes, note ∈ st.notes ∨ BuiltSorted today dp fuel st.file note := by
  let I : St → Prop := fun s => Sorted s.scopes ∧ s.file = st.file ∧
      ∀ note ∈ s.notes, note ∈ st.notes ∨ BuiltSorted today dp fuel st.file note
  refine run_invariant (I := I) ?_ ?_ ?_ ?_ hrun ⟨hs, rfl, fun n hn => Or.inl hn⟩
  · intro s it s1 ⟨h1, h2, h3⟩ hf
    rcases finishItem_cases hf with rfl | ⟨note, rfl, _⟩
    · exact ⟨h1, h2, h3⟩
    · refine ⟨h1, h2, ?_⟩
      intro n hn
      simp only [List.mem_append, List.mem_singleton] at hn
      rcases hn with hn | rfl
      · exact h3 n hn
      · exact Or.inr ⟨s, it, h1, h2, hf⟩
  · intro s h; exact h
  · intro s ⟨h1, h2, h3⟩
    refine ⟨by simpa using h1, by simpa using h2, by simpa using h3⟩
  · intro s level title sc ⟨h1, h2, h3⟩ _
    exact ⟨sorted_open level title sc h1, h2, h3⟩

/-- (E1) the scope stack stays sorted, the file scope never changes, and every note appended was built by
`finishItem` from a sorted scope stack -/
theorem bodyLines_sorted {today : Date} {dp : Str} {fuel f : Nat}
    {st : St} {cur : Option Item} {lines : List Line} {st' : St}
    (h : bodyLines today dp fuel f st cur lines = .ok st') (hs : Sorted st.scopes) :
    Sorted st'.scopes ∧ st'.file = st.file ∧
      ∀ note ∈ st'.notes, note ∈ st.notes ∨ BuiltSorted today dp fuel st.file note :=
  run_sorted (bodyLines_run f h) hs

/-! ### (E2), (E3): which notes are appended -/

def isItemKind : LineKind → Bool
  | .item .. => true
  | _ => false

/-- number of lines that `classify` maps to `.item` -/
def itemCount (lines : List Line) : Nat := (lines.filter (fun l => isItemKind (classify l.2.1))).length

/-- the note comes from the pending item -/
def FromCur (dp : Str) (cur : Option Item) (note : Note) : Prop :=
  ∃ it, cur = some it ∧ note.line = it.lineNo ∧ note.kind = it.kind ∧
    note.priority = prioOf dp it.kind it.priority

/-- the note comes from one of the item lines -/
def FromLine (dp : Str) (lines : List Line) (note : Note) : Prop :=
  ∃ no ts nl kind prio atoms, (no, ts, nl) ∈ lines ∧ classify ts = .item kind prio atoms ∧
    note.line = no ∧ note.kind = kind ∧ note.priority = prioOf dp kind prio

theorem itemCount_cons_of_not_item (l : Line) (rest : List Line) (h : isItemKind (classify l.2.1) = false) :
    itemCount (l :: rest) = itemCount rest := by
  simp [itemCount, h]

theorem itemCount_cons_of_item (l : Line) (rest : List Line) (h : isItemKind (classify l.2.1) = true) :
    itemCount (l :: rest) = itemCount rest + 1 := by
  simp [itemCount, h]

theorem FromLine.cons {dp : Str} {lines : List Line} {note : Note} (l : Line) (h : FromLine dp lines note) :
    FromLine dp (l :: lines) note := by
  obtain ⟨no, ts, nl, kind, prio, atoms, hm, hc⟩ := h
  exact ⟨no, ts, nl, kind, prio, atoms, List.mem_cons_of_mem _ hm, hc⟩

theorem flush_notes {today : Date} {dp : Str} {fuel : Nat} {st st1 : St} {cur : Option Item}
    (h : flush today dp fuel st cur = .ok st1) :
    ∃ added, st1.notes = st.notes ++ added ∧ added.length ≤ (if cur.isSome then 1 else 0) ∧
      ∀ note ∈ added, FromCur dp cur note := by
  rcases flush_cases h with rfl | ⟨it, note, rfl, _, rfl, h1, h2, h3, _⟩
  · exact ⟨[], by simp, by simp, by simp⟩
  · refine ⟨[note], rfl, by simp, ?_⟩
    intro n hn
    simp only [List.mem_singleton] at hn
    subst hn
    exact ⟨it, rfl, h1, h2, h3⟩

theorem run_notes {today : Date} {dp : Str} {fuel : Nat}
    {st : St} {cur : Option Item} {lines : List Line} {st' : St}
    (hrun : Run today dp fuel st cur lines st') :
    ∃ added, st'.notes = st.notes ++ added ∧
      added.length ≤ itemCount lines + (if cur.isSome then 1 else 0) ∧
      ∀ note ∈ added, FromCur dp cur note ∨ FromLine dp lines note := by
  induction hrun with
  | done hfl =>
    obtain ⟨added, h1, h2, h3⟩ := flush_notes hfl
    exact ⟨added, h1, by simpa [itemCount] using h2, fun n hn => Or.inl (h3 n hn)⟩
  | @cont st it no ts nl atoms rest st' hk _ _ ih =>
    obtain ⟨added, h1, h2, h3⟩ := ih
    refine ⟨added, h1, ?_, ?_⟩
    · rw [itemCount_cons_of_not_item _ _ (by simp [hk, isItemKind])]
      simpa using h2
    · intro n hn
      rcases h3 n hn with ⟨it', hit, h4⟩ | h4
      · left
        simp only [Option.some.injEq] at hit
        subst hit
        exact ⟨it, rfl, h4⟩
      · exact Or.inr (h4.cons _)
  | @blank st cur no ts nl rest st1 st' hk hfl _ ih =>
    obtain ⟨a1, h1, h2, h3⟩ := flush_notes (dp := dp) hfl
    obtain ⟨a2, g1, g2, g3⟩ := ih
    refine ⟨a1 ++ a2, ?_, ?_, ?_⟩
    · rw [g1]; simp only []; rw [h1, List.append_assoc]
    · rw [itemCount_cons_of_not_item _ _ (by simp [hk, isItemKind])]
      simp only [List.length_append]
      simp at g2
      omega
    · intro n hn
      rcases List.mem_append.mp hn with hn | hn
      · exact Or.inl (h3 n hn)
      · rcases g3 n hn with ⟨it', hit, _⟩ | h4
        · cases hit
        · exact Or.inr (h4.cons _)
  | @comment st cur no ts nl atoms rest st1 evs st' hk _ hfl _ _ ih =>
    obtain ⟨a1, h1, h2, h3⟩ := flush_notes (dp := dp) hfl
    obtain ⟨a2, g1, g2, g3⟩ := ih
    refine ⟨a1 ++ a2, ?_, ?_, ?_⟩
    · rw [g1, openBlock_notes, h1, List.append_assoc]
    · rw [itemCount_cons_of_not_item _ _ (by simp [hk, isItemKind])]
      simp only [List.length_append]
      simp at g2
      omega
    · intro n hn
      rcases List.mem_append.mp hn with hn | hn
      · exact Or.inl (h3 n hn)
      · rcases g3 n hn with ⟨it', hit, _⟩ | h4
        · cases hit
        · exact Or.inr (h4.cons _)
  | @item st cur no ts nl kind prio atoms rest st1 st' hk _ hfl _ ih =>
    obtain ⟨a1, h1, h2, h3⟩ := flush_notes (dp := dp) hfl
    obtain ⟨a2, g1, g2, g3⟩ := ih
    refine ⟨a1 ++ a2, ?_, ?_, ?_⟩
    · rw [g1, openBlock_notes, h1, List.append_assoc]
    · rw [itemCount_cons_of_item _ _ (by simp [hk, isItemKind])]
      simp only [List.length_append]
      simp at g2
      omega
    · intro n hn
      rcases List.mem_append.mp hn with hn | hn
      · exact Or.inl (h3 n hn)
      · right
        rcases g3 n hn with ⟨it', hit, h4, h5, h6⟩ | h4
        · simp only [Option.some.injEq] at hit
          subst hit
          exact ⟨no, ts, nl, kind, prio, atoms, List.mem_cons_self, hk, h4, h5, h6⟩
        · exact h4.cons _
  | @header st cur no ts nl level atoms rest st1 evs sc st' hk hfl _ _ _ _ ih =>
    obtain ⟨a1, h1, h2, h3⟩ := flush_notes (dp := dp) hfl
    obtain ⟨a2, g1, g2, g3⟩ := ih
    refine ⟨a1 ++ a2, ?_, ?_, ?_⟩
    · rw [g1, openHeader_notes, h1, List.append_assoc]
    · rw [itemCount_cons_of_not_item _ _ (by simp [hk, isItemKind])]
      simp only [List.length_append]
      simp at g2
      omega
    · intro n hn
      rcases List.mem_append.mp hn with hn | hn
      · exact Or.inl (h3 n hn)
      · rcases g3 n hn with ⟨it', hit, _⟩ | h4
        · cases hit
        · exact Or.inr (h4.cons _)

/-- (E2)+(E3) in one statement: the notes of the result are the old notes followed by at most one note
per item line (plus one for the pending item), each coming from the pending item or from an item line -/
theorem bodyLines_notes {today : Date} {dp : Str} {fuel f : Nat}
    {st : St} {cur : Option Item} {lines : List Line} {st' : St}
    (h : bodyLines today dp fuel f st cur lines = .ok st') :
    ∃ added, st'.notes = st.notes ++ added ∧
      added.length ≤ itemCount lines + (if cur.isSome then 1 else 0) ∧
      ∀ note ∈ added, FromCur dp cur note ∨ FromLine dp lines note :=
  run_notes (bodyLines_run f h)

/-- (E2) notes are only appended, and at most one per item line -/
theorem bodyLines_notes_prefix {today : Date} {dp : Str} {fuel f : Nat}
    {st : St} {cur : Option Item} {lines : List Line} {st' : St}
    (h : bodyLines today dp fuel f st cur lines = .ok st') :
    st.notes <+: st'.notes ∧
      st'.notes.length ≤ st.notes.length + itemCount lines + (if cur.isSome then 1 else 0) := by
  obtain ⟨added, h1, h2, _⟩ := bodyLines_notes h
  refine ⟨⟨added, h1.symm⟩, ?_⟩
  rw [h1, List.length_append]; omega

/-- (E3) every appended note has the line number, kind and priority of the pending item or of an item line -/
theorem bodyLines_notes_source {today : Date} {dp : Str} {fuel f : Nat}
    {st : St} {cur : Option Item} {lines : List Line} {st' : St}
    (h : bodyLines today dp fuel f st cur lines = .ok st') :
    ∀ note ∈ st'.notes, note ∈ st.notes ∨ FromCur dp cur note ∨ FromLine dp lines note := by
  obtain ⟨added, h1, _, h3⟩ := bodyLines_notes h
  intro n hn
  rw [h1] at hn
  rcases List.mem_append.mp hn with hn | hn
  · exact Or.inl hn
  · exact Or.inr (h3 n hn)

/-! ### (E4) comment lines are inert -/

/-- one step of `bodyLines` on a comment line with no pending item: the atoms are parsed only to be
checked, and the state passed on is `openBlock st`, which differs from `st` at most in `blockOpen` /
`blockNo` (`openBlock_eq`) -/
theorem bodyLines_comment_step (today : Date) (dp : Str) (fuel f : Nat) (st : St)
    (no : Nat) (ts : List Tok) (nl : Str) (rest : List Line) (atoms : List Tok)
    (hc : classify ts = .comment atoms) :
    bodyLines today dp fuel (f + 1) st none ((no, ts, nl) :: rest) =
      if nl.isEmpty then .error (.syntax "missing newline at end of file")
      else (spaceAtoms fuel atoms).bind fun _ => bodyLines today dp fuel f (openBlock st) none rest := by
  rw [bodyLines_cons_eq _ _ _ _ _ _ _ _ _ _ (by intro a; rw [hc]; intro h; cases h), hc]
  rfl

/-! ### the relation is exact -/

theorem run_bodyLines {today : Date} {dp : Str} {fuel : Nat}
    {st : St} {cur : Option Item} {lines : List Line} {st' : St}
    (hrun : Run today dp fuel st cur lines st') :
    ∀ f, lines.length < f → bodyLines today dp fuel f st cur lines = .ok st' := by
  induction hrun with
  | @done st cur st' hfl =>
    intro f hf
    obtain ⟨f, rfl⟩ : ∃ g, f = g + 1 := ⟨f - 1, by omega⟩
    unfold bodyLines
    cases cur <;> exact hfl
  | @cont st it no ts nl atoms rest st' hk hnl _ ih =>
    intro f hf
    obtain ⟨f, rfl⟩ : ∃ g, f = g + 1 := ⟨f - 1, by omega⟩
    unfold bodyLines
    simp only [hk]
    have : nl.isEmpty = false := by cases nl <;> simp_all
    simp only [this]
    exact ih f (by simp at hf; omega)
  | @blank st cur no ts nl rest st1 st' hk hfl _ ih =>
    intro f hf
    obtain ⟨f, rfl⟩ : ∃ g, f = g + 1 := ⟨f - 1, by omega⟩
    rw [bodyLines_cons_eq _ _ _ _ _ _ _ _ _ _ (by intro a; rw [hk]; intro h; cases h), hfl, hk]
    exact ih f (by simp at hf; omega)
  | @comment st cur no ts nl atoms rest st1 evs st' hk hnl hfl hs _ ih =>
    intro f hf
    obtain ⟨f, rfl⟩ : ∃ g, f = g + 1 := ⟨f - 1, by omega⟩
    rw [bodyLines_cons_eq _ _ _ _ _ _ _ _ _ _ (by intro a; rw [hk]; intro h; cases h), hfl, hk]
    have : nl.isEmpty = false := by cases nl <;> simp_all
    simp only [Except.bind, lineStep, this, hs]
    exact ih f (by simp at hf; omega)
  | @item st cur no ts nl kind prio atoms rest st1 st' hk hnl hfl _ ih =>
    intro f hf
    obtain ⟨f, rfl⟩ : ∃ g, f = g + 1 := ⟨f - 1, by omega⟩
    rw [bodyLines_cons_eq _ _ _ _ _ _ _ _ _ _ (by intro a; rw [hk]; intro h; cases h), hfl, hk]
    have : nl.isEmpty = false := by cases nl <;> simp_all
    simp only [Except.bind, lineStep, this]
    exact ih f (by simp at hf; omega)
  | @header st cur no ts nl level atoms rest st1 evs sc st' hk hfl hp hs hsc _ ih =>
    intro f hf
    obtain ⟨f, rfl⟩ : ∃ g, f = g + 1 := ⟨f - 1, by omega⟩
    rw [bodyLines_cons_eq _ _ _ _ _ _ _ _ _ _ (by intro a; rw [hk]; intro h; cases h), hfl, hk]
    simp only [Except.bind, lineStep, hp, hs, hsc]
    exact ih f (by simp at hf; omega)

/-- `Run` characterises the successful runs of `bodyLines` exactly -/
theorem run_iff_bodyLines {today : Date} {dp : Str} {fuel : Nat}
    {st : St} {cur : Option Item} {lines : List Line} {st' : St} :
    Run today dp fuel st cur lines st' ↔ ∃ f, bodyLines today dp fuel f st cur lines = .ok st' :=
  ⟨fun h => ⟨lines.length + 1, run_bodyLines h _ (Nat.lt_succ_self _)⟩, fun ⟨f, h⟩ => bodyLines_run f h⟩

/-! ### the whole page -/

/-- the numbered lines of a token list, as `compileToks` builds them -/
def numberedLines (toks : List Tok) : List Line :=
  (List.range (splitLines [] toks).length).zip (splitLines [] toks) |>.map (fun (i, (ts, nl)) => (i + 1, ts, nl))

theorem itemCount_drop_le (k : Nat) (L : List Line) : itemCount (L.drop k) ≤ itemCount L :=
  List.Sublist.length_le ((List.drop_sublist k L).filter _)

theorem FromLine.of_drop {dp : Str} {k : Nat} {L : List Line} {note : Note}
    (h : FromLine dp (L.drop k) note) : FromLine dp L note := by
  obtain ⟨no, ts, nl, kind, prio, atoms, hm, hc⟩ := h
  exact ⟨no, ts, nl, kind, prio, atoms, List.mem_of_mem_drop hm, hc⟩

/-- the page: there are at most as many notes as item lines; every note has the line number, kind and
priority of an item line, and was built by `finishItem` from a sorted scope stack -/
theorem compileToks_notes {today : Date} {dp : Str} {toks : List Tok} {res : PageResult}
    (h : compileToks today dp toks = .ok res) :
    res.notes.length ≤ itemCount (numberedLines toks) ∧
    ∀ note ∈ res.notes, FromLine dp (numberedLines toks) note ∧
      ∃ file, BuiltSorted today dp (toks.length + 2) file note := by
  unfold compileToks at h
  simp only [bind, Except.bind, pure, Except.pure] at h
  repeat' split at h
  all_goals first
    | (cases h; done)
    | (cases h; simp; done)
    | skip
  rename_i _ st2 hb
  cases h
  obtain ⟨added, h1, h2, h3⟩ := bodyLines_notes (dp := dp) hb
  obtain ⟨_, _, h4⟩ := bodyLines_sorted hb sorted_nil
  simp only [List.nil_append] at h1
  simp only [Option.isSome_none, Bool.false_eq_true, ite_false, Nat.add_zero] at h2
  refine ⟨?_, ?_⟩
  · show st2.notes.length ≤ _
    rw [h1]
    exact Nat.le_trans h2 (itemCount_drop_le _ (numberedLines toks))
  · intro n hn
    have hn' : n ∈ st2.notes := hn
    refine ⟨?_, ?_⟩
    · rw [h1] at hn'
      rcases h3 n hn' with ⟨it, hit, _⟩ | h5
      · cases hit
      · exact FromLine.of_drop (L := numberedLines toks) h5
    · rcases h4 n hn' with h5 | h5
      · cases h5
      · exact ⟨_, h5⟩

/-! ### `strip` is idempotent (round trip of the note body through `" " ++ body.strip()`) -/

/-- the list does not start with whitespace -/
def NoLead (l : Str) : Prop := ∀ c ∈ l.head?, isWs c = false

theorem noLead_dropWhile (l : Str) : NoLead (l.dropWhile isWs) := by
  induction l with
  | nil => intro c hc; simp at hc
  | cons x xs ih =>
    by_cases hx : isWs x = true
    · simpa [hx] using ih
    · intro c hc
      simp only [List.dropWhile_cons, hx] at hc
      simp only [Bool.false_eq_true, ite_false, List.head?_cons, Option.mem_def, Option.some.injEq] at hc
      subst hc
      simpa using hx

theorem dropWhile_of_noLead {l : Str} (h : NoLead l) : l.dropWhile isWs = l := by
  cases l with
  | nil => rfl
  | cons x xs =>
    have hx : isWs x = false := h x (by simp)
    simp [hx]

/-- neither end is whitespace -/
def Stripped (t : Str) : Prop := NoLead t ∧ NoLead t.reverse

theorem strip_stripped (s : Str) : Stripped (strip s) := by
  unfold strip
  have hA : NoLead (s.dropWhile isWs) := noLead_dropWhile s
  generalize s.dropWhile isWs = A at hA
  have hB : NoLead (A.reverse.dropWhile isWs) := noLead_dropWhile _
  obtain ⟨W, hW⟩ : A.reverse.dropWhile isWs <:+ A.reverse := List.dropWhile_suffix _
  generalize A.reverse.dropWhile isWs = B at hB hW
  refine ⟨?_, by simpa using hB⟩
  have hA' : A = B.reverse ++ W.reverse := by
    have := congrArg List.reverse hW
    simpa using this.symm
  generalize B.reverse = R at hA'
  cases R with
  | nil => intro c hc; simp at hc
  | cons y ys =>
    intro c hc
    apply hA c
    rw [hA']
    exact hc

theorem strip_of_stripped {t : Str} (h : Stripped t) : strip t = t := by
  unfold strip
  rw [dropWhile_of_noLead h.1, dropWhile_of_noLead h.2, List.reverse_reverse]

theorem strip_strip (s : Str) : strip (strip s) = strip s :=
  strip_of_stripped (strip_stripped s)

/-- leading whitespace is invisible to `strip` -/
theorem strip_cons_ws (c : Char) (t : Str) (hc : isWs c = true) : strip (c :: t) = strip t := by
  unfold strip
  simp [hc]

theorem strip_space_strip (b : Str) : strip (' ' :: strip b) = strip b := by
  rw [strip_cons_ws ' ' _ (by decide), strip_strip]

/-! ### no listener crash is left in the repaired model -/

/-- `addEv` cannot fail -/
theorem addEv_ok (q : Bool) (sc : Scope) (tt tp td : Bool) (ev : Ev) :
    ∃ sc', addEv q sc tt tp td ev = .ok sc' := by
  cases ev with
  | date txt =>
    simp only [addEv]
    split
    · split <;> exact ⟨_, rfl⟩
    · exact ⟨_, rfl⟩
  | _ => exact ⟨_, rfl⟩

theorem foldlM_addEv_ok (q tt tp td : Bool) (evs : List Ev) :
    ∀ sc : Scope, ∃ sc', evs.foldlM (fun sc ev => addEv q sc tt tp td ev) sc = .ok sc' := by
  induction evs with
  | nil => intro sc; exact ⟨sc, rfl⟩
  | cons ev rest ih =>
    intro sc
    obtain ⟨sc1, h1⟩ := addEv_ok q sc tt tp td ev
    obtain ⟨sc2, h2⟩ := ih sc1
    exact ⟨sc2, by simp only [List.foldlM_cons, bind, Except.bind, h1, h2]⟩

theorem identity_go_ok (evs : List Ev) :
    ∀ (n w : Nat) (m : Option Date) (z : Option Str) (d : Option Date),
      ∃ r, identity.go n w m z d evs = .ok r := by
  induction evs with
  | nil => intro n w m z d; exact ⟨_, rfl⟩
  | cons ev rest ih =>
    intro n w m z d
    cases ev with
    | id txt =>
      simp only [identity.go]
      repeat' split
      all_goals first
        | exact ih _ _ _ _ _
        | (exfalso; simp_all [isShortDate, isZid])
    | date txt =>
      simp only [identity.go]
      repeat' split
      all_goals exact ih _ _ _ _ _
    | word => simp only [identity.go]; exact ih _ _ _ _ _
    | tag k name => simp only [identity.go]; exact ih _ _ _ _ _
    | link name => simp only [identity.go]; exact ih _ _ _ _ _
    | prop a b q => simp only [identity.go]; exact ih _ _ _ _ _

/-- `identity` cannot fail -/
theorem identity_ok (evs : List Ev) : ∃ r, identity evs = .ok r :=
  identity_go_ok evs 0 0 none none none

#print axioms identity_go_of_three_le
#print axioms identity_append_of_three_words
#print axioms identity_three_words_tight
#print axioms mergeProps_lookup
#print axioms mergeProps_keys
#print axioms addEv_tags
#print axioms addEv_links
#print axioms addEv_noTags
#print axioms addEv_noProps
#print axioms addEv_noDate
#print axioms foldlM_addEv_tags
#print axioms foldlM_addEv_links
#print axioms mem_closeTo
#print axioms closeTo_prefix
#print axioms sorted_open
#print axioms finishItem_cases
#print axioms run_iff_bodyLines
#print axioms run_invariant
#print axioms bodyLines_sorted
#print axioms bodyLines_notes
#print axioms bodyLines_notes_prefix
#print axioms bodyLines_notes_source
#print axioms bodyLines_comment_step
#print axioms openBlock_eq
#print axioms compileToks_notes
#print axioms addEv_ok
#print axioms identity_ok
#print axioms strip_strip
#print axioms strip_space_strip

end ZorgVerif.Zo
