import Lean.Data.Json
import ZorgVerif.Gen.Consts
import ZorgVerif.Model.Zid
import ZorgVerif.Model.Groups
import ZorgVerif.Model.Rename
import ZorgVerif.Model.Template
import ZorgVerif.Gen.FileLexer
import ZorgVerif.Gen.QueryLexer
import ZorgVerif.Model.Query
import ZorgVerif.Model.Sql
import ZorgVerif.Model.Exec
import ZorgVerif.Model.Saved
import ZorgVerif.Model.Zo
import ZorgVerif.Model.NoteText
import ZorgVerif.Model.Action
import ZorgVerif.Model.Crash
import ZorgVerif.Model.Move
/-! Line protocol: one JSON request per line on stdin, one JSON answer per line on stdout. -/
open Lean ZorgVerif

def strOf (j : Json) (k : String) : Except String String := j.getObjValAs? String k
def arrOf (j : Json) (k : String) : Except String (Array Json) := j.getObjValAs? (Array Json) k
def strsOf (j : Json) (k : String) : Except String (List String) := do
  let a ← arrOf j k
  a.toList.mapM (fun x => x.getStr?)

def jstr (s : List Char) : Json := Json.str (String.ofList s)

def handleZid (op : String) (j : Json) : Except String Json := do
  let excl := Gen.unsupportedZidChars
  match op with
  | "zid.next" =>
    let s ← strOf j "id"
    match Zid.nextId excl s.toList with
    | .ok r => pure (Json.mkObj [("ok", jstr r)])
    | .error _ => pure (Json.mkObj [("err", "outOfIds")])
  | "zid.chain" =>
    -- the complete successor chain from "id" until the error
    let s ← strOf j "id"
    let max := (← j.getObjValAs? Nat "max")
    let rec go (fuel : Nat) (cur : List Char) (acc : Array Json) : Array Json × Bool :=
      match fuel with
      | 0 => (acc, false)
      | fuel + 1 =>
        match Zid.nextId excl cur with
        | .ok r => go fuel r (acc.push (jstr r))
        | .error _ => (acc, true)
    let (acc, ended) := go max s.toList #[]
    pure (Json.mkObj [("chain", Json.arr acc), ("ended", ended)])
  | "zid.allocs" =>
    -- init: [[date, next], ...]; dates: [date, ...]; returns the per-request results and the final map
    let init ← arrOf j "init"
    let m0 : Zid.Ids ← init.toList.mapM (fun p => do
      let a ← p.getArr?
      let k ← (a[0]?.getD Json.null).getStr?
      let v ← (a[1]?.getD Json.null).getStr?
      pure (k.toList, v.toList))
    let ds ← strsOf j "dates"
    let (m, outs) := ds.foldl (fun (st : Zid.Ids × Array Json) d =>
      match Zid.alloc excl st.1 d.toList with
      | .ok (m', z) => (m', st.2.push (jstr (Zid.zidString z)))
      | .error _ => (st.1, st.2.push (Json.mkObj [("err", "outOfIds")]))) (m0, #[])
    let fin := m.map (fun (k, v) => Json.arr #[jstr k, jstr v])
    pure (Json.mkObj [("out", Json.arr outs), ("final", Json.arr fin.toArray)])
  | _ => throw s!"unknown op {op}"

def dateOf (j : Json) (k : String) : Except String Date := do
  let a ← arrOf j k
  let y ← (a[0]?.getD Json.null).getNat?
  let m ← (a[1]?.getD Json.null).getNat?
  let d ← (a[2]?.getD Json.null).getNat?
  pure ⟨y, m, d⟩

def handleGroups (op : String) (j : Json) : Except String Json := do
  match op with
  | "groups.expand" =>
    let mp ← arrOf j "map"
    let m : Groups.GroupMap ← mp.toList.mapM (fun p => do
      let a ← p.getArr?
      let k ← (a[0]?.getD Json.null).getStr?
      let vs ← (a[1]?.getD Json.null).getArr?
      let vs ← vs.toList.mapM (fun v => v.getStr?)
      pure (k.toList, vs.map String.toList))
    let args ← strsOf j "args"
    let today ← dateOf j "today"
    let fuel ← j.getObjValAs? Nat "fuel"
    match Groups.expand m (fun s => Groups.fmt today (s.length + 1) s) fuel (args.map String.toList) with
    | .ok r => pure (Json.mkObj [("ok", Json.arr (r.map jstr).toArray)])
    | .error (.keyError n) => pure (Json.mkObj [("err", "keyError"), ("name", jstr n)])
    | .error .fuel => pure (Json.mkObj [("err", "fuel")])
    | .error (.format _) => pure (Json.mkObj [("err", "format")])
  | _ => throw s!"unknown op {op}"

def handleRename (op : String) (j : Json) : Except String Json := do
  match op with
  | "rename.text" =>
    -- src/dst: names as given on the command line; txt: file content
    let src ← strOf j "src"
    let dst ← strOf j "dst"
    let txt ← strOf j "txt"
    let a := Rename.simplify src.toList
    let b := Rename.simplify dst.toList
    let needs := Rename.needsRewrite a txt.toList
    let out := if needs then Rename.renameText a b txt.toList else txt.toList
    pure (Json.mkObj [("out", jstr out), ("needs", needs), ("spec", jstr (Rename.spec a b 0 txt.toList)),
      ("a", jstr a), ("b", jstr b), ("srcFile", jstr (Rename.withExt src.toList)), ("dstFile", jstr (Rename.withExt dst.toList)),
      ("safe", Rename.linkSafe a && Rename.linkSafe b)])
  | _ => throw s!"unknown op {op}"

def varsOf (j : Json) : Except String Template.Vars := do
  let a ← j.getArr?
  a.toList.mapM (fun p => do
    let kv ← p.getArr?
    let k ← (kv[0]?.getD Json.null).getStr?
    let v ← (kv[1]?.getD Json.null).getStr?
    pure (k.toList, v.toList))

def handleTemplate (op : String) (j : Json) : Except String Json := do
  match op with
  | "template.init" =>
    let ex ← j.getObjValAs? Bool "exists"
    let ow ← j.getObjValAs? Bool "overwrite"
    let ps ← arrOf j "pats"
    let pats : List Template.PatResult ← ps.toList.mapM (fun p => do
      let t ← strOf p "tmpl"
      let g := (p.getObjVal? "groups").toOption.getD Json.null
      let groups ← if g.isNull then pure none else (do let v ← varsOf g; pure (some v))
      pure ⟨groups, t.toList⟩)
    let explicit := match j.getObjValAs? String "explicit" with
      | .ok s => some s.toList
      | .error _ => none
    let vars ← varsOf ((j.getObjVal? "vars").toOption.getD (Json.arr #[]))
    match Template.init ex ow pats explicit vars with
    | .noop => pure (Json.mkObj [("action", "noop")])
    | .write t vs =>
      pure (Json.mkObj [("action", "write"), ("tmpl", jstr t),
        ("vars", Json.arr (vs.map (fun (k, v) => Json.arr #[jstr k, jstr v, Json.bool (Template.looksLikeDate v)])).toArray)])
  | "template.build" =>
    let txt ← strOf j "txt"
    pure (Json.mkObj [("built", jstr (Template.build txt.toList))])
  | _ => throw s!"unknown op {op}"

def rulesOf (which : String) : Except String Lex.Rules :=
  match which with
  | "file" => pure Gen.FileLexer.rules
  | "query" => pure Gen.QueryLexer.rules
  | _ => throw s!"unknown lexer {which}"

def handleLex (op : String) (j : Json) : Except String Json := do
  match op with
  | "lex.tokens" =>
    let rules ← rulesOf (← strOf j "lexer")
    let txt ← strOf j "text"
    let toks := Lex.lex rules txt.toList
    pure (Json.arr (toks.map (fun t => Json.arr #[Json.str t.name, jstr t.text])).toArray)
  | _ => throw s!"unknown op {op}"

namespace QJ
open Query
def date (d : Date) : Json := Json.arr #[d.y, d.m, d.d]
def selField : SelectField → List Json
  | .file => ["file"] | .note => ["note"] | .prop => ["prop"] | .propValues k => ["propValues", jstr k]
  | .links => ["links"] | .area => ["area"] | .context => ["context"] | .person => ["person"] | .project => ["project"]
def select : Select → Json
  | .field f => Json.arr (("field" : Json) :: selField f).toArray
  | .count f => Json.arr (("count" : Json) :: selField f).toArray
def kind : NoteKind → Json
  | .basic => "BASIC" | .openTodo => "OPEN_TODO" | .closedTodo => "CLOSED_TODO" | .canceledTodo => "CANCELED_TODO"
  | .blockedTodo => "BLOCKED_TODO" | .parentTodo => "PARENT_TODO"
def tagKind : TagKind → Json
  | .area => "areas" | .context => "contexts" | .person => "people" | .project => "projects"
def op : PropOp → Json
  | .exists => "EXISTS" | .eq => "EQ" | .lt => "LT" | .le => "LE" | .gt => "GT" | .ge => "GE"
def vt : VType → Json
  | .date => "DATE" | .integer => "INTEGER" | .string => "STRING"
def order : OrderBy → Json
  | .alpha => "ALPHA" | .createDate => "CREATE_DATE" | .modifyDate => "MODIFY_DATE" | .none => "NONE"
  | .noteType => "NOTE_TYPE" | .priority => "PRIORITY"
def group : GroupBy → Json
  | .area => "AREA" | .context => "CONTEXT" | .file => "FILE" | .noteType => "NOTE_TYPE" | .person => "PERSON"
  | .priority => "PRIORITY" | .project => "PROJECT" | .section => "SECTION"
def range (r : DateRange) : List Json := [date r.start, match r.stop with | some d => date d | none => Json.null]
def atom : Atom → Json
  | .kinds ks => Json.arr #["kinds", Json.arr (ks.map kind).toArray]
  | .priorities ps => Json.arr #["priorities", Json.arr (ps.map (fun (n : Nat) => Json.num n)).toArray]
  | .tag k n name => Json.arr #["tag", tagKind k, n, jstr name]
  | .created r => Json.arr (("created" : Json) :: range r).toArray
  | .modified r => Json.arr (("modified" : Json) :: range r).toArray
  | .prop k v o t n => Json.arr #["prop", jstr k, jstr v, op o, vt t, n]
  | .desc v c n => Json.arr #["desc", jstr v, c, n]
  | .file g n => Json.arr #["file", jstr g, n]
  | .link t n => Json.arr #["link", jstr t, n]
mutual
partial def andF : AndF → Json
  | .mk atoms subs => Json.mkObj [("atoms", Json.arr (atoms.map atom).toArray), ("subs", Json.arr (subs.map orF).toArray)]
partial def orF (o : OrF) : Json := Json.arr (o.map andF).toArray
end
def query (q : Query) : Json :=
  Json.mkObj [("select", select q.select), ("where", match q.where_ with | some o => orF o | none => Json.null),
    ("order", Json.arr (q.orderBy.map order).toArray), ("group", Json.arr (q.groupBy.map group).toArray)]
def orderOfName : String → Option OrderBy
  | "ALPHA" => some .alpha | "CREATE_DATE" => some .createDate | "MODIFY_DATE" => some .modifyDate | "NONE" => some .none
  | "NOTE_TYPE" => some .noteType | "PRIORITY" => some .priority | _ => none
def groupOfName : String → Option GroupBy
  | "AREA" => some .area | "CONTEXT" => some .context | "FILE" => some .file | "NOTE_TYPE" => some .noteType
  | "PERSON" => some .person | "PRIORITY" => some .priority | "PROJECT" => some .project | "SECTION" => some .section | _ => none
def selectOfName : String → Option Select
  | "NOTE" => some (.field .note) | "FILE" => some (.field .file) | "AREA" => some (.field .area) | "CONTEXT" => some (.field .context)
  | "PERSON" => some (.field .person) | "PROJECT" => some (.field .project) | "PROPERTY" => some (.field .prop) | "LINKS" => some (.field .links)
  | _ => none
/-- the generated `Query()` defaults -/
def defaults : Except String Defaults := do
  let sel ← match selectOfName Gen.queryDefaultSelect with | some s => pure s | none => throw "unknown default select"
  let ob ← Gen.queryDefaultOrder.mapM (fun n => match orderOfName n with | some o => pure o | none => throw s!"unknown order {n}")
  let gb ← Gen.queryDefaultGroup.mapM (fun n => match groupOfName n with | some o => pure o | none => throw s!"unknown group {n}")
  pure ⟨sel, ob, gb⟩
end QJ

def handleQuery (op : String) (j : Json) : Except String Json := do
  match op with
  | "date.validShortAll" =>
    -- every six-digit string the model reads as a date (YYMMDD = 20YY-MM-DD), in increasing order
    let pad2 (n : Nat) : String := if n < 10 then s!"0{n}" else s!"{n}"
    let all := (List.range 100).flatMap (fun y => (List.range 100).flatMap (fun m => (List.range 100).map (fun d => pad2 y ++ pad2 m ++ pad2 d)))
    pure (Json.mkObj [("valid", Json.arr ((all.filter (fun s => (Date.parseShort s.toList).isSome)).map Json.str).toArray)])
  | "date.validLong" =>
    let xs ← strsOf j "dates"
    pure (Json.mkObj [("valid", Json.arr ((xs.map (fun s => Json.bool (Date.parseLong s.toList).isSome))).toArray)])
  | "query.parse" =>
    let txt ← strOf j "text"
    let today ← dateOf j "today"
    let dflt ← QJ.defaults
    let toks := Lex.lex Gen.QueryLexer.rules txt.toList
    if toks.any (fun t => t.name == "<err>") then
      pure (Json.mkObj [("err", "lexer")])
    else
      match Query.parseToks dflt today toks with
      | .ok q => pure (Json.mkObj [("ok", QJ.query q)])
      | .error (.syntax w) => pure (Json.mkObj [("err", "syntax"), ("what", w)])
      | .error (.valueError w) => pure (Json.mkObj [("err", "ValueError"), ("what", w)])
      | .error .fuel => pure (Json.mkObj [("err", "fuel")])
  | "query.normalise" =>
    let txt ← strOf j "text"
    pure (Json.mkObj [("out", jstr (Query.normalise txt.toList))])
  | _ => throw s!"unknown op {op}"

def kindOfName : String → Except String Query.NoteKind
  | "BASIC" => pure .basic | "OPEN_TODO" => pure .openTodo | "CLOSED_TODO" => pure .closedTodo
  | "CANCELED_TODO" => pure .canceledTodo | "BLOCKED_TODO" => pure .blockedTodo | "PARENT_TODO" => pure .parentTodo
  | s => throw s!"unknown kind {s}"

def strListOf (j : Json) (k : String) : Except String (List Str) := do
  let xs ← strsOf j k
  pure (xs.map String.toList)

def rowOf (j : Json) : Except String Filter.NoteRow := do
  let zid ← strOf j "zid"
  let path ← strOf j "path"
  let kind ← kindOfName (← strOf j "kind")
  let prio := match j.getObjValAs? Nat "priority" with | .ok n => some n | .error _ => none
  let body ← strOf j "body"
  let cdate ← dateOf j "cdate"
  let mdate ← dateOf j "mdate"
  let props ← varsOf (← j.getObjVal? "props")
  pure { zid := zid.toList, path := path.toList, kind := kind, priority := prio, body := body.toList, cdate := cdate, mdate := mdate,
         areas := ← strListOf j "areas", contexts := ← strListOf j "contexts", people := ← strListOf j "people",
         projects := ← strListOf j "projects", links := ← strListOf j "links", props := props }

def optBoolJson : Option Bool → Json
  | some b => Json.bool b
  | none => Json.null

def handleFilter (op : String) (j : Json) : Except String Json := do
  match op with
  | "filter.eval" =>
    let rows ← (← arrOf j "index").toList.mapM rowOf
    let today ← dateOf j "today"
    let dflt ← QJ.defaults
    let qs ← strsOf j "queries"
    let outs := qs.map (fun q =>
      let toks := Lex.lex Gen.QueryLexer.rules q.toList
      if toks.any (fun t => t.name == "<err>") then Json.mkObj [("err", "lexer")]
      else match Query.parseToks dflt today toks with
        | .error _ => Json.mkObj [("err", "parse")]
        | .ok qq =>
          match qq.where_ with
          | none => Json.mkObj [("rows", Json.arr (rows.map (fun r => Json.arr #[jstr r.zid, true, true])).toArray)]
          | some o => Json.mkObj [("rows", Json.arr (rows.map (fun r =>
              Json.arr #[jstr r.zid, optBoolJson (Filter.satOr rows today r o), optBoolJson (Sql.sqlOr rows today r o)])).toArray)])
    pure (Json.arr outs.toArray)
  | _ => throw s!"unknown op {op}"

def xnoteOf (j : Json) : Except String Exec.XNote := do
  pure { text := (← strOf j "text").toList, path := (← strOf j "path").toList, line := ← j.getObjValAs? Nat "line",
         typeLabel := (← strOf j "typeLabel").toList, priority := (← strOf j "priority").toList,
         cdate := (← strOf j "cdate").toList, mdate := (← strOf j "mdate").toList,
         areas := ← strListOf j "areas", contexts := ← strListOf j "contexts", people := ← strListOf j "people",
         projects := ← strListOf j "projects", links := ← strListOf j "links",
         props := ← varsOf (← j.getObjVal? "props"), sect := (← strOf j "section").toList }

partial def treeJson : Exec.Tree → Json
  | .leaf ns => Json.mkObj [("leaf", Json.arr (ns.map (fun n => jstr n.text)).toArray)]
  | .node cs => Json.mkObj [("node", Json.arr (cs.map (fun (k, t) => Json.arr #[jstr k, treeJson t])).toArray)]

def handleExec (op : String) (j : Json) : Except String Json := do
  match op with
  | "exec.run" =>
    let ns ← (← arrOf j "notes").toList.mapM xnoteOf
    let today ← dateOf j "today"
    let dflt ← QJ.defaults
    let q ← strOf j "query"
    let toks := Lex.lex Gen.QueryLexer.rules q.toList
    if toks.any (fun t => t.name == "<err>") then pure (Json.mkObj [("err", "lexer")])
    else match Query.parseToks dflt today toks with
      | .error _ => pure (Json.mkObj [("err", "parse")])
      | .ok qq =>
        if qq.groupBy.length > 4 then pure (Json.mkObj [("err", "too many groups")])
        else pure (Json.mkObj [("text", jstr (Exec.exec qq ns)), ("tree", treeJson (Exec.execTree qq ns))])
  | _ => throw s!"unknown op {op}"

def handleSaved (op : String) (j : Json) : Except String Json := do
  match op with
  | "saved.expand" =>
    let files ← varsOf (← j.getObjVal? "files")
    let q ← strOf j "query"
    let fuel ← j.getObjValAs? Nat "fuel"
    let σ : Str → Option Str := fun nm => files.lookup nm
    match Saved.expand σ fuel q.toList with
    | some r => pure (Json.mkObj [("ok", jstr r)])
    | none => pure (Json.mkObj [("none", true)])
  | _ => throw s!"unknown op {op}"

def zoNoteJson (n : Zo.Note) : Json :=
  Json.mkObj [("line", n.line), ("kind", QJ.kind n.kind), ("priority", match n.priority with | some p => jstr p | none => Json.null),
    ("body", jstr n.body), ("zid", match n.zid with | some z => jstr z | none => Json.null),
    ("cdate", QJ.date n.cdate), ("mdate", QJ.date n.mdate),
    ("areas", Json.arr (n.areas.map jstr).toArray), ("contexts", Json.arr (n.contexts.map jstr).toArray),
    ("people", Json.arr (n.people.map jstr).toArray), ("projects", Json.arr (n.projects.map jstr).toArray),
    ("links", Json.arr (n.links.map jstr).toArray),
    ("props", Json.arr (n.props.map (fun (k, v) => Json.arr #[jstr k, jstr v])).toArray),
    ("section", Json.arr (n.sectionPath.map jstr).toArray), ("block", n.block)]

def handleZo (op : String) (j : Json) : Except String Json := do
  match op with
  | "zo.compile" =>
    let txt ← strOf j "text"
    let today ← dateOf j "today"
    let toks := Lex.lex Gen.FileLexer.rules txt.toList
    let toks := toks.filter (fun t => t.name != "<err>")    -- lexer errors are dropped silently (no listener on the lexer)
    if Zo.hasUrlColonWord toks then pure (Json.mkObj [("err", "syntax"), ("what", "url next to '::' in one word: outside the modelled fragment")]) else
    match Zo.compileToks today Gen.fileDefaultPriority.toList toks with
    | .ok r => pure (Json.mkObj [("ok", Json.arr (r.notes.map zoNoteJson).toArray)])
    | .error (.syntax w) => pure (Json.mkObj [("err", "syntax"), ("what", w)])
    | .error (.crash w) => pure (Json.mkObj [("err", "crash"), ("what", w)])
    | .error .fuel => pure (Json.mkObj [("err", "fuel")])
  | _ => throw s!"unknown op {op}"

def ntResult : Except NoteText.Err Str → Json
  | .ok s => Json.mkObj [("ok", jstr s)]
  | .error (.indexError w) => Json.mkObj [("err", "IndexError"), ("what", w)]

def handleNt (op : String) (j : Json) : Except String Json := do
  match op with
  | "nt.addZid" => pure (ntResult (NoteText.addZidToLine (← strOf j "zid").toList (← strOf j "line").toList))
  | "nt.stamp" => pure (ntResult (NoteText.addOrUpdateModifyDate (← strOf j "date").toList (← strOf j "line").toList))
  | "nt.addZidBody" => pure (Json.mkObj [("ok", jstr (NoteText.addZidToBody (← strOf j "zid").toList (← strOf j "body").toList))])
  | "nt.addNote" =>
    let ls ← strListOf j "lines"
    let ns ← strListOf j "note"
    pure (Json.mkObj [("ok", Json.arr ((NoteText.addNote ls ns).map jstr).toArray)])
  | "nt.deleteNote" =>
    let ls ← strListOf j "lines"
    let z ← strOf j "zid"
    let n ← j.getObjValAs? Nat "n"
    match NoteText.deleteNote ls z.toList n with
    | some r => pure (Json.mkObj [("ok", Json.arr (r.map jstr).toArray)])
    | none => pure (Json.mkObj [("none", true)])
  | _ => throw s!"unknown op {op}"

def pairsOf (j : Json) (k : String) : Except String (List (Str × List Str)) := do
  let a ← arrOf j k
  a.toList.mapM (fun p => do
    let kv ← p.getArr?
    let key ← (kv[0]?.getD Json.null).getStr?
    let vs ← (kv[1]?.getD Json.null).getArr?
    let vs ← vs.toList.mapM (fun v => v.getStr?)
    pure (key.toList, vs.map String.toList))

def handleAction (op : String) (j : Json) : Except String Json := do
  match op with
  | "action.open" =>
    let zdir ← strOf j "zdir"
    let isZoq ← j.getObjValAs? Bool "isZoq"
    let line ← strOf j "line"
    let lineNo ← j.getObjValAs? Nat "lineNo"
    let option : Option Int := match j.getObjValAs? Int "option" with | .ok k => some k | .error _ => none
    let zids ← pairsOf j "zids"
    let ids ← pairsOf j "ids"
    let rids ← pairsOf j "rids"
    let lk : Action.Lookup := {
      zidPage := fun z => (zids.lookup z).bind (·.head?),
      idPages := fun v => (ids.lookup v).getD [],
      ridPages := fun v => (rids.lookup v).getD [] }
    let validDate (s : Str) : Bool := (Date.parseShort s).isSome
    let ts := Action.targets validDate isZoq line.toList
    let r := Action.respond zdir.toList lk ts lineNo option
    pure (Json.mkObj [("lines", Json.arr (r.lines.map jstr).toArray), ("rc", r.rc),
      ("targets", Json.arr (ts.map (fun t => jstr t.text)).toArray)])
  | _ => throw s!"unknown op {op}"

/-- `crash.effs`: the effect list of `db reindex` / `db create` for a store given as association lists
(texts and pages are opaque strings); `proc` = [[text, [post, page]]] is the processing result per text,
`mid` = [[path, [text]]] the intermediate text of a twice-rewritten page. -/
def handleCrash (op : String) (j : Json) : Except String Json := do
  let single (k : String) : Except String (List (Str × Str)) := do
    let ps ← pairsOf j k
    pure (ps.map (fun kv => (kv.1, kv.2.headD [])))
  let files ← single "files"
  let hashes ← single "hashes"
  let db ← single "db"
  let proc ← pairsOf j "proc"
  let mid ← single "mid"
  let sem : Index.Sem Str := ⟨fun _ t => match proc.lookup t with
    | some [post, pg] => (post, pg)
    | _ => (t, t)⟩
  let env : Crash.Env Str := { junk := fun _ => [], mid := fun p _ => mid.lookup p }
  let s : Index.Store Str := { files := files, db := db, hashes := hashes }
  let render (st : Index.Store Str) (e : Crash.Eff Str) : Json :=
    let kv (m : List (Str × Str)) : Json := Json.arr (m.map (fun x => Json.arr #[jstr x.1, jstr x.2])).toArray
    match e with
    | .dbDamage p _ => Json.arr #["dbDamage", jstr p]
    | .dbDrop p => Json.arr #["dbDrop", jstr p]
    | .dbPut p pg => Json.arr #["dbPut", jstr p, jstr pg]
    | .dbReset => Json.arr #["dbReset"]
    | .dbPutAll ps => Json.arr #["dbPutAll", kv ps]
    | .hashAll _ | .hashPut _ _ => Json.arr #["hash", kv (Crash.Eff.apply st e).hashes]
    | .file p t => Json.arr #["file", jstr p, jstr t]
  let effs ← match op with
    | "crash.reindex" => pure (Crash.reindexEffs sem env s)
    | "crash.create" => pure (Crash.createEffs sem s)
    | _ => throw s!"unknown op {op}"
  -- render every effect against the store it is applied to (hash effects are shown as the resulting map)
  let (_, out) := effs.foldl (fun (acc : Index.Store Str × List Json) e => (Crash.Eff.apply acc.1 e, acc.2 ++ [render acc.1 e])) (s, [])
  let fin := Crash.applyAll s effs
  let kv (m : List (Str × Str)) : Json := Json.arr (m.map (fun x => Json.arr #[jstr x.1, jstr x.2])).toArray
  pure (Json.mkObj [("effects", Json.arr out.toArray), ("files", kv fin.files), ("hashes", kv fin.hashes), ("db", kv fin.db)])

/-- `index.run`: a history of edits and reindex runs on the abstract store of `Model/Index.lean`; `proc` maps a text to
the text after write-back (texts and pages are opaque strings, a page is identified with the text it was built from) -/
def handleIndex (op : String) (j : Json) : Except String Json := do
  match op with
  | "index.run" =>
    let single (k : String) : Except String (List (Str × Str)) := do
      let ps ← pairsOf j k
      pure (ps.map (fun kv => (kv.1, kv.2.headD [])))
    let files ← single "files"
    let hashes ← single "hashes"
    let db ← single "db"
    let proc ← single "proc"
    let opsJ ← arrOf j "ops"
    let ops ← opsJ.toList.mapM (fun o => do
      let a ← o.getArr?
      let tag ← (a[0]?.getD Json.null).getStr?
      match tag with
      | "write" => do
        let p ← (a[1]?.getD Json.null).getStr?
        let t ← (a[2]?.getD Json.null).getStr?
        pure (Index.Op.write p.toList t.toList)
      | "remove" => do
        let p ← (a[1]?.getD Json.null).getStr?
        pure (Index.Op.remove p.toList)
      | "reindex" => pure Index.Op.reindex
      | "reindexOnly" => do
        let ps ← (a[1]?.getD Json.null).getArr?
        let ps ← ps.toList.mapM (fun x => x.getStr?)
        pure (Index.Op.reindexOnly (ps.map String.toList))
      | _ => throw s!"unknown index op {tag}")
    let sem : Index.Sem Str := ⟨fun _ t => match proc.lookup t with | some post => (post, post) | none => (t, t)⟩
    let fin := Index.run sem { files := files, db := db, hashes := hashes } ops
    -- maps are read with `get` (first binding wins): one entry per key
    let norm (m : List (Str × Str)) : Json :=
      let keys := (m.map (·.1)).eraseDups
      Json.arr (keys.filterMap (fun k => (Index.get m k).map (fun v => Json.arr #[jstr k, jstr v]))).toArray
    pure (Json.mkObj [("files", norm fin.files), ("hashes", norm fin.hashes), ("db", norm fin.db)])
  | _ => throw s!"unknown op {op}"

/-- `move.text`: the text `note move` hands to `add_note` -/
def handleMove (op : String) (j : Json) : Except String Json := do
  match op with
  | "move.text" =>
    let kind ← strOf j "kind"
    let priority : Option Str := match strOf j "priority" with | .ok p => some p.toList | .error _ => none
    let marker : Option Char := match strOf j "marker" with | .ok m => m.toList.head? | .error _ => none
    let body ← strOf j "body"
    let zid ← strOf j "zid"
    let props ← pairsOf j "props"
    let m : Move.Meta := {
      projects := (← strsOf j "projects").map String.toList, areas := (← strsOf j "areas").map String.toList,
      contexts := (← strsOf j "contexts").map String.toList, people := (← strsOf j "people").map String.toList,
      props := props.map (fun kv => (kv.1, kv.2.headD [])) }
    pure (Json.mkObj [("ok", jstr (Move.movedText (kind.toList.headD '-') priority marker body.toList zid.toList m))])
  | _ => throw s!"unknown op {op}"

def handle (line : String) : Json :=
  match Json.parse line with
  | .error e => Json.mkObj [("driver_error", s!"parse: {e}")]
  | .ok j =>
    match strOf j "op" with
    | .error e => Json.mkObj [("driver_error", e)]
    | .ok op =>
      let r :=
        if op.startsWith "zid." then handleZid op j
        else if op.startsWith "groups." then handleGroups op j
        else if op.startsWith "rename." then handleRename op j
        else if op.startsWith "template." then handleTemplate op j
        else if op.startsWith "lex." then handleLex op j
        else if op.startsWith "query." || op.startsWith "date." then handleQuery op j
        else if op.startsWith "filter." then handleFilter op j
        else if op.startsWith "exec." then handleExec op j
        else if op.startsWith "saved." then handleSaved op j
        else if op.startsWith "zo." then handleZo op j
        else if op.startsWith "nt." then handleNt op j
        else if op.startsWith "action." then handleAction op j
        else if op.startsWith "crash." then handleCrash op j
        else if op.startsWith "move." then handleMove op j
        else if op.startsWith "index." then handleIndex op j
        else .error s!"unknown op {op}"
      match r with
      | .ok v => v
      | .error e => Json.mkObj [("driver_error", e)]

partial def loop (h : IO.FS.Stream) (out : IO.FS.Stream) : IO Unit := do
  let line ← h.getLine
  if line.isEmpty then return ()
  out.putStrLn (handle line).compress
  out.flush
  loop h out

def main : IO Unit := do loop (← IO.getStdin) (← IO.getStdout)
